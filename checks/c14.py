"""C14 - at most one active package revision, numbered last; history GC spares it.
Model: spec/PkgManager.tla; driver: harness/drivers/pkgmanager; monitor: spec/MonPkgManager.tla."""
import glob
import json
import os

import vlib

PID = "C14"
MON_FORMULAS = ["OneActive", "NameFunction", "GcSafe.VictimIsCurrent", "GcSafe.NotOldest", "GcSafe.Limit",
                "GcSafe.TooFew", "ActivateLast", "AfterReconcile"]


def scenarios_from(ctx, mc, prefix, n):
    return [{"id": "%s-%s-%07d" % (PID, prefix, i), "hist": h} for i, h in ctx.sample_lines(mc["emitted_file"], n, mc["emitted"])]


def regression():
    out = []
    for p in sorted(glob.glob(os.path.join(vlib.VERIF, "scenarios", PID, "*.json"))):
        with open(p) as f:
            out.append(json.load(f))
    return out


def has_fault(sc):
    return any(e.get("f") in ("fail", "crashAfter") for e in sc["hist"])


def drive_and_judge(ctx, scs, sweep=0, variants="rotate"):
    by_id = {s["id"]: s for s in scs}
    sp = ctx.write_scenarios(scs)
    binp = ctx.go_build("./drivers/pkgmanager")
    trace = os.path.join(ctx.work, "trace.ndjson")
    summ = os.path.join(ctx.work, "summary.json")
    ctx.run([binp, "-scenarios", sp, "-trace", trace, "-summary", summ, "-sweep", str(sweep), "-variants", variants, "-chunk", "150000"])
    with open(summ) as f:
        s = json.load(f)
    viols, nlines = ctx.monitor("MonPkgManager", trace)
    for formula, line, scid in viols:
        parts = scid.split("/")
        base = dict(by_id.get(parts[0], {"id": parts[0]}))
        base["id"] = scid
        for p in parts[1:]:
            if p.startswith("sweep-"):
                _, r, k, o = p.split("-")
                base["sweep"] = {"rec": int(r[1:]), "idx": int(k[1:]), "outcome": o}
                base["extra"] = 2
            else:
                base["variant"] = p
        ctx.violation(formula, scid, ctx.replay_file(base), "trace line %d" % line, fingerprint=formula)
    return s, nlines


def run(ctx):
    quick = ctx.quick
    # (foreignact: a revision labelled for the package, Active, controlled by another owner - e.g. left behind by an
    # earlier incarnation of the package: nothing may be activated next to it)
    # (quick_mid: the environment - user edits, registry changes, a revision deleted by hand - also acts in the middle of a reconcile)
    cfgs = [("MCPkgManager_quick.cfg", 2200), ("MCPkgManager_foreignact.cfg", 400), ("MCPkgManager_foreign2.cfg", 300), ("MCPkgManager_quick_mid.cfg", 600),
            # revisions keep a finalizer: a deleted one stays listed (terminating) while further reconciles run (added after the seeded
            # change C14-m8 - a terminating revision is no candidate any more but still counts - was only caught by the thorough tier)
            ("MCPkgManager_quick_fin.cfg", 900), ("MCPkgManager_quick_legacy.cfg", 700)] if quick else \
           [("MCPkgManager_thorough.cfg", 30000), ("MCPkgManager_mid.cfg", 26000), ("MCPkgManager_foreignact.cfg", 4000), ("MCPkgManager_foreign2.cfg", 4000), ("MCPkgManager_quick_legacy.cfg", 20000)]
    scs, states, trans, emitted = [], 0, 0, 0
    consts = {}
    for i, (cfg, n) in enumerate(cfgs):
        mc = ctx.model_check("MCPkgManager", cfg, sub="mc%d" % i, workers=8 if quick else 16, timeout=300 if quick else 3000)
        scs += scenarios_from(ctx, mc, "m%d" % i, n)
        states += mc["states"]
        trans += mc["transitions"]
        emitted += mc["emitted"]
        consts[cfg] = dict(states=mc["states"], transitions=mc["transitions"], depth=mc["depth"], scenarios=mc["emitted"])
    chosen = regression() + scs
    s, nlines = drive_and_judge(ctx, chosen, sweep=12 if quick else 150, variants="rotate" if quick else "all")
    ctx.cov.update(dict(
        states=states, transitions=trans, traces_validated_against_impl=s["runs"],
        samples=s["samples"][:2], model_runs=consts, scenarios_emitted=emitted, scenarios_replayed=s["scenarios"],
        reconciles=s["reconciles"], sweep_runs=s["sweep_runs"], events=nlines, per_action_counts=s["counts"],
        drift=dict(unmatched_calls=s["drift"], runs_with_drift=s["drift_runs"]),
        monitor_formulas=MON_FORMULAS, exhaustive=(emitted == len(scs)),
        checker_cmd="tlc MCPkgManager (M,G) -> harness/drivers/pkgmanager on /repo (T) -> tlc MonPkgManager",
        rule="one scenario per model transition that ends a reconcile (shortest history reaching it); "
             "a model 'fail' is realised as error / conflict / crash-before; sweep = every real call index x 4 outcomes + 2 fault-free reconciles",
    ))
    ctx.assumptions += ["simapi models the API server rules listed in spec/KubeAPI.tla",
                        "revision finalisation and registry answers are environment steps chosen by TLC",
                        "verdict only from traces of the real manager.Reconciler judged by MonPkgManager.tla"]


def replay(ctx, path):
    with open(path) as f:
        sc = json.load(f)
    s, nlines = drive_and_judge(ctx, [sc])
    ctx.cov.update(dict(states=1, transitions=1, traces_validated_against_impl=s["runs"], samples=[sc], events=nlines))
