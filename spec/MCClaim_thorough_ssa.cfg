SPECIFICATION Spec
CONSTANTS
  Syncer = "SSA"
  RvCheck = TRUE
  GenNames <- Gen4
  Starts <- StartsAll
  Fgs <- FgBoth
  FailKinds <- KindsBoth
  Conn = TRUE
  MaxVers = 11
  MaxEnv = 3
  MaxFaults = 2
  MaxRecs = 4
  MaxStale = 2
  MaxCollide = 1
  Rebinds = TRUE
  MidEnv = FALSE
VIEW view
ACTION_CONSTRAINT Emit
CONSTRAINT Bounded
CHECK_DEADLOCK FALSE
INVARIANTS OneXR TypeOK
PROPERTIES RefFirst NoHijack
