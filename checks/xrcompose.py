"""Shared driver of the XRCompose module (spec/XRCompose.tla, MonXRCompose.tla,
harness/drivers/xrcompose): C01, C03 and the composed-resource placements of C02."""
import glob
import json
import os

import vlib

QUICK = [("pipe_quick", 900), ("pt_quick", 700), ("pipe_ref_quick", 200), ("pipe_name_quick", 200), ("pt_ref_quick", 168)]
# (the thorough cfgs explore deeper interleavings without the decorations "ver" / "forge" - as state they would multiply 11M
# states by four; the decorations are covered by every scenario of the quick cfgs, which have them)
THOROUGH = [("pipe_thorough", 12000), ("pt_thorough", 10000), ("pipe_ref_thorough", 3000), ("pipe_name_thorough", 3000), ("pt_ref_thorough", 1750),
            ("pipe_quick", 8000), ("pt_quick", 6000)]

FORMULAS = {
    "C01": ["NoLeak", "AtMostOne", "NameStable", "Quiescent", "Tie", "RefKept", "Refs.Stable", "Refs.Complete"],
    "C04": ["Observed.Complete"],
    "C03": ["FailSafe.Writes", "FailSafe.NothingBefore", "FailSafe.Refs", "NeverDeleteDesired", "NeverDeleteDesired.Made", "GcExact.Missed", "GcExact.Extra"],
    "C02": ["ForeignUntouched"],
}


def regression(pid):
    out = []
    for p in sorted(glob.glob(os.path.join(vlib.VERIF, "scenarios", pid, "*.json"))):
        with open(p) as f:
            out.append(json.load(f))
    return out


def expand_id(by_id, scid, default_extra=3):
    parts = scid.split("/")
    base = dict(by_id.get(parts[0], {"id": parts[0]}))
    base["id"] = scid
    for p in parts[1:]:
        if p.startswith("sweep-"):
            _, r, k, o = p.split("-")
            base["sweep"] = {"rec": int(r[1:]), "idx": int(k[1:]), "outcome": o}
        elif p.startswith("again-"):
            # what the code does depends on a Go map order: the replay repeats the run (see againN in the driver)
            base["again"] = 12
            base["id"] = "/".join(x for x in parts if not x.startswith("again-"))
        else:
            base["variant"] = p
    base.setdefault("variant", "crashBefore")
    return base


def drive_and_judge(ctx, pid, scs, sweep=0, variants="rotate", shards=6):
    by_id = {s["id"]: s for s in scs}
    binp = ctx.go_build("./drivers/xrcompose")
    prefix, s = ctx.run_sharded(binp, scs, ["-sweep", str(sweep), "-variants", variants, "-chunk", "120000"], shards=shards)
    viols, nlines = ctx.monitor("MonXRCompose", prefix)
    mine = set(FORMULAS[pid])
    other = {}
    for formula, line, scid in viols:
        if formula in mine:
            ctx.violation(formula, scid, ctx.replay_file(expand_id(by_id, scid)), "trace line %d" % line, fingerprint=formula)
        else:
            other[formula] = other.get(formula, 0) + 1
    if other:
        vlib.log("  note: formulas of other properties violated in these traces (reported by their own checks): %s" % other)
    return s, nlines


def run(ctx, pid):
    plan = QUICK if ctx.quick else THOROUGH
    scs, states, trans, emitted, consts = [], 0, 0, 0, {}
    for name, n in plan:
        cfg = "MCXRCompose_%s.cfg" % name
        mc = ctx.model_check("MCXRCompose", cfg, sub="mc_" + name, workers=8 if ctx.quick else 16, timeout=300 if ctx.quick else 3000)
        scs += [{"id": "%s-%s-%07d" % (pid, name, i), "hist": h} for i, h in ctx.sample_lines_stratified(mc["emitted_file"], n, mc["emitted"])]
        states += mc["states"]
        trans += mc["transitions"]
        emitted += mc["emitted"]
        consts[cfg] = dict(states=mc["states"], transitions=mc["transitions"], depth=mc["depth"], scenarios=mc["emitted"])
    chosen = regression(pid) + scs
    if pid == "C01":
        # input vectors for UpdateResourceRefs (spec/MCRefOrder.tla): every set of 2 or 3 resources over 2 groups x 2 kinds x 2 names
        mc = ctx.model_check("MCRefOrder", "MCRefOrder.cfg", sub="mc_reforder", workers=1, timeout=120)
        with open(mc["emitted_file"]) as f:
            chosen += [{"id": "%s-refs-%04d" % (pid, i), "hist": json.loads(line)} for i, line in enumerate(f, 1)]
        consts["MCRefOrder.cfg"] = dict(states=mc["states"], vectors=mc["emitted"])
    s, nlines = drive_and_judge(ctx, pid, chosen, sweep=2 if ctx.quick else 12, variants="rotate" if ctx.quick else "all",
                                shards=6 if ctx.quick else 14)
    if pid == "C03":
        from checks import fnrunner_rider
        ctx.cov["fnrunner_rider"] = fnrunner_rider.run(ctx, pid)
    ctx.cov.update(dict(
        states=states, transitions=trans, traces_validated_against_impl=s["runs"], samples=s["samples"][:2],
        model_runs=consts, scenarios_emitted=emitted, scenarios_replayed=s["scenarios"], reconciles=s["reconciles"],
        sweep_runs=s["sweep_runs"], events=nlines, per_action_counts=s["counts"],
        drift=dict(unmatched_calls=s["drift"], runs_with_drift=s["drift_runs"], by_verb=s.get("drift_by_abs", {})),
        monitor_formulas=FORMULAS[pid], exhaustive=(emitted == len(scs)),
        checker_cmd="tlc MCXRCompose (M,G) -> harness/drivers/xrcompose on /repo (T) -> tlc MonXRCompose",
        rule="one scenario per model transition that ends a reconcile (shortest history reaching it), both composers, "
             "foreign-controller placements; every scenario is followed by 3 fault-free reconciles; "
             "sweep = every real call index (incl. the reconciler prologue) x {error, conflict, crash before, crash after}",
    ))
    ctx.assumptions += ["simapi models the API server rules the composers rely on (SSA with real structured-merge-diff, "
                        "one controller reference, optimistic concurrency, no-op writes keep the resourceVersion)",
                        "generated names are fresh (collisions of the random name generator are assumed away)",
                        "a composed resource with a deletionTimestamp is no longer 'live' (DESIGN 3 C01)",
                        "verdict only from traces of the real composite.Reconciler judged by MonXRCompose.tla"]


def replay(ctx, pid, path):
    with open(path) as f:
        sc = json.load(f)
    if sc.get("rider") == "fnrunner":
        from checks import fnrunner_rider
        return fnrunner_rider.replay(ctx, pid, path)
    s, nlines = drive_and_judge(ctx, pid, [sc], shards=1)
    ctx.cov.update(dict(states=1, transitions=1, traces_validated_against_impl=s["runs"], samples=[sc], events=nlines))
