SPECIFICATION Spec
CONSTANTS
  RTypes <- AllTypes
  Streams <- StreamsFaultT
  ConsIgn <- ConsPlain
  Verifs <- VerifOff
  Cache0 <- CacheAll
  MaxRecs = 4
  MaxFaults = 3
  MaxSig = 0
  MaxEnv = 1
  SrcFaults = TRUE
  StoreFaults <- AllStoreFaults
  DelFaults = TRUE
  ApiCrash = TRUE
  FixTee = TRUE
VIEW view
ACTION_CONSTRAINT Emit
CHECK_DEADLOCK FALSE
