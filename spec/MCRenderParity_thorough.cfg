SPECIFICATION Spec
CONSTANTS
  Progs12 <- RAllProgs
  Progs3 <- ThoroughProgs3
  MaxSteps = 3
  Worlds12 <- AllWorlds
  Worlds3 <- ThoroughWorlds3
ACTION_CONSTRAINT Emit
CHECK_DEADLOCK FALSE
INVARIANTS RefRender RefParity RefBounds RefAgreesWithPipeline
