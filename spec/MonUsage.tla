------------------------------ MODULE MonUsage ------------------------------
(***************************************************************************)
(* Trace monitor for Usage: evaluates the C19 formulas on every recorded   *)
(* state / step of executions of the real Usage reconciler, the real       *)
(* selector resolver and the real DELETE webhook (reached the way the API  *)
(* server reaches it: rules and objectSelector of usage.yaml, then the     *)
(* registered handler).  Every event carries the whole projected state:    *)
(*   post.used : per used resource (and "x1", a resource of the same kind  *)
(*               and name in another group that carries a stale marker and *)
(*               that no Usage ever names): ex, label (= matches the       *)
(*               objectSelector), ann (deletion-attempt annotation), rv,   *)
(*               keys (IndexValueForObject per served version), probes     *)
(*               (the admission decision a DELETE in version v with policy *)
(*               p would get in this state, and the annotation afterwards);*)
(*   post.us   : per Usage: ex, ready, del, fin, owners, of, by (resolved  *)
(*               names), idx (what the registered index function returns), *)
(*               comp (carries the crossplane.io/composite label);         *)
(*   post.bex / post.bdel : the using resource exists / is being deleted.  *)
(* "delreq" events are delete requests that were really issued (and took   *)
(* effect).  The D11 situation - the marker removed by the deletion        *)
(* reconcile of one Usage acting on a List that a later Usage of the same  *)
(* resource is missing from - is recognised here, from the recorded        *)
(* history, and reported under its own names: X.StaleUnlabel.              *)
(***************************************************************************)
EXTENDS Integers, Sequences, FiniteSets, TLC, Json, IOUtils

Trace == ndJsonDeserialize(IOEnv.VERIF_TRACE)
VARIABLE l
Range(s) == {s[i] : i \in DOMAIN s}
None == "none"

Used(e) == Range(e.post.used)
Us(e) == Range(e.post.us)
Want(p) == IF p = None THEN "Background" ELSE p
Live(s) == s.ex /\ s.ready /\ ~s.del /\ s.of # None       \* reports ready, deletion not requested
Names(s, id) == s.ex /\ s.of = id
First(i) == i - Trace[i].n + 1                             \* first line of the scenario line i belongs to

----------------------------------------------------------------------------
\* the D11 pattern: line j is an applied update of used resource id without the marker, issued by the deletion branch of a
\* reconcile whose List of the Usages of id (line k) was accurate when taken and returned fewer than two, although Usage sid
\* - not in that List - names id (and is not being deleted) when the update is applied
StaleStepWrt(j, id, sid) ==
  LET e == Trace[j] IN
  /\ e.ev = "call" /\ e.abs = "update:unlabel" /\ e.applied /\ e.branch = "delete" /\ e.actor # sid /\ j > First(j)
  /\ \E s \in Us(Trace[j - 1]) : s.id = sid /\ Names(s, id) /\ ~s.del
  /\ \E k \in First(j)..(j - 1) :
       LET c == Trace[k] IN
       /\ c.ev = "call" /\ c.actor = e.actor /\ c.rec = e.rec /\ c.abs = "list:usages" /\ c.outcome = "ok"
       /\ Len(c.listed) < 2 /\ sid \notin Range(c.listed)
       /\ Range(c.listed) = {s.id : s \in {x \in Us(c) : Names(x, id)}}
Unlabelled(m, id) == \A u \in Used(Trace[m]) : u.id = id => (u.ex /\ ~u.label)
\* the marker is missing at line i because of such a step
StaleFor(i, id, sid) == \E j \in (First(i) + 1)..i : StaleStepWrt(j, id, sid) /\ \A m \in j..i : Unlabelled(m, id)

----------------------------------------------------------------------------
\* Protected: a Usage that reports ready and is not being deleted => every delete request for the resource it names, in any
\* served version with any propagation policy, is denied ...
Unprotected(e) == {<<s.id, u.id>> : s \in {x \in Us(e) : Live(x)},
                                    u \in {y \in Used(e) : y.ex /\ \E q \in Range(y.probes) : q.o # "deny"}} \cap
                  {<<s.id, s.of>> : s \in Us(e)}
\* ... and the attempt is recorded on that resource
Recorded(e) == \A s \in Us(e), u \in Used(e) : (Live(s) /\ u.id = s.of /\ u.ex) =>
                 \A q \in Range(u.probes) : q.o = "deny" => q.ann = Want(q.p)
\* Allowed: no Usage names the resource => the delete is allowed
Allowed(e) == \A u \in Used(e) : (u.ex /\ ~\E s \in Us(e) : Names(s, u.id)) => \A q \in Range(u.probes) : q.o = "allow"
\* Owned: a ready Usage by a resource is owned by that resource
Owned(e) == \A s \in Us(e) : (s.ex /\ s.ready /\ s.by # None) => s.by \in Range(s.owners)
\* IndexAgree: the index value of a Usage is the value the webhook computes for the used object in every served version
IndexAgree(e) == \A s \in Us(e) : s.ex =>
                   /\ (s.of = None => s.idx = <<>>)
                   /\ \A u \in Used(e) : \A k \in Range(u.keys) :
                        /\ (s.of = u.id => s.idx = <<k.key>>)
                        /\ (s.of # u.id => k.key \notin Range(s.idx))

\* ---- steps (p = previous event of the same scenario)
\* LabelFirst: the marker is on the used resource before the Usage reports ready
BecameReady(p, e) == {s \in Us(e) : s.ex /\ s.ready /\ ~\E t \in Us(p) : t.id = s.id /\ t.ex /\ t.ready}
ReadyUnmarked(p, e) == {<<s.id, u.id>> : s \in BecameReady(p, e), u \in {y \in Used(p) : y.ex /\ ~y.label}} \cap {<<s.id, s.of>> : s \in Us(e)}
\* LabelLast: the marker is removed only when the last Usage of the resource is deleted: the removal belongs to the deletion
\* of a Usage of that resource and no other Usage that reports ready (and is not being deleted) still names it
Removed(p, e) == {u.id : u \in {y \in Used(p) : y.ex /\ y.label /\ \E z \in Used(e) : z.id = y.id /\ z.ex /\ ~z.label}}
RemovalOK(p, id) == /\ \E s \in Us(p) : Names(s, id) /\ s.del
                    /\ ~\E s \in Us(p) : Live(s) /\ s.of = id
\* UsageAfterUser (rider of C08): a Usage that is itself composed (carries the crossplane.io/composite label) and is by a
\* resource loses its finalizer only after that using resource is gone (absent in the state the removal is applied to)
LostFinalizer(p, e) == {s \in Us(p) : s.ex /\ s.fin /\ s.comp /\ s.by # None /\ ~\E t \in Us(e) : t.id = s.id /\ t.ex /\ t.fin}
UsageAfterUser(p, e) == LostFinalizer(p, e) # {} => ~p.post.bex
\* delete requests that were really issued
ReqLive(p, e) == {s.id : s \in {x \in Us(p) : Live(x) /\ x.of = e.req.u}}
ReqDenied(e) == e.req.o = "deny"
ReqRecorded(e) == \A u \in Used(e) : u.id = e.req.u => u.ann = Want(e.req.p)
ReqAllowed(p, e) == ((\E u \in Used(p) : u.id = e.req.u /\ u.ex) /\ ~\E s \in Us(p) : Names(s, e.req.u)) => e.req.o = "allow"

Viol(name, i) == PrintT("VIOL|" \o name \o "|" \o ToString(i) \o "|" \o Trace[i].scenario)
Check(i) ==
  LET e == Trace[i] IN
  /\ (Unprotected(e) = {} \/
        IF \A pr \in Unprotected(e) : StaleFor(i, pr[2], pr[1]) THEN Viol("Protected.StaleUnlabel", i) ELSE Viol("Protected", i))
  /\ (Recorded(e) \/ Viol("Protected.NotRecorded", i))
  /\ (Allowed(e) \/ Viol("Allowed", i))
  /\ (Owned(e) \/ Viol("Owned", i))
  /\ (IndexAgree(e) \/ Viol("IndexAgree", i))
  /\ (e.ev = "reset" \/ i = 1 \/
        LET p == Trace[i - 1] IN
        /\ (ReadyUnmarked(p, e) = {} \/
              IF \A pr \in ReadyUnmarked(p, e) : StaleFor(i - 1, pr[2], pr[1]) THEN Viol("LabelFirst.StaleUnlabel", i) ELSE Viol("LabelFirst", i))
        /\ ((\A id \in Removed(p, e) : RemovalOK(p, id)) \/
              IF \A id \in {x \in Removed(p, e) : ~RemovalOK(p, x)} : \E s \in Us(p) : StaleStepWrt(i, id, s.id)
              THEN Viol("LabelLast.StaleUnlabel", i) ELSE Viol("LabelLast", i))
        /\ (UsageAfterUser(p, e) \/ Viol("UsageAfterUser", i))
        /\ (e.ev # "delreq" \/
              /\ ((ReqLive(p, e) = {} \/ ReqDenied(e)) \/
                    IF \A sid \in ReqLive(p, e) : StaleFor(i - 1, e.req.u, sid) THEN Viol("Protected.StaleUnlabel", i) ELSE Viol("Protected", i))
              /\ ((ReqLive(p, e) = {} \/ ~ReqDenied(e) \/ ReqRecorded(e)) \/ Viol("Protected.NotRecorded", i))
              /\ (ReqAllowed(p, e) \/ Viol("Allowed", i))))

Init == l = 0
Next == /\ l < Len(Trace) /\ l' = l + 1 /\ Check(l')
        /\ (l' < Len(Trace) \/ PrintT("DONE|" \o ToString(l')))
Spec == Init /\ [][Next]_l
=============================================================================
