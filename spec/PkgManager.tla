---------------------------- MODULE PkgManager ----------------------------
(***************************************************************************)
(* The package manager reconciler (internal/controller/pkg/manager/        *)
(* reconciler.go Reconcile + revisioner.go Revision) as implemented at the *)
(* pinned commit: one action per API call, the reconciler's local copies   *)
(* (the package it read, the revision list it read) are explicit           *)
(* variables, and the environment (user edits, registry, finalisation of   *)
(* deleted revisions, faults and crashes at every call) is unconstrained.  *)
(*                                                                         *)
(* Revision names are FriendlyID(package, digest): a revision is           *)
(* identified here by its digest.  Properties: C14 (and the C02 placement  *)
(* "revision with the derived name is controlled by a foreign owner").     *)
(***************************************************************************)
EXTENDS Integers, Sequences, FiniteSets, TLC

CONSTANTS
  DSeq,        \* digests in the order in which a List returns their revisions
  Tags,        \* image tags a package source may name
  Limits,      \* revisionHistoryLimit values; -1 stands for nil
  MaxEdits,    \* bound on environment edits
  MaxFaults,   \* bound on injected faults
  MaxRecs,     \* bound on reconciles
  WithFin,     \* TRUE: revisions carry the revision controller's finalizer
  InitReg,     \* initial registry content: tag -> digest
  Foreign,     \* digests whose revision pre-exists controlled by a foreign owner
  ForeignAct,  \* ... and whether that revision is Active (the revision of an earlier incarnation of the package, still Active)
  Legacy,      \* TRUE: the environment may also strip status.currentIdentifier (a status written by an older release)
  MidEnv,      \* TRUE: the environment may also act in the middle of a reconcile
  FixGC        \* FALSE = the code as written; TRUE = candidate repair (victim among non-current)

D == {DSeq[i] : i \in 1..Len(DSeq)}
None == "none"

VARIABLES
  pkg,      \* the Package object: [src, limit, manual, pull, curRev, curId]
  reg,      \* registry: tag -> digest
  revs,     \* digest -> revision object
  pc,       \* program counter of the one reconcile in flight
  ppkg,     \* the reconciler's copy of the package (read by GetPkg)
  dirty,    \* the package changed since GetPkg (its resourceVersion moved)
  snap,     \* the revision list the reconciler read
  cur,      \* digest of the current revision computed by Revision()
  todo,     \* remaining indexes of the deactivation loop
  prnum,    \* revision number chosen for the current revision
  pract,    \* desired state chosen for the current revision
  edits, faults, recs,
  gcLog,    \* ghost: <<victim, current, |revisions|, limit, isOldestNonCurrent>> of every GC delete
  quiet,    \* ghost: the environment did nothing since the reconcile in flight (or last finished) started
  done,     \* ghost: the last reconcile completed without fault in a quiet environment
  hist      \* ghost: the behaviour so far, as scenario steps (hidden by VIEW)

vars == <<pkg, reg, revs, pc, ppkg, dirty, snap, cur, todo, prnum, pract, edits, faults, recs, gcLog, quiet, done, hist>>
view == <<pkg, reg, revs, pc, ppkg, dirty, snap, cur, todo, prnum, pract, edits, faults, recs, gcLog, quiet, done>>

NoRev == [ex |-> FALSE, num |-> 0, act |-> FALSE, del |-> FALSE, fin |-> FALSE, ctrl |-> None]
ExSet(r) == {d \in D : r[d].ex}
Max(S) == IF S = {} THEN 0 ELSE CHOOSE m \in S : \A x \in S : x <= m
Min(S) == CHOOSE m \in S : \A x \in S : m <= x
Idx(d) == CHOOSE i \in 1..Len(DSeq) : DSeq[i] = d
\* the revisions a List returns, in list order
Listed(r) == SelectSeq(DSeq, LAMBDA d : r[d].ex)

H(t, k, o, f) == [t |-> t, k |-> k, o |-> o, f |-> f]
Log(e) == hist' = Append(hist, e)

Init ==
  /\ pkg \in [src : Tags, limit : Limits, manual : {FALSE}, pull : {"Always"}, curRev : {None}, curId : {None}]
  /\ reg = InitReg
  /\ revs = [d \in D |-> IF d \in Foreign
                          THEN [ex |-> TRUE, num |-> 1, act |-> ForeignAct, del |-> FALSE, fin |-> FALSE, ctrl |-> "foreign"]
                          ELSE NoRev]
  /\ pc = "idle" /\ ppkg = pkg /\ dirty = FALSE /\ snap = revs /\ cur = None
  /\ todo = <<>> /\ prnum = 0 /\ pract = FALSE
  /\ edits = 0 /\ faults = 0 /\ recs = 0 /\ gcLog = {} /\ done = FALSE
  /\ quiet = FALSE
  /\ hist = << [t |-> "init", pkg |-> pkg, reg |-> reg, foreign |-> Foreign, foreignAct |-> ForeignAct, withFin |-> WithFin, dseq |-> DSeq] >>

----------------------------------------------------------------------------
(* Environment.  May act at any time, also in the middle of a reconcile.   *)

EnvUnch == quiet' = FALSE /\ UNCHANGED <<pc, ppkg, snap, cur, todo, prnum, pract, faults, recs, gcLog>>

EditSrc == /\ edits < MaxEdits
           /\ \E t \in Tags : t # pkg.src /\ pkg' = [pkg EXCEPT !.src = t] /\ Log(H("env", "src", t, ""))
           /\ edits' = edits + 1 /\ dirty' = TRUE /\ done' = FALSE
           /\ UNCHANGED <<reg, revs>> /\ EnvUnch
EditLimit == /\ edits < MaxEdits
             /\ \E l \in Limits : l # pkg.limit /\ pkg' = [pkg EXCEPT !.limit = l] /\ Log(H("env", "limit", ToString(l), ""))
             /\ edits' = edits + 1 /\ dirty' = TRUE /\ done' = FALSE
             /\ UNCHANGED <<reg, revs>> /\ EnvUnch
EditManual == /\ edits < MaxEdits
              /\ pkg' = [pkg EXCEPT !.manual = ~@] /\ Log(H("env", "manual", IF pkg.manual THEN "false" ELSE "true", ""))
              /\ edits' = edits + 1 /\ dirty' = TRUE /\ done' = FALSE
              /\ UNCHANGED <<reg, revs>> /\ EnvUnch
EditPull == /\ edits < MaxEdits
            /\ \E p \in {"Always", "IfNotPresent"} : p # pkg.pull /\ pkg' = [pkg EXCEPT !.pull = p] /\ Log(H("env", "pull", p, ""))
            /\ edits' = edits + 1 /\ dirty' = TRUE /\ done' = FALSE
            /\ UNCHANGED <<reg, revs>> /\ EnvUnch
RegChange == /\ edits < MaxEdits
             /\ \E t \in Tags, d \in D : reg[t] # d /\ reg' = [reg EXCEPT ![t] = d] /\ Log(H("env", "reg", t, d))
             /\ edits' = edits + 1 /\ done' = FALSE
             /\ UNCHANGED <<pkg, revs, dirty>> /\ EnvUnch
\* the Package's status is what an older release left: it names the current revision but not the identifier (source) that
\* revision was resolved from. Without the identifier the IfNotPresent shortcut cannot know that the source is unchanged
\* (added after the seeded change C14-m10 - "no identifier recorded: assume it equals the source" - was missed)
ForgetId == /\ Legacy /\ edits < MaxEdits /\ pkg.curRev # None /\ pkg.curId # None
            /\ pkg' = [pkg EXCEPT !.curId = None] /\ Log(H("env", "forgetid", "", ""))
            /\ edits' = edits + 1 /\ done' = FALSE
            /\ UNCHANGED <<reg, revs, dirty>> /\ EnvUnch
\* the revision controller finalises a deleted revision
Finalize == /\ \E d \in D : /\ revs[d].ex /\ revs[d].del
                            /\ revs' = [revs EXCEPT ![d] = NoRev] /\ Log(H("env", "finalize", d, ""))
            /\ done' = FALSE
            /\ UNCHANGED <<pkg, reg, dirty, edits>> /\ EnvUnch

Env == (MidEnv \/ pc = "idle") /\ (EditSrc \/ EditLimit \/ EditManual \/ EditPull \/ RegChange \/ ForgetId \/ Finalize)

----------------------------------------------------------------------------
(* The reconcile.  f = "ok" | "fail" (error / conflict / crash before: no  *)
(* effect, the reconcile ends) | "crashAfter" (effect, the reconcile ends) *)

CanFault == faults < MaxFaults
End == /\ pc' = "idle" /\ todo' = <<>> /\ recs' = recs + 1
Fail(k, o) == /\ CanFault /\ faults' = faults + 1 /\ Log(H("call", k, o, "fail")) /\ End
Ok(k, o) == Log(H("call", k, o, "ok")) /\ UNCHANGED faults
Crash(k, o) == /\ CanFault /\ faults' = faults + 1 /\ Log(H("call", k, o, "crashAfter")) /\ End

GetPkg == /\ pc = "idle" /\ recs < MaxRecs
          /\ \/ /\ Ok("get", "pkg") /\ pc' = "list" /\ ppkg' = pkg /\ dirty' = FALSE /\ done' = FALSE /\ quiet' = TRUE
                /\ UNCHANGED <<todo, recs>>
             \/ /\ Fail("get", "pkg") /\ UNCHANGED <<ppkg, dirty, done, quiet>>
          /\ UNCHANGED <<pkg, reg, revs, snap, cur, prnum, pract, edits, gcLog>>

List == /\ pc = "list"
        /\ \/ /\ Ok("list", "rev") /\ snap' = revs /\ pc' = "listcfg" /\ UNCHANGED <<todo, recs>>
           \/ /\ Fail("list", "rev") /\ UNCHANGED snap
        /\ UNCHANGED <<pkg, reg, revs, ppkg, dirty, cur, prnum, pract, edits, gcLog, done, quiet>>

\* the image config store lists ImageConfigs to find a pull secret for the source
ListCfg == /\ pc = "listcfg"
           /\ \/ /\ Ok("list", "imageconfig") /\ pc' = "head" /\ UNCHANGED <<todo, recs>>
              \/ Fail("list", "imageconfig")
           /\ UNCHANGED <<pkg, reg, revs, ppkg, dirty, snap, cur, prnum, pract, edits, gcLog, done, quiet>>

\* Revision(): PullIfNotPresent re-uses the recorded revision when the source did not change;
\* otherwise a HEAD request resolves the tag (and may fail: then only the package status is written).
Todo0(c) == SelectSeq(Listed(snap), LAMBDA d : d # c /\ snap[d].act)
HeadReq == /\ pc = "head"
        /\ \/ /\ ppkg.pull = "IfNotPresent" /\ ppkg.curId = ppkg.src /\ ppkg.curRev # None
              /\ cur' = ppkg.curRev /\ todo' = Todo0(ppkg.curRev) /\ pc' = "deact"
              /\ UNCHANGED <<hist, faults, recs>>
           \/ /\ ~(ppkg.pull = "IfNotPresent" /\ ppkg.curId = ppkg.src /\ ppkg.curRev # None)
              /\ \/ /\ Ok("head", ppkg.src) /\ cur' = reg[ppkg.src] /\ todo' = Todo0(reg[ppkg.src]) /\ pc' = "deact"
                    /\ UNCHANGED recs
                 \/ /\ Fail("head", ppkg.src) /\ UNCHANGED cur
        /\ UNCHANGED <<pkg, reg, revs, ppkg, dirty, snap, prnum, pract, edits, gcLog, done, quiet>>

\* client.Apply(rev, MustBeControllableBy(pkg)) = Get, then a merge patch carrying the listed resourceVersion.
\* A revision that vanished since List makes Apply fall into Create with a resourceVersion set, which the
\* API server refuses; a revision controlled by someone else is refused by MustBeControllableBy.
DeactGet == /\ pc = "deact" /\ todo # <<>>
            /\ LET d == Head(todo) IN
               \/ /\ Ok("get", d)
                  /\ (IF revs[d].ex /\ revs[d].ctrl # "foreign"
                      THEN pc' = "deactpatch" /\ UNCHANGED <<todo, recs>>
                      ELSE End)      \* NotFound -> Create refused; foreign -> not controllable: reconcile ends with an error
               \/ Fail("get", d)
            /\ UNCHANGED <<pkg, reg, revs, ppkg, dirty, snap, cur, prnum, pract, edits, gcLog, done, quiet>>

Deactivated(d) == [revs EXCEPT ![d] = [@ EXCEPT !.act = FALSE]]
DeactPatch == /\ pc = "deactpatch"
              /\ LET d == Head(todo) IN
                 \/ /\ Ok("patch", d)
                    /\ (IF revs[d].ex
                        THEN revs' = Deactivated(d) /\ todo' = Tail(todo) /\ pc' = "deact" /\ UNCHANGED recs
                        ELSE UNCHANGED revs /\ End)
                 \/ /\ Fail("patch", d) /\ UNCHANGED revs
                 \/ /\ Crash("patch", d) /\ revs' = (IF revs[d].ex THEN Deactivated(d) ELSE revs)
              /\ UNCHANGED <<pkg, reg, ppkg, dirty, snap, cur, prnum, pract, edits, gcLog, done, quiet>>

Nums == {snap[d].num : d \in ExSet(snap)}
NewNum == IF snap[cur].ex /\ ~(snap[cur].num < Max(Nums) \/ Max(Nums) = 0) THEN snap[cur].num ELSE Max(Nums) + 1
\* the GC victim: lowest-numbered listed revision (first in list order among equals)
\* (a revision that another owner controls is not ours to delete)
Cands == IF FixGC THEN {d \in ExSet(snap) \ {cur} : snap[d].ctrl # "foreign"} ELSE ExSet(snap)
Lowest(S) == LET m == Min({snap[d].num : d \in S}) IN
             DSeq[Min({Idx(d) : d \in {x \in S : snap[x].num = m}})]
GcWanted == ppkg.limit # -1 /\ ppkg.limit # 0 /\ Cardinality(ExSet(snap)) > ppkg.limit + 1 /\ Cands # {}
NonCur == ExSet(snap) \ {cur}
DeactDone == /\ pc = "deact" /\ todo = <<>>
             /\ prnum' = NewNum
             /\ pract' = (IF snap[cur].ex /\ snap[cur].act THEN TRUE ELSE ~ppkg.manual)
             /\ pc' = (IF GcWanted THEN "gc" ELSE "applyget")
             /\ UNCHANGED <<pkg, reg, revs, ppkg, dirty, snap, cur, todo, edits, faults, recs, gcLog, quiet, done, hist>>

Deleted(d) == [revs EXCEPT ![d] = IF ~@.ex THEN @ ELSE IF @.fin THEN [@ EXCEPT !.del = TRUE] ELSE NoRev]
GcEntry(v) == <<v, cur, Cardinality(ExSet(snap)), ppkg.limit,
                v # cur /\ NonCur # {} /\ v = Lowest(NonCur)>>
Gc == /\ pc = "gc"
      /\ LET v == Lowest(Cands) IN
         \/ /\ Ok("delete", v)
            /\ (IF revs[v].ex
                THEN revs' = Deleted(v) /\ gcLog' = gcLog \cup {GcEntry(v)} /\ pc' = "applyget" /\ UNCHANGED <<todo, recs>>
                ELSE UNCHANGED <<revs, gcLog>> /\ End)     \* NotFound is an error here
         \/ /\ Fail("delete", v) /\ UNCHANGED <<revs, gcLog>>
         \/ /\ Crash("delete", v) /\ revs' = Deleted(v)
            /\ gcLog' = (IF revs[v].ex THEN gcLog \cup {GcEntry(v)} ELSE gcLog)
      /\ UNCHANGED <<pkg, reg, ppkg, dirty, snap, cur, prnum, pract, edits, done, quiet>>

ApplyGet == /\ pc = "applyget"
            /\ \/ /\ Ok("get", cur)
                  /\ (IF revs[cur].ex /\ revs[cur].ctrl = "foreign" THEN End
                      ELSE IF revs[cur].ex THEN pc' = "applypatch" /\ UNCHANGED <<todo, recs>>
                      ELSE IF snap[cur].ex THEN End        \* listed but gone: Create with a resourceVersion is refused
                      ELSE pc' = "applycreate" /\ UNCHANGED <<todo, recs>>)
               \/ Fail("get", cur)
            /\ UNCHANGED <<pkg, reg, revs, ppkg, dirty, snap, cur, prnum, pract, edits, gcLog, done, quiet>>

Patched == [revs EXCEPT ![cur] = [@ EXCEPT !.num = prnum, !.act = pract, !.ctrl = "pkg"]]
ApplyPatch == /\ pc = "applypatch"
              /\ \/ /\ Ok("patch", cur)
                    /\ (IF revs[cur].ex THEN revs' = Patched /\ pc' = "status" /\ UNCHANGED <<todo, recs>>
                        ELSE UNCHANGED revs /\ End)
                 \/ /\ Fail("patch", cur) /\ UNCHANGED revs
                 \/ /\ Crash("patch", cur) /\ revs' = (IF revs[cur].ex THEN Patched ELSE revs)
              /\ UNCHANGED <<pkg, reg, ppkg, dirty, snap, cur, prnum, pract, edits, gcLog, done, quiet>>

Created == [revs EXCEPT ![cur] = [ex |-> TRUE, num |-> prnum, act |-> pract, del |-> FALSE, fin |-> WithFin, ctrl |-> "pkg"]]
ApplyCreate == /\ pc = "applycreate"
               /\ \/ /\ Ok("create", cur)
                     /\ (IF ~revs[cur].ex THEN revs' = Created /\ pc' = "status" /\ UNCHANGED <<todo, recs>>
                         ELSE UNCHANGED revs /\ End)       \* AlreadyExists
                  \/ /\ Fail("create", cur) /\ UNCHANGED revs
                  \/ /\ Crash("create", cur) /\ revs' = (IF ~revs[cur].ex THEN Created ELSE revs)
               /\ UNCHANGED <<pkg, reg, ppkg, dirty, snap, cur, prnum, pract, edits, gcLog, done, quiet>>

\* Status().Update(pkg) is resourceVersion-checked: it fails if the package was edited since GetPkg.
Recorded == [pkg EXCEPT !.curRev = cur, !.curId = ppkg.src]
Status == /\ pc = "status"
          /\ \/ /\ Ok("update-status", "pkg")
                /\ (IF dirty THEN UNCHANGED <<pkg, done>> ELSE pkg' = Recorded /\ done' = quiet)
                /\ End
             \/ /\ Fail("update-status", "pkg") /\ UNCHANGED <<pkg, done>>
             \/ /\ Crash("update-status", "pkg") /\ (IF dirty THEN UNCHANGED pkg ELSE pkg' = Recorded) /\ UNCHANGED done
          /\ UNCHANGED <<reg, revs, ppkg, dirty, snap, cur, prnum, pract, edits, gcLog, quiet>>

Rec == GetPkg \/ List \/ ListCfg \/ HeadReq \/ DeactGet \/ DeactPatch \/ DeactDone \/ Gc \/ ApplyGet \/ ApplyPatch \/ ApplyCreate \/ Status

Next == Env \/ Rec
Spec == Init /\ [][Next]_vars

----------------------------------------------------------------------------
(* C14 *)
Active(r) == {d \in D : r[d].ex /\ r[d].act}
OneActive == Cardinality(Active(revs)) <= 1
\* every GC delete hit the oldest non-current revision, with more than limit+1 revisions, limit not 0
GcSafe == \A g \in gcLog : g[1] # g[2] /\ g[5] /\ g[3] > g[4] + 1 /\ g[4] # 0 /\ g[4] # -1
\* a reconcile that completed in a quiescent environment leaves the current revision last and active
Current == IF pkg.pull = "IfNotPresent" /\ pkg.curId = pkg.src /\ pkg.curRev # None THEN pkg.curRev ELSE reg[pkg.src]
AfterReconcile == (done /\ pc = "idle") =>
                    LET c == Current IN
                    /\ revs[c].ex
                    /\ revs[c].num = Max({revs[d].num : d \in ExSet(revs)})
                    /\ (~pkg.manual => revs[c].act)
\* OneActive holds because every write of act=TRUE is preceded by deactivation of all others
ActivateLast == [][\A d \in D : (revs'[d].ex /\ revs'[d].act /\ ~(revs[d].ex /\ revs[d].act))
                       => \A e \in D \ {d} : ~(revs[e].ex /\ revs[e].act)]_vars
\* C02: a revision controlled by a foreign owner is never written or deleted
ForeignFrozen == [][\A d \in D : (revs[d].ex /\ revs[d].ctrl = "foreign") => revs'[d] = revs[d]]_vars
=============================================================================
