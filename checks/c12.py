"""C12 - composition revisions form a faithful, monotonic history.
Model: spec/CompRev.tla; driver: harness/drivers/comprev; monitor: spec/MonCompRev.tla."""
import glob
import json
import os

import vlib

PID = "C12"

# The one switch. False: /repo computes latestRev over the revisions the Composition controls at List
# time, before it re-adopts the others (the code as written at the pinned commit; DESIGN.md section 4, D6).
# True: /repo computes it over all listed revisions (the candidate repair in DESIGN.md appendix B).
# It selects the design the model describes (constant FixLatest of spec/CompRev.tla, read by
# MCCompRev.tla from the environment): with False the generated expectations follow the code as written
# and Monotone / CurrentHighest are model-checked only in the two small MCCompRev_asis_*.cfg runs, where
# they are expected to fail; with True they are invariants of every model run.  The verdict on the
# real code never depends on it: the monitor always evaluates every formula.
FIX_LATEST = True

MON_FORMULAS = ["OnePerContent.Duplicate", "OnePerContent.Name", "OnePerContent.Lost", "Faithful.Spec", "Faithful.Edited",
                "Monotone", "Monotone.ListedUnowned", "CurrentHighest.Missing", "CurrentHighest",
                "CurrentHighest.ListedUnowned", "CurrentHighest.AfterStrip", "CurrentHighest.Controlled", "Manual", "Automatic"]


def scenarios_from(ctx, mc, prefix, n):
    return [{"id": "%s-%s-%07d" % (PID, prefix, i), "hist": h} for i, h in ctx.sample_lines(mc["emitted_file"], n, mc["emitted"])]


def regression():
    out = []
    for p in sorted(glob.glob(os.path.join(vlib.VERIF, "scenarios", PID, "*.json"))):
        with open(p) as f:
            out.append(json.load(f))
    return out


def hits(ctx, trace):
    """How often each formula's antecedent was true in the recorded executions (anti-vacuity)."""
    files = [trace] if os.path.exists(trace) else sorted(
        os.path.join(os.path.dirname(trace), f) for f in os.listdir(os.path.dirname(trace)) if f.startswith(os.path.basename(trace) + "."))
    h = dict(end_quiet_faultfree=0, end_quiet_faultfree_listed_unowned=0, end_quiet_faultfree_after_strip=0, fetch_manual_pinned=0,
             fetch_manual_unpinned=0, fetch_automatic=0, fetch_automatic_selector=0, fetch_error=0, adopt_applied=0,
             renumber_applied=0, create_applied=0, strip=0, edit=0, states_with_3_or_more_revisions=0, injected=0)
    for fp in files:
        with open(fp) as f:
            for line in f:
                e = json.loads(line)
                ev = e["ev"]
                if ev == "end" and e["quiet"] and not e["faulty"]:
                    h["end_quiet_faultfree"] += 1
                    if e["seen"]["unowned"]:
                        h["end_quiet_faultfree_listed_unowned"] += 1
                    elif e["stripped"]:
                        h["end_quiet_faultfree_after_strip"] += 1
                elif ev == "fetch":
                    fe = e["fetch"]
                    if fe["pol"] == "Manual":
                        h["fetch_manual_pinned" if fe["pinned"] != "none" else "fetch_manual_unpinned"] += 1
                    else:
                        h["fetch_automatic"] += 1
                        if fe["sel"] != "none":
                            h["fetch_automatic_selector"] += 1
                    if fe["err"]:
                        h["fetch_error"] += 1
                elif ev == "call":
                    if e["injected"]:
                        h["injected"] += 1
                    if e["applied"]:
                        k = e["abs"].split(":")[0]
                        if k + "_applied" in h:
                            h[k + "_applied"] += 1
                elif ev == "env":
                    h[e["verb"]] += 1
                if len(e["post"]["revs"]) >= 3:
                    h["states_with_3_or_more_revisions"] += 1
    return h


def drive_and_judge(ctx, scs, sweep=0, variants="rotate", shards=1):
    by_id = {s["id"]: s for s in scs}
    binp = ctx.go_build("./drivers/comprev")
    shards = max(1, min(shards, len(scs)))
    # -sweep is per shard: the first n scenarios of every shard are swept
    trace, s = ctx.run_sharded(binp, scs, ["-sweep", str((sweep + shards - 1) // shards), "-variants", variants,
                                           "-chunk", "150000", "-seed", str(ctx.seed)], shards=shards)
    viols, nlines = ctx.monitor("MonCompRev", trace)
    for formula, line, scid in viols:
        if scid in by_id and ("variant" in by_id[scid] or "sweep" in by_id[scid] or "extra" in by_id[scid]):
            # the scenario was a replay file already: it is its own replay file
            ctx.violation(formula, scid, ctx.replay_file(by_id[scid]), "trace line %d" % line, fingerprint=formula)
            continue
        parts = scid.split("/")
        base = dict(by_id.get(parts[0], {"id": parts[0]}))
        base["id"] = scid
        for p in parts[1:]:
            if p.startswith("sweep-"):
                _, r, k, o = p.split("-")
                base["sweep"] = {"rec": int(r[1:]), "idx": int(k[1:]), "outcome": o}
                base["extra"] = 2
            else:
                base["variant"] = p
        ctx.violation(formula, scid, ctx.replay_file(base), "trace line %d" % line, fingerprint=formula)
    s["hits"] = hits(ctx, trace)
    return s, nlines


def run(ctx):
    quick = ctx.quick
    env = {"VERIF_C12_FIXLATEST": "TRUE" if FIX_LATEST else "FALSE"}
    consts = {}
    states = trans = emitted = 0

    # (M) the design with latestRev computed over all listed revisions satisfies every C12 property,
    # also with two faults per history and environment steps in the middle of a reconcile
    mc = ctx.model_check("MCCompRev", "MCCompRev_fixed.cfg", workers=8, timeout=600)
    consts["MCCompRev_fixed.cfg"] = dict(states=mc["states"], transitions=mc["transitions"], depth=mc["depth"], FixLatest=True, violated=[])
    states += mc["states"]
    trans += mc["transitions"]
    if not FIX_LATEST:
        # (M) the design as coded at the pinned commit violates Monotone and CurrentHighest (D6): TLC stops
        # at the first violation, so each is checked in its own small run
        for cfg, want in (("MCCompRev_asis_monotone.cfg", "Monotone"), ("MCCompRev_asis_current.cfg", "CurrentHighest")):
            mc = ctx.model_check("MCCompRev", cfg, expect_violations=[want], workers=1, timeout=300)
            consts[cfg] = dict(states=mc["states"], transitions=mc["transitions"], FixLatest=False, violated=mc["violated"])

    # (M)+(G) scenario generation from the model of the code as it is (FIX_LATEST)
    cfgs = ["MCCompRev_quick.cfg"] if quick else ["MCCompRev_thorough.cfg", "MCCompRev_mid.cfg"]
    budget = 3000 if quick else 80000
    scs = []
    for i, cfg in enumerate(cfgs):
        mc = ctx.model_check("MCCompRev", cfg, workers=8 if quick else 16, timeout=300 if quick else 3000, env=env)
        scs += scenarios_from(ctx, mc, "m%d" % i, budget // len(cfgs))
        states += mc["states"]
        trans += mc["transitions"]
        emitted += mc["emitted"]
        consts[cfg] = dict(states=mc["states"], transitions=mc["transitions"], depth=mc["depth"], scenarios=mc["emitted"], FixLatest=FIX_LATEST)
    chosen = regression() + scs
    s, nlines = drive_and_judge(ctx, chosen, sweep=12 if quick else 160, variants="all",
                                shards=4 if quick else 8)
    ctx.cov.update(dict(
        states=states, transitions=trans, traces_validated_against_impl=s["runs"],
        samples=s["samples"][:2], model_runs=consts, scenarios_emitted=emitted, scenarios_replayed=s["scenarios"],
        reconciles=s["reconciles"], xr_fetches=s["fetches"], sweep_runs=s["sweep_runs"], events=nlines, per_action_counts=s["counts"],
        drift=dict(unmatched_calls=s["drift"], runs_with_drift=s["drift_runs"], by_key=s["drift_by_abs"]),
        formula_antecedent_hits=s["hits"], fix_latest=FIX_LATEST,
        monitor_formulas=MON_FORMULAS, exhaustive=(emitted == len(scs)),
        checker_cmd="tlc MCCompRev (M,G) -> harness/drivers/comprev on /repo (T) -> tlc MonCompRev",
        rule="one scenario per model transition that ends a reconcile of the revision controller or is an XR Fetch (shortest history reaching it); "
             "a model 'fail' is realised as error / conflict / crash-before; sweep = every real call index x 4 outcomes + 2 fault-free reconciles + 2 fetches",
    ))
    ctx.assumptions += ["simapi models the API server rules listed in spec/KubeAPI.tla (List returns revisions sorted by name)",
                        "a content is what Composition.Hash() covers: labels, annotations and spec",
                        "nothing but the revision controller writes CompositionRevisions, except the backup/restore step that strips all owner references",
                        "verdict only from traces of the real composition.Reconciler and composite.APIRevisionFetcher judged by MonCompRev.tla"]


def replay(ctx, path):
    with open(path) as f:
        sc = json.load(f)
    s, nlines = drive_and_judge(ctx, [sc])
    ctx.cov.update(dict(states=1, transitions=1, traces_validated_against_impl=s["runs"], samples=[sc], events=nlines,
                        formula_antecedent_hits=s["hits"]))
