package main

// The sigstore trust root below signature.NewCosignValidator.
//
// The production constructor of the cosign validator (called by the three signature Setup functions) loads the
// Fulcio roots through sigstore's TUF client, i.e. from the network, and the CT log / Rekor keys through cosign,
// which accepts local files named by SIGSTORE_CT_LOG_PUBLIC_KEY_FILE / SIGSTORE_REKOR_PUBLIC_KEY. There is no
// network in the sandbox, and TUF metadata cannot be forged, so the once-only loader of
// github.com/sigstore/sigstore/pkg/fulcioroots is pre-empted: its sync.Once is consumed here and its result
// variables are set to a local CA. Nothing of Crossplane is touched; the validator object itself is the real one
// (and is replaced by a recording Validator before any signature would have to be checked).

import (
	"crypto/x509"
	"sync"
	_ "unsafe" // go:linkname (the package itself is linked in through internal/controller/pkg/signature)
)

//go:linkname fulcioRootsOnce github.com/sigstore/sigstore/pkg/fulcioroots.rootsOnce
var fulcioRootsOnce sync.Once

//go:linkname fulcioRoots github.com/sigstore/sigstore/pkg/fulcioroots.roots
var fulcioRoots []*x509.Certificate

//go:linkname fulcioIntermediates github.com/sigstore/sigstore/pkg/fulcioroots.intermediates
var fulcioIntermediates []*x509.Certificate

//go:linkname fulcioRootErr github.com/sigstore/sigstore/pkg/fulcioroots.singletonRootErr
var fulcioRootErr error

func presetFulcioRoots(ca *x509.Certificate) {
	fulcioRootsOnce.Do(func() {})
	fulcioRoots, fulcioIntermediates, fulcioRootErr = []*x509.Certificate{ca}, nil, nil
}
