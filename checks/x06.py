"""X06 - the life cycle of a composite resource claim (extension beyond C01..C20).
Pause, what every exit writes (Synced / Ready, reasons, events, requeue), the finalizer, deletion with compositeDeletePolicy
Background / Foreground, conditions mirrored from the XR (claimConditionTypes), waiting for the XR, XR bound to another claim,
lastPublishedTime, a referenced XR that does not exist, repair after faults - for the client-side and the server-side syncer.
Model: spec/ClaimLifecycle.tla; driver: harness/drivers/claimlifecycle (the real claim.Reconciler taken from the real
offered.Reconciler's engine.Start call); monitor: spec/MonClaimLifecycle.tla."""
import glob
import json
import os

import vlib

PID = "X06"
MODULE = "MCClaimLifecycle"
DRIVER = "./drivers/claimlifecycle"
# (cfg suffix, scenarios replayed) per tier
QUICK = [("quick", 280), ("quick_ssa", 280), ("quick_cond", 220), ("quick_cond_csa", 170), ("quick_pause", 140), ("quick_pause_ssa", 140),
         ("quick_bind", 230), ("quick_bind_csa", 230)]
THOROUGH = [("thorough", 10000), ("thorough_ssa", 10000), ("thorough_f2", 4000), ("thorough_f2_csa", 4000), ("thorough_e3", 4500), ("thorough_e3_csa", 4500),
            ("quick", 2000), ("quick_ssa", 2000), ("quick_cond", 2000), ("quick_cond_csa", 2000), ("quick_pause", 2000), ("quick_pause_ssa", 2000),
            ("quick_bind", 2000), ("quick_bind_csa", 2000)]
# witness cfgs: a guard of the model switched off (or the code as written, for the two findings) must violate the named invariant
WITNESS = [("witness_finfirst", ["FinBeforeSync"]), ("witness_rvcheck", ["StepProps"]),
           ("witness_deleting", ["DeletingTruth"]), ("witness_miss", ["NoOrphan"]), ("witness_stale", ["NoStaleError"])]
# the candidate repairs of F-a / F-b / F-c satisfy every invariant at design level
FIXED = ["fixed", "fixed_csa"]

MON_FORMULAS = [
    "Wiring.Stack", "Wiring.Syncer", "Wiring.DefaultPolicy",
    "Paused.Calls", "Paused.Condition", "Paused.Exit", "Paused.OnlyStatus", "Status.OnlyStatus",
    "Exit.SyncedTrueNeedsSync", "Exit.SyncedFalse", "Exit.Reason.Call", "Exit.Reason.State", "Exit.Event", "Exit.Silent",
    "Requeue.Gone", "Requeue.Success", "Requeue.Unbound", "Requeue.OnFailure", "Requeue.Foreground", "Requeue.Deleted",
    "Finalizer.BeforeXR", "Finalizer.Kept", "Finalizer.DeleteFirst", "Finalizer.XRFirst", "Finalizer.XRFirst.CacheMiss",
    "Deleting.Calls", "Deleting.NoSync", "Deleting.LiveNoDelete", "Deleting.Policy", "Deleting.OnlyFinalizer", "Deleting.Condition",
    "Deleting.Condition.AfterFinalizerRemoval", "Deleting.Event", "Other.Calls", "Other.Untouched",
    "Ready.Truth", "Ready.Mirror", "Ready.Waiting", "Custom.Copied", "Custom.OnlyListed", "Custom.Change",
    "Conn.Published", "Conn.Recorded", "Conn.Secret", "Ref.Stable", "Ref.First", "User.FieldsKept", "Event.Bound",
    "Repair.Paused", "Repair.Unbound", "Repair.Deleted", "Repair.Live", "Repair.Orphan", "Repair.Orphan.CacheMiss", "Repair.Foreground.StaleError",
    "Quiescent", "Quiescent.Claim",
]


def regression():
    out = []
    for p in sorted(glob.glob(os.path.join(vlib.VERIF, "scenarios", PID, "*.json"))):
        with open(p) as f:
            out.append(json.load(f))
    return out


def build(ctx):
    """go build of the driver; VERIF_X06_OVERLAY = a `go build -overlay` file (used by checks/x06_selftest.py for scratch
    mutants of the code under test; nothing is written to /repo)."""
    ov = os.environ.get("VERIF_X06_OVERLAY")
    if not ov:
        return ctx.go_build(DRIVER)
    import shutil
    import subprocess
    bindir = os.path.join(ctx.work, "bin")
    os.makedirs(bindir, exist_ok=True)
    out = os.path.join(bindir, "claimlifecycle")
    e = dict(os.environ)
    e.update(vlib.GOENV)
    shutil.copy("/repo/go.sum", os.path.join(vlib.HARNESS, "go.sum"))
    p = subprocess.run(["go", "build", "-overlay", ov, "-o", out, DRIVER], cwd=vlib.HARNESS, env=e,
                       stdout=subprocess.PIPE, stderr=subprocess.STDOUT, text=True)
    if p.returncode != 0:
        raise vlib.Inconclusive("harness does not build with overlay %s:\n%s" % (ov, p.stdout[-3000:]))
    return out


def expand_id(by_id, scid):
    parts = scid.split("/")
    base = dict(by_id.get(parts[0], {"id": parts[0]}))
    base["id"] = scid
    for p in parts[1:]:
        if p.startswith("sweep-"):
            _, r, k, o = p.split("-")
            base["sweep"] = {"rec": int(r[1:]), "idx": int(k[1:]), "outcome": o}
    return base


def hit_counts(prefix):
    """How often the things the formulas talk about occur in the recorded traces (anti-vacuity), and the observations
    O1-O3 of ClaimLifecycle.tla; not part of the verdict."""
    d = os.path.dirname(prefix)
    c = {}

    def inc(k):
        c[k] = c.get(k, 0) + 1
    for fn in sorted(os.listdir(d)):
        if not fn.startswith(os.path.basename(prefix)):
            continue
        prev = None
        with open(os.path.join(d, fn)) as f:
            for line in f:
                e = json.loads(line)
                ev, seen, cm = e["ev"], e["seen"], e["post"]["cm"]
                if ev == "reset":
                    inc("start:%s:%s" % (e["syncer"], e["ipre"]))
                if ev == "call":
                    if e["injected"]:
                        inc("injected:" + e["injected"])
                    if e["applied"] and not e["noop"]:
                        inc("write:" + e["abs"])
                    if e["abs"] == "status:claim" and e["phase"] == "main" and e["outcome"] == "ok" and cm["ex"]:
                        inc("exit-status:%s:%s:%s" % (cm["synced"], cm["step"], cm["ready"]))
                        if seen["del"] and not seen["paused"]:
                            inc("exit-status-by-deleting-reconcile" + (":after-finalizer-removal" if seen["fin"] and not cm["fin"] else ""))
                    if e["outcome"] == "conflict" and not e["injected"]:
                        inc("stale-conflict:" + e["abs"])
                    if e["abs"] == "get:xr" and e["sxr"]["missed"]:
                        inc("get-xr-cache-miss" + (":deleting" if seen["del"] else ""))
                    if prev is not None and prev["scenario"] == e["scenario"]:
                        pc = prev["post"]["cm"]
                        if pc["ex"] and pc["fin"] and not (cm["ex"] and cm["fin"]):
                            inc("finalizer-removed:%s" % seen["cdp"])
                        if pc["ex"] and cm["ex"] and pc["pub"] != cm["pub"]:
                            inc("lastPublishedTime-changed")
                        if pc["ex"] and cm["ex"] and pc["db"] != cm["db"]:
                            inc("custom-condition-changed")
                if ev == "end":
                    inc("end:" + e["result"])
                    if e["clean"]:
                        inc("end:clean")
                    if e["streak"] >= 3:
                        inc("end:third-in-a-row")
                    if seen["got"] and seen["ex"] and seen["paused"]:
                        inc("reconcile-of-paused-claim")
                    if e["sxr"]["got"] and e["sxr"]["ex"] and e["sxr"]["cref"] == "other":
                        inc("reconcile-with-xr-bound-to-another-claim" + (":deleting" if seen["del"] else ""))
                    if e["result"] == "ok" and not e["statusOK"] and seen["got"] and seen["ex"]:
                        inc("end:silent")
                    if e["result"] == "error" and seen["got"] and seen["del"] and not cm["ex"] and not e["fails"][:-1] and e["injected"] == "":
                        inc("O1:successful-deletion-returns-an-error")
                    for x in e["post"]["xrs"]:
                        if cm["ex"] and x["id"] == cm["ref"] and x["cref"] == "this" and e["clean"]:
                            if cm["db"] != "none" and "DatabaseReady" not in x["cct"]:
                                inc("O2:custom-condition-stays-after-the-XR-stopped-listing-it")
                            if "Synced" in x["cct"] and cm["synced"] == x["synced"] != "True:ReconcileSuccess" and e["syncres"] == "ok":
                                inc("O3:system-condition-listed-by-the-XR-overwrites-the-claim's")
                if ev == "env":
                    inc("env:" + e["verb"])
                prev = e
    return dict(sorted(c.items()))


def drive_and_judge(ctx, scs, sweep=0, shards=6, counts=True):
    by_id = {s["id"]: s for s in scs}
    binp = build(ctx)
    prefix, s = ctx.run_sharded(binp, scs, ["-sweep", str(sweep), "-chunk", "40000"], shards=shards)
    viols, nlines = ctx.monitor("MonClaimLifecycle", prefix, par=8)
    for formula, line, scid in viols:
        ctx.violation(formula, scid, ctx.replay_file(expand_id(by_id, scid)), "trace line %d" % line, fingerprint=formula)
    hc = hit_counts(prefix) if counts else {}
    return s, nlines, hc


def run(ctx):
    plan = QUICK if ctx.quick else THOROUGH
    per, states, trans, emitted, consts = {}, 0, 0, 0, {}
    import concurrent.futures

    def one(item):
        name, expect = item
        return ctx.model_check(MODULE, "%s_%s.cfg" % (MODULE, name), sub="mc_" + name, workers=4 if ctx.quick else 8,
                               timeout=300 if ctx.quick else 3000, expect_violations=expect or ())
    # the TLC runs are independent: run them side by side (sampling stays sequential and seeded)
    jobs = [(name, None) for name, _ in plan] + WITNESS + ([(name, None) for name in FIXED] if not ctx.quick else [])
    with concurrent.futures.ThreadPoolExecutor(max_workers=6 if ctx.quick else 4) as ex:
        results = dict(zip([j[0] for j in jobs], ex.map(one, jobs)))
    for name, n in plan:
        cfg = "%s_%s.cfg" % (MODULE, name)
        mc = results[name]
        per[name] = [{"id": "%s-%s-%07d" % (PID, name, i), "hist": h} for i, h in ctx.sample_lines(mc["emitted_file"], n, mc["emitted"])]
        states += mc["states"]
        trans += mc["transitions"]
        emitted += mc["emitted"]
        consts[cfg] = dict(states=mc["states"], transitions=mc["transitions"], depth=mc["depth"], scenarios=mc["emitted"])
    for name, expect in WITNESS:
        mc = results[name]
        consts["%s_%s.cfg" % (MODULE, name)] = dict(states=mc["states"], violated=mc["violated"], expected=expect)
    if not ctx.quick:
        for name in FIXED:
            mc = results[name]
            consts["%s_%s.cfg" % (MODULE, name)] = dict(states=mc["states"], transitions=mc["transitions"], violated=mc["violated"])
    # the driver sweeps the first scenarios of every shard over every real call index: put scenarios of every cfg (both
    # syncers, every environment family) first, the longest histories of each
    shards, sweep = (8, 1) if ctx.quick else (14, 10)
    lead, rest = [], []
    k = max(1, (shards * sweep) // len(plan))
    for name, _ in plan:
        ordered = sorted(per[name], key=lambda sc: -len(sc["hist"]))
        # (half of them the longest histories, half of them from the middle)
        mid = len(ordered) // 2
        pick = ordered[:(k + 1) // 2] + ordered[mid:mid + k // 2]
        lead += pick
        rest += [x for x in ordered if x not in pick]
    lead = (lead + [None] * (shards * sweep))[:shards * sweep]
    scs = [x for x in lead if x] + rest
    chosen = scs[:len([x for x in lead if x])] + regression() + scs[len([x for x in lead if x]):]
    s, nlines, hc = drive_and_judge(ctx, chosen, sweep=sweep, shards=shards)
    ctx.cov.update(dict(
        states=states, transitions=trans, traces_validated_against_impl=s["runs"], samples=s["samples"][:2],
        model_runs=consts, scenarios_emitted=emitted, scenarios_replayed=s["scenarios"], reconciles=s["reconciles"],
        sweep_runs=s["sweep_runs"], runs_by_syncer=s.get("runs_by_syncer", {}), events=nlines,
        per_action_counts={k: v for k, v in s["counts"].items()},
        drift=dict(unmatched_calls=s["drift"], runs_with_drift=s["drift_runs"], by_call=s.get("drift_by_abs", {}), examples=s.get("drift_examples", [])[:8]),
        formula_hit_counts=hc, monitor_formulas=MON_FORMULAS, exhaustive=(emitted == len(scs)),
        checker_cmd="tlc MCClaimLifecycle (M,G) -> harness/drivers/claimlifecycle on /repo (T) -> tlc MonClaimLifecycle",
        rule="one scenario per model transition that ends a reconcile (shortest history reaching it); every failure kind "
             "(error value / Conflict / cache miss / dead process before / after the effect) is its own transition; every "
             "scenario is followed by 3 fault-free reconciles; sweep = every real call index x {error, conflict, crash "
             "before, crash after, cache miss} + 3 fault-free reconciles; both syncers",
    ))
    ctx.assumptions += [
        "simapi models the API server rules the reconciler relies on (optimistic concurrency on Update / status Update / "
        "patches that carry a resourceVersion, finalizers and deletionTimestamp, foreground deletion, server-side apply, "
        "no-op writes keep the resourceVersion); it does not validate against the CRD schema",
        "the reconciler under test is the object the real offered.Reconciler passes to engine.Start (captured by a recording "
        "engine); recording decorators around its syncer / upgrader / propagator / unpublisher only observe what they return",
        "the API server's defaulting of spec.compositeDeletePolicy is applied by the driver from the default found in the claim "
        "CRD the real offered.Reconciler rendered and applied",
        "a cache miss (NotFound for an existing object) is delivered only for objects the cache of the running process has "
        "not served yet (a new object, or a restarted pod)",
        "the XR controller, users and third parties are environment steps; XR status written by them never lists a system "
        "condition type for the claim and keeps reason / lastTransitionTime on every condition",
        "verdict only from traces of the real claim.Reconciler judged by MonClaimLifecycle.tla",
    ]


def replay(ctx, path):
    with open(path) as f:
        sc = json.load(f)
    s, nlines, _ = drive_and_judge(ctx, [sc], shards=1, counts=False)
    ctx.cov.update(dict(states=1, transitions=1, traces_validated_against_impl=s["runs"], samples=[sc], events=nlines))
