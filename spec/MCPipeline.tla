---------------------------- MODULE MCPipeline ----------------------------
(***************************************************************************)
(* C04 vector model.  Enumerates the bounded input domain                  *)
(*   family "pipeline": pipelines of 1..MaxSteps programs of the family of *)
(*      Pipeline.tla x Extra objects in the cluster x existing composed    *)
(*      resources x transport (scripted in-process functions, or the real  *)
(*      PackagedFunctionRunner against gRPC servers)                       *)
(*   family "routing": sequences of 1..MaxOps connection-table operations  *)
(* and emits every input as a VEC line (inputs only: environment choices). *)
(* The Compute step evaluates the reference (Interp / the connection table *)
(* model below) and the invariants check that the reference itself         *)
(* satisfies every property formula that MonPipeline applies to the real   *)
(* runs (design level), plus the bounds the property states.               *)
(***************************************************************************)
EXTENDS Pipeline, Json

CONSTANTS
  Progs12,        \* programs of pipelines with 1 or 2 steps
  Progs3,         \* programs of pipelines with 3 steps
  MaxSteps,
  ExtraSets,      \* cluster contents: sorted sequences over {"e1","e2"}
  ExistingSets,   \* existing composed resources: sorted sequences over {"a","z"}
  GrpcExtras,     \* cluster contents for which pipelines of <= GrpcMaxSteps steps are also run over gRPC
  GrpcMaxSteps,
  Grpc3Progs,     \* pipelines of any length made of these programs only also run over gRPC
  Ops,            \* routing operations
  MaxOps

VARIABLES input, exp, done
vars == <<input, exp, done>>

Ex4 == {<<>>, <<"e1">>, <<"e2">>, <<"e1", "e2">>}
Ex1 == {<<"e1">>}
Ex2 == {<<"e1">>, <<"e1", "e2">>}
Old2 == {<<>>, <<"a", "z">>}
Old3 == {<<>>, <<"a">>, <<"a", "z">>}
SomeProgs == {ProgAddA, ProgAddB, ProgDropA, ProgRenAC, ProgMutate, ProgGrow, ProgCount2, ProgFatal, ProgRelabel, ProgWiden, ProgClear}
\* three-step pipelines that also run over gRPC in the quick tier (step 2 is served by the v1beta1-only server): a step that sets the
\* context, one that returns none, one that reads it (added after the seeded change C04-m9 - the fallback client carries the
\* request's context over when the response has none - was only in reach of the thorough tier)
\* the thorough tier's three-step pipelines: every program but flip (flip runs in every one- and two-step pipeline of both tiers; the
\* three-step enumeration is kept at the size whose cost was measured - DESIGN 8.8b)
Progs3All == AllProgs \ {ProgFlip}
CtxProgs == {ProgAddA, ProgClear, ProgAddB}
NoOps == {}

PipeInput(x) ==
  \E n \in 1..MaxSteps : \E ps \in [1..n -> IF n = 3 THEN Progs3 ELSE Progs12] :
  \E ex \in ExtraSets : \E old \in ExistingSets :
  \E tr \in (IF (n <= GrpcMaxSteps \/ \A i \in 1..n : ps[i] \in Grpc3Progs) /\ ex \in GrpcExtras THEN {"inproc", "grpc"} ELSE {"inproc"}) :
    x = [family |-> "pipeline", steps |-> ps, extras |-> ex, existing |-> old, transport |-> tr, ops |-> <<>>]

RouteInput(x) ==
  \E n \in 1..MaxOps : \E os \in [1..n -> Ops] :
    x = [family |-> "routing", steps |-> <<>>, extras |-> <<>>, existing |-> <<>>, transport |-> "grpc", ops |-> os]

IsInput(x) == PipeInput(x) \/ RouteInput(x)

-----------------------------------------------------------------------------
(* the connection table as coded (getClientConn / GarbageCollectConnectionsNow): one connection per  *)
(* function name, re-dialled when the active revision's endpoint differs from the connection's target, *)
(* closed by the collector when the function is not installed.  Produces the run the code should give. *)
CInit == [conn |-> "none", ep |-> "none", next |-> 1, closed |-> <<>>, out |-> <<>>]
CId(n) == "c" \o ToString(n)
RECURSIVE CRun(_, _, _, _)
CRun(ops, j, t, b) ==      \* t: fa's table entry + log; b: fb's connection id ("none" before its first call)
  IF j > Len(ops) THEN t.out
  ELSE LET op  == ops[j]
           srv == RExp(ops, j)
           rec(ok, server, conn, closed) ==
             [op |-> op, ok |-> ok, server |-> server, conn |-> conn, api |-> IF server = "A2" THEN "v1beta1" ELSE "v1",
              sent |-> "d", got |-> "d", rsent |-> "r", rgot |-> "r", closed |-> closed]
       IN CASE op = "runA" /\ srv # "none" ->
                 (IF t.conn # "none" /\ t.ep = srv
                  THEN CRun(ops, j + 1, [t EXCEPT !.out = Append(@, rec(TRUE, srv, t.conn, t.closed))], b)
                  ELSE LET cl == IF t.conn = "none" THEN t.closed ELSE Append(t.closed, t.conn)
                           id == CId(t.next)
                       IN CRun(ops, j + 1, [conn |-> id, ep |-> srv, next |-> t.next + 1, closed |-> cl,
                                            out |-> Append(t.out, rec(TRUE, srv, id, cl))], b))
            [] op = "runB" ->
                 (LET id == IF b = "none" THEN CId(t.next) ELSE b
                  IN CRun(ops, j + 1, [t EXCEPT !.next = IF b = "none" THEN @ + 1 ELSE @,
                                                !.out = Append(@, rec(TRUE, "B1", id, t.closed))], id))
            [] op = "gc" /\ ~RState(ops, j).inst /\ t.conn # "none" ->
                 (LET cl == Append(t.closed, t.conn)
                  IN CRun(ops, j + 1, [t EXCEPT !.conn = "none", !.ep = "none", !.closed = cl,
                                                !.out = Append(@, rec(TRUE, "none", "none", cl))], b))
            [] OTHER -> CRun(ops, j + 1, [t EXCEPT !.out = Append(@, rec(op # "runA", "none", "none", t.closed))], b)

-----------------------------------------------------------------------------
NoExp == [family |-> "none"]
Expected(in) ==
  IF in.family = "pipeline" THEN [family |-> "pipeline", run |-> Interp(in)]
  ELSE [family |-> "routing", run |-> [in |-> in, ops |-> CRun(in.ops, 1, CInit, "none")]]

Init == IsInput(input) /\ exp = NoExp /\ done = FALSE
Compute == ~done /\ done' = TRUE /\ exp' = Expected(input) /\ UNCHANGED input
Spec == Init /\ [][Compute]_vars

\* scenario emission: the input only
Emit == PrintT(<<"VEC", ToJson(input)>>)

-----------------------------------------------------------------------------
(* design-level checks of the reference *)
RefPipeline == exp.family = "pipeline" => PipelineFormulas(exp.run)
RefSelf == exp.family = "pipeline" => (RefCalls(exp.run) /\ RefOutcome(exp.run))
RefBounds ==
  exp.family = "pipeline" =>
    LET r == exp.run IN
    /\ \A i \in 1..NSteps(r) : Cardinality(StepCalls(r, i)) <= MaxIter + 1
    /\ (r.st = "unstable" <=> EndsUnstable(r)) /\ (r.st = "fatal" <=> EndsFatal(r)) /\ (r.st = "ok" <=> EndsOk(r))
    /\ (r.st = "unstable" => Cardinality(StepCalls(r, r.calls[N(r)].step)) = MaxIter + 1)
RefRouting == exp.family = "routing" => RoutingFormulas(exp.run)
=============================================================================
