"""C17 - dependency resolution installs only satisfying versions, refuses broken graphs.
Reference semantics: spec/Deps.tla; input enumeration: spec/MCDeps.tla; driver: harness/drivers/deps
(real internal/dag, resolver.Reconciler on simapi, revision.PackageDependencyManager.Resolve);
monitor: spec/MonDeps.tla."""
import glob
import json
import os

import vlib

PID = "C17"
MON_FORMULAS = ["Dag.Implied", "Dag.Implied.Upgrading", "Dag.SortErrIffCycle.Missed", "Dag.SortErrIffCycle.Spurious",
                "Dag.TraceIsReach", "Dag.CycleStopsInstall",
                "Install.MaxSat", "Install.PinnedDigest", "Install.NothingWhenNone", "Install.NeverViolates",
                "Update.MinUpgrade", "Update.MaxDowngrade", "Update.NeverViolates", "Update.NoDowngradeUnlessAllowed",
                "Resolve.Satisfied"]


def regression():
    out = []
    for p in sorted(glob.glob(os.path.join(vlib.VERIF, "scenarios", PID, "*.json"))):
        with open(p) as f:
            out.append(json.load(f))
    return out


def write_scenarios(ctx, emitted_file, path):
    """One scenario per emitted vector, streamed (the thorough tier has > 5*10^5 of them).
    The per-vector seed (order of lock members / dependency lists) is stored so that a replay is exact."""
    n = 0
    with open(path, "w") as fo:
        for sc in regression():
            fo.write(json.dumps(sc) + "\n")
            n += 1
        with open(emitted_file) as f:
            for i, line in enumerate(f, 1):
                fo.write('{"id":"%s-%07d","seed":%d,"input":%s}\n' % (PID, i, ctx.seed * 1000003 + i, line.strip()))
                n += 1
    return n


def find_scenarios(path, ids):
    out = {}
    if not ids:
        return out
    with open(path) as f:
        for line in f:
            m = line[:60]
            for i in ids:
                if '"id":"%s"' % i in m or '"id": "%s"' % i in m:
                    out[i] = json.loads(line)
    return out


def drive_and_judge(ctx, sp, chunk):
    binp = ctx.go_build("./drivers/deps")
    trace = os.path.join(ctx.work, "trace.ndjson")
    summ = os.path.join(ctx.work, "summary.json")
    ctx.run([binp, "-scenarios", sp, "-trace", trace, "-summary", summ, "-chunk", str(chunk), "-seed", str(ctx.seed)])
    with open(summ) as f:
        s = json.load(f)
    viols, nlines = ctx.monitor("MonDeps", trace)
    scs = find_scenarios(sp, {v[2] for v in viols})
    for formula, line, scid in viols:
        ctx.violation(formula, scid, ctx.replay_file(scs.get(scid, {"id": scid})), "trace line %d" % line, fingerprint=formula)
    return s, nlines


def run(ctx):
    cfg = "MCDeps_quick.cfg" if ctx.quick else "MCDeps_thorough.cfg"
    mc = ctx.model_check("MCDeps", cfg, workers=8 if ctx.quick else 16, timeout=300 if ctx.quick else 3000)
    sp = os.path.join(ctx.work, "scenarios.ndjson")
    n = write_scenarios(ctx, mc["emitted_file"], sp)
    s, nlines = drive_and_judge(ctx, sp, 0 if ctx.quick else 40000)
    ctx.cov.update(dict(
        states=mc["states"], transitions=mc["transitions"], traces_validated_against_impl=s["vectors"],
        samples=(s.get("samples") or [])[:4], model_cfg=cfg, vectors_emitted=mc["emitted"], vectors_replayed=s["vectors"],
        per_family=s["families"], outcome_counts=s["outcomes"], events=nlines, drift=0,
        panics_observed=s["panics"], monitor_formulas=MON_FORMULAS, exhaustive=(s["vectors"] == n),
        model_invariants=["RefDag", "RefInstall", "RefUpdate"],
        checker_cmd="tlc MCDeps (M,G: enumerates the input vectors, checks the oracle against independent "
                    "characterisations) -> harness/drivers/deps on /repo (T) -> tlc MonDeps",
        rule="every enumerated input vector is fed to the real code (internal/dag, resolver.Reconciler.Reconcile on simapi, "
             "revision.PackageDependencyManager.Resolve on simapi); list orders are permuted by VERIF_SEED",
    ))
    ctx.assumptions += [
        "constraint semantics: ranges over semantic-version precedence; a prerelease tag is eligible only for a constraint naming a "
        "prerelease of the same version triple (I1); ^ only with major >= 1 (I2); ties are interchangeable (I3)",
        "the update clause applies when the dependency is absent from the Lock or violates a parent's constraint; no target is "
        "asserted for an installed version that is not a semantic version (DESIGN D5: the real code panics there, nothing is installed) (I4)",
        "simapi models the API server rules listed in spec/KubeAPI.tla; the registry is a fake Fetcher.Tags",
        "verdict only from outputs of the real code judged by MonDeps.tla",
    ]


def replay(ctx, path):
    with open(path) as f:
        sc = json.load(f)
    sp = ctx.write_scenarios([sc])
    s, nlines = drive_and_judge(ctx, sp, 0)
    ctx.cov.update(dict(states=1, transitions=1, traces_validated_against_impl=s["vectors"], samples=(s.get("samples") or [sc])[:1],
                        events=nlines, outcome_counts=s["outcomes"]))
