SPECIFICATION Spec
CONSTANTS
  Foreground = TRUE
  MaxRecs = 2
  MaxEnv = 2
  MaxFaults = 0
  ThirdParty = FALSE
VIEW view
ACTION_CONSTRAINT EmitEnd
CHECK_DEADLOCK FALSE

