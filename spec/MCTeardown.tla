----------------------------- MODULE MCTeardown -----------------------------
EXTENDS Teardown, Json
\* one schedule per transition that is a step of an actor or of the environment
Emit == PrintT(<<"TRACE", ToJson(hist')>>)
EmitEnd == (\E a \in Actors : pc[a] # "idle" /\ pc'[a] = "idle") => PrintT(<<"TRACE", ToJson(hist')>>)
=============================================================================
