SPECIFICATION Spec
CONSTANTS
  InitPkgs <- PkgInstalled
  InitRevs <- RevsFresh
  InitICs <- IcNone
  InitLock <- OnlyFalse
  ICs <- NoICs
  Img <- ImgBothOk
  MaxMgr = 0
  MaxRev = 1
  MaxFaults = 0
  MaxEnv = 0
  MidEnv = TRUE
  EnvKinds <- NoEnv
  Edits <- NoEdits
  FaultKinds <- NoFaults
  SeamOuts <- NoSeams
  FinFirst = FALSE
  FixRemoval = TRUE
  ManualInactive = TRUE
VIEW view
ACTION_CONSTRAINT Emit
CHECK_DEADLOCK FALSE
INVARIANTS StepProps
