SPECIFICATION Spec
CONSTANTS
  Foreground = FALSE
  MaxRecs = 2
  MaxEnv = 1
  MaxFaults = 1
  ThirdParty = FALSE
VIEW view
ACTION_CONSTRAINT EmitEnd
CHECK_DEADLOCK FALSE

