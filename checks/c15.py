"""C15 - a package revision installs exactly what its image declares, and only permitted kinds.
Model: spec/PkgRevision.tla; driver: harness/drivers/pkgrevision (real revision.Reconciler + real ImageBackend over a
fake Fetcher serving images built by the real xpkg.Builder, real FsPackageCache on a fault-injecting afero fs, real
parser / linters / dependency manager / ImageConfigStore, real signature.Reconciler with a scripted validator,
recording Establisher); monitor: spec/MonPkgRevision.tla."""
import glob
import json
import os
import shutil
import subprocess
import time

import vlib

PID = "C15"
MOD = "MCPkgRevision"
MON_FORMULAS = ["Exact", "Exact.TruncatedCache", "CacheSound", "CacheSound.TruncatedAfterSourceError", "CacheSound.FailedStoreCleanup",
                "Gate.MetaCount", "Gate.MetaType", "Gate.Kind", "Gate.Constraints", "Gate.Verification",
                "Gate.TruncatedCache", "RoundTrip"]
# the model as written (FixTee = FALSE) violates these; with the candidate repair (FixTee = TRUE) everything holds
WITNESS = [("MCPkgRevision_witness_exact.cfg", ["Exact"]), ("MCPkgRevision_witness_cachesound.cfg", ["CacheSound"]),
           ("MCPkgRevision_witness_gate.cfg", ["Gate"]), ("MCPkgRevision_fixed.cfg", [])]
VERSION_FLAG = "-X github.com/crossplane/crossplane/internal/version.version=v1.18.0"


def build_driver(ctx):
    """go build of the driver against /repo's working tree. The Crossplane version the real versioner reports is set
    the way the release build sets it (-ldflags -X). VERIF_C15_OVERLAY (a go build -overlay file) is only for
    scratch mutants of /repo files; nothing is ever written to /repo."""
    bindir = os.path.join(ctx.work, "bin")
    os.makedirs(bindir, exist_ok=True)
    out = os.path.join(bindir, "pkgrevision")
    e = dict(os.environ)
    e.update(vlib.GOENV)
    shutil.copy("/repo/go.sum", os.path.join(vlib.HARNESS, "go.sum"))
    cmd = ["go", "build", "-o", out, "-ldflags", VERSION_FLAG]
    if os.environ.get("VERIF_C15_OVERLAY"):
        cmd += ["-overlay", os.environ["VERIF_C15_OVERLAY"]]
        vlib.log("  (building with overlay %s)" % os.environ["VERIF_C15_OVERLAY"])
    cmd.append("./drivers/pkgrevision")
    t = time.time()
    p = subprocess.run(cmd, cwd=vlib.HARNESS, env=e, stdout=subprocess.PIPE, stderr=subprocess.STDOUT, text=True)
    vlib.log("  go build ./drivers/pkgrevision: rc=%d %.1fs" % (p.returncode, time.time() - t))
    if p.returncode != 0:
        raise vlib.Inconclusive("harness does not build against /repo:\n" + p.stdout[-4000:])
    return out


def scenarios_from(ctx, mc, prefix, n, keep=None):
    """The emitted histories, without duplicates (two model behaviours that differ only in what the code does
    carry the same environment choices); a seeded sample of n of them."""
    seen, out = set(), []
    with open(mc["emitted_file"]) as f:
        for line in f:
            if line in seen:
                continue
            seen.add(line)
            out.append(json.loads(line))
    scs = [{"id": "%s-%s-%07d" % (PID, prefix, i), "hist": h} for i, h in enumerate(out, 1)]
    return ctx.sample(scs, n, keep=keep), len(scs)


def regression():
    out = []
    for p in sorted(glob.glob(os.path.join(vlib.VERIF, "scenarios", PID, "*.json"))):
        with open(p) as f:
            out.append(json.load(f))
    return out


def has_fault(sc):
    return any(e.get("t") in ("srcfault", "storefault", "delfault", "crash") for e in sc["hist"])


def replay_scenario(by_id, scid):
    """The replay file for a run id: the base scenario plus exactly the variant / sweep / concurrent run it names."""
    parts = scid.split("/")
    base = dict(by_id.get(parts[0], {"id": parts[0]}))
    base["id"] = scid
    if len(parts) < 2:
        return base
    f = parts[1].split("-")
    if f[0] == "sweep":          # sweep-src-<at>-<layout>-<build> | sweep-(write|crash)-<at>-<del>-<layout>-<build>
        if f[1] == "src":
            base["bytes"] = {"kind": "src", "at": int(f[2]), "del": "ok"}
            base["layout"], base["build"] = f[3], f[4]
        else:
            base["bytes"] = {"kind": f[1], "at": int(f[2]), "del": f[3]}
            base["layout"], base["build"] = f[4], f[5]
    elif f[0] == "concur":       # concur-<at>-<srcAt>-<second>-<layout>-<build>  (srcAt may be -1)
        rest = parts[1][len("concur-"):]
        at, rest = rest.split("-", 1)
        if rest.startswith("-"):
            src_at, rest = "-" + rest[1:].split("-", 1)[0], rest[1:].split("-", 1)[1]
        else:
            src_at, rest = rest.split("-", 1)
        second, layout, build = rest.split("-")
        base["concur"] = {"at": int(at), "srcAt": int(src_at), "second": second}
        base["layout"], base["build"] = layout, build
    else:                        # <layout>-<build>-<mid>
        base["layout"], base["build"], base["mid"] = f[0], f[1], f[2]
    return base


def drive_and_judge(ctx, binp, scs, name="trace", variants="rotate", sweep=0, sweepstep=1, concur=0, sweeponly=False, shards=6):
    by_id = {s["id"]: s for s in scs}
    args = ["-variants", variants, "-chunk", "120000", "-seed", str(ctx.seed), "-sweep", str(sweep), "-sweepstep", str(sweepstep),
            "-concur", str(concur)]
    if sweeponly:
        args.append("-sweeponly")
    prefix, s = ctx.run_sharded(binp, scs, args, shards=shards, name=name)
    viols, nlines = ctx.monitor("MonPkgRevision", prefix)
    for formula, line, scid in viols:
        ctx.violation(formula, scid, ctx.replay_file(replay_scenario(by_id, scid)), "trace line %d" % line, fingerprint=formula)
    return s, nlines


def add(total, s):
    return vlib.merge_summaries([total, s]) if total else s


# "when signature verification is enabled, a package that has not passed verification is never installed": this check's own
# driver takes the Verified condition as an input of the revision reconciler. Where the verdict comes from - the real
# signature.Reconciler, the real ImageConfigStore's selection of the verification config, the gate as the revision
# reconciler applies it to that verdict - is module Signature (check X09); its formulas below are part of C15's verdict.
# (Added after the seeded change C15-m6 - a matching verification config without cosign block is skipped - was missed.)
RIDER_FORMULAS = ["Sig.Verdict.Shape", "Sig.Skipped.OnlyIfNoMatch", "Sig.NoMatch.Skipped", "Sig.Select.Longest", "Sig.NoCosign.Incomplete",
                  "Sig.BadRef.Incomplete", "Sig.Succeeded.NeedsValidation", "Sig.Failed.IffInvalid", "Sig.Validated.Succeeds",
                  "Sig.Validate.Ref", "Verdict.ChangedOnlyBy", "Rev.KeepsVerdict", "Select.Longest",
                  "Gate.Closed.NoSeams", "Gate.Closed.NoWrites", "Gate.Closed.Calls", "Gate.Establish.Control"]


def rider_signature(ctx):
    from checks import x09
    sub = ctx.sub("signature")
    plan = [("quick", 350), ("quick_gate", 300), ("quick_ic", 300)] if ctx.quick else [("thorough", 8000), ("thorough_gate", 7000), ("thorough_ic", 6000), ("quick_odd", 3000)]
    scs, vecs, st, tr, em, consts = x09.emit_all(sub, plan, ("vec_quick", 1200 if ctx.quick else 6000))
    for sc in scs:
        sc["id"] = sc["id"].replace(x09.PID + "-", PID + "-sig-", 1)
        sc["rider"] = "signature"
    for v in vecs:
        v["id"] = v["id"].replace(x09.PID + "-", PID + "-sig-", 1)
        v["rider"] = "signature"
    s, n, _ = x09.drive_and_judge(sub, scs, vecs, shards=4 if ctx.quick else 10, counts=False)
    for v in sub.violations:
        if v["formula"] in RIDER_FORMULAS:
            ctx.violations.append(v)
    return dict(states=st, transitions=tr, runs=s["runs"] + s["vectors"], events=n, formulas=RIDER_FORMULAS)


def run(ctx):
    quick = ctx.quick
    binp = build_driver(ctx)
    # (M) the design: as written it violates Exact / CacheSound / Gate (D4); with the candidate repair of the tee it does not
    witness = {}
    for cfg, exp in WITNESS:
        mc = ctx.model_check(MOD, cfg, sub="mc_" + cfg[len(MOD) + 1:-4], expect_violations=exp, workers=4, timeout=600)
        witness[cfg] = dict(states=mc["states"], violated=mc["violated"])
    # (M)+(G): the code as written, scenario emission (the invariants D4 breaks are not listed in the fault configurations)
    cfgs = [("f", "MCPkgRevision_quick.cfg", 2600), ("g", "MCPkgRevision_quick_gate.cfg", 2400)] if quick else \
           [("f", "MCPkgRevision_thorough.cfg", 60000), ("g", "MCPkgRevision_quick_gate.cfg", 30000),
            ("l", "MCPkgRevision_thorough_late.cfg", 12000)]
    scs, states, trans, emitted, distinct = [], 0, 0, 0, 0
    consts = {}
    for prefix, cfg, budget in cfgs:
        mc = ctx.model_check(MOD, cfg, sub="mc_" + prefix, workers=8 if quick else 16, timeout=300 if quick else 3000)
        chosen, n = scenarios_from(ctx, mc, prefix, budget)
        scs += chosen
        states += mc["states"]
        trans += mc["transitions"]
        emitted += mc["emitted"]
        distinct += n
        consts[cfg] = dict(states=mc["states"], transitions=mc["transitions"], depth=mc["depth"], scenarios=mc["emitted"], distinct=n, replayed=len(chosen))
    chosen = regression() + scs
    total, nlines = drive_and_judge(ctx, binp, chosen, variants="rotate", concur=40 if quick else 400)
    if not quick:
        # every layout x builder/raw for a sample
        sub = ctx.sample(scs, 6000, keep=has_fault)[:6000]
        s, n = drive_and_judge(ctx, binp, sub, name="allvar", variants="all")
        total, nlines = add(total, s), nlines + n
    # byte sweeps: every (quick: every 9th) byte position of the image stream and of the cache file, for one image per layout
    layouts = ["annotated", "plain", "multi", "multiplain", "decoy", "decoyplain"]
    sweep_scs = []
    for i, sc in enumerate([s for s in scs if s["id"].startswith(PID + "-f-")][:4 if quick else 16]):
        sweep_scs.append(dict(sc, vlayout=layouts[i % len(layouts)], vbuild="built" if (i // len(layouts)) % 2 == 0 else "raw"))
    s, n = drive_and_judge(ctx, binp, sweep_scs, name="sweep", sweep=1, sweepstep=9 if quick else 1, sweeponly=True, shards=4 if quick else 8)
    total, nlines = add(total, s), nlines + n
    sig = rider_signature(ctx)
    ctx.cov.update(dict(
        signature_rider=sig,
        states=states, transitions=trans, traces_validated_against_impl=total["runs"],
        samples=total.get("samples", [])[:2], model_runs=consts, model_witness=witness, scenarios_emitted=emitted,
        scenarios_distinct=distinct, scenarios_replayed=total["scenarios"], reconciles=total["reconciles"],
        sweep_runs=total.get("sweep_runs", 0), concurrent_runs=total.get("concur_runs", 0), images=total.get("images", 0),
        images_built_by_xpkg_build=total.get("images_built", 0), build_errors=total.get("build_errors", {}),
        events=nlines, per_action_counts=total["counts"], formula_antecedent_hits=total["hits"], drift=total.get("drift", 0),
        monitor_formulas=MON_FORMULAS, exhaustive=(distinct == len(scs)),
        checker_cmd="tlc MCPkgRevision (M,G) -> harness/drivers/pkgrevision on /repo (T) -> tlc MonPkgRevision",
        rule="one scenario per model transition that ends a reconcile (shortest history reaching it, one per fault plan); "
             "image layout (annotated / plain / multi / multiplain / decoy: another file with the base name package.yaml in front of the stream / decoyplain: ... in an upper layer) and xpkg-build vs hand-assembled stream rotate per scenario; "
             "sweep = the first reconcile fails at byte b of the image stream / of the cache file (error, error + failing delete, "
             "crash), two healthy reconciles follow; concurrent = a second reconcile of the revision starts mid-stream",
    ))
    by_formula = {}
    for v in ctx.violations:
        by_formula[v["formula"]] = by_formula.get(v["formula"], 0) + 1
    ctx.cov["violations_by_formula"] = by_formula
    if by_formula:
        vlib.log("  violations by formula: %s" % json.dumps(by_formula, sort_keys=True))
    stuck = total["hits"].get("observation_healthy_reconcile_blocked_by_corrupt_entry", 0)
    ctx.cov["observations"] = dict(
        healthy_reconcile_blocked_by_corrupt_entry=stuck,
        note="not a violation of C15's safety reading: a cache entry with an intact gzip header but a broken body (the process died "
             "while writing it, or the Remove of the delete-on-failure failed) is never removed - cache.Get succeeds, parsing fails "
             "with 'unexpected EOF', and every later reconcile of the revision fails the same way although the registry is healthy "
             "(scenarios/C15/crash-mid-store-then-recover.json)")
    if stuck:
        vlib.log("observation: %d healthy reconciles installed nothing because nothing removes a corrupt cache entry (see evidence)" % stuck)
    ctx.assumptions += [
        "declared objects = the object documents the driver put into the image (identified by kind, name, content digest); "
        "established objects = what the real reconciler hands to Establisher.Establish (the real establisher is C16's subject)",
        "the fake Fetcher serves images exactly as go-containerregistry presents a remote image (raw manifest, raw config, compressed blobs)",
        "a read fault is an error from the uncompressed stream of the package layer at a byte position; a cache fault is a failing "
        "Create / Write at a byte position / Remove of the afero file system, or the process dying there",
        "the running Crossplane version is v1.18.0 (set with -ldflags -X like the release build); pull policy Never and "
        "maxPackageSize truncation are not explored",
        "verdict only from traces of the real code judged by MonPkgRevision.tla",
    ]


def replay(ctx, path):
    with open(path) as f:
        sc = json.load(f)
    if sc.get("rider") == "signature":
        from checks import x09
        x09.replay(ctx, path)
        ctx.violations = [v for v in ctx.violations if v["formula"] in RIDER_FORMULAS]
        return
    binp = build_driver(ctx)
    if "layout" not in sc:
        sc = dict(sc)
    s, nlines = drive_and_judge(ctx, binp, [sc], shards=1)
    ctx.cov.update(dict(states=1, transitions=1, traces_validated_against_impl=s["runs"], samples=[sc], events=nlines,
                        formula_antecedent_hits=s["hits"]))
