SPECIFICATION Spec
CONSTANTS
  OSeq <- OSeq3
  Pkg1 = {"a", "b"}
  Pkg2 = {"b", "c"}
  PreStates = {"absent", "free", "R1", "Q"}
  MaxRej = 1
  FreeRefs = TRUE
  Grabs = TRUE
  MaxEdits = 4
  MaxFaults = 1
  MaxRecs = 5
VIEW view
ACTION_CONSTRAINT Emit
CHECK_DEADLOCK FALSE
INVARIANTS OneController InactiveSettled
PROPERTIES AllOrNothing OnlyActiveCreates InactivePlainStep ReleaseKeeps PkgOwner ForeignUntouched
