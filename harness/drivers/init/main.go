// Driver for spec/Init.tla (property C20): replays TLC-generated scenarios
// (initial cluster contents x package reference forms x fault position)
// against the real Crossplane initializer - the real steps in the order of
// cmd/crossplane/core/init.go, run by the real initializer.New(...).Init -
// on simapi, and records the projected abstract state after every store
// change and at the end of every run. spec/MonInit.tla judges the trace.
package main

import (
	"encoding/json"
	"flag"
	"fmt"
	"os"
	"runtime/debug"
	"runtime/pprof"
	"sync"

	"github.com/crossplane/crossplane/zzverif/scen"
	"github.com/crossplane/crossplane/zzverif/trace"
)

type scenario struct {
	ID      string            `json:"id"`
	Hist    []json.RawMessage `json:"hist"`
	How     string            `json:"how"`     // realisation of "fail" (replay files)
	RealGen bool              `json:"realgen"` // use the untouched RSA generator
	Sweep   *struct {
		Idx int    `json:"idx"`
		F   string `json:"f"`
	} `json:"sweep"`
}

type stats struct {
	Scenarios int            `json:"scenarios"`
	Runs      int            `json:"runs"` // executions of Initializer.Init
	Traces    int            `json:"traces"`
	SweepRuns int            `json:"sweep_runs"`
	RealGen   int            `json:"realgen_scenarios"`
	FastGen   bool           `json:"fast_generator_injected"`
	Calls     map[string]int `json:"calls"`
	Others    map[string]int `json:"unmodelled_calls"`
	Unfired   int            `json:"faults_not_fired"`
	UnfiredAt map[string]int `json:"faults_not_fired_at"`
	Hits      map[string]int `json:"formula_antecedents"`
	Results   map[string]int `json:"run_results"`
	Samples   []any          `json:"samples"`
}

var (
	refMu    sync.Mutex
	refCache = map[string]map[string]any{}
)

func newStats() *stats {
	return &stats{Calls: map[string]int{}, Others: map[string]int{}, UnfiredAt: map[string]int{}, Hits: map[string]int{}, Results: map[string]int{}}
}

func (a *stats) add(b *stats) {
	a.Runs += b.Runs
	a.Traces += b.Traces
	a.SweepRuns += b.SweepRuns
	a.RealGen += b.RealGen
	a.Unfired += b.Unfired
	for _, p := range []struct{ x, y map[string]int }{{a.Calls, b.Calls}, {a.Others, b.Others}, {a.UnfiredAt, b.UnfiredAt}, {a.Hits, b.Hits}, {a.Results, b.Results}} {
		for k, v := range p.y {
			p.x[k] += v
		}
	}
}

// one executes one scenario (initial contents, faults, runs) on the real code
// and returns its trace events.
func one(id string, in input, raw map[string]any, faults []fault, real bool, st *stats) []map[string]any {
	var ref map[string]any
	if len(faults) > 0 {
		// the same initial contents initialised once without any fault: the
		// reference the state after "aborted run + rerun" is compared with
		// (computed once per initial configuration)
		ck, _ := json.Marshal(in)
		refMu.Lock()
		ref = refCache[string(ck)]
		refMu.Unlock()
		if ref == nil {
			rw := newWorld(id, in, raw, false)
			rw.doRun()
			ref = rw.proj()
			st.Runs++
			refMu.Lock()
			refCache[string(ck)] = ref
			refMu.Unlock()
		}
	}
	w := newWorld(id, in, raw, real)
	w.record = true
	w.faults = faults
	w.ref = ref
	w.emit("reset", nil)
	runs := in.Runs
	if runs == 0 {
		runs = 3
	}
	for r := 1; r <= runs; r++ {
		res := w.doRun()
		st.Runs++
		st.Results[res]++
	}
	st.Traces++
	if w.real {
		st.RealGen++
	}
	for i, f := range faults {
		if !w.fired[i] {
			st.Unfired++
			st.UnfiredAt[f.At]++
		}
	}
	for k, v := range w.calls {
		st.Calls[k] += v
	}
	for k, v := range w.others {
		st.Others[k] += v
	}
	// which formula antecedents this trace makes true (anti-vacuity evidence)
	sameKey := in.Inst.N != "none" && in.Inst.H == in.Req.H
	if in.CA == "complete" {
		st.Hits["KeepCA"]++
	}
	if in.Srv != "absent" && in.Srv != "empty" || in.Cli != "absent" && in.Cli != "empty" || in.Ess != "absent" {
		st.Hits["KeepCerts"]++
	}
	if in.Lock != "absent" || in.SC != "absent" || in.DRC != "absent" {
		st.Hits["Untouched"]++
	}
	if in.Req.H != "" && in.Inst.N == "custom" && (in.Inst.H == in.Req.H || in.Inst.H == "") {
		st.Hits["NoDupPkg.HostCustomName"]++
	} else if sameKey {
		st.Hits["NoDupPkg.LandsOnExisting"]++
	}
	for _, e := range w.events {
		switch {
		case e["ev"] == "write" && (e["label"] == "tls.put.srv" || e["label"] == "tls.put.cli" || e["label"] == "ess.put.ess"):
			st.Hits["Chain"]++
		case e["ev"] == "end" && e["result"] == "ok":
			st.Hits["Bundle"]++
			st.Hits["NoDupPkg.Installed"]++
		}
		if e["ev"] == "end" && e["inj"] == "none" && e["prevClean"] == true {
			st.Hits["Idempotent.Rerun"]++
		}
		if e["ev"] == "end" {
			if _, ok := e["ref"].(map[string]any)["ca"]; ok {
				st.Hits["Idempotent.AbortRerun"]++
			}
		}
	}
	return w.events
}

func parse(raw json.RawMessage) (scenario, input, map[string]any, []fault, error) {
	var sc scenario
	var in input
	if err := json.Unmarshal(raw, &sc); err != nil {
		return sc, in, nil, nil, err
	}
	if len(sc.Hist) == 0 {
		return sc, in, nil, nil, fmt.Errorf("scenario %s has no history", sc.ID)
	}
	m := map[string]any{}
	if err := json.Unmarshal(sc.Hist[0], &m); err != nil {
		return sc, in, nil, nil, err
	}
	if err := json.Unmarshal(sc.Hist[0], &in); err != nil {
		return sc, in, nil, nil, err
	}
	if m["t"] != "init" {
		return sc, in, nil, nil, fmt.Errorf("scenario %s does not start with an init entry", sc.ID)
	}
	var fs []fault
	for _, h := range sc.Hist[1:] {
		var f fault
		if err := json.Unmarshal(h, &f); err != nil {
			return sc, in, nil, nil, err
		}
		fs = append(fs, f)
	}
	return sc, in, m, fs, nil
}

func main() {
	scenarios := flag.String("scenarios", "", "NDJSON file of scenarios")
	tracePath := flag.String("trace", "", "output trace")
	sumPath := flag.String("summary", "", "output summary JSON")
	chunk := flag.Int("chunk", 0, "split the trace into files of about this many events")
	seed := flag.Int("seed", 1, "VERIF_SEED")
	sweepN := flag.Int("sweep", 0, "number of fault-free scenarios to sweep over every real call index of run 1 x {fail, crashAfter}")
	realN := flag.Int("realgen", 0, "number of scenarios run with the untouched RSA certificate generator")
	workers := flag.Int("workers", 12, "parallel scenario executions")
	prof := flag.String("cpuprofile", "", "write a CPU profile")
	flag.Parse()
	debug.SetGCPercent(400)
	if *prof != "" {
		f, _ := os.Create(*prof)
		_ = pprof.StartCPUProfile(f)
		defer pprof.StopCPUProfile()
	}

	raws, err := scen.Load(*scenarios)
	if err != nil {
		fmt.Fprintln(os.Stderr, err)
		os.Exit(2)
	}
	tw, err := trace.New(*tracePath, *chunk)
	if err != nil {
		fmt.Fprintln(os.Stderr, err)
		os.Exit(2)
	}
	makeKeyPool(40, 1024)
	total := newStats()
	hows := []string{"error", "conflict", "crashBefore"}

	type job struct {
		sc      scenario
		in      input
		m       map[string]any
		fs      []fault
		how     string
		real    bool
		sweep   bool
		derived bool
	}
	type res struct {
		evs [][]map[string]any
		st  *stats
	}
	// decide deterministically which scenarios run with the real generator / are swept
	js := make([]job, len(raws))
	realLeft := *realN
	for i, raw := range raws {
		sc, in, m, fs, err := parse(raw)
		if err != nil {
			fmt.Fprintln(os.Stderr, "bad scenario:", err)
			os.Exit(2)
		}
		how := sc.How
		if how == "" {
			how = hows[(i+*seed)%3]
		}
		for k := range fs {
			if fs[k].How == "" {
				fs[k].How = how
			}
		}
		if sc.Sweep != nil {
			fs = append(fs, fault{Run: 1, At: fmt.Sprintf("#%d", sc.Sweep.Idx), F: sc.Sweep.F, How: how})
		}
		j := job{sc: sc, in: in, m: m, fs: fs, how: how, real: sc.RealGen}
		if !j.real && realLeft > 0 && sc.Sweep == nil && (i+*seed)%7 == 0 && (in.Srv == "absent" || in.Srv == "empty") {
			j.real = true
			realLeft--
		}
		js[i] = j
	}
	// sweep: evenly spaced fault-free scenarios
	var free []int
	for i, j := range js {
		if len(j.fs) == 0 && !j.real {
			free = append(free, i)
		}
	}
	if *sweepN > 0 && len(free) > 0 {
		n := *sweepN
		if n > len(free) {
			n = len(free)
		}
		for k := 0; k < n; k++ {
			js[free[(k*len(free)/n+*seed)%len(free)]].sweep = true
		}
	}
	// the sweep: every real call index of run 1 x {fail, crashAfter}, then fault-free reruns
	var all []job
	for _, j := range js {
		all = append(all, j)
		if !j.sweep {
			continue
		}
		pw := newWorld(j.sc.ID, j.in, j.m, false)
		pw.doRun()
		for k := 1; k <= pw.c.Calls(); k++ {
			for _, f := range []string{"fail", "crashAfter"} {
				d := job{sc: j.sc, in: j.in, m: j.m, how: j.how, derived: true}
				d.sc.ID = fmt.Sprintf("%s/sweep-k%d-%s-%s", j.sc.ID, k, f, j.how)
				d.fs = []fault{{Run: 1, At: fmt.Sprintf("#%d", k), F: f, How: j.how}}
				all = append(all, d)
			}
		}
	}
	exec := func(j job) res {
		st := newStats()
		id := j.sc.ID
		if len(j.fs) > 0 && j.sc.How == "" && j.sc.Sweep == nil && !j.derived {
			id += "/" + j.how
		}
		evs := [][]map[string]any{one(id, j.in, j.m, j.fs, j.real, st)}
		if j.derived {
			st.SweepRuns++
		}
		return res{evs: evs, st: st}
	}
	rawOf := map[string]json.RawMessage{}
	for i, j := range js {
		rawOf[j.sc.ID] = raws[i]
	}
	js = all
	const batch = 512
	for start := 0; start < len(js); start += batch {
		end := start + batch
		if end > len(js) {
			end = len(js)
		}
		out := make([]res, end-start)
		idx := make(chan int)
		var wg sync.WaitGroup
		for n := 0; n < *workers; n++ {
			wg.Add(1)
			go func() {
				defer wg.Done()
				for i := range idx {
					out[i-start] = exec(js[i])
				}
			}()
		}
		for i := start; i < end; i++ {
			idx <- i
		}
		close(idx)
		wg.Wait()
		for k, r := range out {
			if !js[start+k].derived {
				total.Scenarios++
			}
			total.add(r.st)
			for _, evs := range r.evs {
				tw.Boundary()
				for _, e := range evs {
					tw.Emit(e)
				}
			}
			if len(total.Samples) < 2 && len(r.evs) > 0 && len(r.evs[0]) > 1 {
				total.Samples = append(total.Samples, map[string]any{"scenario": rawOf[js[start+k].sc.ID], "trace_first": r.evs[0][0], "trace_last": r.evs[0][len(r.evs[0])-1]})
			}
		}
	}
	total.FastGen = total.RealGen < total.Traces
	if err := tw.Close(); err != nil {
		fmt.Fprintln(os.Stderr, err)
		os.Exit(2)
	}
	if err := scen.WriteJSON(*sumPath, total); err != nil {
		fmt.Fprintln(os.Stderr, err)
		os.Exit(2)
	}
}
