SPECIFICATION Spec
CONSTANTS
  InitPkgs <- PkgInstalled
  InitRevs <- RevsSettled
  InitICs <- IcNone
  InitLock <- OnlyFalse
  ICs <- NoICs
  Img <- ImgBothOk
  MaxMgr = 0
  MaxRev = 1
  MaxFaults = 1
  MaxEnv = 1
  MidEnv = FALSE
  EnvKinds <- EnvDel
  Edits <- NoEdits
  FaultKinds <- OnlyMiss
  SeamOuts <- NoSeams
  FinFirst = TRUE
  FixRemoval = TRUE
  ManualInactive = TRUE
VIEW view
ACTION_CONSTRAINT Emit
CHECK_DEADLOCK FALSE
INVARIANTS LockBeforeFin
