SPECIFICATION Spec
CONSTANTS
  Inits <- InitsMixed
  EnvKinds = {"recreate", "ver", "s"}
  FaultKinds = {"fail", "crashAfter"}
  MaxEnv = 2
  MaxFaults = 1
  MaxRecs = 3
  Interleave = TRUE
  MidEnv = TRUE
  WaitEstablished = TRUE
  FixTypeRef = FALSE
  FixWatches = FALSE
VIEW view
ACTION_CONSTRAINT EmitEnd
CHECK_DEADLOCK FALSE
INVARIANTS Safe
PROPERTIES ForeignFrozen XrdSpecKept
