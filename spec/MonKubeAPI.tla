----------------------------- MODULE MonKubeAPI -----------------------------
(***************************************************************************)
(* Binds harness/simapi to its contract KubeAPI.tla: every record is one   *)
(* call against the real simapi (random operation sequences on a few       *)
(* objects) with the abstract state of the target before and after; each   *)
(* must satisfy the step relation.  A rule that fails is reported by name. *)
(***************************************************************************)
EXTENDS KubeAPI, Json, IOUtils
Trace == ndJsonDeserialize(IOEnv.VERIF_TRACE)
VARIABLE l
Viol(name, i) == PrintT("VIOL|" \o name \o "|" \o ToString(i) \o "|" \o Trace[i].scenario)
Check(i) ==
  LET e == Trace[i]
      pre == e.pre
      post == e.post
      op == e.op IN
  /\ (Reads(pre, op, post) \/ Viol("KubeAPI.Reads", i))
  /\ (Faults(pre, op, post) \/ Viol("KubeAPI.Faults", i))
  /\ (DryRun(pre, op, post) \/ Viol("KubeAPI.DryRun", i))
  /\ (Create(pre, op, post) \/ Viol("KubeAPI.Create", i))
  /\ (Update(pre, op, post) \/ Viol("KubeAPI.Update", i))
  /\ (StatusUpdate(pre, op, post) \/ Viol("KubeAPI.StatusUpdate", i))
  /\ (MergePatch(pre, op, post) \/ Viol("KubeAPI.MergePatch", i))
  /\ (Delete(pre, op, post) \/ Viol("KubeAPI.Delete", i))
  /\ (Apply(pre, op, post) \/ Viol("KubeAPI.Apply", i))
Init == l = 0
Next == /\ l < Len(Trace) /\ l' = l + 1 /\ Check(l')
        /\ (l' < Len(Trace) \/ PrintT("DONE|" \o ToString(l')))
Spec == Init /\ [][Next]_l
=============================================================================
