------------------------------ MODULE MonRBAC ------------------------------
(***************************************************************************)
(* Trace monitor for C18.  Every trace line is one input vector together   *)
(* with what the real RBAC manager code did with it (harness/drivers/rbac):*)
(* e.input = the vector emitted by MCRBAC, e.out = the projected outcome   *)
(* (rules the real validator rejected, ClusterRoles / ClusterRoleBinding   *)
(* read back from the store, write log of the judged reconcile).  The      *)
(* formulas below are evaluated on every line with the reference semantics *)
(* of RBAC.tla.  A false formula prints VIOL|<name>|<line>|<scenario>; the *)
(* monitor never stops early.                                              *)
(*                                                                         *)
(* Verdict formulas (C18 text in quotes):                                  *)
(*  Sound            "requests are granted only if every single requested  *)
(*                   rule is covered by the administrator's allow-list":   *)
(*                   granted => no sub-rule of the requests is uncovered   *)
(*                   under Kubernetes' Covers, not even when a literal "*" *)
(*                   resource name of the allow list is read as any name   *)
(*  Sound.ResourceNameStar  the remaining cell: granted although a         *)
(*                   sub-rule is covered only if "*" in the allow list's   *)
(*                   resourceNames is read as a wildcard (Kubernetes reads *)
(*                   it as the literal name "*") - suspected defect D12    *)
(*  AllOrNone        "if any request is not covered, no role at all is     *)
(*                   created or updated for that revision" (write log)     *)
(*  SystemRole       "a provider's system role contains only ..."          *)
(*  SystemRole.Render  the same for roles.RenderClusterRoles on its own    *)
(*  Family.NotMember / Family.Missed  "revisions of the same provider      *)
(*                   family from the same registry and organisation"       *)
(*  Binding.RoleRef / Binding.Subjects  the binding hands the revision's   *)
(*                   own system role to its own service accounts only      *)
(*  XrdRoles / XrdRoles.NoMore  "the roles derived for an XRD grant access *)
(*                   to exactly its composite and claim resources"         *)
(* Interpretations (the reading the code's authors evidently intended):    *)
(*  - "contains only" is containment: Den(system role) \subseteq allowed;   *)
(*    a revision that defines no resource gets no role at all, which is    *)
(*    less than allowed and not a violation;                               *)
(*  - C18 does not restrict verbs on a provider's own resources, so every  *)
(*    verb is allowed there (and on finalizers within those API groups);   *)
(*    for XRD roles the text says "exactly", so each role's denotation is  *)
(*    compared for equality with the per-role rules of rbac/definition;    *)
(*  - "some request rejected" in AllOrNone is the real validator's own     *)
(*    answer (or its error); whether that answer is right is Sound's job;  *)
(*  - the allow list is absent (no ClusterRole configured, or the object   *)
(*    does not exist) = nothing is allowed.                                *)
(* History independence: the validator families are also run on ONE       *)
(* long-lived validator (scenario ids ".../chained") whose allow list is   *)
(* edited in place between vectors, and the provider family with an earlier *)
(* reconcile of the same reconciler under another allow list (pre="wide"): *)
(* the same formulas must hold - the answer depends on the current allow   *)
(* list only, never on what was validated before.                          *)
(* Information only (INFO lines, never a violation):                       *)
(*  Completeness     rejected although Kubernetes' Covers holds            *)
(*  Drift.Granted / Drift.Expand / Drift.SystemRole  the real outcome      *)
(*                   differs from the reading of the code in RBAC.tla      *)
(***************************************************************************)
EXTENDS RBAC, Json, IOUtils

Trace == ndJsonDeserialize(IOEnv.VERIF_TRACE)
VARIABLE l

\* ---- JSON -> reference-semantics values
RuleOf(j) == Rule(Range(j.groups), Range(j.resources), Range(j.names), Range(j.verbs), Range(j.urls))
RulesOf(js) == {RuleOf(js[i]) : i \in DOMAIN js}
RevOf(j) == [label |-> j.label, src |-> j.src, refs |-> Range(j.refs)]
PathOf(j) == IF j.u # "" THEN <<"url", j.u, j.v>> ELSE <<"resource", j.g, j.r, j.n, j.v>>

\* valr: seeded random vectors beyond the enumerated domain (allow lists / requests of up to three rules, fields of up to three atoms)
IsVal(e) == e.fam \in {"val1", "valx", "val2", "valr"}
IsProv(e) == e.fam \in {"fam", "prov"}
Allow(e) == IF e.input.mode = "cr" THEN RulesOf(e.input.allow) ELSE {}    \* no allow list => nothing is allowed
Reqs(e) == RulesOf(e.input.reqs)
Self(e) == RevOf(e.input.self)
Members(e) == {RevOf(e.input.members[i]) : i \in DOMAIN e.input.members}

\* ---- what the real code did
ValidatorGranted(e) == e.out.err = "" /\ Len(e.out.rejected) = 0
AppliedRoleWrites(e) == {i \in DOMAIN e.out.writes : e.out.writes[i].kind = "ClusterRole" /\ e.out.writes[i].applied}
\* "granted": the validator families observe the validator's answer; the reconciler
\* families observe that the reconciler wrote roles carrying the requests
Granted(e) == IF IsVal(e) THEN ValidatorGranted(e) ELSE IsProv(e) /\ AppliedRoleWrites(e) # {}
OwnRoles(e, kind) == {e.out.roles[i] : i \in {j \in DOMAIN e.out.roles : e.out.roles[j].kind = kind /\ e.out.roles[j].ctrl = "self"}}

\* ---- Sound
Sound(e) == ((IsVal(e) \/ IsProv(e)) /\ Granted(e)) => UncoveredLenient(Allow(e), Reqs(e)) = {}
SoundStar(e) == ((IsVal(e) \/ IsProv(e)) /\ Granted(e)) =>
                  Uncovered(Allow(e), Reqs(e)) \subseteq UncoveredLenient(Allow(e), Reqs(e))

\* ---- AllOrNone: judged on the write log of the reconcile that saw the rejected request
AllOrNone(e) == (IsProv(e) /\ (Len(e.out.rejected) > 0 \/ e.out.err # "")) => AppliedRoleWrites(e) = {}

\* ---- SystemRole
AllowedRes(e) == Defined(Self(e).refs) \cup UNION {Defined(m.refs) : m \in {x \in Members(e) : IsMember(Self(e), x)}}
\* requests may appear in the role only if the validator let them pass
AllowedReqs(e) == IF ValidatorGranted(e) THEN Reqs(e) ELSE {}
\* (pre = "wide": the stored roles were written by an earlier reconcile under a wider allow list; when the requests are
\* rejected now, nothing may be written - AllOrNone - and the stored roles are the earlier ones, not judged here)
SystemRole(e) == (IsProv(e) /\ ~(e.input.pre = "wide" /\ ~ValidatorGranted(e))) => \A r \in OwnRoles(e, "system") :
                   DenSubset(RulesOf(r.rules), SystemAllowed(AllowedRes(e), AllowedReqs(e)))
SystemRoleRender(e) == IsProv(e) => \A i \in DOMAIN e.out.rendered : e.out.rendered[i].kind = "system" =>
                   DenSubset(RulesOf(e.out.rendered[i].rules), SystemAllowed(Defined(Self(e).refs), Reqs(e)))

\* ---- Family: a member is "counted" iff the system role gives access to its resources
Counted(e, m) == \E r \in OwnRoles(e, "system") :
                   LET rules == RulesOf(r.rules)
                       U == Universe(rules \cup SystemAllowed(Defined(m.refs), {}))
                   IN \E x \in Defined(m.refs) : <<x[1], <<x[2], "">>>> \in Touches(rules, U)
\* members that define something the revision does not define itself
Distinct(e) == {m \in Members(e) : Defined(m.refs) \cap Defined(Self(e).refs) = {} /\ Defined(m.refs) # {}}
FamilyNotMember(e) == IsProv(e) => \A m \in Distinct(e) : Counted(e, m) => IsMember(Self(e), m)
FamilyMissed(e) == (IsProv(e) /\ Granted(e) /\ OwnRoles(e, "system") # {}) =>
                     \A m \in Distinct(e) : IsMember(Self(e), m) => Counted(e, m)

\* ---- Binding
OwnedSubjects(e) == {<<"ServiceAccount", "crossplane-system", e.input.deps[i].sa>> :
                       i \in {j \in DOMAIN e.input.deps : e.input.deps[j].owner \in {"self", "selfnc"}}}
BindingRoleRef(e) == (e.fam = "bind" /\ e.out.binding.exists) =>
                       /\ e.out.binding.refKind = "ClusterRole"
                       /\ e.out.binding.refGroup = "rbac.authorization.k8s.io"
                       /\ \E r \in OwnRoles(e, "system") : r.name = e.out.binding.refName
BindingSubjects(e) == (e.fam = "bind" /\ e.out.binding.exists) =>
                        {<<s.kind, s.ns, s.name>> : s \in Range(e.out.binding.subjects)} \subseteq OwnedSubjects(e)

\* ---- XRD roles (stored by the reconciler, and rendered directly)
XrdRoleSet(e) == Range(e.out.roles) \cup Range(e.out.rendered)
XrdRoles(e) == e.fam = "xrd" => \A r \in XrdRoleSet(e) : DenEqual(RulesOf(r.rules), XrdAllowed(r.kind, e.input.xrd))
XrdRolesNoMore(e) == e.fam = "xrd" => \A r \in XrdRoleSet(e) : DenSubset(RulesOf(r.rules), XrdWidest(e.input.xrd))

\* ---- information
Complete(e) == ((IsVal(e) \/ IsProv(e)) /\ e.out.err = "" /\ Len(e.out.rejected) > 0) => ~Covers(Allow(e), Reqs(e))
DriftGranted(e) == ((IsVal(e) \/ IsProv(e)) /\ e.out.err = "") =>
                     {PathOf(e.out.rejected[i]) : i \in DOMAIN e.out.rejected} = CodeRejected(Allow(e), Reqs(e))
DriftExpand(e) == (IsVal(e) \/ IsProv(e)) => {PathOf(e.out.expand[i]) : i \in DOMAIN e.out.expand} = CodeExpandAll(Reqs(e))
DriftSystemRole(e) == (IsProv(e) /\ ValidatorGranted(e)) => \A r \in OwnRoles(e, "system") :
                        RulesOf(r.rules) = CodeSystemRules(AllowedRes(e), Reqs(e))

Viol(name, i) == PrintT("VIOL|" \o name \o "|" \o ToString(i) \o "|" \o Trace[i].scenario)
Info(name, i) == PrintT("INFO|" \o name \o "|" \o ToString(i) \o "|" \o Trace[i].scenario)
Check(i) ==
  LET e == Trace[i] IN
  /\ (Sound(e) \/ Viol("Sound", i))
  /\ (SoundStar(e) \/ Viol("Sound.ResourceNameStar", i))
  /\ (AllOrNone(e) \/ Viol("AllOrNone", i))
  /\ (SystemRole(e) \/ Viol("SystemRole", i))
  /\ (SystemRoleRender(e) \/ Viol("SystemRole.Render", i))
  /\ (FamilyNotMember(e) \/ Viol("Family.NotMember", i))
  /\ (FamilyMissed(e) \/ Viol("Family.Missed", i))
  /\ (BindingRoleRef(e) \/ Viol("Binding.RoleRef", i))
  /\ (BindingSubjects(e) \/ Viol("Binding.Subjects", i))
  /\ (XrdRoles(e) \/ Viol("XrdRoles", i))
  /\ (XrdRolesNoMore(e) \/ Viol("XrdRoles.NoMore", i))
  /\ (Complete(e) \/ Info("Completeness", i))
  /\ (DriftGranted(e) \/ Info("Drift.Granted", i))
  /\ (DriftExpand(e) \/ Info("Drift.Expand", i))
  /\ (DriftSystemRole(e) \/ Info("Drift.SystemRole", i))

Init == l = 0
Next == /\ l < Len(Trace) /\ l' = l + 1 /\ Check(l')
        /\ (l' < Len(Trace) \/ PrintT("DONE|" \o ToString(l')))
Spec == Init /\ [][Next]_l
=============================================================================
