------------------------------- MODULE MCInit -------------------------------
(***************************************************************************)
(* Bounded instance of Init.tla: enumerates the initial cluster contents   *)
(* x package reference forms x fault position, checks the design-level     *)
(* properties and emits one scenario (initial configuration + the faults   *)
(* chosen) per explored behaviour: a scenario contains environment choices *)
(* only.  The configurations come in three families; within a family the   *)
(* dimensions of one group of steps vary fully while the others take the   *)
(* values of a few base clusters (Bases), and faults are explored at the   *)
(* calls of that group (the steps are sequential and only coupled through  *)
(* the server certificate -> caBundle, which the "tls" family covers).     *)
(***************************************************************************)
EXTENDS Init, Json

CONSTANTS CAs, Srvs, Clis, Esss, Crds, Whcs,        \* family "tls"
          Kinds, Hosts, ReqVers, InstNames, InstVers, Req2s,   \* family "pkg"
          Defs, Storeds,                             \* family "def"
          Fams, BaseNames

NoInst == [n |-> "none", h |-> "", v |-> ""]
Fresh == [fam |-> "x", ca |-> "absent", srv |-> "absent", cli |-> "absent", ess |-> "absent", crd |-> "absent", whc |-> "absent",
          lock |-> "absent", sc |-> "absent", drc |-> "absent", stored |-> "cur",
          kind |-> "prov", inst |-> NoInst, req |-> [h |-> "h", v |-> "t2"], req2 |-> FALSE]
\* what the Helm chart leaves behind: the three secrets exist and are empty
Helm == [Fresh EXCEPT !.ca = "empty", !.srv = "empty", !.cli = "empty"]
\* a cluster that was initialised before and has been used
Full == [Fresh EXCEPT !.ca = "complete", !.srv = "complete", !.cli = "complete", !.ess = "complete", !.crd = "current", !.whc = "current",
          !.lock = "edited", !.sc = "edited", !.drc = "edited", !.inst = [n |-> "def", h |-> "h", v |-> "t1"]]
Base(n) == CASE n = "fresh" -> Fresh [] n = "helm" -> Helm [] n = "full" -> Full
Bases == {Base(n) : n \in BaseNames}

SrvHasCrt(s) == s \in {"crt", "complete", "foreign"}
TlsCfgs == {c \in {[b EXCEPT !.fam = "tls", !.ca = a, !.srv = s, !.cli = l, !.ess = e, !.crd = d, !.whc = w] :
                     b \in Bases, a \in CAs, s \in Srvs, l \in Clis, e \in Esss, d \in Crds, w \in Whcs} :
              (c.crd = "current" \/ c.whc = "current") => SrvHasCrt(c.srv)}
Insts == {NoInst} \cup [n : InstNames, h : Hosts, v : InstVers]
PkgCfgs == {[b EXCEPT !.fam = "pkg", !.kind = k, !.inst = i, !.req = q, !.req2 = t] :
              b \in Bases, k \in Kinds, i \in Insts, q \in [h : Hosts, v : ReqVers], t \in Req2s}
DefCfgs == {c \in {[b EXCEPT !.fam = "def", !.lock = l, !.sc = s, !.drc = d, !.stored = o] :
                     b \in Bases, l \in Defs, s \in Defs, d \in Defs, o \in Storeds} :
              c.stored = "old" => c.crd # "absent"}
MCCfgs == (IF "tls" \in Fams THEN TlsCfgs ELSE {}) \cup (IF "pkg" \in Fams THEN PkgCfgs ELSE {})
          \cup (IF "def" \in Fams THEN DefCfgs ELSE {})

Prefix(l, p) == Len(l) >= Len(p) /\ SubSeq(l, 1, Len(p)) = p
LabelSet == {Labels[i] : i \in 1..N}
MCFaultAt(c) ==
  CASE c.fam = "tls" -> {l \in LabelSet : Prefix(l, "tls.") \/ Prefix(l, "crds.") \/ Prefix(l, "whc.") \/ Prefix(l, "ess.") \/ l = "mig.get.1"}
    [] c.fam = "pkg" -> {l \in LabelSet : Prefix(l, "pkg.") \/ Prefix(l, "lock.")}
    [] c.fam = "def" -> {l \in LabelSet : Prefix(l, "mig.") \/ Prefix(l, "lock.") \/ l \in {"sc.put", "drc.put", "pkg.list.prov"}}

\* one scenario per behaviour: emitted when the last run ends
Emit == (pc # 0 /\ pc' = 0 /\ run = MaxRuns) => PrintT(<<"TRACE", ToJson(hist')>>)
=============================================================================
