---------------------------- MODULE MonConditions ----------------------------
(***************************************************************************)
(* Trace monitor for Conditions (C05): every record is one reconcile of    *)
(* the real composite.Reconciler (or claim.Reconciler) with its input      *)
(* vector and the conditions stored before and after.                      *)
(***************************************************************************)
EXTENDS Conditions, Json, IOUtils

Trace == ndJsonDeserialize(IOEnv.VERIF_TRACE)
VARIABLE l
Viol(name, i) == PrintT("VIOL|" \o name \o "|" \o ToString(i) \o "|" \o Trace[i].scenario)
Check(i) ==
  LET e == Trace[i]
      v == e.input
      o == e.after
      p == e.before IN
  IF v.fam = "xr" THEN
    /\ (ReadyTruth(v, o) \/ Viol("ReadyTruth", i))
    /\ (ReadyNotNewOnError(v, o, p) \/ Viol("ReadyTruth.NewOnError", i))
    /\ (SyncedTruth(v, o) \/ Viol("SyncedTruth", i))
    /\ (SyncedFalseOnError(v, o) \/ Viol("SyncedTruth.TrueOnError", i))
    /\ (NoForgery(v, o) \/ Viol("NoForgery", i))
    /\ (CustomKept(v, o) \/ Viol("CustomKept", i))
    /\ (UnknownOnFatal(v, o, p) \/ Viol("UnknownOnFatal", i))
  ELSE
    /\ (ClaimReady(v, o) \/ Viol("ClaimReady", i))
    /\ (e.composed \/ Viol("ClaimReady.Setup", i))     \* exactly one XR was bound: the vector ran as intended

Init == l = 0
Next == /\ l < Len(Trace) /\ l' = l + 1 /\ Check(l')
        /\ (l' < Len(Trace) \/ PrintT("DONE|" \o ToString(l')))
Spec == Init /\ [][Next]_l
=============================================================================
