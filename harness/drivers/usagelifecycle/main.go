// Driver for spec/UsageLifecycle.tla (X10): replays TLC behaviours against the real
// Usage reconciler (internal/controller/apiextensions/usage: reconciler.go with its
// real selector resolver and the real APIFinalizer, wrapped in
// errors.WithSilentRequeueOnConflict as Setup does) and the real DELETE webhook
// (internal/usage, set up by usage.SetupWebhookWithManager on a fake manager, reached
// through its http.Handler with an AdmissionReview), both on one simapi store.
//
//   - whether the webhook is consulted is decided by the rules, the objectSelector,
//     the failurePolicy and sideEffects read at run time from
//     cluster/webhookconfigurations/usage.yaml (sideEffects None / NoneOnDryRun: the
//     API server sends dry-run requests to the webhook, with dryRun: true);
//   - one long-lived reconciler serves every Usage; a crash retires it (and the
//     goroutines it started) and a new process is built;
//   - a replayed deletion is a goroutine of the real code that sleeps 2 s and then
//     calls Delete: the driver's client wrapper holds that call at a gate until the
//     scenario fires it (or the scenario ends). After every deletion reconcile the
//     driver waits for such a call to arrive and records whether one did;
//   - scenarios run concurrently (each in its own world) because of those 2 s.
//
// One trace event per API call / environment step / delete request / reconcile end,
// each with the projected abstract state. No property logic here: the verdict comes
// from spec/MonUsageLifecycle.tla.
package main

import (
	"bytes"
	"context"
	"crypto/sha256"
	"encoding/json"
	"flag"
	"fmt"
	"net/http"
	"net/http/httptest"
	"os"
	"regexp"
	"strconv"
	"strings"
	"sync"
	"sync/atomic"
	"time"

	"github.com/go-logr/logr"
	admissionv1 "k8s.io/api/admission/v1"
	admregv1 "k8s.io/api/admissionregistration/v1"
	corev1 "k8s.io/api/core/v1"
	kerrors "k8s.io/apimachinery/pkg/api/errors"
	metav1 "k8s.io/apimachinery/pkg/apis/meta/v1"
	"k8s.io/apimachinery/pkg/apis/meta/v1/unstructured"
	"k8s.io/apimachinery/pkg/labels"
	"k8s.io/apimachinery/pkg/runtime"
	"k8s.io/apimachinery/pkg/runtime/schema"
	"k8s.io/apimachinery/pkg/types"
	"k8s.io/utils/ptr"
	"sigs.k8s.io/controller-runtime/pkg/client"
	"sigs.k8s.io/controller-runtime/pkg/healthz"
	ctrllog "sigs.k8s.io/controller-runtime/pkg/log"
	"sigs.k8s.io/controller-runtime/pkg/reconcile"
	"sigs.k8s.io/yaml"

	xpcontroller "github.com/crossplane/crossplane-runtime/pkg/controller"
	xperrors "github.com/crossplane/crossplane-runtime/pkg/errors"
	"github.com/crossplane/crossplane-runtime/pkg/event"
	"github.com/crossplane/crossplane-runtime/pkg/logging"

	"github.com/crossplane/crossplane/apis/apiextensions/v1beta1"
	usagectl "github.com/crossplane/crossplane/internal/controller/apiextensions/usage"
	usagehook "github.com/crossplane/crossplane/internal/usage"
	"github.com/crossplane/crossplane/zzverif/fakes"
	"github.com/crossplane/crossplane/zzverif/replay"
	"github.com/crossplane/crossplane/zzverif/scen"
	"github.com/crossplane/crossplane/zzverif/simapi"
	"github.com/crossplane/crossplane/zzverif/trace"
)

const (
	grp       = "example.org"
	usedKind  = "Thing"
	usingKind = "Consumer"
	xrKind    = "XParent"
	xrName    = "xr"
	bName     = "b1"
	selKey    = "pick"
	selVal    = "me"

	// projection only (unexported constants of the reconciler package)
	usageFinalizer = "usage.apiextensions.crossplane.io"
	detailsAnn     = "crossplane.io/usage-details"
	composedLabel  = "crossplane.io/composite"
	inUseLabel     = "crossplane.io/in-use"
	touchAnn       = "example.org/touched"
	pollMillis     = 60000
)

var (
	bKey  = simapi.Key{Group: grp, Kind: usingKind, Name: bName}
	xrKey = simapi.Key{Group: grp, Kind: xrKind, Name: xrName}
	bg    = context.Background()

	// how long the driver waits for a replayed deletion to reach the gate
	expectWait = 40 * time.Second        // when the reconcile's own reads say one was started
	quietWait  = 2600 * time.Millisecond // when they say none was (a mutant may disagree)
)

func usedKey(name string) simapi.Key { return simapi.Key{Group: grp, Kind: usedKind, Name: name} }
func usageKey(name string) simapi.Key {
	return simapi.Key{Group: v1beta1.Group, Kind: v1beta1.UsageKind, Name: name}
}

func obj(apiVersion, kind, name string) *unstructured.Unstructured {
	u := &unstructured.Unstructured{Object: map[string]any{}}
	u.SetAPIVersion(apiVersion)
	u.SetKind(kind)
	u.SetName(name)
	return u
}

func orNone(s string) string {
	if s == "" {
		return "none"
	}
	return s
}

func has(l []string, s string) bool {
	for _, x := range l {
		if x == s {
			return true
		}
	}
	return false
}

func strList(v any) []string {
	var out []string
	if l, ok := v.([]any); ok {
		for _, x := range l {
			out = append(out, x.(string))
		}
	}
	return out
}

// ---------------------------------------------------------------- the webhook server and indexer handed to SetupWebhookWithManager

type whServer struct{ hooks map[string]http.Handler }

func (s *whServer) NeedLeaderElection() bool { return false }
func (s *whServer) Register(path string, hook http.Handler) {
	if _, dup := s.hooks[path]; dup {
		panic("webhook registered twice on " + path)
	}
	s.hooks[path] = hook
}
func (s *whServer) Start(context.Context) error     { return nil }
func (s *whServer) StartedChecker() healthz.Checker { return func(*http.Request) error { return nil } }
func (s *whServer) WebhookMux() *http.ServeMux      { return http.NewServeMux() }

// ---------------------------------------------------------------- the controller process

// held is a replayed deletion that reached the gate.
type held struct {
	p       *process
	name    string
	rv      string
	uid     string
	pol     string
	src     *recInfo
	release chan struct{}
	done    chan struct{}
	drop    bool
	ev      *simapi.Event
	adm     admission
}

type process struct {
	w       *world
	n       int
	c       *simapi.Client
	rec     reconcile.Reconciler
	retired bool
	copies  map[string]*unstructured.Unstructured // the Usage as this process last read or wrote it
}

// recClient is the client the reconciler gets: simapi, except that a Delete of a used resource (the reconciler
// deletes nothing else) waits at a gate, and that the length of a listed UsageList is recorded.
type recClient struct {
	client.Client
	p *process
}

func (r *recClient) List(ctx context.Context, list client.ObjectList, opts ...client.ListOption) error {
	err := r.Client.List(ctx, list, opts...)
	if ul, ok := list.(*v1beta1.UsageList); ok && err == nil {
		r.p.w.listedUsages(len(ul.Items))
	}
	return err
}

func (r *recClient) Delete(ctx context.Context, o client.Object, opts ...client.DeleteOption) error {
	w := r.p.w
	gvk := o.GetObjectKind().GroupVersionKind()
	if gvk.Kind != usedKind || gvk.Group != grp {
		return r.Client.Delete(ctx, o, opts...)
	}
	do := &client.DeleteOptions{}
	do.ApplyOptions(opts)
	h := &held{p: r.p, name: o.GetName(), rv: o.GetResourceVersion(), uid: string(o.GetUID()), pol: "none",
		release: make(chan struct{}), done: make(chan struct{})}
	if do.PropagationPolicy != nil {
		h.pol = string(*do.PropagationPolicy)
	}
	w.mu.Lock()
	if w.closed || r.p.retired {
		w.mu.Unlock()
		return simapi.ErrCrashed // the process (or the whole world) is gone: the goroutine would be, too
	}
	w.held = append(w.held, h)
	w.arrivedN++
	w.mu.Unlock()
	select {
	case w.arrive <- struct{}{}:
	default:
	}
	<-h.release
	if h.drop {
		return simapi.ErrCrashed
	}
	w.curHeld = h
	err := w.replayC.Delete(ctx, o, opts...)
	w.curHeld = nil
	close(h.done)
	return err
}

type recorder struct{ w *world }

func (r *recorder) Event(_ runtime.Object, e event.Event) {
	if c := r.w.cur; c != nil {
		c.evs = append(c.evs, string(e.Type)+":"+string(e.Reason))
	}
}
func (r *recorder) WithAnnotations(...string) event.Recorder { return r }

// ---------------------------------------------------------------- the world

type recInfo struct {
	actor    string
	rec      int
	seen     map[string]any
	listedOf []any
	listedBy []any
	ugot     map[string]any
	bgot     map[string]any
	nlisted  int
	fails    []any
	okcalls  []any
	evs      []any
	statusOK bool
	usedRVs  map[string]bool
	replays  int
	injected string
	envSteps int
	startDig string
}

func newRec(actor string, n int) *recInfo {
	return &recInfo{actor: actor, rec: n, nlisted: -1, usedRVs: map[string]bool{}}
}

type admission struct {
	allowed bool
	via     string // bypass | webhook | nohandler | rejected
	code    int
	msg     string
}

type uattr struct{ sel, ctl bool }

type world struct {
	s      *simapi.Server
	sch    *runtime.Scheme
	scenID string
	buf    []map[string]any
	n      int

	usages []string
	useds  []string
	uattrs map[string]*uattr
	bsel   bool
	bfin   bool
	cfgs   map[string]map[string]any
	xrUID  types.UID

	whcfg     *admregv1.ValidatingWebhookConfiguration
	whs       *whServer
	idxFn     client.IndexerFunc
	hook      *simapi.Client
	hookFault string
	user      *simapi.Client
	replayC   *simapi.Client
	lastAdm   admission
	curHeld   *held

	proc  *process
	procs int

	mu       sync.Mutex
	held     []*held
	arrivedN int // deferred Deletes that ever reached the gate
	arrive   chan struct{}
	closed   bool

	al         *replay.Aligner
	tail       []replay.Entry // last block only: the environment steps after the scenario's last call
	lastBlock  bool
	expCalls   int
	matched    int
	beyond     bool // the scenario ended in the middle of this reconcile: the rest of it runs unaligned
	cur        *recInfo
	recNo      int
	recs       []*recInfo
	pendingAbs string
	touched    int
	prevEnd    map[string][2]string // Usage -> {clean ("1"/""), digest at the end of its previous reconcile}

	drift    int
	driftAbs []string
	expects  int
	arrivals int
	late     int
}

type recIndexer struct {
	inner client.FieldIndexer
	w     *world
}

func (r *recIndexer) IndexField(ctx context.Context, o client.Object, field string, fn client.IndexerFunc) error {
	if field == usagehook.InUseIndexKey {
		r.w.idxFn = fn
	}
	return r.inner.IndexField(ctx, o, field, fn)
}

func loadWebhookConfig(path string) (*admregv1.ValidatingWebhookConfiguration, error) {
	b, err := os.ReadFile(path)
	if err != nil {
		return nil, err
	}
	cfg := &admregv1.ValidatingWebhookConfiguration{}
	if err := yaml.UnmarshalStrict(b, cfg); err != nil {
		return nil, err
	}
	if len(cfg.Webhooks) == 0 {
		return nil, fmt.Errorf("%s declares no webhook", path)
	}
	return cfg, nil
}

func (w *world) ctrlRef() []metav1.OwnerReference {
	return []metav1.OwnerReference{{APIVersion: grp + "/v1", Kind: xrKind, Name: xrName, UID: w.xrUID, Controller: ptr.To(true), BlockOwnerDeletion: ptr.To(true)}}
}

func (w *world) putUsed(name string) {
	a := w.uattrs[name]
	u := obj(grp+"/v1", usedKind, name)
	_ = unstructured.SetNestedField(u.Object, "large", "spec", "size")
	u.SetLabels(map[string]string{"app": "db"})
	u.SetAnnotations(map[string]string{"example.org/note": "keep"})
	if a.sel {
		u.SetLabels(map[string]string{"app": "db", selKey: selVal})
	}
	if a.ctl {
		u.SetOwnerReferences(w.ctrlRef())
	}
	w.s.Put(u)
}

func (w *world) putB() {
	b := obj(grp+"/v1", usingKind, bName)
	if w.bsel {
		b.SetLabels(map[string]string{selKey: selVal})
	}
	b.SetOwnerReferences(w.ctrlRef())
	if w.bfin {
		b.SetFinalizers([]string{"example.org/hold"})
	}
	w.s.Put(b)
}

func newWorld(id string, init map[string]any, whcfg *admregv1.ValidatingWebhookConfiguration) *world {
	sch := runtime.NewScheme()
	_ = v1beta1.AddToScheme(sch)
	s := simapi.NewServer(sch)
	w := &world{s: s, sch: sch, scenID: id, whcfg: whcfg, uattrs: map[string]*uattr{}, cfgs: map[string]map[string]any{},
		arrive: make(chan struct{}, 64), prevEnd: map[string][2]string{}, bsel: true}
	w.usages = strList(init["usages"])
	w.useds = strList(init["useds"])
	usel, uctl := strList(init["usel"]), strList(init["uctl"])
	w.bfin, _ = init["bfin"].(bool)

	xro := obj(grp+"/v1", xrKind, xrName)
	w.xrUID = s.Put(xro).GetUID()
	w.putB()
	for _, name := range w.useds {
		w.uattrs[name] = &uattr{sel: has(usel, name), ctl: has(uctl, name)}
		w.putUsed(name)
	}

	// the real webhook, set up the way cmd/crossplane does
	w.hook = simapi.NewClient(s, "webhook")
	w.hook.Intercept = func(cl *simapi.Call) simapi.Decision {
		if (w.hookFault == "list" && cl.Verb == "list") || (w.hookFault == "patch" && strings.HasPrefix(cl.Verb, "patch")) {
			return simapi.FailError
		}
		return simapi.Proceed
	}
	w.whs = &whServer{hooks: map[string]http.Handler{}}
	mgr := &fakes.Manager{Client: w.hook, Sch: sch, Indexer: &recIndexer{inner: simapi.NewClient(s, "indexer"), w: w}, Webhook: w.whs}
	if err := usagehook.SetupWebhookWithManager(mgr, xpcontroller.Options{Logger: logging.NewNopLogger()}); err != nil {
		panic(err)
	}
	s.DeleteAdmission = func(o *unstructured.Unstructured, opts *client.DeleteOptions) error {
		pol := "none"
		if opts != nil && opts.PropagationPolicy != nil {
			pol = string(*opts.PropagationPolicy)
		}
		a := w.admit(o, pol, false)
		w.lastAdm = a
		if !a.allowed {
			return kerrors.NewConflict(schema.GroupResource{Group: o.GroupVersionKind().Group, Resource: o.GetKind()}, o.GetName(), fmt.Errorf("admission webhook denied the request: %s", a.msg))
		}
		return nil
	}
	w.user = simapi.NewClient(s, "user")
	w.replayC = simapi.NewClient(s, "usage-replay")
	w.newProc()
	s.OnEvent = w.onEvent
	return w
}

func (w *world) newProc() {
	w.procs++
	p := &process{w: w, n: w.procs, copies: map[string]*unstructured.Unstructured{}}
	p.c = simapi.NewClient(w.s, fmt.Sprintf("usage#%d", w.procs))
	p.c.Intercept = w.intercept
	r := usagectl.NewReconciler(&fakes.Manager{Client: &recClient{Client: p.c, p: p}, Sch: w.sch},
		usagectl.WithPollInterval(pollMillis*time.Millisecond), usagectl.WithRecorder(&recorder{w: w}))
	p.rec = xperrors.WithSilentRequeueOnConflict(r) // as Setup wraps it (the rate limiter in front of it is left out)
	w.proc = p
}

// retire: the process died; the goroutines it started die with it.
func (w *world) retire(p *process) {
	w.mu.Lock()
	p.retired = true
	var keep []*held
	for _, h := range w.held {
		if h.p == p {
			h.drop = true
			close(h.release)
		} else {
			keep = append(keep, h)
		}
	}
	w.held = keep
	w.mu.Unlock()
}

// ---------------------------------------------------------------- DELETE admission as the API server performs it

func ruleMatches(r admregv1.RuleWithOperations, gvk schema.GroupVersionKind) bool {
	in := func(l []string, vs ...string) bool {
		for _, x := range l {
			for _, v := range vs {
				if x == v {
					return true
				}
			}
		}
		return false
	}
	ops := make([]string, len(r.Operations))
	for i, o := range r.Operations {
		ops[i] = string(o)
	}
	return in(ops, "*", "DELETE") && in(r.APIGroups, "*", gvk.Group) && in(r.APIVersions, "*", gvk.Version) &&
		in(r.Resources, "*", "*/*", strings.ToLower(gvk.Kind)+"s")
}

func (w *world) serve(path string, req *admissionv1.AdmissionRequest) (*admissionv1.AdmissionResponse, bool) {
	h := w.whs.hooks[path]
	if h == nil {
		return nil, false
	}
	review := admissionv1.AdmissionReview{TypeMeta: metav1.TypeMeta{Kind: "AdmissionReview", APIVersion: "admission.k8s.io/v1"}, Request: req}
	body, _ := json.Marshal(review)
	hr := httptest.NewRequest(http.MethodPost, path, bytes.NewReader(body))
	hr.Header.Set("Content-Type", "application/json")
	rr := httptest.NewRecorder()
	h.ServeHTTP(rr, hr)
	resp := admissionv1.AdmissionReview{}
	if err := json.Unmarshal(rr.Body.Bytes(), &resp); err != nil || resp.Response == nil {
		return &admissionv1.AdmissionResponse{Allowed: false, Result: &metav1.Status{Code: 0, Message: "undecodable webhook response"}}, true
	}
	return resp.Response, true
}

func (w *world) request(o *unstructured.Unstructured, op admissionv1.Operation, pol string, dry bool) *admissionv1.AdmissionRequest {
	gvk := o.GroupVersionKind()
	raw, _ := json.Marshal(o.Object)
	do := metav1.DeleteOptions{TypeMeta: metav1.TypeMeta{Kind: "DeleteOptions", APIVersion: "meta.k8s.io/v1"}}
	if pol != "none" {
		p := metav1.DeletionPropagation(pol)
		do.PropagationPolicy = &p
	}
	if dry {
		do.DryRun = []string{metav1.DryRunAll}
	}
	rawOpts, _ := json.Marshal(do)
	req := &admissionv1.AdmissionRequest{
		UID:       "req",
		Kind:      metav1.GroupVersionKind{Group: gvk.Group, Version: gvk.Version, Kind: gvk.Kind},
		Resource:  metav1.GroupVersionResource{Group: gvk.Group, Version: gvk.Version, Resource: strings.ToLower(gvk.Kind) + "s"},
		Name:      collectionName(o.GetName()),
		Operation: op,
		Options:   runtime.RawExtension{Raw: rawOpts},
		DryRun:    ptr.To(dry),
	}
	if op == admissionv1.Delete {
		req.OldObject = runtime.RawExtension{Raw: raw}
	} else {
		req.Object = runtime.RawExtension{Raw: raw}
	}
	return req
}

// admit: the DELETE of o with the given propagation policy as the API server treats it.
func (w *world) admit(o *unstructured.Unstructured, pol string, dry bool) admission {
	gvk := o.GroupVersionKind()
	out := admission{allowed: true, via: "bypass"}
	for _, wh := range w.whcfg.Webhooks {
		match := false
		for _, r := range wh.Rules {
			match = match || ruleMatches(r, gvk)
		}
		if !match {
			continue
		}
		if wh.ObjectSelector != nil {
			sel, err := metav1.LabelSelectorAsSelector(wh.ObjectSelector)
			if err != nil {
				panic(err)
			}
			if !sel.Matches(labels.Set(o.GetLabels())) {
				continue
			}
		}
		if dry && (wh.SideEffects == nil || (*wh.SideEffects != admregv1.SideEffectClassNone && *wh.SideEffects != admregv1.SideEffectClassNoneOnDryRun)) {
			// a webhook that may have side effects cannot take part in a dry-run request: the API server fails the request
			return admission{allowed: false, via: "rejected", code: 400, msg: "dry run is not supported: webhook has side effects"}
		}
		path := ""
		if wh.ClientConfig.Service != nil && wh.ClientConfig.Service.Path != nil {
			path = *wh.ClientConfig.Service.Path
		}
		resp, ok := w.serve(path, w.request(o, admissionv1.Delete, pol, dry))
		if !ok {
			// nothing serves the configured path: failurePolicy decides
			if wh.FailurePolicy == nil || *wh.FailurePolicy == admregv1.Fail {
				return admission{allowed: false, via: "nohandler", code: 500, msg: "no handler registered on " + path}
			}
			continue
		}
		out.via = "webhook"
		if !resp.Allowed {
			out.allowed = false
			if resp.Result != nil {
				out.code = int(resp.Result.Code)
				out.msg = string(resp.Result.Reason) + resp.Result.Message
			}
			return out
		}
	}
	return out
}

var inUseRe = regexp.MustCompile(`^This resource is in-use by (\d+) Usage\(s\), including the Usage "([^"]*)"(?: by resource ([^/]*)/(.*)\.| with reason: "(.*)"\.|\.)$`)

func annOf(o *unstructured.Unstructured) string {
	if o == nil {
		return "none"
	}
	if v, ok := o.GetAnnotations()[usagehook.AnnotationKeyDeletionAttempt]; ok {
		return v
	}
	return "none"
}

func noReq() map[string]any {
	return map[string]any{"op": "", "kind": "none", "u": "none", "pol": "", "dry": false, "wf": "none", "o": "", "via": "", "code": 0, "cls": "",
		"n": 0, "who": "none", "how": "none", "hkind": "", "hname": "", "hreason": "", "ann": "none"}
}

// reqOf projects a decision: what was asked, what was answered, and the in-use message taken apart.
func (w *world) reqOf(kind, name, pol string, dry bool, wf, outcome string, a admission) map[string]any {
	m := noReq()
	m["op"], m["kind"], m["u"], m["pol"], m["dry"], m["wf"], m["o"], m["via"], m["code"] = "DELETE", kind, name, pol, dry, wf, outcome, a.via, a.code
	switch {
	case a.allowed:
		m["cls"] = "allowed"
	case inUseRe.MatchString(a.msg):
		g := inUseRe.FindStringSubmatch(a.msg)
		m["cls"] = "inuse"
		m["n"], _ = strconv.Atoi(g[1])
		m["who"] = g[2]
		switch {
		case strings.Contains(a.msg, " by resource "):
			m["how"], m["hkind"], m["hname"] = "by", g[3], g[4]
		case strings.Contains(a.msg, " with reason: "):
			m["how"], m["hreason"] = "reason", g[5]
		default:
			m["how"] = "plain"
		}
	case strings.Contains(a.msg, "panic"):
		m["cls"] = "panic"
	default:
		m["cls"] = "error"
	}
	if kind == "used" {
		m["ann"] = annOf(w.s.Peek(usedKey(name)))
	}
	return m
}

// ---------------------------------------------------------------- projection

func digestOf(v any) string {
	b, _ := json.Marshal(v)
	return fmt.Sprintf("%x", sha256.Sum256(b))[:12]
}

func ctlOf(o *unstructured.Unstructured) string {
	if c := metav1.GetControllerOf(o); c != nil {
		return string(c.UID)
	}
	return "none"
}

func noUsed(id string) map[string]any {
	return map[string]any{"id": id, "ex": false, "uid": "", "del": false, "lab": false, "rawlab": "none", "ann": "none", "sel": false, "ctl": "none", "rest": ""}
}

func (w *world) usedProj(id string, o *unstructured.Unstructured) map[string]any {
	m := noUsed(id)
	if o == nil {
		return m
	}
	m["ex"], m["uid"], m["del"] = true, string(o.GetUID()), o.GetDeletionTimestamp() != nil
	m["lab"] = o.GetLabels()[inUseLabel] == "true" // the marker the reconciler writes (what the webhook configuration selects on is the API server's business: admit)
	if v, ok := o.GetLabels()[inUseLabel]; ok {
		m["rawlab"] = v
	}
	m["ann"] = annOf(o)
	m["sel"] = o.GetLabels()[selKey] == selVal
	m["ctl"] = ctlOf(o)
	// everything else neither the reconciler nor the webhook has any business changing
	lab := map[string]string{}
	for k, v := range o.GetLabels() {
		if k != inUseLabel {
			lab[k] = v
		}
	}
	ann := map[string]string{}
	for k, v := range o.GetAnnotations() {
		if k != usagehook.AnnotationKeyDeletionAttempt {
			ann[k] = v
		}
	}
	spec, _, _ := unstructured.NestedMap(o.Object, "spec")
	st, _, _ := unstructured.NestedMap(o.Object, "status")
	m["rest"] = digestOf(map[string]any{"lab": lab, "ann": ann, "own": o.GetOwnerReferences(), "fin": o.GetFinalizers(), "spec": spec, "status": st})
	return m
}

func noUsage(id string) map[string]any {
	return map[string]any{"id": id, "ex": false, "uid": "", "del": false, "fin": false, "of": "none", "by": "none", "ofsel": "none", "bysel": "none",
		"byset": false, "ofapi": "", "ofkind": "", "byapi": "", "bykind": "", "reason": "none", "replay": false, "comp": false, "ctl": "none",
		"det": "none", "owners": []any{}, "ready": "none", "conds": 0, "rest": "", "idx": []any{}}
}

func selMode(r *v1beta1.Resource) string {
	switch {
	case r == nil:
		return "none"
	case r.ResourceSelector == nil:
		return "ref"
	case r.ResourceSelector.MatchControllerRef != nil && *r.ResourceSelector.MatchControllerRef:
		return "selctl"
	}
	return "sel"
}

func (w *world) usageProj(id string, o *unstructured.Unstructured) map[string]any {
	m := noUsage(id)
	if o == nil {
		return m
	}
	u := &v1beta1.Usage{}
	if err := runtime.DefaultUnstructuredConverter.FromUnstructured(o.Object, u); err != nil {
		panic(err)
	}
	m["ex"], m["uid"], m["del"] = true, string(u.GetUID()), u.GetDeletionTimestamp() != nil
	var ofins []string
	for _, f := range u.GetFinalizers() {
		if f == usageFinalizer {
			m["fin"] = true
		} else {
			ofins = append(ofins, f)
		}
	}
	if r := u.Spec.Of.ResourceRef; r != nil && r.Name != "" {
		m["of"] = r.Name
	}
	m["ofsel"], m["ofapi"], m["ofkind"] = selMode(&u.Spec.Of), u.Spec.Of.APIVersion, u.Spec.Of.Kind
	if by := u.Spec.By; by != nil {
		m["byset"], m["bysel"], m["byapi"], m["bykind"] = true, selMode(by), by.APIVersion, by.Kind
		if by.ResourceRef != nil && by.ResourceRef.Name != "" {
			m["by"] = by.ResourceRef.Name
		}
	}
	if u.Spec.Reason != nil {
		m["reason"] = *u.Spec.Reason
	}
	m["replay"] = u.Spec.ReplayDeletion != nil && *u.Spec.ReplayDeletion
	m["comp"] = u.GetLabels()[composedLabel] != ""
	m["ctl"] = ctlOf(o)
	if v, ok := u.GetAnnotations()[detailsAnn]; ok {
		m["det"] = v
	}
	owners := []any{}
	for _, or := range u.GetOwnerReferences() {
		owners = append(owners, map[string]any{"api": or.APIVersion, "kind": or.Kind, "name": or.Name, "uid": string(or.UID),
			"ctl": or.Controller != nil && *or.Controller})
	}
	m["owners"] = owners
	m["conds"] = len(u.Status.Conditions)
	if c := u.Status.GetCondition("Ready"); c.Status != corev1.ConditionUnknown || c.Reason != "" {
		m["ready"] = string(c.Status) + ":" + string(c.Reason)
	}
	// what belongs to the user: the spec but the resolved names, labels, annotations but ours, other finalizers
	spec := u.Spec.DeepCopy()
	if spec.Of.ResourceRef != nil && m["ofsel"] != "ref" {
		spec.Of.ResourceRef = nil
	}
	if spec.By != nil && spec.By.ResourceRef != nil && m["bysel"] != "ref" {
		spec.By.ResourceRef = nil
	}
	ann := map[string]string{}
	for k, v := range u.GetAnnotations() {
		if k != detailsAnn {
			ann[k] = v
		}
	}
	m["rest"] = digestOf(map[string]any{"spec": spec, "lab": u.GetLabels(), "ann": ann, "fin": ofins})
	idx := []any{}
	if w.idxFn != nil {
		for _, v := range w.idxFn(u) {
			idx = append(idx, v)
		}
	}
	m["idx"] = idx
	return m
}

func (w *world) post() map[string]any {
	used, us := []any{}, []any{}
	var bm map[string]any
	h := sha256.New()
	w.s.Read(func(keys []simapi.Key, all map[simapi.Key]*unstructured.Unstructured) {
		for _, k := range keys {
			fmt.Fprintf(h, "%s=%s;", k, all[k].GetResourceVersion())
		}
		for _, n := range w.useds {
			used = append(used, w.usedProj(n, all[usedKey(n)]))
		}
		for _, n := range w.usages {
			us = append(us, w.usageProj(n, all[usageKey(n)]))
		}
		bm = map[string]any{"ex": false, "del": false, "uid": "", "sel": false, "ctl": "none"}
		if b := all[bKey]; b != nil {
			bm["ex"], bm["del"], bm["uid"], bm["sel"], bm["ctl"] = true, b.GetDeletionTimestamp() != nil, string(b.GetUID()), b.GetLabels()[selKey] == selVal, ctlOf(b)
		}
	})
	w.mu.Lock()
	nheld := len(w.held)
	w.mu.Unlock()
	return map[string]any{"used": used, "us": us, "b": bm, "held": nheld, "digest": fmt.Sprintf("%x", h.Sum(nil)[:8])}
}

func (w *world) digest() string { return w.post()["digest"].(string) }

// seenOf: what the monitor needs of the Usage as the reconcile's first Get returned it
func seenOf(m map[string]any) map[string]any {
	for _, k := range []string{"idx", "owners", "ofapi", "ofkind", "byapi", "bykind", "reason", "det", "ready", "conds", "rest"} {
		delete(m, k)
	}
	m["got"] = false
	return m
}

func noSeen() map[string]any { return seenOf(noUsage("none")) }

func noUgot() map[string]any {
	return map[string]any{"got": false, "ex": false, "uid": "", "lab": false, "ann": "none", "name": "none"}
}
func noBgot() map[string]any { return map[string]any{"got": false, "ex": false, "uid": ""} }
func noRW() map[string]any {
	return map[string]any{"arrived": false, "pol": "", "mode": "", "rv": "", "uid": ""}
}

func (w *world) emitFor(ri *recInfo, ev string, m map[string]any) {
	w.n++
	base := map[string]any{"ev": ev, "scenario": w.scenID, "n": w.n, "actor": "env", "rec": 0, "proc": w.procs,
		"verb": "", "kind": "", "name": "none", "abs": "", "outcome": "", "injected": "", "applied": false, "noop": false,
		"seen": noSeen(), "listedOf": []any{}, "listedBy": []any{}, "ugot": noUgot(), "bgot": noBgot(), "nlisted": -1,
		"fails": []any{}, "okcalls": []any{}, "evs": []any{}, "statusOK": false, "replays": 0, "src": "none",
		"result": "", "requeue": false, "after": 0, "clean": false, "prevClean": false, "startDigest": "", "prevDigest": "",
		"req": noReq(), "rw": noRW(), "post": w.post()}
	if ri != nil {
		base["actor"], base["rec"] = ri.actor, ri.rec
		if ri.seen != nil {
			base["seen"] = ri.seen
		}
		if ri.ugot != nil {
			base["ugot"] = ri.ugot
		}
		if ri.bgot != nil {
			base["bgot"] = ri.bgot
		}
		base["listedOf"], base["listedBy"] = append([]any{}, ri.listedOf...), append([]any{}, ri.listedBy...)
		base["nlisted"] = ri.nlisted
		base["fails"], base["okcalls"], base["evs"] = append([]any{}, ri.fails...), append([]any{}, ri.okcalls...), append([]any{}, ri.evs...)
		base["statusOK"], base["replays"], base["startDigest"] = ri.statusOK, ri.replays, ri.startDig
		base["src"] = "rec"
	}
	for k, v := range m {
		base[k] = v
	}
	w.buf = append(w.buf, base)
}

func (w *world) emit(ev string, m map[string]any) { w.emitFor(w.cur, ev, m) }

// ---------------------------------------------------------------- classification of the real calls

func nested(o *unstructured.Unstructured, fields ...string) string {
	if o == nil {
		return ""
	}
	v, _, _ := unstructured.NestedString(o.Object, fields...)
	return v
}

func ownerUIDs(o *unstructured.Unstructured) string {
	var s []string
	if o != nil {
		for _, or := range o.GetOwnerReferences() {
			s = append(s, string(or.UID))
		}
	}
	return strings.Join(s, ",")
}

func (w *world) classify(cl *simapi.Call) string {
	switch {
	case cl.Key.Kind == v1beta1.UsageKind && cl.Key.Group == v1beta1.Group:
		switch {
		case cl.Verb == "list":
			return "list:usages"
		case cl.Verb == "get":
			return "get:usage"
		case cl.Verb == "update" && cl.Sub == "status":
			return "status:usage"
		case cl.Verb == "update" && cl.Obj != nil:
			// what this write changes relative to the process's own copy of the Usage
			cur := w.proc.copies[cl.Key.Name]
			if cur == nil {
				cur = &unstructured.Unstructured{Object: map[string]any{}}
			}
			nf, cf := has(cl.Obj.GetFinalizers(), usageFinalizer), has(cur.GetFinalizers(), usageFinalizer)
			switch {
			case nf && !cf:
				return "update:addfin"
			case !nf && cf:
				return "update:rmfin"
			case nested(cl.Obj, "spec", "of", "resourceRef", "name") != nested(cur, "spec", "of", "resourceRef", "name"):
				return "update:resolve-of"
			case nested(cl.Obj, "spec", "by", "resourceRef", "name") != nested(cur, "spec", "by", "resourceRef", "name"):
				return "update:resolve-by"
			case cl.Obj.GetAnnotations()[detailsAnn] != cur.GetAnnotations()[detailsAnn]:
				return "update:details"
			}
			return "update:own"
		}
		return cl.Verb + "-" + cl.Sub + ":usage"
	case cl.Key.Kind == usedKind && cl.Key.Group == grp:
		switch {
		case cl.Verb == "update" && cl.Obj != nil:
			if _, ok := cl.Obj.GetLabels()[inUseLabel]; ok {
				return "update:label"
			}
			return "update:unlabel"
		case cl.Verb == "list":
			return "list:used"
		}
		return cl.Verb + ":used"
	case cl.Key.Kind == usingKind && cl.Key.Group == grp:
		if cl.Verb == "list" {
			return "list:using"
		}
		return cl.Verb + ":using"
	}
	return "other:" + cl.Key.Kind
}

func (w *world) intercept(cl *simapi.Call) simapi.Decision {
	abs := w.classify(cl)
	w.pendingAbs = abs
	if w.al == nil || w.beyond {
		return simapi.Proceed
	}
	if w.lastBlock && w.matched == w.expCalls {
		// the scenario ends in the middle of this reconcile: its last environment steps happen now
		w.beyond = true
		t := w.tail
		w.tail = nil
		for _, e := range t {
			w.env(e)
		}
		return simapi.Proceed
	}
	d := w.al.OnCall(abs, cl.Write)
	if w.al.Matched != nil {
		w.matched++
	}
	if m := w.al.Matched; m != nil && m.F == "conflict" {
		w.al.Injected = simapi.FailConflict.String()
		if cl.Write {
			return simapi.FailConflict
		}
		return simapi.FailError
	}
	return d
}

func (w *world) listedUsages(n int) {
	if w.cur != nil {
		w.cur.nlisted = n
	}
}

func (w *world) candidates(kind string) []any {
	out := []any{}
	for _, o := range w.s.All(schema.GroupKind{Group: grp, Kind: kind}) {
		out = append(out, map[string]any{"name": o.GetName(), "match": o.GetLabels()[selKey] == selVal, "ctl": ctlOf(o)})
	}
	return out
}

func (w *world) onEvent(e *simapi.Event) {
	if e.Actor == w.replayC.Actor {
		if h := w.curHeld; h != nil {
			h.ev, h.adm = e, w.lastAdm
		}
		return
	}
	if e.Actor != w.proc.c.Actor || w.cur == nil {
		return // webhook, indexer, user, a retired process
	}
	if e.Outcome == "dropped" && e.Injected == "" {
		return // the process is dead: the call never reached the store
	}
	c := w.cur
	abs := w.pendingAbs
	if e.Injected != "" {
		c.injected = e.Injected // (a cache miss is a fault here, too)
	}
	kind := map[string]string{v1beta1.UsageKind: "usage", usedKind: "used", usingKind: "using"}[e.Kind]
	if kind == "" {
		kind = "other"
	}
	if kind == "usage" && e.Outcome == "ok" {
		switch {
		case e.Verb == "get":
			w.proc.copies[e.Name] = w.s.Peek(usageKey(e.Name))
		case e.PostObj != nil:
			w.proc.copies[e.Name] = e.PostObj
		case e.Removed:
			delete(w.proc.copies, e.Name)
		}
	}
	real := e.Injected == "" || e.Injected == "crashAfter"
	switch {
	case abs == "get:usage" && real && (e.Outcome == "ok" || e.Outcome == "notfound"):
		c.seen = seenOf(w.usageProj(e.Name, w.s.Peek(usageKey(e.Name))))
		c.seen["got"] = true
	case abs == "list:used" && real && e.Outcome == "ok":
		c.listedOf = w.candidates(usedKind)
	case abs == "list:using" && real && e.Outcome == "ok":
		c.listedBy = w.candidates(usingKind)
	case abs == "get:used" && real && (e.Outcome == "ok" || e.Outcome == "notfound"):
		o := w.s.Peek(usedKey(e.Name))
		c.ugot = noUgot()
		c.ugot["got"], c.ugot["name"] = true, e.Name
		if o != nil && e.Outcome == "ok" {
			c.ugot["ex"], c.ugot["uid"], c.ugot["lab"], c.ugot["ann"] = true, string(o.GetUID()), o.GetLabels()[inUseLabel] == "true", annOf(o)
			c.usedRVs[o.GetResourceVersion()] = true
		}
	case kind == "used" && e.Verb == "update" && real && e.Outcome == "ok" && e.PostObj != nil:
		c.usedRVs[e.PostObj.GetResourceVersion()] = true
	case abs == "get:using" && real && (e.Outcome == "ok" || e.Outcome == "notfound"):
		c.bgot = noBgot()
		c.bgot["got"] = true
		if o := w.s.Peek(bKey); o != nil && e.Outcome == "ok" {
			c.bgot["ex"], c.bgot["uid"] = true, string(o.GetUID())
		}
	}
	if e.Outcome != "ok" {
		c.fails = append(c.fails, map[string]any{"abs": abs, "outcome": e.Outcome, "injected": e.Injected})
	} else if e.Injected == "" {
		c.okcalls = append(c.okcalls, abs)
	}
	if abs == "status:usage" && e.Outcome == "ok" && e.Injected == "" {
		c.statusOK = true
	}
	verb := e.Verb
	if e.Sub != "" {
		verb += "-" + e.Sub
	}
	w.emit("call", map[string]any{"verb": verb, "kind": kind, "name": e.Name, "abs": abs, "outcome": e.Outcome, "injected": e.Injected,
		"applied": e.Applied && !e.DryRun, "noop": e.Noop})
}

// ---------------------------------------------------------------- the environment

func (w *world) usageFor(name string, cfg map[string]any) *v1beta1.Usage {
	of, _ := cfg["of"].(string)
	by, _ := cfg["by"].(string)
	comp, _ := cfg["comp"].(bool)
	rep, _ := cfg["replay"].(bool)
	rsn, _ := cfg["rsn"].(bool)
	res := func(kind, how string) v1beta1.Resource {
		r := v1beta1.Resource{APIVersion: grp + "/v1", Kind: kind}
		switch how {
		case "sel":
			r.ResourceSelector = &v1beta1.ResourceSelector{MatchLabels: map[string]string{selKey: selVal}}
		case "selctl":
			r.ResourceSelector = &v1beta1.ResourceSelector{MatchLabels: map[string]string{selKey: selVal}, MatchControllerRef: ptr.To(true)}
		default:
			r.ResourceRef = &v1beta1.ResourceRef{Name: how}
		}
		return r
	}
	u := &v1beta1.Usage{ObjectMeta: metav1.ObjectMeta{Name: name}}
	u.Spec.Of = res(usedKind, of)
	if by != "none" {
		r := res(usingKind, by)
		u.Spec.By = &r
	}
	if rsn {
		u.Spec.Reason = ptr.To("protected: " + name)
	}
	switch {
	case rep:
		u.Spec.ReplayDeletion = ptr.To(true)
	case name != w.usages[0]:
		u.Spec.ReplayDeletion = ptr.To(false) // absent for the first Usage, an explicit false for the others
	}
	if comp {
		// what the composer puts on a composed resource
		u.SetLabels(map[string]string{composedLabel: xrName})
		u.SetAnnotations(map[string]string{"crossplane.io/composition-resource-name": "usage-" + name})
		u.SetOwnerReferences(w.ctrlRef())
	}
	return u
}

// userDelete: a DELETE through the API server by a user; dry-run requests are admitted here because simapi does not
// consult its DeleteAdmission hook for them (the API server does call webhooks that declare no side effects).
func (w *world) userDelete(o *unstructured.Unstructured, pol string, dry bool) (string, admission) {
	var opts []client.DeleteOption
	if pol != "none" {
		opts = append(opts, client.PropagationPolicy(metav1.DeletionPropagation(pol)))
	}
	w.lastAdm = admission{allowed: true, via: "none"}
	if dry {
		cur := w.s.Peek(simapi.KeyOf(o))
		if cur == nil {
			return "notfound", w.lastAdm
		}
		a := w.admit(cur, pol, true)
		if !a.allowed {
			return "deny", a
		}
		w.lastAdm = a
		opts = append(opts, client.DryRunAll)
	}
	err := w.user.Delete(bg, o, opts...)
	switch {
	case err == nil:
		w.finishForeground(simapi.KeyOf(o))
		return "allow", w.lastAdm
	case kerrors.IsNotFound(err):
		return "notfound", w.lastAdm
	}
	return "deny", w.lastAdm
}

// a foreground deletion of an object without dependents completes at once
func (w *world) finishForeground(k simapi.Key) {
	w.s.Mutate(k, func(u *unstructured.Unstructured) {
		if u.GetDeletionTimestamp() != nil && has(u.GetFinalizers(), metav1.FinalizerDeleteDependents) {
			fs := []string{}
			for _, f := range u.GetFinalizers() {
				if f != metav1.FinalizerDeleteDependents {
					fs = append(fs, f)
				}
			}
			u.SetFinalizers(fs)
		}
	})
}

func (w *world) fire(name string) bool {
	w.mu.Lock()
	var h *held
	for i, x := range w.held {
		if name == "" || x.name == name {
			h = x
			w.held = append(w.held[:i:i], w.held[i+1:]...)
			break
		}
	}
	w.mu.Unlock()
	if h == nil {
		return false
	}
	w.lastAdm = admission{allowed: true, via: "none"}
	close(h.release)
	<-h.done
	out := "deny"
	if h.ev != nil {
		switch h.ev.Outcome {
		case "ok":
			out = "allow"
			w.finishForeground(usedKey(h.name))
		case "notfound":
			out = "notfound"
		}
	}
	w.emitFor(h.src, "replay", map[string]any{"verb": "delete", "kind": "used", "name": h.name, "abs": "delete:replay", "outcome": out,
		"req": w.reqOf("used", h.name, h.pol, false, "none", out, h.adm),
		"rw":  map[string]any{"arrived": true, "pol": h.pol, "mode": "fired", "rv": h.rv, "uid": h.uid}})
	return true
}

func (w *world) env(e replay.Entry) {
	if w.cur != nil {
		w.cur.envSteps++
	}
	for k := range w.prevEnd {
		w.prevEnd[k] = [2]string{"", w.prevEnd[k][1]}
	}
	ev := map[string]any{"verb": e.K, "name": orNone(e.O), "abs": "env:" + e.K}
	switch e.K {
	case "create":
		cfg, _ := e.Raw["cfg"].(map[string]any)
		w.cfgs[e.O] = cfg
		w.s.Put(w.usageFor(e.O, cfg))
	case "delS":
		out, a := w.userDelete(obj(v1beta1.SchemeGroupVersion.String(), v1beta1.UsageKind, e.O), "none", false)
		ev["req"] = w.reqOf("usage", e.O, "none", false, "none", out, a)
	case "replayS":
		w.s.Mutate(usageKey(e.O), func(u *unstructured.Unstructured) {
			cur, _, _ := unstructured.NestedBool(u.Object, "spec", "replayDeletion")
			_ = unstructured.SetNestedField(u.Object, !cur, "spec", "replayDeletion")
		})
	case "reasonS":
		w.touched++
		w.s.Mutate(usageKey(e.O), func(u *unstructured.Unstructured) {
			_ = unstructured.SetNestedField(u.Object, fmt.Sprintf("changed %d", w.touched), "spec", "reason")
		})
	case "touchS":
		w.touched++
		w.s.Mutate(usageKey(e.O), func(u *unstructured.Unstructured) {
			a := u.GetAnnotations()
			if a == nil {
				a = map[string]string{}
			}
			a[touchAnn] = fmt.Sprint(w.touched)
			u.SetAnnotations(a)
		})
	case "relabelU":
		a := w.uattrs[e.O]
		a.sel = !a.sel
		w.s.Mutate(usedKey(e.O), func(u *unstructured.Unstructured) {
			l := u.GetLabels()
			if l == nil {
				l = map[string]string{}
			}
			if a.sel {
				l[selKey] = selVal
			} else {
				delete(l, selKey)
			}
			u.SetLabels(l)
		})
	case "dropU":
		w.s.Remove(usedKey(e.O))
	case "makeU":
		w.putUsed(e.O)
	case "recreateU":
		w.s.Remove(usedKey(e.O))
		w.putUsed(e.O)
	case "delB":
		out, a := w.userDelete(obj(grp+"/v1", usingKind, bName), "none", false)
		ev["req"] = w.reqOf("using", bName, "none", false, "none", out, a)
	case "finB":
		w.s.Mutate(bKey, func(u *unstructured.Unstructured) {
			if u.GetDeletionTimestamp() != nil {
				u.SetFinalizers(nil)
			}
		})
	case "makeB":
		w.putB()
	case "relabelB":
		w.bsel = !w.bsel
		w.s.Mutate(bKey, func(u *unstructured.Unstructured) {
			l := map[string]string{}
			if w.bsel {
				l[selKey] = selVal
			}
			u.SetLabels(l)
		})
	case "gc":
		w.s.GCStep()
	case "delreq":
		pol, _ := e.Raw["pol"].(string)
		dry, _ := e.Raw["dry"].(bool)
		wf, _ := e.Raw["wf"].(string)
		w.hookFault = wf
		out, a := w.userDelete(obj(grp+"/v1", usedKind, e.O), pol, dry)
		w.hookFault = ""
		w.emit("delreq", map[string]any{"verb": "delete", "kind": "used", "name": e.O, "abs": "env:delreq", "outcome": out,
			"req": w.reqOf("used", e.O, pol, dry, orNone(wf), out, a)})
		return
	case "fire":
		if !w.fire(e.O) {
			w.note("-delete:replay")
		}
		return
	default:
		panic("unknown env step " + e.K)
	}
	w.emit("env", ev)
}

func (w *world) note(k string) {
	w.drift++
	w.driftAbs = append(w.driftAbs, k)
}

// probes: the handler serves DELETE only
func (w *world) probeOps() {
	path := ""
	if c := w.whcfg.Webhooks[0].ClientConfig.Service; c != nil && c.Path != nil {
		path = *c.Path
	}
	o := w.s.Peek(usedKey(w.useds[0]))
	for _, op := range []admissionv1.Operation{admissionv1.Create, admissionv1.Update, admissionv1.Connect} {
		resp, ok := w.serve(path, w.request(o, op, "none", false))
		m := noReq()
		m["op"], m["kind"], m["u"] = string(op), "used", w.useds[0]
		if ok {
			m["o"] = "deny"
			if resp.Allowed {
				m["o"] = "allow"
			}
			if resp.Result != nil {
				m["code"] = int(resp.Result.Code)
			}
		}
		w.emit("probe", map[string]any{"abs": "probe:" + string(op), "req": m})
	}
}

// ---------------------------------------------------------------- reconciles

type sweep struct {
	rec, idx int
	d        simapi.Decision
}

func (w *world) heldCount() int {
	w.mu.Lock()
	defer w.mu.Unlock()
	return w.arrivedN
}

// awaitReplay waits until a replayed deletion started by the reconcile that just ended reaches the gate.
func (w *world) awaitReplay(c *recInfo, before int, crashed bool) {
	if crashed || c.seen == nil || c.seen["got"] != true || c.seen["del"] != true || c.ugot == nil || c.ugot["got"] != true {
		return
	}
	reached := true
	for _, f := range c.fails {
		if f.(map[string]any)["abs"] != "update:rmfin" {
			reached = false
		}
	}
	for _, e := range c.evs {
		if e == "Normal:WaitingUsingDeleted" {
			reached = false
		}
	}
	rep, ann := c.seen["replay"] == true, c.ugot["ann"] != "none" && c.ugot["ex"] == true
	mode, d := "", time.Duration(0)
	switch {
	case reached && rep && ann:
		mode, d = "expect", expectWait
		w.expects++
	case rep || ann:
		mode, d = "quiet", quietWait
	default:
		return
	}
	deadline := time.After(d)
	arrived, timedOut := false, false
	for !arrived && !timedOut {
		if w.heldCount() > before {
			arrived = true
			break
		}
		select {
		case <-w.arrive:
		case <-deadline:
			arrived, timedOut = w.heldCount() > before, true
		}
	}
	rw := noRW()
	rw["mode"] = mode
	if arrived {
		w.arrivals++
		w.mu.Lock()
		var h *held
		for _, x := range w.held {
			if x.src == nil {
				h = x
			}
		}
		w.mu.Unlock()
		if h != nil {
			h.src = c
			c.replays++
			rw["arrived"], rw["pol"], rw["rv"], rw["uid"] = true, h.pol, h.rv, h.uid
		}
	}
	w.emitFor(c, "replaywait", map[string]any{"abs": "replaywait", "rw": rw})
}

// attribute gives replayed deletions that arrived outside a wait a source: the earliest reconcile that was handed
// that resourceVersion of the used resource and has fewer replays than... (no more than one is started per reconcile).
func (w *world) attribute() {
	w.mu.Lock()
	defer w.mu.Unlock()
	for _, h := range w.held {
		if h.src != nil {
			continue
		}
		w.late++
		for _, r := range w.recs {
			if r.usedRVs[h.rv] && r.replays == 0 {
				h.src = r
				r.replays++
				break
			}
		}
	}
}

func (w *world) reconcile(name string, al *replay.Aligner, sw *sweep, count bool) int {
	w.recNo++
	al.Window = 0
	w.al = al
	c := newRec(name, w.recNo)
	c.startDig = w.digest()
	w.cur = c
	w.recs = append(w.recs, c)
	p := w.proc
	p.c.BeginReconcile()
	inner := w.intercept
	icpt := inner
	if sw != nil && sw.rec == w.recNo {
		icpt = func(cl *simapi.Call) simapi.Decision {
			d := inner(cl)
			if cl.Idx == sw.idx && d == simapi.Proceed {
				sd := sw.d
				if (sd == simapi.FailConflict || sd == simapi.CrashAfter) && !cl.Write {
					sd = simapi.FailError
				}
				if sd == simapi.CacheMiss && (cl.Write || cl.Verb != "get" || cl.Idx != 1) {
					sd = simapi.FailError
				}
				al.Injected = sd.String()
				return sd
			}
			return d
		}
	}
	p.c.Intercept = icpt
	before := w.heldCount()
	res, err := p.rec.Reconcile(bg, reconcile.Request{NamespacedName: types.NamespacedName{Name: name}})
	calls := p.c.Calls()
	crashed := p.c.Dead()
	result := "ok"
	if crashed {
		result = "crashed"
	} else if err != nil {
		result = "error"
	}
	if c.injected == "" {
		c.injected = al.Injected
	}
	clean := c.injected == "" && c.envSteps == 0 && !crashed
	prev := w.prevEnd[name]
	w.emit("end", map[string]any{"abs": "end", "result": result, "requeue": res.Requeue, "after": int(res.RequeueAfter / time.Millisecond),
		"injected": c.injected, "clean": clean, "prevClean": prev[0] == "1", "prevDigest": prev[1]})
	w.al = nil
	p.c.Intercept = inner
	if crashed {
		w.retire(p)
		w.newProc()
	}
	w.awaitReplay(c, before, crashed)
	w.cur = nil
	al.Env = func(e replay.Entry) { w.env(e) }
	envBefore := al.EnvSteps
	al.Finish() // environment steps the scenario placed after the last call it expected
	cl := ""
	if clean && al.EnvSteps == envBefore {
		cl = "1"
	}
	w.prevEnd[name] = [2]string{cl, w.digest()}
	if count {
		w.drift += al.Drift
		w.driftAbs = append(w.driftAbs, al.DriftAbs...)
	}
	return calls
}

type runResult struct {
	w     *world
	calls []int
	recs  int
}

func runOnce(id string, hist []replay.Entry, whcfg *admregv1.ValidatingWebhookConfiguration, sw *sweep, extra int, probe bool) runResult {
	w := newWorld(id, hist[0].Raw, whcfg)
	w.emit("reset", nil)
	if probe {
		w.probeOps()
	}
	blocks, trailing := replay.Split(hist[1:], func(e replay.Entry) bool { return e.Abs() == "get:usage" })
	var calls []int
	for bi, b := range blocks {
		for _, e := range b.Pre {
			w.env(e)
		}
		w.lastBlock, w.expCalls, w.matched, w.beyond, w.tail = bi == len(blocks)-1, 0, 0, false, nil
		for _, e := range b.Steps {
			if e.T == "call" {
				w.expCalls++
			}
		}
		if w.lastBlock {
			w.tail = trailing
		}
		name, _ := b.Steps[0].Raw["a"].(string)
		if b.Steps[0].Abs() != "get:usage" || name == "" {
			// (calls without a reconcile start: cannot happen in emitted histories)
			w.note("-" + b.Steps[0].Abs())
			continue
		}
		al := &replay.Aligner{Steps: append([]replay.Entry(nil), b.Steps...), Env: w.env}
		calls = append(calls, w.reconcile(name, al, sw, true))
	}
	if len(blocks) == 0 {
		w.tail = trailing
	}
	w.lastBlock, w.beyond = false, false
	for _, e := range w.tail {
		w.env(e)
	}
	w.tail = nil
	for i := 0; i < extra; i++ {
		for _, name := range w.usages {
			if w.s.Peek(usageKey(name)) != nil {
				calls = append(calls, w.reconcile(name, &replay.Aligner{Env: w.env}, sw, false))
			}
		}
	}
	// whatever is still waiting at the gate is issued now
	w.attribute()
	for w.fire("") {
	}
	w.mu.Lock()
	w.closed = true
	w.mu.Unlock()
	return runResult{w: w, calls: calls, recs: w.recNo}
}

// ---------------------------------------------------------------- main

type summary struct {
	Scenarios  int            `json:"scenarios"`
	Runs       int            `json:"runs"`
	Reconciles int            `json:"reconciles"`
	Events     int            `json:"events"`
	Drift      int            `json:"drift"`
	DriftRuns  int            `json:"drift_runs"`
	SweepRuns  int            `json:"sweep_runs"`
	Expected   int            `json:"replays_expected"`
	Arrived    int            `json:"replays_arrived"`
	Late       int            `json:"replays_outside_a_wait"`
	DriftByAbs map[string]int `json:"drift_by_abs"`
	Counts     map[string]int `json:"counts"`
	Samples    []any          `json:"samples"`
	DriftIDs   []string       `json:"drift_examples"`
}

type job struct {
	id    string
	hist  []replay.Entry
	sw    *sweep
	extra int
	base  bool // a base run: its sweep runs are derived from it
}

func main() {
	scenarios := flag.String("scenarios", "", "NDJSON file of TLC histories")
	tracePath := flag.String("trace", "", "output trace")
	sumPath := flag.String("summary", "", "output summary JSON")
	chunk := flag.Int("chunk", 0, "split the trace into files of about this many events")
	sweepN := flag.Int("sweep", 0, "number of scenarios to sweep over every real call index x outcome")
	extraN := flag.Int("extra", 2, "rounds of fault-free reconciles of every Usage appended to every scenario")
	par := flag.Int("par", 600, "worlds run concurrently (a replayed deletion sleeps 2 s of real time)")
	expWait := flag.Int("expectwait", 40, "seconds to wait for a replayed deletion that the reconcile's own reads say was started")
	whPath := flag.String("webhookcfg", "/repo/cluster/webhookconfigurations/usage.yaml", "the ValidatingWebhookConfiguration the simulated API server applies")
	flag.Parse()
	expectWait = time.Duration(*expWait) * time.Second
	ctrllog.SetLogger(logr.Discard())

	fail := func(err error) {
		fmt.Fprintln(os.Stderr, err)
		os.Exit(2)
	}
	whcfg, err := loadWebhookConfig(*whPath)
	if err != nil {
		fail(err)
	}
	raws, err := scen.Load(*scenarios)
	if err != nil {
		fail(err)
	}
	tw, err := trace.New(*tracePath, *chunk)
	if err != nil {
		fail(err)
	}
	sum := &summary{DriftByAbs: map[string]int{}}
	dec := map[string]simapi.Decision{"error": simapi.FailError, "conflict": simapi.FailConflict, "crashBefore": simapi.CrashBefore,
		"crashAfter": simapi.CrashAfter, "cacheMiss": simapi.CacheMiss}

	var wg sync.WaitGroup
	var out sync.Mutex
	sem := make(chan struct{}, *par)
	var launch func(j job)
	launched := 0
	launch = func(j job) {
		wg.Add(1)
		out.Lock()
		launched++
		probe := launched%25 == 1 // the handler's answer to non-DELETE operations does not depend on the scenario
		out.Unlock()
		go func() {
			defer wg.Done()
			sem <- struct{}{}
			r := runOnce(j.id, j.hist, whcfg, j.sw, j.extra, probe)
			<-sem
			out.Lock()
			tw.Boundary()
			for _, e := range r.w.buf {
				tw.Emit(e)
			}
			sum.Runs++
			sum.Reconciles += r.recs
			sum.Expected += r.w.expects
			sum.Arrived += r.w.arrivals
			sum.Late += r.w.late
			if j.sw == nil {
				if r.w.drift > 0 && len(sum.DriftIDs) < 20 {
					sum.DriftIDs = append(sum.DriftIDs, fmt.Sprintf("%s %v", j.id, r.w.driftAbs))
				}
				sum.Drift += r.w.drift
				if r.w.drift > 0 {
					sum.DriftRuns++
				}
				for _, k := range r.w.driftAbs {
					sum.DriftByAbs[k]++
				}
			} else {
				sum.SweepRuns++
			}
			out.Unlock()
			if j.base {
				// every real call index of every reconcile x every outcome, followed by the fault-free reconciles
				for rn, n := range r.calls {
					for k := 1; k <= n; k++ {
						for _, d := range []simapi.Decision{simapi.FailError, simapi.FailConflict, simapi.CrashBefore, simapi.CrashAfter, simapi.CacheMiss} {
							if d == simapi.CacheMiss && k != 1 {
								continue
							}
							launch(job{id: fmt.Sprintf("%s/sweep-r%d-k%d-%s", j.id, rn+1, k, d), hist: j.hist, sw: &sweep{rec: rn + 1, idx: k, d: d}, extra: j.extra})
						}
					}
				}
			}
		}()
	}

	for i, raw := range raws {
		var sc struct {
			ID    string          `json:"id"`
			Hist  json.RawMessage `json:"hist"`
			Extra *int            `json:"extra"`
			Sweep *struct {
				Rec     int    `json:"rec"`
				Idx     int    `json:"idx"`
				Outcome string `json:"outcome"`
			} `json:"sweep"`
		}
		if err := json.Unmarshal(raw, &sc); err != nil {
			fail(fmt.Errorf("bad scenario: %w", err))
		}
		hist, err := replay.Parse(sc.Hist)
		if err != nil || len(hist) == 0 || hist[0].T != "init" {
			fail(fmt.Errorf("bad scenario history in %s: %v", sc.ID, err))
		}
		sum.Scenarios++
		if len(sum.Samples) < 2 {
			sum.Samples = append(sum.Samples, json.RawMessage(raw))
		}
		ex := *extraN
		if sc.Extra != nil {
			ex = *sc.Extra
		}
		if sc.Sweep != nil {
			launch(job{id: sc.ID, hist: hist, sw: &sweep{rec: sc.Sweep.Rec, idx: sc.Sweep.Idx, d: dec[sc.Sweep.Outcome]}, extra: ex})
			continue
		}
		launch(job{id: sc.ID, hist: hist, extra: ex, base: i < *sweepN})
	}
	wg.Wait()
	sum.Events = tw.Lines
	sum.Counts = tw.Counts
	if err := tw.Close(); err != nil {
		fail(err)
	}
	if err := scen.WriteJSON(*sumPath, sum); err != nil {
		fail(err)
	}
}

// collectionName: every other admission request is shaped the way kube-apiserver shapes the per-item requests of a
// collection delete (kubectl delete <kind> --all): oldObject is the item, but the request's name is EMPTY. Whoever looks
// the object up by the request's name instead of the object's finds nothing (added after the seeded change C19-m7 was missed).
var admissionSeq atomic.Int64

func collectionName(name string) string {
	if admissionSeq.Add(1)%2 == 0 {
		return ""
	}
	return name
}
