SPECIFICATION Spec
CONSTANTS
  Cfgs <- MCCfgs
  FaultAt <- MCFaultAt
  FixD7 = TRUE
  MaxRuns = 3
  MaxFaults = 1
  Fams = {"tls", "pkg", "def"}
  BaseNames = {"helm", "full"}
  CAs = {"absent", "empty", "complete", "nokey", "nocert"}
  Srvs = {"absent", "empty", "crt", "key", "complete", "foreign"}
  Clis = {"empty", "partial", "complete"}
  Esss = {"absent"}
  Crds = {"absent", "stale", "current"}
  Whcs = {"stale"}
  Kinds = {"prov"}
  Hosts = {"", "h", "hp", "hd"}
  ReqVers = {"t2", "d1"}
  InstNames = {"def", "custom"}
  InstVers = {"t1", "d2"}
  Req2s = {FALSE, TRUE}
  Defs = {"absent", "edited"}
  Storeds = {"cur", "old"}
VIEW view
ACTION_CONSTRAINT Emit
CHECK_DEADLOCK FALSE
INVARIANTS Idempotent AbortRerun NoDupPkg Bundle
PROPERTIES KeepCA KeepCerts Chain Untouched
