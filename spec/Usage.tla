------------------------------- MODULE Usage -------------------------------
(***************************************************************************)
(* Usage protection as implemented at the pinned commit:                   *)
(*   - the Usage reconciler (internal/controller/apiextensions/usage/      *)
(*     reconciler.go Reconcile) and its selector resolver (selector.go),   *)
(*     one action per API call in code order, the reconciler's local copy  *)
(*     of the Usage and of the used resource are explicit variables;       *)
(*   - the API server's DELETE path for a used resource: the objectSelector*)
(*     of cluster/webhookconfigurations/usage.yaml (crossplane.io/in-use = *)
(*     "true") decides whether the webhook (internal/usage/handler.go) is  *)
(*     consulted; the webhook lists the Usages by the field index shared   *)
(*     with the controller and denies (recording the attempt on the used   *)
(*     resource) when there is one;                                        *)
(*   - the environment: users creating / deleting Usages, deleting the     *)
(*     using resource, Kubernetes garbage collection, the XR composer      *)
(*     re-applying a composed Usage, delete requests for used resources    *)
(*     at any time, faults and crashes at every call.                      *)
(*                                                                         *)
(* One reconcile per Usage may be in flight; reconciles of different       *)
(* Usages interleave at call granularity (Interleave).  API-server rule    *)
(* relied upon: an update that changes nothing keeps the resourceVersion   *)
(* (KubeAPI NoOp) - a write through another served version than the one    *)
(* last written is not a no-op (simapi stores the version written; a real  *)
(* API server records it in managedFields).                                *)
(*                                                                         *)
(* Interpretations (property C19):                                         *)
(*   "a Usage names U"      = its spec.of.resourceRef resolves to U (an    *)
(*                            unresolved selector names nothing yet);      *)
(*   "reports ready ... until deletion is requested" = ready /\ ~deleting; *)
(*   "recorded"             = the deletion-attempt annotation on U carries *)
(*                            the propagation policy of the request        *)
(*                            (Background when none was given).            *)
(* Scope restrictions written down here: used / using resources are not   *)
(* re-created; a Usage is not re-created while its own reconcile is in     *)
(* flight; spec.replayDeletion is not set; webhook calls do not fail.      *)
(***************************************************************************)
EXTENDS Integers, Sequences, FiniteSets, TLC

CONSTANTS
  USeq,        \* Usage names in creation order, e.g. <<"s1", "s2">>
  Useds,       \* used resource names in the order a List returns them
  USel,        \* used resources carrying the label the resource selectors match
  UCtl,        \* used resources controlled by the XR ("xr") that composes composed Usages
  Versions,    \* served API versions of the used kind
  Configs,     \* Usage specs the environment may create: [of, ver, by, comp]
               \*   of: a used name | "sel" | "selctl";  by: "none" | "b1" | "sel" | "selctl"
  Policies,    \* propagation policies of delete requests ("none" = not given)
  MaxCreates, MaxFaults, MaxDel,
  Interleave,  \* TRUE: reconciles of different Usages interleave call by call
  MidEnv,      \* TRUE: the environment may act in the middle of a reconcile
  BFin,        \* TRUE: the using resource carries a finalizer (its deletion takes two steps)
  FixBump      \* FALSE = the code as written; TRUE = candidate repair: labelling always changes the used resource

Usages == {USeq[i] : i \in 1..Len(USeq)}
U == {Useds[i] : i \in 1..Len(Useds)}
None == "none"
B == "b1"
XR == "xr"

VARIABLES
  used,     \* used name -> [ex, label, ann, rv, sv]: in-use label, deletion-attempt annotation, resourceVersion, version last written
  bst,      \* the using resource: "live" | "deleting" (deletion requested, a finalizer holds it) | "gone"
  us,       \* Usage name -> the stored Usage
  pc,       \* Usage name -> program counter of its reconcile ("idle" = none in flight)
  loc,      \* the reconciler's copy of the Usage (as read, refreshed by its own successful writes)
  seen,     \* resourceVersion of the used resource as the reconciler read it
  cnd,      \* selector candidate found by the last List
  listN,    \* number of Usages the deletion branch listed
  chg,      \* the reconciler changed the Usage in this reconcile (u differs from orig)
  faults, creates, dels,
  hist      \* ghost: the behaviour so far as scenario steps (hidden by VIEW)

vars == <<used, bst, us, pc, loc, seen, cnd, listN, chg, faults, creates, dels, hist>>
\* resourceVersions only matter through "did it move since I read it"
view == <<[u \in U |-> [used[u] EXCEPT !.rv = 0]], bst, us, pc, loc,
          [s \in Usages |-> loc[s].of \in U /\ seen[s] = used[loc[s].of].rv],
          cnd, listN, chg, faults, creates, dels>>

bex == bst # "gone"      \* the using resource exists (a Get finds it, a List returns it, the garbage collector sees it)
NoUsage == [ex |-> FALSE, of |-> None, ofm |-> "ref", ver |-> "v1", by |-> None, bym |-> None, comp |-> FALSE,
            fin |-> FALSE, det |-> FALSE, owners |-> {}, ready |-> FALSE, del |-> FALSE]
NoUsed == [ex |-> FALSE, label |-> FALSE, ann |-> None, rv |-> 0, sv |-> "v1"]

HC(s, k, o, f) == [t |-> "call", a |-> s, k |-> k, o |-> o, f |-> f]
HE(k, o) == [t |-> "env", a |-> "env", k |-> k, o |-> o, f |-> ""]
Log(e) == hist' = Append(hist, e)

Init ==
  /\ used = [u \in U |-> [ex |-> TRUE, label |-> FALSE, ann |-> None, rv |-> 1, sv |-> "v1"]]
  /\ bst = "live"
  /\ us = [s \in Usages |-> NoUsage]
  /\ pc = [s \in Usages |-> "idle"] /\ loc = [s \in Usages |-> NoUsage]
  /\ seen = [s \in Usages |-> 0] /\ cnd = [s \in Usages |-> None] /\ listN = [s \in Usages |-> 0] /\ chg = [s \in Usages |-> FALSE]
  /\ faults = 0 /\ creates = 0 /\ dels = 0
  /\ hist = << [t |-> "init", usages |-> USeq, useds |-> Useds, usel |-> USel, uctl |-> UCtl, versions |-> Versions, bfin |-> BFin] >>

----------------------------------------------------------------------------
(* The field index shared by the webhook and the controller, and the       *)
(* API server's DELETE admission.                                          *)

Group == "example.org"
Kind == "Thing"
\* SetupWebhookWithManager's IndexerFunc: empty until spec.of.resourceRef.name is set; group, not version
Index(r) == IF r.ex /\ r.of # None THEN {<<Group, Kind, r.of>>} ELSE {}
\* IndexValueForObject of the used object presented in served version v
IndexValueForObject(u, v) == <<Group, Kind, u>>
Names(s, u) == us[s].ex /\ us[s].of = u
\* objectSelector, then the webhook
Consulted(u) == used[u].label
Deny(u, v) == Consulted(u) /\ \E s \in Usages : IndexValueForObject(u, v) \in Index(us[s])
Want(p) == IF p = None THEN "Background" ELSE p

----------------------------------------------------------------------------
(* Environment *)

EnvOK == MidEnv \/ \A s \in Usages : pc[s] = "idle"
RecUnch == UNCHANGED <<pc, loc, seen, cnd, listN, chg, faults>>

Create(i, c) ==
  LET s == USeq[i] IN
  /\ ~us[s].ex /\ pc[s] = "idle" /\ creates < MaxCreates /\ (i = 1 \/ creates > 0)
  /\ us' = [us EXCEPT ![s] =
              [ex |-> TRUE, of |-> IF c.of \in U THEN c.of ELSE None, ofm |-> IF c.of \in U THEN "ref" ELSE c.of, ver |-> c.ver,
               by |-> IF c.by = B THEN B ELSE None, bym |-> IF c.by = B THEN "ref" ELSE c.by, comp |-> c.comp,
               fin |-> FALSE, det |-> FALSE, owners |-> IF c.comp THEN {XR} ELSE {}, ready |-> FALSE, del |-> FALSE]]
  /\ creates' = creates + 1
  /\ Log([t |-> "env", a |-> "env", k |-> "create", o |-> s, f |-> "", cfg |-> c])
  /\ UNCHANGED <<used, bst, dels>> /\ RecUnch

Gone(r) == IF r.fin THEN [r EXCEPT !.del = TRUE] ELSE NoUsage
UserDeleteS(s) ==
  /\ us[s].ex /\ ~us[s].del
  /\ us' = [us EXCEPT ![s] = Gone(@)]
  /\ Log(HE("delS", s))
  /\ UNCHANGED <<used, bst, creates, dels>> /\ RecUnch

UserDeleteB ==
  /\ bst = "live" /\ bst' = (IF BFin THEN "deleting" ELSE "gone") /\ Log(HE("delB", B))
  /\ UNCHANGED <<used, us, creates, dels>> /\ RecUnch
\* whoever holds the using resource's finalizer lets it go
FinalizeB ==
  /\ bst = "deleting" /\ bst' = "gone" /\ Log(HE("finB", B))
  /\ UNCHANGED <<used, us, creates, dels>> /\ RecUnch

\* the garbage collector deletes every object all of whose owners are gone (the XR is never deleted here)
Orphans == {s \in Usages : us[s].ex /\ ~us[s].del /\ us[s].owners # {} /\ XR \notin us[s].owners /\ ~bex}
KubeGC ==
  /\ Orphans # {}
  /\ us' = [s \in Usages |-> IF s \in Orphans THEN Gone(us[s]) ELSE us[s]]
  /\ Log(HE("gc", ""))
  /\ UNCHANGED <<used, bst, creates, dels>> /\ RecUnch

\* the P&T composer re-applies a composed Usage (RespectOwnerRefs keeps the owner references): no abstract effect
Recompose(s) ==
  /\ us[s].ex /\ us[s].comp /\ ~us[s].del
  /\ Log(HE("recompose", s))
  /\ UNCHANGED <<used, bst, us, creates, dels>> /\ RecUnch

DeleteRequest(u, v, p) ==
  /\ used[u].ex /\ dels < MaxDel /\ dels' = dels + 1
  /\ (IF Deny(u, v)
      THEN used' = (IF used[u].ann = Want(p) THEN used
                    ELSE [used EXCEPT ![u] = [@ EXCEPT !.ann = Want(p), !.rv = @ + 1, !.sv = v]])
      ELSE used' = [used EXCEPT ![u] = NoUsed])
  /\ Log([t |-> "env", a |-> "env", k |-> "delreq", o |-> u, f |-> "", ver |-> v, pol |-> p])
  /\ UNCHANGED <<bst, us, creates>> /\ RecUnch

Env == EnvOK /\ \/ \E i \in 1..Len(USeq), c \in Configs : Create(i, c)
                \/ \E s \in Usages : UserDeleteS(s) \/ Recompose(s)
                \/ UserDeleteB \/ FinalizeB \/ KubeGC
                \/ \E u \in U, v \in Versions, p \in Policies : DeleteRequest(u, v, p)

----------------------------------------------------------------------------
(* The reconcile of Usage s.  f = "ok" | "fail" (error / conflict / crash  *)
(* before the effect: nothing happens, the reconcile ends) | "crashAfter"  *)
(* (the effect is applied, the reconcile ends).                            *)

CanFault == faults < MaxFaults
Reset(s) == /\ pc' = [pc EXCEPT ![s] = "idle"] /\ loc' = [loc EXCEPT ![s] = NoUsage] /\ seen' = [seen EXCEPT ![s] = 0]
            /\ cnd' = [cnd EXCEPT ![s] = None] /\ listN' = [listN EXCEPT ![s] = 0] /\ chg' = [chg EXCEPT ![s] = FALSE]
Ok(s, k, o) == Log(HC(s, k, o, "ok")) /\ UNCHANGED faults
Fail(s, k, o) == CanFault /\ faults' = faults + 1 /\ Log(HC(s, k, o, "fail")) /\ Reset(s)
Crash(s, k, o) == CanFault /\ faults' = faults + 1 /\ Log(HC(s, k, o, "crashAfter")) /\ Reset(s)
Goto(s, p) == pc' = [pc EXCEPT ![s] = p]
EnvUnch == UNCHANGED <<bst, creates, dels>>

\* where the code goes next, given its copy r of the Usage
AfterResolve(r) == IF r.del THEN (IF r.by # None /\ r.comp THEN "dWait" ELSE "dGetU")
                   ELSE IF ~r.fin THEN "cFin" ELSE IF ~r.det THEN "cDet" ELSE "cGetU"
AfterOf(r) == IF r.bym \in {"sel", "selctl"} /\ r.by = None THEN "rByList" ELSE AfterResolve(r)
AfterGet(r) == IF r.of = None THEN "rOfList" ELSE AfterOf(r)

GetS(s) ==
  /\ pc[s] = "idle" /\ us[s].ex /\ (Interleave \/ \A t \in Usages : pc[t] = "idle")
  /\ \/ /\ Ok(s, "get", "usage") /\ loc' = [loc EXCEPT ![s] = us[s]] /\ Goto(s, AfterGet(us[s]))
        /\ UNCHANGED <<seen, cnd, listN, chg>>
     \/ Fail(s, "get", "usage")
  /\ UNCHANGED <<used, us>> /\ EnvUnch

\* a read that fails ends the reconcile
Read(s, at, k, o, okpart) ==
  /\ pc[s] = at
  /\ \/ Ok(s, k, o) /\ okpart
     \/ Fail(s, k, o)
  /\ UNCHANGED <<used, us>> /\ EnvUnch

\* a write of the Usage: resourceVersion-checked, i.e. effective iff nobody touched the Usage since the reconciler read it
\* (next = "idle" means the reconcile ends after the write)
WriteS(s, at, k, o, new, next) ==
  LET eff == us[s] = loc[s] IN
  /\ pc[s] = at
  /\ \/ /\ Ok(s, k, o)
        /\ (IF eff /\ next # "idle"
            THEN /\ us' = [us EXCEPT ![s] = new] /\ loc' = [loc EXCEPT ![s] = new]
                 /\ chg' = [chg EXCEPT ![s] = @ \/ new # us[s]] /\ Goto(s, next) /\ UNCHANGED <<seen, cnd, listN>>
            ELSE us' = (IF eff THEN [us EXCEPT ![s] = new] ELSE us) /\ Reset(s))
     \/ Fail(s, k, o) /\ UNCHANGED us
     \/ Crash(s, k, o) /\ us' = (IF eff THEN [us EXCEPT ![s] = new] ELSE us)
  /\ UNCHANGED used /\ EnvUnch

\* a write of the used resource carrying the resourceVersion the reconciler read
Written(u, lab, v) == IF used[u].label = lab /\ used[u].sv = v /\ ~(FixBump /\ lab) THEN used
                      ELSE [used EXCEPT ![u] = [@ EXCEPT !.label = lab, !.rv = @ + 1, !.sv = v]]
WriteU(s, at, k, o, lab, next) ==
  LET u == loc[s].of
      eff == used[u].ex /\ used[u].rv = seen[s] IN
  /\ pc[s] = at
  /\ \/ /\ Ok(s, k, o)
        /\ (IF eff /\ next # "idle"
            THEN used' = Written(u, lab, loc[s].ver) /\ Goto(s, next) /\ UNCHANGED <<loc, seen, cnd, listN, chg>>
            ELSE used' = (IF eff THEN Written(u, lab, loc[s].ver) ELSE used) /\ Reset(s))
     \/ Fail(s, k, o) /\ UNCHANGED used
     \/ Crash(s, k, o) /\ used' = (IF eff THEN Written(u, lab, loc[s].ver) ELSE used)
  /\ UNCHANGED us /\ EnvUnch

\* ---- selector resolution (selector.go): List, pick the first match, Update the Usage
OfCands(s) == SelectSeq(Useds, LAMBDA u : used[u].ex /\ u \in USel /\ (loc[s].ofm = "selctl" => (loc[s].comp /\ u \in UCtl)))
ROfList(s) == Read(s, "rOfList", "list", "used",
                   IF OfCands(s) = <<>> THEN Reset(s)
                   ELSE cnd' = [cnd EXCEPT ![s] = OfCands(s)[1]] /\ Goto(s, "rOfUpd") /\ UNCHANGED <<loc, seen, listN, chg>>)
ROfUpd(s) == LET n == [loc[s] EXCEPT !.of = cnd[s]] IN WriteS(s, "rOfUpd", "update", "resolve-of", n, AfterOf(n))
\* the using resource carries the selector label and is controlled by the XR
ByCand(s) == IF bex /\ (loc[s].bym = "selctl" => loc[s].comp) THEN B ELSE None
RByList(s) == Read(s, "rByList", "list", "using",
                   IF ByCand(s) = None THEN Reset(s)
                   ELSE cnd' = [cnd EXCEPT ![s] = B] /\ Goto(s, "rByUpd") /\ UNCHANGED <<loc, seen, listN, chg>>)
RByUpd(s) == LET n == [loc[s] EXCEPT !.by = B] IN WriteS(s, "rByUpd", "update", "resolve-by", n, AfterResolve(n))

\* ---- deletion branch
DWait(s) == Read(s, "dWait", "get", "using",
                 IF bex THEN Reset(s)        \* the using resource is still there: wait (requeue)
                 ELSE Goto(s, "dGetU") /\ UNCHANGED <<loc, seen, cnd, listN, chg>>)
DGetU(s) == Read(s, "dGetU", "get", "used",
                 IF used[loc[s].of].ex
                 THEN seen' = [seen EXCEPT ![s] = used[loc[s].of].rv] /\ Goto(s, "dList") /\ UNCHANGED <<loc, cnd, listN, chg>>
                 ELSE Goto(s, "dFin") /\ UNCHANGED <<loc, seen, cnd, listN, chg>>)
Listed(s) == {t \in Usages : IndexValueForObject(loc[s].of, loc[s].ver) \in Index(us[t])}
DList(s) == Read(s, "dList", "list", "usages",
                 /\ listN' = [listN EXCEPT ![s] = Cardinality(Listed(s))]
                 /\ Goto(s, IF Cardinality(Listed(s)) < 2 THEN "dUnlabel" ELSE "dFin") /\ UNCHANGED <<loc, seen, cnd, chg>>)
DUnlabel(s) == WriteU(s, "dUnlabel", "update", "unlabel", FALSE, "dFin")
DFin(s) == WriteS(s, "dFin", "update", "rmfin", NoUsage, "idle")

\* ---- normal branch
CFin(s) == LET n == [loc[s] EXCEPT !.fin = TRUE] IN WriteS(s, "cFin", "update", "addfin", n, IF ~n.det THEN "cDet" ELSE "cGetU")
CDet(s) == WriteS(s, "cDet", "update", "details", [loc[s] EXCEPT !.det = TRUE], "cGetU")
CGetU(s) == Read(s, "cGetU", "get", "used",
                 IF used[loc[s].of].ex
                 THEN seen' = [seen EXCEPT ![s] = used[loc[s].of].rv] /\ Goto(s, "cLabel") /\ UNCHANGED <<loc, cnd, listN, chg>>
                 ELSE Reset(s))
\* u differs from orig (a write changed it, or the Available condition is new): Status().Update, else the reconcile is over
Finish(s, c) == IF c \/ ~loc[s].ready THEN "cReady" ELSE "idle"
\* always issued: the used resource is never "owned by" the Usage
CLabel(s) == WriteU(s, "cLabel", "update", "label", TRUE, IF loc[s].by # None THEN "cGetB" ELSE Finish(s, chg[s]))
\* owners[0] must be the using resource: a composed Usage (owners[0] = XR) re-asserts the reference every time
NeedOwn(s) == loc[s].comp \/ B \notin loc[s].owners
CGetB(s) == Read(s, "cGetB", "get", "using",
                 IF ~bex THEN Reset(s)
                 ELSE IF NeedOwn(s) THEN Goto(s, "cOwn") /\ UNCHANGED <<loc, seen, cnd, listN, chg>>
                 ELSE IF Finish(s, chg[s]) = "idle" THEN Reset(s)
                 ELSE Goto(s, "cReady") /\ UNCHANGED <<loc, seen, cnd, listN, chg>>)
COwn(s) == LET n == [loc[s] EXCEPT !.owners = @ \cup {B}] IN
           WriteS(s, "cOwn", "update", "own", n, Finish(s, chg[s] \/ n # loc[s]))
CReady(s) == WriteS(s, "cReady", "update-status", "usage", [loc[s] EXCEPT !.ready = TRUE], "idle")

Rec(s) == GetS(s) \/ ROfList(s) \/ ROfUpd(s) \/ RByList(s) \/ RByUpd(s)
          \/ DWait(s) \/ DGetU(s) \/ DList(s) \/ DUnlabel(s) \/ DFin(s)
          \/ CFin(s) \/ CDet(s) \/ CGetU(s) \/ CLabel(s) \/ CGetB(s) \/ COwn(s) \/ CReady(s)

Next == Env \/ \E s \in Usages : Rec(s)
Spec == Init /\ [][Next]_vars

----------------------------------------------------------------------------
(* C19 *)
InUse(u) == used[u].ex /\ used[u].label
Live(s, u) == us[s].ex /\ us[s].ready /\ ~us[s].del /\ us[s].of = u
\* ready and not being deleted => every delete request for the used resource, in any version with any options, is denied
\* (the model's DeleteRequest records every denied attempt by construction)
Protected == \A s \in Usages, u \in U : (Live(s, u) /\ used[u].ex) => \A v \in Versions : Deny(u, v)
\* no Usage names U => the delete is allowed
Allowed == \A u \in U : (used[u].ex /\ ~\E s \in Usages : Names(s, u)) => \A v \in Versions : ~Deny(u, v)
\* the marker is on the used resource before the Usage reports ready
LabelFirst == [][\A s \in Usages : (us'[s].ex /\ us'[s].ready /\ ~(us[s].ex /\ us[s].ready) /\ us'[s].of \in U /\ used[us'[s].of].ex)
                    => InUse(us'[s].of)]_vars
\* the marker is removed only when the last Usage of the resource is deleted.  Reading: the removal belongs to the deletion
\* of a Usage of that resource, and no other Usage that reports ready (and is not being deleted) still names it.  (A Usage
\* created after the deleting one listed the Usages, and not yet reconciled, will put the marker back itself; no
\* implementation on top of a List followed by an Update can exclude that, so it is not counted.)
LabelLast == [][\A u \in U : (InUse(u) /\ used'[u].ex /\ ~used'[u].label)
                    => /\ \E s \in Usages : Names(s, u) /\ us[s].del
                       /\ ~\E s \in Usages : Live(s, u)]_vars
\* a ready Usage by a resource is owned by that resource
Owned == \A s \in Usages : (us[s].ex /\ us[s].ready /\ us[s].by # None) => us[s].by \in us[s].owners
\* the index value of a Usage is the value the webhook computes for the used object, in every served version
IndexAgree == \A s \in Usages, u \in U, v \in Versions :
                /\ (Names(s, u) => Index(us[s]) = {IndexValueForObject(u, v)})
                /\ (us[s].ex /\ us[s].of # u => IndexValueForObject(u, v) \notin Index(us[s]))
\* (rider of C08) a composed Usage by a resource loses its finalizer only after that using resource is gone
UsageAfterUser == [][\A s \in Usages : (us[s].ex /\ us[s].fin /\ us[s].comp /\ us[s].by # None /\ ~(us'[s].ex /\ us'[s].fin))
                        => bst = "gone"]_vars
TypeOK == /\ \A s \in Usages : pc[s] \in {"idle", "rOfList", "rOfUpd", "rByList", "rByUpd", "dWait", "dGetU", "dList", "dUnlabel", "dFin",
                                          "cFin", "cDet", "cGetU", "cLabel", "cGetB", "cOwn", "cReady"}
          /\ \A s \in Usages : us[s].del => (us[s].ex /\ us[s].fin)
=============================================================================
