SPECIFICATION Spec
CONSTANTS
  Comps <- Comps4
  Attr <- AttrAll
  InitComps <- InitAll
  InitRefs <- RefsAll4
  InitSels <- SelsBoth
  InitDefs <- DefsT
  InitEnfs <- EnfsT
  InitUser <- OnlyFalse
  InitOFin <- OnlyFalse
  MaxRecs = 2
  MaxFaults = 1
  MaxEnv = 2
  MidEnv = TRUE
  EnvKinds <- EnvAll
  FaultKinds <- FaultsAll
  ComposeOuts <- OutsAll
  FinFirst = TRUE
  RvCheck = TRUE
VIEW view
ACTION_CONSTRAINT Emit
CHECK_DEADLOCK FALSE
INVARIANTS StepProps Repaired FinBeforeCompose
