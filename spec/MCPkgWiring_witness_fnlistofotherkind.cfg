SPECIFICATION Spec
CONSTANTS
  Profiles <- Profiles1
  Perturb = "fn-list-of-other-kind"
CHECK_DEADLOCK FALSE
INVARIANTS RefConsistent
