SPECIFICATION Spec
CONSTANTS
  Profiles <- Profiles1
  Perturb = "fn-meta-is-provider"
CHECK_DEADLOCK FALSE
INVARIANTS RefConsistent
