SPECIFICATION Spec
CONSTANTS
  Mode = "Pipeline"
  Names = {"a", "b"}
  MaxObjs = 3
  MaxRecs = 2
  MaxFaults = 1
  MaxEnv = 1
  ForeignAt = "name"
  RenderFails = FALSE
  CacheMisses = FALSE
  VerBumps = FALSE
  Forges = FALSE
  Legacies = FALSE
  FailKinds = {"reqloop1"}
VIEW view
ACTION_CONSTRAINT Emit
CHECK_DEADLOCK FALSE
INVARIANTS NoLeak AtMostOne StepProps GcExact
PROPERTIES NameStable
