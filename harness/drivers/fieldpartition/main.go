// Driver for spec/FieldPartition.tla (property C07): feeds every input vector
// that TLC enumerated from MCFieldPartition.tla to the real, unmodified claim
// syncers
//
//   - claim.NewServerSideCompositeSyncer(...).Sync  (after the real
//     claim.NewPatchingManagedFieldsUpgrader(...).Upgrade, as the offered
//     reconciler wires them together)
//   - claim.NewClientSideCompositeSyncer(...).Sync
//
// running on simapi (real structured-merge-diff field management), and records
// one trace line per Sync: the claim and the XR as stored before and after,
// projected to flattened leaf paths (plus the fields of the XR that the claim
// controller's server-side-apply field manager owns afterwards). A vector describes the claim as the user
// wrote it; it is first pruned as the API server would prune it, with the
// real apiextensions-apiserver pruning algorithm applied to the schema of the
// claim CRD that the real xcrd.ForCompositeResourceClaim generates for an XRD
// declaring the user fields. No property logic lives here:
// spec/MonFieldPartition.tla judges the recorded objects.
//
// Every vector is run for two rounds: round 1 is the vector itself; then the
// "XR controller" (environment) fills in XR-side machinery where absent and
// round 2 re-syncs the objects the real code produced in round 1 (genuine
// field ownership).
package main

import (
	"context"
	"encoding/json"
	"flag"
	"fmt"
	"os"
	"sort"
	"strconv"
	"strings"

	apiext "k8s.io/apiextensions-apiserver/pkg/apis/apiextensions"
	extv1 "k8s.io/apiextensions-apiserver/pkg/apis/apiextensions/v1"
	structuralschema "k8s.io/apiextensions-apiserver/pkg/apiserver/schema"
	"k8s.io/apiextensions-apiserver/pkg/apiserver/schema/pruning"
	kerrors "k8s.io/apimachinery/pkg/api/errors"
	"k8s.io/apimachinery/pkg/apis/meta/v1/unstructured"
	"k8s.io/apimachinery/pkg/runtime"
	"k8s.io/apimachinery/pkg/runtime/schema"
	"k8s.io/apimachinery/pkg/types"
	"sigs.k8s.io/controller-runtime/pkg/client"

	uclaim "github.com/crossplane/crossplane-runtime/pkg/resource/unstructured/claim"
	ucomposite "github.com/crossplane/crossplane-runtime/pkg/resource/unstructured/composite"

	v1 "github.com/crossplane/crossplane/apis/apiextensions/v1"
	"github.com/crossplane/crossplane/internal/controller/apiextensions/claim"
	"github.com/crossplane/crossplane/internal/names"
	"github.com/crossplane/crossplane/internal/xcrd"
	"github.com/crossplane/crossplane/zzverif/scen"
	"github.com/crossplane/crossplane/zzverif/simapi"
	"github.com/crossplane/crossplane/zzverif/trace"
)

// FieldOwnerComposite is the field manager of the XR controller.
const FieldOwnerComposite = "apiextensions.crossplane.io/composite"

// Entry is one leaf of an object: the key path and the (string) value; M is
// who wrote it ("claim" | "xr"), only in inputs.
type Entry struct {
	P []string `json:"p"`
	V string   `json:"v"`
	M string   `json:"m,omitempty"`
}

// Ident names the claim and the XR of a vector.
type Ident struct {
	APIVersion   string `json:"apiVersion"`
	Kind         string `json:"kind"`
	Namespace    string `json:"namespace"`
	Name         string `json:"name"`
	XRAPIVersion string `json:"xrApiVersion"`
	XRKind       string `json:"xrKind"`
	XRName       string `json:"xrName"`
}

// Input is an emitted vector of MCFieldPartition.
type Input struct {
	Syncer string  `json:"syncer"`
	Mode   string  `json:"mode"`
	ID     Ident   `json:"id"`
	CM     []Entry `json:"cm"`
	XR     []Entry `json:"xr"`
	Fill   []Entry `json:"fill"`
}

type summary struct {
	Vectors   int            `json:"vectors"`
	Syncs     int            `json:"syncs"`
	Events    int            `json:"events"`
	Kinds     map[string]int `json:"per_syncer_mode_round"`
	Errors    map[string]int `json:"sync_errors"`
	UpgErrors map[string]int `json:"upgrade_errors"`
	Pruned    int            `json:"claim_leaves_pruned"`
	XRCreated int            `json:"xrs_created_by_sync"`
	Samples   []any          `json:"samples"`
}

func must(err error) {
	if err != nil {
		fmt.Fprintln(os.Stderr, "fieldpartition driver:", err)
		os.Exit(1)
	}
}

// ---------------------------------------------------------------- flatten / unflatten

func isIndex(s string) bool {
	if s == "" {
		return false
	}
	for _, r := range s {
		if r < '0' || r > '9' {
			return false
		}
	}
	return true
}

// set stores v at path p below node, creating maps and (for numeric
// segments) lists on the way.
func set(node any, p []string, v string) any {
	if len(p) == 0 {
		return v
	}
	if isIndex(p[0]) {
		i, _ := strconv.Atoi(p[0])
		l, _ := node.([]any)
		for len(l) <= i {
			l = append(l, nil)
		}
		l[i] = set(l[i], p[1:], v)
		return l
	}
	m, _ := node.(map[string]any)
	if m == nil {
		m = map[string]any{}
	}
	m[p[0]] = set(m[p[0]], p[1:], v)
	return m
}

func unflatten(es []Entry, keep func(Entry) bool) map[string]any {
	var root any = map[string]any{}
	for _, e := range es {
		if keep == nil || keep(e) {
			root = set(root, e.P, e.V)
		}
	}
	return root.(map[string]any)
}

func flattenInto(out *[]Entry, prefix []string, v any) {
	switch t := v.(type) {
	case nil:
		// the API server drops null leaves of custom resources
	case map[string]any:
		// an empty object has no leaves (values are atoms): nothing to record
		for k, x := range t {
			flattenInto(out, append(append([]string(nil), prefix...), k), x)
		}
	case []any:
		for i, x := range t {
			flattenInto(out, append(append([]string(nil), prefix...), strconv.Itoa(i)), x)
		}
	case string:
		*out = append(*out, Entry{P: append([]string(nil), prefix...), V: t})
	default:
		*out = append(*out, Entry{P: append([]string(nil), prefix...), V: fmt.Sprint(t)})
	}
}

// project flattens metadata.labels, metadata.annotations, spec and status.
func project(u *unstructured.Unstructured) []Entry {
	out := []Entry{}
	if u == nil {
		return out
	}
	if md, ok := u.Object["metadata"].(map[string]any); ok {
		for _, k := range []string{"labels", "annotations"} {
			if m, ok := md[k].(map[string]any); ok {
				flattenInto(&out, []string{"metadata", k}, m)
			}
		}
	}
	for _, k := range []string{"spec", "status"} {
		if m, ok := u.Object[k]; ok {
			flattenInto(&out, []string{k}, m)
		}
	}
	sort.Slice(out, func(i, j int) bool { return strings.Join(out[i].P, "\x00") < strings.Join(out[j].P, "\x00") })
	return out
}

// ownedBy projects the leaves of the managedFields entry of an Apply manager:
// which fields of the stored object that manager owns ("f:" keys; list
// element keys "k:{...}" / "v:..." are kept verbatim).
func ownedBy(u *unstructured.Unstructured, manager string) []Entry {
	out := []Entry{}
	if u == nil {
		return out
	}
	for _, mf := range u.GetManagedFields() {
		if mf.Manager != manager || mf.Operation != "Apply" || mf.FieldsV1 == nil || mf.Subresource != "" {
			continue
		}
		var tree map[string]any
		if err := json.Unmarshal(mf.FieldsV1.Raw, &tree); err != nil {
			continue
		}
		var walk func(prefix []string, n map[string]any)
		walk = func(prefix []string, n map[string]any) {
			kids := 0
			for k, v := range n {
				if k == "." {
					continue
				}
				kids++
				m, _ := v.(map[string]any)
				walk(append(append([]string(nil), prefix...), strings.TrimPrefix(k, "f:")), m)
			}
			if kids == 0 && len(prefix) > 0 {
				out = append(out, Entry{P: prefix, V: "owned"})
			}
		}
		walk(nil, tree)
	}
	sort.Slice(out, func(i, j int) bool { return strings.Join(out[i].P, "\x00") < strings.Join(out[j].P, "\x00") })
	return out
}

// ---------------------------------------------------------------- the claim CRD and the pruner

const userSchema = `{"type":"object","properties":{
 "spec":{"type":"object","properties":{
   "u1":{"type":"object","properties":{"a":{"type":"string"},"resourceRef":{"type":"string"},"claimRef":{"type":"string"}}},
   "u2":{"type":"string"}}},
 "status":{"type":"object","properties":{
   "us":{"type":"string"},
   "u1":{"type":"object","properties":{"conditions":{"type":"string"}}}}}}}`

func claimStructural(id Ident) *structuralschema.Structural {
	gv, err := schema.ParseGroupVersion(id.APIVersion)
	must(err)
	low := func(s string) string { return strings.ToLower(s) + "s" }
	xrd := &v1.CompositeResourceDefinition{
		Spec: v1.CompositeResourceDefinitionSpec{
			Group:      gv.Group,
			Names:      extv1.CustomResourceDefinitionNames{Kind: id.XRKind, ListKind: id.XRKind + "List", Plural: low(id.XRKind), Singular: strings.ToLower(id.XRKind)},
			ClaimNames: &extv1.CustomResourceDefinitionNames{Kind: id.Kind, ListKind: id.Kind + "List", Plural: low(id.Kind), Singular: strings.ToLower(id.Kind)},
			Versions: []v1.CompositeResourceDefinitionVersion{{
				Name: gv.Version, Served: true, Referenceable: true,
				Schema: &v1.CompositeResourceValidation{OpenAPIV3Schema: runtime.RawExtension{Raw: []byte(userSchema)}},
			}},
		},
	}
	xrd.SetName(low(id.XRKind) + "." + gv.Group)
	crd, err := xcrd.ForCompositeResourceClaim(xrd)
	must(err)
	internal := &apiext.JSONSchemaProps{}
	must(extv1.Convert_v1_JSONSchemaProps_To_apiextensions_JSONSchemaProps(crd.Spec.Versions[0].Schema.OpenAPIV3Schema, internal, nil))
	ss, err := structuralschema.NewStructural(internal)
	must(err)
	return ss
}

// ---------------------------------------------------------------- one vector

type world struct {
	in       Input
	s        *simapi.Server
	claimGVK schema.GroupVersionKind
	xrGVK    schema.GroupVersionKind
	claimKey simapi.Key
	sum      *summary
	tw       *trace.Writer
	scenario string
}

func (w *world) xrKey(name string) simapi.Key {
	return simapi.Key{Group: w.xrGVK.Group, Kind: w.xrGVK.Kind, Name: name}
}

func (w *world) newXR(es []Entry, keep func(Entry) bool) *unstructured.Unstructured {
	u := &unstructured.Unstructured{Object: unflatten(es, keep)}
	u.SetGroupVersionKind(w.xrGVK)
	u.SetName(w.in.ID.XRName)
	return u
}

func notStatus(e Entry) bool { return e.P[0] != "status" }

// setStatus writes status leaves as the XR controller would (environment step).
func (w *world) setStatus(name string, es []Entry, onlyAbsent bool) {
	w.s.Mutate(w.xrKey(name), func(u *unstructured.Unstructured) {
		have := map[string]bool{}
		for _, e := range project(u) {
			have[strings.Join(e.P, "\x00")] = true
		}
		var root any = u.Object
		for _, e := range es {
			if e.P[0] != "status" || (onlyAbsent && have[strings.Join(e.P, "\x00")]) {
				continue
			}
			root = set(root, e.P, e.V)
		}
		u.Object = root.(map[string]any)
	})
}

// seedXR stores the pre-existing XR of a resync / upgrade vector through real
// API calls so that managedFields are what the controllers would have left.
func (w *world) seedXR() {
	ctx := context.Background()
	in := w.in
	if in.Syncer == "ssa" && in.Mode == "resync" {
		prev := simapi.NewClient(w.s, "claim-prev")
		hasClaim := false
		for _, e := range in.XR {
			if e.M == "claim" && notStatus(e) {
				hasClaim = true
			}
		}
		if hasClaim {
			u := w.newXR(in.XR, func(e Entry) bool { return e.M == "claim" && notStatus(e) })
			must(prev.Patch(ctx, u, client.Apply, client.ForceOwnership, client.FieldOwner(claim.FieldOwnerXR)))
		}
		xrc := simapi.NewClient(w.s, "xr")
		u := w.newXR(in.XR, func(e Entry) bool { return e.M != "claim" && notStatus(e) })
		must(xrc.Patch(ctx, u, client.Apply, client.ForceOwnership, client.FieldOwner(FieldOwnerComposite)))
	} else {
		// written with client-side apply by the default manager "crossplane"
		old := simapi.NewClient(w.s, "crossplane")
		must(old.Create(ctx, w.newXR(in.XR, notStatus)))
	}
	w.setStatus(in.ID.XRName, in.XR, false)
}

// fill is the XR controller between the rounds: it adds XR-side machinery where absent.
func (w *world) fill(name string) {
	ctx := context.Background()
	cur := w.s.Peek(w.xrKey(name))
	if cur == nil {
		return
	}
	have := map[string]bool{}
	for _, e := range project(cur) {
		// a list is written as a whole
		k := e.P
		for i, seg := range k {
			if isIndex(seg) {
				k = k[:i]
				break
			}
		}
		have[strings.Join(k, "\x00")] = true
		have[strings.Join(e.P, "\x00")] = true
	}
	absent := func(e Entry) bool {
		k := e.P
		for i, seg := range k {
			if isIndex(seg) {
				k = k[:i]
				break
			}
		}
		return notStatus(e) && !have[strings.Join(k, "\x00")]
	}
	xrc := simapi.NewClient(w.s, "xr")
	if w.in.Syncer == "ssa" {
		u := w.newXR(w.in.Fill, absent)
		u.SetName(name)
		must(xrc.Patch(ctx, u, client.Apply, client.ForceOwnership, client.FieldOwner(FieldOwnerComposite)))
	} else {
		u := &unstructured.Unstructured{}
		u.SetGroupVersionKind(w.xrGVK)
		must(xrc.Get(ctx, types.NamespacedName{Name: name}, u))
		var root any = u.Object
		for _, e := range w.in.Fill {
			if absent(e) {
				root = set(root, e.P, e.V)
			}
		}
		u.Object = root.(map[string]any)
		must(xrc.Update(ctx, u))
	}
	w.setStatus(name, w.in.Fill, true)
}

func (w *world) xrNames() []string {
	out := []string{}
	for _, u := range w.s.All(w.xrGVK.GroupKind()) {
		out = append(out, u.GetName())
	}
	sort.Strings(out)
	return out
}

// round performs what the claim reconciler does around Sync: read the claim,
// read the XR it references, (ssa) upgrade managed fields, Sync.
func (w *world) round(n int) string {
	ctx := context.Background()
	c := simapi.NewClient(w.s, "claim")
	c.BeginReconcile()

	cm0 := project(w.s.Peek(w.claimKey))
	before := w.xrNames()

	cm := uclaim.New(uclaim.WithGroupVersionKind(w.claimGVK))
	must(c.Get(ctx, types.NamespacedName{Namespace: w.in.ID.Namespace, Name: w.in.ID.Name}, cm))
	xr := ucomposite.New(ucomposite.WithGroupVersionKind(w.xrGVK))
	xr0 := []Entry{}
	if ref := cm.GetResourceReference(); ref != nil {
		if err := c.Get(ctx, types.NamespacedName{Name: ref.Name}, xr); err != nil && !kerrors.IsNotFound(err) {
			must(err)
		}
		xr0 = project(w.s.Peek(w.xrKey(ref.Name)))
	}

	upgErr := "none"
	var err error
	switch w.in.Syncer {
	case "ssa":
		if e := claim.NewPatchingManagedFieldsUpgrader(c).Upgrade(ctx, xr, claim.FieldOwnerXR); e != nil {
			upgErr = e.Error()
			w.sum.UpgErrors[upgErr]++
		}
		err = claim.NewServerSideCompositeSyncer(c, names.NewNameGenerator(c)).Sync(ctx, cm, xr)
	case "csa":
		err = claim.NewClientSideCompositeSyncer(c, names.NewNameGenerator(c)).Sync(ctx, cm, xr)
	default:
		must(fmt.Errorf("unknown syncer %q", w.in.Syncer))
	}
	errs := "none"
	if err != nil {
		errs = err.Error()
		w.sum.Errors[errs]++
	}

	stored := w.s.Peek(w.claimKey)
	cm1 := project(stored)
	xrName := ""
	if stored != nil {
		xrName, _, _ = unstructured.NestedString(stored.Object, "spec", "resourceRef", "name")
	}
	xr1 := project(w.s.Peek(w.xrKey(xrName)))
	own1 := ownedBy(w.s.Peek(w.xrKey(xrName)), claim.FieldOwnerXR)
	after := w.xrNames()
	if len(after) > len(before) {
		w.sum.XRCreated++
	}

	id := map[string]any{"apiVersion": "", "kind": "", "namespace": "", "name": "", "xrName": xrName}
	if stored != nil {
		id["apiVersion"], id["kind"], id["namespace"], id["name"] = stored.GetAPIVersion(), stored.GetKind(), stored.GetNamespace(), stored.GetName()
	}
	ev := map[string]any{
		"ev": "out", "scenario": fmt.Sprintf("%s/r%d", w.scenario, n), "syncer": w.in.Syncer, "mode": w.in.Mode, "round": n,
		"err": errs, "upgradeErr": upgErr, "calls": c.Calls(), "id": id, "nxr": len(after),
		"cm0": cm0, "xr0": xr0, "cm1": cm1, "xr1": xr1, "own1": own1,
	}
	w.tw.Emit(ev)
	w.sum.Syncs++
	w.sum.Kinds[fmt.Sprintf("%s/%s/r%d", w.in.Syncer, w.in.Mode, n)]++
	if len(w.sum.Samples) < 2 && n == 2 && len(cm0) < 12 && len(xr0) < 30 && w.sum.Syncs%7 == 3 {
		w.sum.Samples = append(w.sum.Samples, ev)
	}
	return xrName
}

func runVector(id string, in Input, ss *structuralschema.Structural, tw *trace.Writer, sum *summary, rounds int) {
	gvk := schema.FromAPIVersionAndKind(in.ID.APIVersion, in.ID.Kind)
	xgvk := schema.FromAPIVersionAndKind(in.ID.XRAPIVersion, in.ID.XRKind)
	s := simapi.NewServer(runtime.NewScheme())
	s.Namespaced(gvk.GroupKind())
	w := &world{in: in, s: s, claimGVK: gvk, xrGVK: xgvk, sum: sum, tw: tw, scenario: id,
		claimKey: simapi.Key{Group: gvk.Group, Kind: gvk.Kind, Namespace: in.ID.Namespace, Name: in.ID.Name}}

	// the claim as the user wrote it, then as the API server stores it
	cm := &unstructured.Unstructured{Object: unflatten(in.CM, nil)}
	cm.SetGroupVersionKind(gvk)
	cm.SetNamespace(in.ID.Namespace)
	cm.SetName(in.ID.Name)
	n0 := len(project(cm))
	pruning.Prune(cm.Object, ss, true)
	sum.Pruned += n0 - len(project(cm))
	if _, ok := cm.Object["spec"]; !ok {
		cm.Object["spec"] = map[string]any{} // spec is required by the CRD
	}
	s.Put(cm)

	if in.Mode != "first" {
		w.seedXR()
	}
	tw.Boundary()
	name := w.round(1)
	for r := 2; r <= rounds; r++ {
		w.fill(name)
		name = w.round(r)
	}
	sum.Vectors++
}

func main() {
	scenarios := flag.String("scenarios", "", "NDJSON file of input vectors")
	tracePath := flag.String("trace", "", "output trace")
	sumPath := flag.String("summary", "", "output summary JSON")
	chunk := flag.Int("chunk", 0, "split the trace into files of about this many events")
	rounds := flag.Int("rounds", 2, "Sync rounds per vector (round >= 2: re-sync after the XR controller filled in)")
	_ = flag.Int64("seed", 1, "unused: the driver makes no random choices (XR names come from the real name generator)")
	flag.Parse()

	raws, err := scen.Load(*scenarios)
	must(err)
	tw, err := trace.New(*tracePath, *chunk)
	must(err)
	sum := &summary{Kinds: map[string]int{}, Errors: map[string]int{}, UpgErrors: map[string]int{}, Samples: []any{}}
	var ss *structuralschema.Structural
	var ssFor Ident
	for _, raw := range raws {
		var sc struct {
			ID    string `json:"id"`
			Input Input  `json:"input"`
		}
		must(json.Unmarshal(raw, &sc))
		if ss == nil || ssFor != sc.Input.ID {
			ss, ssFor = claimStructural(sc.Input.ID), sc.Input.ID
		}
		runVector(sc.ID, sc.Input, ss, tw, sum, *rounds)
	}
	sum.Events = tw.Lines
	must(tw.Close())
	must(scen.WriteJSON(*sumPath, sum))
}
