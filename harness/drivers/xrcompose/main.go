// Driver for spec/XRCompose.tla: replays TLC behaviours against the real
// composite resource reconciler (internal/controller/apiextensions/composite)
// with the real FunctionComposer / PTComposer, observers, garbage collectors
// and name generator, on simapi. One trace event per API call with the
// projected abstract state (references, composed resources, conditions).
package main

import (
	"context"
	"crypto/sha256"
	"encoding/json"
	"errors"
	"flag"
	"fmt"
	"os"
	"path/filepath"
	"runtime/pprof"
	"sort"
	"strings"

	"google.golang.org/protobuf/types/known/structpb"
	corev1 "k8s.io/api/core/v1"
	metav1 "k8s.io/apimachinery/pkg/apis/meta/v1"
	"k8s.io/apimachinery/pkg/apis/meta/v1/unstructured"
	"k8s.io/apimachinery/pkg/runtime"
	"k8s.io/apimachinery/pkg/runtime/schema"
	"k8s.io/apimachinery/pkg/types"
	"k8s.io/utils/ptr"
	"sigs.k8s.io/controller-runtime/pkg/client"
	"sigs.k8s.io/controller-runtime/pkg/reconcile"

	ucomposed "github.com/crossplane/crossplane-runtime/pkg/resource/unstructured/composed"
	ucomposite "github.com/crossplane/crossplane-runtime/pkg/resource/unstructured/composite"

	fnv1 "github.com/crossplane/crossplane/apis/apiextensions/fn/proto/v1"
	v1 "github.com/crossplane/crossplane/apis/apiextensions/v1"
	pkgv1 "github.com/crossplane/crossplane/apis/pkg/v1"
	"github.com/crossplane/crossplane/internal/controller/apiextensions/composite"
	"github.com/crossplane/crossplane/zzverif/replay"
	"github.com/crossplane/crossplane/zzverif/scen"
	"github.com/crossplane/crossplane/zzverif/simapi"
	"github.com/crossplane/crossplane/zzverif/trace"
)

const (
	xrName   = "xr1"
	revName  = "rev1"
	compName = "comp1"
	annName  = "crossplane.io/composition-resource-name"
)

var (
	xrGVK  = schema.GroupVersionKind{Group: "ex.org", Version: "v1", Kind: "XThing"}
	cdGVK  = schema.GroupVersionKind{Group: "ex.org", Version: "v1", Kind: "Thing"}
	xrKey  = simapi.Key{Group: "ex.org", Kind: "XThing", Name: xrName}
	revKey = simapi.Key{Group: "apiextensions.crossplane.io", Kind: "CompositionRevision", Name: revName}
)

type world struct {
	s      *simapi.Server
	c, uc  *simapi.Client
	xfnc   *simapi.Client // the PackagedFunctionRunner's reader (not intercepted, not traced)
	forge  bool           // the desired resources' bodies carry a stale composition-resource-name annotation
	rec    reconcile.Reconciler
	tw     *trace.Writer
	scenID string
	mode   string
	names  []string
	want   []string
	fixed  string            // the desired name that asks for metadata.name "fixed" ("" if none)
	ids    map[string]string // real object name -> abstract id
	rev    map[string]string // abstract id -> real name
	nextID int
	xrUID  types.UID

	al         *replay.Aligner
	recNo      int
	pfail      bool   // an observation or pipeline failure was delivered in this reconcile
	failKind   string // how the pipeline fails in this reconcile ("" = not)
	inCompose  bool
	gcd        []string
	vanished   []string // resources the environment removed in the middle of this reconcile
	midEnv     bool     // the environment removed / grabbed a resource in the middle of some reconcile of this run
	start      map[string]any
	quiet      bool
	prevOK     bool // previous reconcile: ok, fault free, no env step since it started
	prevDig    string
	fnCalls    int
	reqRound   int
	wantRec    []string // the final desired names of this reconcile as delivered to the composer
	composed   bool     // Compose returned in this reconcile
	composeErr error
	fnOverride func(context.Context, string, *fnv1.RunFunctionRequest) (*fnv1.RunFunctionResponse, error)
	rfail      map[string]bool // PT: templates that cannot be rendered right now
	upgrading  int             // reconciles the managed-fields upgrade still needs (environment step "legacy")
	legacyOn   bool            // the composed resources' managed fields are legacy at the start of every reconcile
	cdw        int             // applied writes to composed resources in this reconcile
	missed     map[string]bool // composed resources the cache missed in this reconcile
	ver        int             // the apiVersion the desired resources are written at: ex.org/v<ver>
}

func (w *world) idOf(name string) string {
	if id, ok := w.ids[name]; ok {
		return id
	}
	w.nextID++
	id := fmt.Sprintf("o%d", w.nextID)
	w.ids[name] = id
	w.rev[id] = name
	return id
}

func cdKey(name string) simapi.Key { return simapi.Key{Group: "ex.org", Kind: "Thing", Name: name} }

func condStatus(u *unstructured.Unstructured, typ string) string {
	cs, _, _ := unstructured.NestedSlice(u.Object, "status", "conditions")
	for _, c := range cs {
		m, _ := c.(map[string]any)
		if m["type"] == typ {
			s, _ := m["status"].(string)
			return s
		}
	}
	return "none"
}

// post projects the store onto the abstract state of XRCompose.tla.
func (w *world) post() map[string]any {
	refs := []any{}
	xrReady, xrSynced := "none", "none"
	objs := []any{}
	h := sha256.New()
	w.s.Read(func(keys []simapi.Key, all map[simapi.Key]*unstructured.Unstructured) {
		if xr := all[xrKey]; xr != nil {
			rs, _, _ := unstructured.NestedSlice(xr.Object, "spec", "resourceRefs")
			for _, r := range rs {
				m, _ := r.(map[string]any)
				n, _ := m["name"].(string)
				if n == "" {
					continue
				}
				if id, ok := w.ids[n]; ok {
					refs = append(refs, id)
				} else {
					refs = append(refs, "?"+n)
				}
			}
			xrReady, xrSynced = condStatus(xr, "Ready"), condStatus(xr, "Synced")
		}
		for _, k := range keys {
			o := all[k]
			fmt.Fprintf(h, "%s=%s;", k, o.GetResourceVersion())
			if k.Kind != "Thing" {
				continue
			}
			ctrl := "nobody"
			if c := metav1.GetControllerOf(o); c != nil {
				ctrl = "foreign"
				if c.UID == w.xrUID {
					ctrl = "xr"
				}
			}
			st := "live"
			if o.GetDeletionTimestamp() != nil {
				st = "deleting"
			}
			rn := o.GetAnnotations()[annName]
			if rn == "" {
				rn = "-"
			}
			// which desired resource / template the stored body was rendered from (the scripted bodies carry it in spec.param)
			made, _, _ := unstructured.NestedString(o.Object, "spec", "param")
			if made == "" {
				made = "-"
			}
			objs = append(objs, map[string]any{"id": w.idOf(o.GetName()), "ctrl": ctrl, "rname": rn, "st": st, "made": made})
		}
	})
	sort.Slice(objs, func(i, j int) bool {
		return objs[i].(map[string]any)["id"].(string) < objs[j].(map[string]any)["id"].(string)
	})
	return map[string]any{"refs": refs, "objs": objs, "digest": fmt.Sprintf("%x", h.Sum(nil)[:8]), "xrReady": xrReady, "xrSynced": xrSynced}
}

func strs(ss []string) []any {
	out := make([]any, len(ss))
	for i, s := range ss {
		out[i] = s
	}
	return out
}

func (w *world) emit(ev string, m map[string]any) {
	st := w.start
	if st == nil {
		st = map[string]any{"refs": []any{}, "objs": []any{}}
	}
	base := map[string]any{"ev": ev, "scenario": w.scenID, "mode": w.mode, "actor": "xr", "rec": w.recNo,
		"verb": "", "kind": "", "target": "none", "abs": "", "outcome": "", "injected": "", "applied": false, "noop": false,
		"pfail": w.pfail, "want": strs(w.wantRec), "result": "", "faulty": false, "steady": false, "prevDigest": w.prevDig,
		"gcd": strs(w.gcd), "vanished": strs(w.vanished), "cdw": w.cdw, "failKind": w.failKind, "start": map[string]any{"refs": st["refs"], "objs": st["objs"]}, "post": w.post()}
	for k, v := range m {
		base[k] = v
	}
	w.tw.Emit(base)
}

// classify maps a real call to the abstract call key of the model ("pre:" = not modelled).
func (w *world) classify(c *simapi.Call) string {
	verb := c.Verb
	switch c.Key.Kind {
	case "XThing":
		switch {
		case verb == "get":
			if c.Idx == 1 && c.Actor == "xr" {
				return "get:xr"
			}
			return "pre:get:xr"
		case verb == "update" && c.Sub == "status":
			return "update-status:xr"
		case verb == "update":
			// prologue updates add the finalizer / the naming label; the composer's update persists references
			if cur := w.s.Peek(xrKey); cur != nil {
				if len(cur.GetFinalizers()) == 0 || cur.GetLabels()["crossplane.io/composite"] == "" {
					return "pre:update:xr"
				}
			}
			return "update:xr"
		case verb == "patch-apply" && c.Sub == "status":
			return "patch-status:xr"
		case verb == "patch-apply" || verb == "patch-merge":
			return "patch:xr"
		}
		return "pre:" + verb + ":xr"
	case "Thing":
		if c.Actor != "xr" {
			// the observer's live read after the cache missed the resource (model: "uget"); its other fallback reads
			// (the resource really is gone) are not modelled
			if verb == "get" && w.missed[c.Key.Name] {
				return "uget:" + w.idOf(c.Key.Name)
			}
			return "pre:uncached"
		}
		switch verb {
		case "patch-apply", "patch-merge":
			verb = "patch"
		case "patch-json":
			return "pre:upgrade"
		case "list":
			return "pre:list"
		}
		return verb + ":" + w.idOf(c.Key.Name)
	}
	return "pre:" + c.Key.Kind
}

func (w *world) onEvent(e *simapi.Event) {
	cl := &simapi.Call{Actor: e.Actor, Idx: e.Idx, Verb: e.Verb, Sub: e.Sub, Key: simapi.Key{Group: e.Group, Kind: e.Kind, Name: e.Name}}
	if e.Outcome == "dropped" && e.Injected == "" {
		return
	}
	abs := w.classifyDone(cl, e)
	kind := map[string]string{"XThing": "xr", "Thing": "cd"}[e.Kind]
	if kind == "" {
		kind = "other"
	}
	target := "none"
	if kind == "cd" && e.Name != "" && e.Verb != "list" {
		target = w.idOf(e.Name)
	}
	applied := e.Applied && !e.DryRun
	if kind == "cd" && applied && !e.Noop && e.Actor != "env" {
		w.cdw++ // composed resources written in this reconcile, by whatever call
	}
	if kind == "cd" && e.Verb == "delete" && applied {
		w.gcd = append(w.gcd, target)
	}
	// an injected error / conflict on a read of the observation phase is an observation failure
	// (only reads of *referenced* resources count: a failed name-availability probe is not an observation)
	if e.Injected != "" && e.Injected != "cacheMiss" && e.Injected != "crashAfter" && e.Injected != "crashBefore" && !w.inCompose && kind == "cd" && e.Verb == "get" && w.mode == "Pipeline" {
		for _, r := range w.start["refs"].([]any) {
			if r == target {
				w.pfail = true
			}
		}
	}
	verb := e.Verb
	if e.Sub != "" {
		verb += "-" + e.Sub
	}
	w.emit("call", map[string]any{"verb": verb, "kind": kind, "target": target, "abs": abs, "outcome": e.Outcome,
		"injected": e.Injected, "applied": applied, "noop": e.Noop, "actor": e.Actor})
}

// classifyDone classifies a finished call (the store may have changed, so the
// prologue test of classify is redone on the pre-image).
func (w *world) classifyDone(c *simapi.Call, e *simapi.Event) string {
	if c.Key.Kind == "XThing" && c.Verb == "update" && c.Sub == "" && e.PreObj != nil {
		if len(e.PreObj.GetFinalizers()) == 0 || e.PreObj.GetLabels()["crossplane.io/composite"] == "" {
			return "pre:update:xr"
		}
		return "update:xr"
	}
	return w.classify(c)
}

func thing(name, rname string, owner *metav1.OwnerReference) *unstructured.Unstructured {
	u := &unstructured.Unstructured{Object: map[string]any{}}
	u.SetGroupVersionKind(cdGVK)
	u.SetName(name)
	if rname != "" {
		u.SetAnnotations(map[string]string{annName: rname})
	}
	if owner != nil {
		u.SetOwnerReferences([]metav1.OwnerReference{*owner})
	}
	return u
}

// staleNameFor is the name a forged annotation carries: another desired name if there is one
func (w *world) staleNameFor(n string) string {
	for i, m := range w.names {
		if m == n && len(w.names) > 1 {
			return w.names[(i+1)%len(w.names)]
		}
	}
	return "zz-stale"
}

func (w *world) setTemplates() {
	w.s.Mutate(revKey, func(u *unstructured.Unstructured) {
		res := []any{}
		for _, n := range w.want {
			base := map[string]any{"apiVersion": fmt.Sprintf("ex.org/v%d", w.ver), "kind": "Thing", "spec": map[string]any{"param": n}}
			if w.forge {
				base["metadata"] = map[string]any{"annotations": map[string]any{annName: w.staleNameFor(n)}}
			}
			res = append(res, map[string]any{
				"name": n,
				"base": base,
				"patches": []any{
					map[string]any{"type": "FromCompositeFieldPath", "fromFieldPath": "spec.size", "toFieldPath": "spec.size"},
					// a Required patch: the template cannot be rendered while the XR field is missing (env step "rfail")
					map[string]any{"type": "FromCompositeFieldPath", "fromFieldPath": "spec.req" + n, "toFieldPath": "spec.req", "policy": map[string]any{"fromFieldPath": "Required"}},
				},
			})
		}
		_ = unstructured.SetNestedSlice(u.Object, res, "spec", "resources")
	})
}

func (w *world) env(e replay.Entry) {
	w.quiet = false
	w.prevOK = false
	switch e.K {
	case "want":
		w.want = nil
		for _, n := range e.Raw["names"].([]any) {
			w.want = append(w.want, n.(string))
		}
		sort.Strings(w.want)
		if w.mode == "PT" {
			w.setTemplates()
		}
	case "rfail":
		w.rfail = map[string]bool{}
		for _, n := range e.Raw["names"].([]any) {
			w.rfail[n.(string)] = true
		}
		w.s.Mutate(xrKey, func(u *unstructured.Unstructured) {
			for _, n := range w.names {
				if w.rfail[n] {
					unstructured.RemoveNestedField(u.Object, "spec", "req"+n)
				} else {
					_ = unstructured.SetNestedField(u.Object, "x", "spec", "req"+n)
				}
			}
		})
	case "grab":
		// another owner replaces the XR as the controller of the composed resource
		w.s.Mutate(cdKey(w.rev[e.O]), func(u *unstructured.Unstructured) {
			u.SetOwnerReferences([]metav1.OwnerReference{{APIVersion: "ex.org/v1", Kind: "XThing", Name: "other-xr", UID: "foreign-uid", Controller: ptr.To(true)}})
		})
	case "ver":
		// the desired resources are now written at the other served version of their kind
		w.ver = 3 - w.ver
		if w.mode == "PT" {
			w.setTemplates()
		}
	case "legacy":
		// while it is on, the composed resources the XR controls carry, at the start of every reconcile, the managed fields a
		// client-side-apply writer leaves behind (see relegacy)
		w.legacyOn = !w.legacyOn
		w.upgrading = 2
		w.relegacy()
	case "forge":
		// the author's desired resources now carry (or no longer carry) a composition-resource-name annotation that
		// names ANOTHER resource (YAML pasted from a live composed resource, a body built by copying another one):
		// Crossplane's own value must win
		w.forge = !w.forge
		if w.mode == "PT" {
			w.setTemplates()
		}
	case "remove":
		w.s.Remove(cdKey(w.rev[e.O]))
		if w.al != nil {
			w.vanished = append(w.vanished, e.O)
			w.midEnv = true
		}
	case "markdeleted":
		k := cdKey(w.rev[e.O])
		w.s.Mutate(k, func(u *unstructured.Unstructured) {
			u.SetFinalizers(append(u.GetFinalizers(), "provider.example.org/external"))
		})
		w.s.MarkDeleted(k)
	case "finalize":
		w.s.Mutate(cdKey(w.rev[e.O]), func(u *unstructured.Unstructured) { u.SetFinalizers(nil) })
	default:
		panic("unknown env step " + e.K)
	}
	w.emit("env", map[string]any{"verb": e.K, "target": orNone(e.O)})
}

// relegacy gives every composed resource the XR controls the managed fields a client-side-apply writer leaves behind.
func (w *world) relegacy() {
	for _, o := range w.s.All(cdGVK.GroupKind()) {
		if c := metav1.GetControllerOf(o); c == nil || c.UID != w.xrUID {
			continue
		}
		w.s.Mutate(simapi.KeyOf(o), func(u *unstructured.Unstructured) {
			u.SetManagedFields([]metav1.ManagedFieldsEntry{{Manager: "crossplane", Operation: metav1.ManagedFieldsOperationUpdate,
				APIVersion: u.GetAPIVersion(), FieldsType: "FieldsV1",
				FieldsV1: &metav1.FieldsV1{Raw: []byte(`{"f:metadata":{"f:annotations":{".":{},"f:crossplane.io/composition-resource-name":{}},"f:ownerReferences":{}},"f:spec":{".":{},"f:param":{}}}`)}}})
		})
	}
}

func orNone(s string) string {
	if s == "" {
		return "none"
	}
	return s
}

// ---- the scripted function pipeline: step 1 returns every name, step 2 (the last) narrows it down to what is wanted.
func (w *world) desiredFor(names []string) map[string]*fnv1.Resource {
	out := map[string]*fnv1.Resource{}
	for _, n := range names {
		body := map[string]any{"apiVersion": fmt.Sprintf("ex.org/v%d", w.ver), "kind": "Thing", "spec": map[string]any{"param": n}}
		if n == w.fixed {
			body["metadata"] = map[string]any{"name": "fixed"}
		}
		if w.forge {
			md, _ := body["metadata"].(map[string]any)
			if md == nil {
				md = map[string]any{}
			}
			md["annotations"] = map[string]any{annName: w.staleNameFor(n)}
			body["metadata"] = md
		}
		s, _ := structpb.NewStruct(body)
		out[n] = &fnv1.Resource{Resource: s}
	}
	return out
}

func (w *world) runFunction(ctx context.Context, name string, req *fnv1.RunFunctionRequest) (*fnv1.RunFunctionResponse, error) {
	if w.fnOverride != nil {
		return w.fnOverride(ctx, name, req)
	}
	step := 1
	if name == "fn2" {
		step = 2
	}
	if w.fnCalls == 0 {
		// the pipeline starts: this is the model's "desire" step
		if w.al != nil {
			w.al.OnCall("desire:", false)
			if m := w.al.Matched; m != nil && m.F != "ok" {
				w.failKind = m.F
			}
		}
		w.inCompose = true
	}
	w.fnCalls++
	if w.al != nil {
		// what this step was told exists: the composed resources in the request's observed state
		seen := []string{}
		for _, r := range req.GetObserved().GetResources() {
			if md, _ := r.GetResource().AsMap()["metadata"].(map[string]any); md != nil {
				if n, _ := md["name"].(string); n != "" {
					seen = append(seen, w.idOf(n))
				}
			}
		}
		sort.Strings(seen)
		w.emit("fn", map[string]any{"step": step, "observed": strs(seen)})
	}
	kind, at := strings.TrimRight(w.failKind, "12"), 0
	if w.failKind != "" {
		at = 1
		if strings.HasSuffix(w.failKind, "2") {
			at = 2
		}
	}
	xrs, _ := structpb.NewStruct(map[string]any{"apiVersion": "ex.org/v1", "kind": "XThing", "status": map[string]any{"observed": "yes"}})
	rsp := &fnv1.RunFunctionResponse{Desired: &fnv1.State{Composite: &fnv1.Resource{Resource: xrs}}, Context: req.GetContext()}
	if step == 1 {
		rsp.Desired.Resources = w.desiredFor(w.names)
	} else {
		rsp.Desired.Resources = w.desiredFor(w.want)
	}
	if at == step {
		switch kind {
		case "fnerror":
			w.pfail = true
			w.emit("env", map[string]any{"verb": "pipeline-fails", "target": "none"})
			return nil, errors.New("function failed")
		case "fatal":
			w.pfail = true
			w.emit("env", map[string]any{"verb": "pipeline-fails", "target": "none"})
			rsp.Results = []*fnv1.Result{{Severity: fnv1.Severity_SEVERITY_FATAL, Message: "fatal"}}
			return rsp, nil
		case "reqloop", "reqlabel", "reqflip":
			// requirements that never stabilise: a different object name each round, or (reqlabel) the same
			// selector name / kind with different labels each round (added after the seeded change C03-m1 was missed),
			// or (reqflip) two names in alternation - every value was seen before, but never in the round before
			// (added after the seeded change C03-m11 was missed)
			w.reqRound++
			if !w.pfail {
				w.pfail = true
				w.emit("env", map[string]any{"verb": "pipeline-fails", "target": "none"})
			}
			sel := &fnv1.ResourceSelector{ApiVersion: "ex.org/v1", Kind: "Extra", Match: &fnv1.ResourceSelector_MatchName{MatchName: fmt.Sprintf("extra-%d", w.reqRound)}}
			if kind == "reqflip" {
				sel.Match = &fnv1.ResourceSelector_MatchName{MatchName: fmt.Sprintf("extra-%d", w.reqRound%2)}
			}
			if kind == "reqlabel" {
				sel.Match = &fnv1.ResourceSelector_MatchLabels{MatchLabels: &fnv1.MatchLabels{Labels: map[string]string{"round": fmt.Sprintf("%d", w.reqRound)}}}
			}
			rsp.Requirements = &fnv1.Requirements{ExtraResources: map[string]*fnv1.ResourceSelector{"r": sel}}
			return rsp, nil
		}
	}
	return rsp, nil
}

func newWorld(tw *trace.Writer, id string, init map[string]any) *world {
	sch := runtime.NewScheme()
	_ = v1.AddToScheme(sch)
	_ = corev1.AddToScheme(sch)
	_ = pkgv1.AddToScheme(sch)
	s := simapi.NewServer(sch)
	w := &world{s: s, tw: tw, scenID: id, ids: map[string]string{}, rev: map[string]string{}, ver: 1}
	w.c = simapi.NewClient(s, "xr")
	w.uc = w.c.Sibling("xr-uncached")
	w.mode, _ = init["mode"].(string)
	for _, n := range init["names"].([]any) {
		w.names = append(w.names, n.(string))
	}
	sort.Strings(w.names)
	for _, n := range init["want"].([]any) {
		w.want = append(w.want, n.(string))
	}
	sort.Strings(w.want)
	foreignAt, _ := init["foreignAt"].(string)
	fixedName, _ := init["fixedName"].(string)

	xr := &unstructured.Unstructured{Object: map[string]any{}}
	xr.SetGroupVersionKind(xrGVK)
	xr.SetName(xrName)
	_ = unstructured.SetNestedField(xr.Object, compName, "spec", "compositionRef", "name")
	_ = unstructured.SetNestedField(xr.Object, revName, "spec", "compositionRevisionRef", "name")
	_ = unstructured.SetNestedField(xr.Object, "Manual", "spec", "compositionUpdatePolicy")
	_ = unstructured.SetNestedField(xr.Object, "large", "spec", "size")
	for _, n := range w.names {
		_ = unstructured.SetNestedField(xr.Object, "x", "spec", "req"+n)
	}
	foreign := &metav1.OwnerReference{APIVersion: "ex.org/v1", Kind: "XThing", Name: "other-xr", UID: "foreign-uid", Controller: ptr.To(true)}
	switch foreignAt {
	case "ref":
		w.ids["foreign-1"], w.rev["o1"], w.nextID = "o1", "foreign-1", 1
		s.Put(thing("foreign-1", fixedName, foreign))
		_ = unstructured.SetNestedSlice(xr.Object, []any{map[string]any{"apiVersion": "ex.org/v1", "kind": "Thing", "name": "foreign-1"}}, "spec", "resourceRefs")
	case "name":
		w.fixed = fixedName
		w.ids["fixed"], w.rev["fixed"] = "fixed", "fixed"
		// the foreign owner is a near twin of our XR - same name, and either the same kind in another API group or another
		// kind in the same group - that composed the object the way our XR would: server-side apply under the field manager
		// the real ComposedFieldOwnerName derives for it (added after the seeded change C02-m5 - a field manager name that
		// no longer tells such twins apart lets the API server hand the object over - was missed)
		twin := ucomposite.New(ucomposite.WithGroupVersionKind(schema.GroupVersionKind{Group: "other.org", Version: "v1", Kind: xrGVK.Kind}))
		if sha256.Sum256([]byte(id))[0]%2 == 1 {
			twin = ucomposite.New(ucomposite.WithGroupVersionKind(schema.GroupVersionKind{Group: xrGVK.Group, Version: "v1", Kind: "XOther"}))
		}
		twin.SetName(xrName)
		towner := &metav1.OwnerReference{APIVersion: twin.GetAPIVersion(), Kind: twin.GetKind(), Name: xrName, UID: "foreign-uid", Controller: ptr.To(true), BlockOwnerDeletion: ptr.To(true)}
		body := thing("fixed", "", towner)
		_ = unstructured.SetNestedField(body.Object, "theirs", "spec", "owner")
		if err := simapi.NewClient(s, "twin").Patch(context.Background(), body, client.Apply, client.ForceOwnership, client.FieldOwner(composite.ComposedFieldOwnerName(twin))); err != nil {
			panic(err)
		}
	}
	w.xrUID = s.Put(xr).GetUID()

	rev := &v1.CompositionRevision{ObjectMeta: metav1.ObjectMeta{Name: revName, Labels: map[string]string{v1.LabelCompositionName: compName}}}
	rev.Spec.CompositeTypeRef = v1.TypeReference{APIVersion: "ex.org/v1", Kind: "XThing"}
	rev.Spec.Revision = 1
	if w.mode == "Pipeline" {
		m := v1.CompositionModePipeline
		rev.Spec.Mode = &m
		rev.Spec.Pipeline = []v1.PipelineStep{{Step: "s1", FunctionRef: v1.FunctionReference{Name: "fn1"}}, {Step: "s2", FunctionRef: v1.FunctionReference{Name: "fn2"}}}
	} else {
		m := v1.CompositionModeResources
		rev.Spec.Mode = &m
	}
	s.Put(rev)
	if w.mode == "PT" {
		w.setTemplates()
	}

	// the production wiring: definition.Reconciler.CompositeReconcilerOptions + the real PackagedFunctionRunner (wiring.go)
	w.xfnc = simapi.NewClient(s, "xfn")
	putFunctions(s)
	w.rec = w.buildReconciler()
	icpt := func(cl *simapi.Call) simapi.Decision {
		if w.al == nil {
			return simapi.Proceed
		}
		if cl.Actor == "xr" && cl.Verb == "get" && cl.Key.Kind == "Thing" && w.missed[cl.Key.Name] {
			// an informer cache that has not seen the resource yet does not see it for the rest of this reconcile either:
			// only a read through the live client finds it
			return simapi.CacheMiss
		}
		abs := w.classify(cl)
		if w.mode == "PT" && !w.inCompose && (strings.HasPrefix(abs, "update:o") || abs == "update:xr" || strings.HasPrefix(abs, "create:") || strings.HasPrefix(abs, "patch:")) {
			w.inCompose = true
		}
		d := w.al.OnCall(abs, cl.Write)
		if d == simapi.CacheMiss {
			w.missed[cl.Key.Name] = true
		}
		return d
	}
	w.c.Intercept, w.uc.Intercept = icpt, icpt
	s.OnEvent = w.onEvent
	return w
}

type sweep struct {
	rec, idx int
	d        simapi.Decision
}

func (w *world) reconcile(al *replay.Aligner, sw *sweep) int {
	w.recNo++
	if w.legacyOn {
		w.relegacy()
		w.upgrading = 2
	}
	setCurrent(w)
	al.Virtual = func(e replay.Entry) bool { return w.mode == "PT" && e.K == "desire" }
	al.Ignore = func(abs string) bool { return strings.HasPrefix(abs, "pre:") }
	al.Window = 6
	if w.mode == "PT" {
		// the associator reads and collects object by object, the model collects after all reads: an environment step in
		// the middle of the collection of one object commutes with the reads of the others
		al.PastEnv = func(envs, skipped []replay.Entry) bool {
			for _, e := range envs {
				if e.K != "grab" && e.K != "remove" {
					return false
				}
				for _, c := range skipped {
					if c.O == e.O || c.O == "xr" {
						return false
					}
				}
			}
			return true
		}
	}
	w.al = al
	w.pfail, w.failKind, w.inCompose, w.gcd, w.fnCalls, w.reqRound = false, "", false, nil, 0, 0
	w.cdw = 0
	w.vanished = nil
	w.missed = map[string]bool{}
	w.composed, w.composeErr = false, nil
	w.quiet = true
	w.wantRec = append([]string(nil), w.want...)
	st := w.post()
	w.start = st
	w.c.BeginReconcile()
	if sw != nil && sw.rec == w.recNo {
		inner := w.c.Intercept
		sw2 := func(cl *simapi.Call) simapi.Decision {
			d := inner(cl)
			if cl.Idx == sw.idx && d == simapi.Proceed {
				al.Injected = sw.d.String()
				if sw.d == simapi.FailConflict && !cl.Write {
					return simapi.FailError
				}
				return sw.d
			}
			return d
		}
		w.c.Intercept, w.uc.Intercept = sw2, sw2
		defer func() { w.c.Intercept, w.uc.Intercept = inner, inner }()
	}
	w.emit("start", nil)
	_, err := w.rec.Reconcile(context.Background(), reconcile.Request{NamespacedName: types.NamespacedName{Name: xrName}})
	calls := w.c.Calls()
	al.Finish()
	res := "ok"
	if w.c.Dead() {
		res = "crashed"
	} else if err != nil || !w.composed || w.composeErr != nil {
		res = "error" // the reconcile did not run Compose to a successful end
	}
	faulty := al.Injected != ""
	p := w.post()
	unrendered := false
	for _, n := range w.want {
		if w.rfail[n] {
			unrendered = true // the composed state cannot match the desired state
		}
	}
	thisOK := res == "ok" && !faulty && !w.pfail && w.quiet && !unrendered
	steady := thisOK && w.prevOK
	if w.upgrading > 0 {
		// the client-side to server-side apply upgrade of the managed fields takes two reconciles by design (clear and apply,
		// then drop "before-first-apply"): the composed state has converged only after them
		if thisOK {
			w.upgrading--
		}
		steady = false
	}
	w.emit("end", map[string]any{"result": res, "faulty": faulty, "steady": steady})
	w.prevOK = thisOK
	w.prevDig = p["digest"].(string)
	w.al = nil
	return calls
}

type summary struct {
	Scenarios  int            `json:"scenarios"`
	Runs       int            `json:"runs"`
	Reconciles int            `json:"reconciles"`
	Events     int            `json:"events"`
	Drift      int            `json:"drift"`
	DriftRuns  int            `json:"drift_runs"`
	SweepRuns  int            `json:"sweep_runs"`
	Again      int            `json:"again_runs"`
	DriftByAbs map[string]int `json:"drift_by_abs"`
	Counts     map[string]int `json:"counts"`
	Samples    []any          `json:"samples"`
}

func run(tw *trace.Writer, id string, hist []replay.Entry, variant simapi.Decision, sw *sweep, extra int, sum *summary) []int {
	tw.Boundary()
	w := newWorld(tw, id, hist[0].Raw)
	w.emit("reset", nil)
	blocks, trailing := replay.Split(hist[1:], func(e replay.Entry) bool { return e.Abs() == "get:xr" })
	var calls []int
	drift := 0
	for _, b := range blocks {
		for _, e := range b.Pre {
			w.env(e)
		}
		al := &replay.Aligner{Steps: b.Steps, Variant: variant, DiesAs: variant, Env: w.env}
		calls = append(calls, w.reconcile(al, sw))
		if sw == nil {
			drift += al.Drift
			for _, k := range al.DriftAbs {
				sum.DriftByAbs[strings.SplitN(k, ":", 2)[0]]++
			}
		}
		sum.Reconciles++
	}
	for _, e := range trailing {
		w.env(e)
	}
	for i := 0; i < extra; i++ {
		al := &replay.Aligner{Variant: variant, Env: w.env}
		calls = append(calls, w.reconcile(al, sw))
		sum.Reconciles++
	}
	sum.Runs++
	sum.Drift += drift
	if drift > 0 {
		sum.DriftRuns++
	}
	lastMidEnv = w.midEnv
	return calls
}

// lastMidEnv: the last run had a resource removed by the environment in the middle of a reconcile. What the code does then
// depends on the order in which it meets the resources, and it ranges over Go maps: such runs are repeated (againN times).
var lastMidEnv bool

const againN = 5

func main() {
	scenarios := flag.String("scenarios", "", "NDJSON file of TLC histories")
	tracePath := flag.String("trace", "", "output trace")
	sumPath := flag.String("summary", "", "output summary JSON")
	variants := flag.String("variants", "rotate", "rotate|all: how a model 'fail' is realised (error, conflict, crashBefore)")
	chunk := flag.Int("chunk", 0, "split the trace into files of about this many events")
	sweepN := flag.Int("sweep", 0, "number of scenarios to sweep over every real call index x outcome")
	conds := flag.Bool("conds", false, "the scenarios are C05 condition vectors (spec/Conditions.tla)")
	extraN := flag.Int("extra", 3, "fault-free reconciles appended to every scenario (to quiescence)")
	cpuprof := flag.String("cpuprofile", "", "write a CPU profile")
	flag.Parse()
	if *cpuprof != "" {
		f, _ := os.Create(*cpuprof)
		_ = pprof.StartCPUProfile(f)
		defer pprof.StopCPUProfile()
	}

	sockDir := filepath.Join(filepath.Dir(*tracePath), fmt.Sprintf("sock-%d", os.Getpid()))
	startServers(sockDir)
	defer stopServers(sockDir)
	if *conds {
		condsMain(*scenarios, *tracePath, *sumPath, *chunk)
		return
	}
	raws, err := scen.Load(*scenarios)
	if err != nil {
		fmt.Fprintln(os.Stderr, err)
		os.Exit(2)
	}
	tw, err := trace.New(*tracePath, *chunk)
	if err != nil {
		fmt.Fprintln(os.Stderr, err)
		os.Exit(2)
	}
	sum := &summary{DriftByAbs: map[string]int{}}
	fails := []simapi.Decision{simapi.CrashBefore, simapi.FailConflict}
	dec := map[string]simapi.Decision{"error": simapi.FailError, "conflict": simapi.FailConflict, "crashBefore": simapi.CrashBefore, "crashAfter": simapi.CrashAfter}
	for i, raw := range raws {
		var sc struct {
			ID      string          `json:"id"`
			Hist    json.RawMessage `json:"hist"`
			Variant string          `json:"variant"`
			Extra   *int            `json:"extra"`
			Again   int             `json:"again"`
			Sweep   *struct {
				Rec     int    `json:"rec"`
				Idx     int    `json:"idx"`
				Outcome string `json:"outcome"`
			} `json:"sweep"`
		}
		if err := json.Unmarshal(raw, &sc); err != nil {
			fmt.Fprintln(os.Stderr, "bad scenario:", err)
			os.Exit(2)
		}
		if t := strings.TrimSpace(string(sc.Hist)); strings.HasPrefix(t, "{") {
			// an input vector of spec/MCRefOrder.tla, not a behaviour
			refsVector(tw, sc.ID, sc.Hist)
			sum.Scenarios++
			sum.Runs++
			continue
		}
		hist, err := replay.Parse(sc.Hist)
		if err != nil || len(hist) == 0 || hist[0].T != "init" {
			fmt.Fprintln(os.Stderr, "bad scenario history:", err)
			os.Exit(2)
		}
		sum.Scenarios++
		if len(sum.Samples) < 2 {
			sum.Samples = append(sum.Samples, json.RawMessage(raw))
		}
		if sc.Variant != "" || sc.Sweep != nil {
			v := simapi.FailError
			if sc.Variant != "" {
				v = dec[sc.Variant]
			}
			var sw *sweep
			if sc.Sweep != nil {
				sw = &sweep{rec: sc.Sweep.Rec, idx: sc.Sweep.Idx, d: dec[sc.Sweep.Outcome]}
			}
			ex := *extraN
			if sc.Extra != nil {
				ex = *sc.Extra
			}
			run(tw, sc.ID, hist, v, sw, ex, sum)
			for k := 1; k <= sc.Again; k++ {
				run(tw, fmt.Sprintf("%s/again-%d", sc.ID, k), hist, v, sw, ex, sum)
			}
			continue
		}
		hasFail := false
		for _, e := range hist {
			if e.F == "crashBefore" {
				hasFail = true
			}
		}
		vs := []simapi.Decision{fails[i%2]}
		_ = variants // (kept for the command line of the checks: both realisations are always run now)
		if hasFail {
			// a failure that ends the reconcile is realised both as a dead process and as a Conflict, which the code
			// gets to see and must not swallow
			vs = fails
		}
		for _, v := range vs {
			id := sc.ID
			if hasFail {
				id += "/" + v.String()
			}
			calls := run(tw, id, hist, v, nil, *extraN, sum)
			if lastMidEnv {
				for k := 1; k <= againN; k++ {
					run(tw, fmt.Sprintf("%s/again-%d", id, k), hist, v, nil, *extraN, sum)
					sum.Again++
				}
			}
			if i < *sweepN && v == vs[0] {
				for r, n := range calls {
					for k := 1; k <= n; k++ {
						for _, d := range []simapi.Decision{simapi.FailError, simapi.FailConflict, simapi.CrashBefore, simapi.CrashAfter} {
							run(tw, fmt.Sprintf("%s/sweep-r%d-k%d-%s", sc.ID, r+1, k, d), hist, v, &sweep{rec: r + 1, idx: k, d: d}, *extraN, sum)
							sum.SweepRuns++
						}
					}
				}
			}
		}
	}
	sum.Events = tw.Lines
	sum.Counts = tw.Counts
	if err := tw.Close(); err != nil {
		fmt.Fprintln(os.Stderr, err)
		os.Exit(2)
	}
	if err := scen.WriteJSON(*sumPath, sum); err != nil {
		fmt.Fprintln(os.Stderr, err)
		os.Exit(2)
	}
}

// refsVector: the real composite.UpdateResourceRefs on one set of desired resources (spec/MCRefOrder.tla), 24 times - it
// ranges over a Go map, so the order in which it meets the resources differs from call to call; what it persists must not.
func refsVector(tw *trace.Writer, id string, raw json.RawMessage) {
	var v struct {
		Resources []struct{ APIVersion, Kind, Name string } `json:"resources"`
	}
	if err := json.Unmarshal(raw, &v); err != nil {
		fmt.Fprintln(os.Stderr, "bad refs vector:", err)
		os.Exit(2)
	}
	tw.Boundary()
	w := newWorld(tw, id, map[string]any{"mode": "Pipeline", "names": []any{"a"}, "want": []any{"a"}, "foreignAt": "none", "fixedName": "a"})
	w.emit("reset", nil)
	in := []any{}
	runs := []any{}
	for k := 0; k < 24; k++ {
		desired := composite.ComposedResourceStates{}
		for i, r := range v.Resources {
			cd := ucomposed.New()
			cd.SetAPIVersion(r.APIVersion)
			cd.SetKind(r.Kind)
			cd.SetName(r.Name)
			desired[composite.ResourceName(fmt.Sprintf("r%d", i))] = composite.ComposedResourceState{Resource: cd}
			if k == 0 {
				in = append(in, r.APIVersion+"|"+r.Kind+"|"+r.Name)
			}
		}
		xr := ucomposite.New()
		composite.UpdateResourceRefs(xr, desired)
		got := []any{}
		for _, ref := range xr.GetResourceReferences() {
			got = append(got, ref.APIVersion+"|"+ref.Kind+"|"+ref.Name)
		}
		runs = append(runs, got)
	}
	w.emit("refsvec", map[string]any{"input": in, "runs": runs})
}
