SPECIFICATION Spec
CONSTANTS Full = FALSE
ACTION_CONSTRAINT Emit
CHECK_DEADLOCK FALSE
INVARIANTS RefSane
