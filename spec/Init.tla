-------------------------------- MODULE Init --------------------------------
(***************************************************************************)
(* C20 - Crossplane's initialisation (cmd/crossplane/core/init.go running  *)
(* the steps of internal/initializer through initializer.New(...).Init) is *)
(* idempotent and never duplicates or clobbers existing state.             *)
(*                                                                         *)
(* The cluster content is abstracted per initializer step:                 *)
(*   ca            the root CA secret: absent, empty (the Helm chart       *)
(*                 creates it empty), complete, nokey (tls.key missing),   *)
(*                 nocert (tls.crt missing); id = which CA it is           *)
(*   srv, cli, ess the webhook/server, client and ESS TLS secrets: absent, *)
(*                 empty, crt / key / cacrt (only that one key present),   *)
(*                 complete; id = which certificate, iss = issuing CA      *)
(*   crdA          a core CRD with webhook conversion (b = the certificate *)
(*                 its caBundle carries), crdB a core CRD without (the     *)
(*                 locks CRD, with its status.storedVersions: the storage  *)
(*                 version migrator works on it), val / mut the webhook    *)
(*                 configurations (b = caBundle)                           *)
(*   lock, sc, drc the default objects: absent, default (as the            *)
(*                 initializer creates them), edited (by a user)           *)
(*   pkgs          installed packages: kind, object name, source =         *)
(*                 registry host x repository x version (tag or digest)    *)
(* A run is the sequence of API calls of the steps in init.go order        *)
(* (Labels); every call is one action with the variants ok / fail (no      *)
(* effect, the run is aborted - every step returns any API error) /        *)
(* crashAfter (effect applied, run aborted); runs are repeated.            *)
(*                                                                         *)
(* Interpretations (see also MonInit.tla):                                 *)
(*  - "image repository" = registry host + repository path, compared as    *)
(*    written ("" = no host); a reference without a host and one with a    *)
(*    host are different repositories (nothing is asserted across them).   *)
(*  - "current CA bundle" = what the code's authors inject: tls.crt of the *)
(*    webhook TLS server secret at the end of the run.                     *)
(*  - a run that ends with an error of its own (a TLS server secret that   *)
(*    has material but no tls.crt cannot be used: crds.go refuses) is not  *)
(*    a completed run: Bundle / NoDupPkg speak about completed runs.       *)
(*  - the default object name of a package is a function of the repository *)
(*    path only (xpkg.ToDNSLabel(RepositoryStr)): "def" for r1, "def2".    *)
(***************************************************************************)
EXTENDS Integers, Sequences, FiniteSets, TLC

CONSTANTS
  Cfgs,        \* set of initial configurations (records, see MCInit.tla)
  FixD7,       \* TRUE: the installer looks an installed package up by registry+repository (the intended design)
  MaxRuns,     \* runs per scenario
  MaxFaults,   \* faulty calls per scenario (at most one per run)
  FaultAt(_)   \* cfg -> set of labels at which faults are explored

VARIABLES cfg, st, loc, pc, run, res, nf, inj, everInj, prev, hist
vars == <<cfg, st, loc, pc, run, res, nf, inj, everInj, prev, hist>>
view == <<cfg, st, loc, pc, run, res, nf, inj, everInj, prev>>

Labels == <<
  "tls.get.ca", "tls.put.ca", "tls.get.srv", "tls.put.srv", "tls.get.cli", "tls.put.cli",
  "crds.get.srv", "crds.get.crdA", "crds.put.crdA", "crds.get.crdB", "crds.put.crdB",
  "whc.get.srv", "whc.get.val", "whc.put.val", "whc.get.mut", "whc.put.mut",
  "mig.get.1", "mig.get.2", "mig.get.3", "mig.get.4", "mig.get.5", "mig.get.6",
  "mig.list", "mig.patch", "mig.putst", "mig.get2",
  "ess.get.ca", "ess.get.ess", "ess.put.ess",
  "lock.get", "lock.put",
  "pkg.list.prov", "pkg.list.conf", "pkg.list.func", "pkg.get.1", "pkg.put.1", "pkg.get.2", "pkg.put.2",
  "sc.put", "drc.put" >>
N == Len(Labels)
Writes == {"tls.put.ca", "tls.put.srv", "tls.put.cli", "crds.put.crdA", "crds.put.crdB", "whc.put.val", "whc.put.mut",
           "mig.patch", "mig.putst", "ess.put.ess", "lock.put", "pkg.put.1", "pkg.put.2", "sc.put", "drc.put"}

Leaves == {"srv", "cli", "ess"}
HasCrt(x)  == x.s \in {"crt", "complete"}
HasCaCrt(x) == x.s \in {"cacrt", "complete"}
HasMaterial(x) == x.s \notin {"absent", "empty"}
CaHasCert(c) == c.s \in {"complete", "nokey"}

\* ---- initial store of a configuration ----
\* ids: 1 = the CA the existing material comes from, 9 = some other CA, 8 = a stale bundle,
\* 11/12/13 = the existing server / client / ESS certificates; new material gets ids from 20.
LeafInit(s, id) ==
  CASE s \in {"absent", "empty"} -> [s |-> s, id |-> 0, iss |-> 0]
    [] s = "foreign"             -> [s |-> "complete", id |-> id, iss |-> 9]
    [] s = "partial"             -> [s |-> "key", id |-> id, iss |-> 1]
    [] OTHER                     -> [s |-> s, id |-> id, iss |-> 1]
BundleInit(b, srv) == IF b = "current" /\ HasCrt(srv) THEN srv.id ELSE 8
DefName(r) == IF r = "r1" THEN "def" ELSE "def2"
Req2Host(c) == IF c.inst.n = "none" THEN "h" ELSE c.inst.h
Reqs(c) == <<[k |-> c.kind, h |-> c.req.h, r |-> "r1", v |-> c.req.v]>>
           \* the second request: another repository of the registry the installed package came from ("h" if none is installed)
           \o (IF c.req2 THEN <<[k |-> c.kind, h |-> Req2Host(c), r |-> "r2", v |-> "t1"]>> ELSE <<>>)
InitPkgs(c) == IF c.inst.n = "none" THEN {}
               ELSE {[k |-> c.kind, n |-> c.inst.n, h |-> c.inst.h, r |-> "r1", v |-> c.inst.v]}
InitStore(c) ==
  LET srv == LeafInit(c.srv, 11) IN
  [ ca   |-> [s |-> c.ca, id |-> IF c.ca \in {"absent", "empty"} THEN 0 ELSE 1],
    srv  |-> srv, cli |-> LeafInit(c.cli, 12), ess |-> LeafInit(c.ess, 13),
    crdA |-> [p |-> c.crd # "absent", b |-> IF c.crd = "absent" THEN 0 ELSE BundleInit(c.crd, srv)],
    crdB |-> [p |-> c.crd # "absent", st |-> IF c.crd = "absent" THEN "none" ELSE c.stored],
    val  |-> [p |-> c.whc # "absent", b |-> IF c.whc = "absent" THEN 0 ELSE BundleInit(c.whc, srv)],
    mut  |-> [p |-> c.whc # "absent", b |-> IF c.whc = "absent" THEN 0 ELSE BundleInit(c.whc, srv)],
    lock |-> c.lock, sc |-> c.sc, drc |-> c.drc,
    pkgs |-> InitPkgs(c), next |-> 20 ]

Loc0 == [needCA |-> FALSE, signer |-> 0, needSrv |-> FALSE, needCli |-> FALSE, needEss |-> FALSE,
         bundle |-> 0, migOld |-> FALSE, names |-> <<>>]

\* ---- which calls a run makes, and what they do ----
Happens(l, c, s, lc) ==
  CASE l = "tls.put.ca"  -> lc.needCA
    [] l = "tls.put.srv" -> lc.needSrv
    [] l = "tls.put.cli" -> lc.needCli
    [] l = "ess.put.ess" -> lc.needEss
    [] l \in {"mig.list", "mig.putst", "mig.get2"} -> lc.migOld
    [] l = "mig.patch"   -> lc.migOld /\ s.lock # "absent"
    [] l \in {"pkg.get.2", "pkg.put.2"} -> Len(Reqs(c)) >= 2
    [] OTHER -> TRUE

\* installer.go buildPack: the object a requested package is applied to
Match(fix, q, o) == o.k = q.k /\ o.r = q.r /\ (IF fix THEN o.h = q.h ELSE o.h = "")
NameFor(fix, q, pk) == IF \E o \in pk : Match(fix, q, o)
                       THEN (CHOOSE o \in pk : Match(fix, q, o)).n ELSE DefName(q.r)
ApplyPkg(q, n, pk) ==
  IF \E o \in pk : o.k = q.k /\ o.n = n
  THEN {IF o.k = q.k /\ o.n = n THEN [o EXCEPT !.h = q.h, !.r = q.r, !.v = q.v] ELSE o : o \in pk}
  ELSE pk \cup {[k |-> q.k, n |-> n, h |-> q.h, r |-> q.r, v |-> q.v]}
Created(d) == IF d = "absent" THEN "default" ELSE d

NewLeaf(s, lc) == [s |-> "complete", id |-> s.next, iss |-> lc.signer]
Out(s, lc) == [s |-> s, lc |-> lc, err |-> FALSE]
\* Effect of a call that is served: new store, new step-local state, err = the step fails by itself after this call
Effect(fix, l, c, s, lc) ==
  CASE l = "tls.get.ca"  -> Out(s, [lc EXCEPT !.needCA = (s.ca.s # "complete"), !.signer = s.ca.id])
    [] l = "tls.put.ca"  -> Out([s EXCEPT !.ca = [s |-> "complete", id |-> s.next], !.next = s.next + 1], [lc EXCEPT !.signer = s.next])
    [] l = "tls.get.srv" -> Out(s, [lc EXCEPT !.needSrv = ~HasMaterial(s.srv)])
    [] l = "tls.put.srv" -> Out([s EXCEPT !.srv = NewLeaf(s, lc), !.next = s.next + 1], lc)
    [] l = "tls.get.cli" -> Out(s, [lc EXCEPT !.needCli = ~HasMaterial(s.cli)])
    [] l = "tls.put.cli" -> Out([s EXCEPT !.cli = NewLeaf(s, lc), !.next = s.next + 1], lc)
    [] l \in {"crds.get.srv", "whc.get.srv"} ->
         IF HasCrt(s.srv) THEN Out(s, [lc EXCEPT !.bundle = s.srv.id]) ELSE [s |-> s, lc |-> lc, err |-> TRUE]
    [] l = "crds.put.crdA" -> Out([s EXCEPT !.crdA = [p |-> TRUE, b |-> lc.bundle]], lc)
    [] l = "crds.put.crdB" -> Out([s EXCEPT !.crdB.p = TRUE], lc)
    [] l = "whc.put.val" -> Out([s EXCEPT !.val = [p |-> TRUE, b |-> lc.bundle]], lc)
    [] l = "whc.put.mut" -> Out([s EXCEPT !.mut = [p |-> TRUE, b |-> lc.bundle]], lc)
    [] l = "mig.get.6"   -> Out(s, [lc EXCEPT !.migOld = (s.crdB.p /\ s.crdB.st = "old")])
    [] l = "mig.putst"   -> Out([s EXCEPT !.crdB.st = "cur"], lc)
    [] l = "ess.get.ca"  -> Out(s, [lc EXCEPT !.signer = s.ca.id])
    [] l = "ess.get.ess" -> Out(s, [lc EXCEPT !.needEss = ~HasMaterial(s.ess)])
    [] l = "ess.put.ess" -> Out([s EXCEPT !.ess = NewLeaf(s, lc), !.next = s.next + 1], lc)
    [] l = "lock.put"    -> Out([s EXCEPT !.lock = Created(s.lock)], lc)
    [] l = "pkg.list.func" -> Out(s, [lc EXCEPT !.names = [i \in 1..Len(Reqs(c)) |-> NameFor(fix, Reqs(c)[i], s.pkgs)]])
    [] l = "pkg.put.1"   -> Out([s EXCEPT !.pkgs = ApplyPkg(Reqs(c)[1], lc.names[1], s.pkgs)], lc)
    [] l = "pkg.put.2"   -> Out([s EXCEPT !.pkgs = ApplyPkg(Reqs(c)[2], lc.names[2], s.pkgs)], lc)
    [] l = "sc.put"      -> Out([s EXCEPT !.sc = Created(s.sc)], lc)
    [] l = "drc.put"     -> Out([s EXCEPT !.drc = Created(s.drc)], lc)
    [] OTHER -> Out(s, lc)   \* reads that decide nothing, no-op patches (mig.patch)

MinOf(S) == CHOOSE m \in S : \A x \in S : m <= x
\* first call at or after position i that the run makes (N+1: none)
Skip(i, c, s, lc) == LET S == {j \in i..N : Happens(Labels[j], c, s, lc)} IN IF S = {} THEN N + 1 ELSE MinOf(S)

\* ---- reference semantics: one complete fault-free run as a function (used by MonInit) ----
RECURSIVE RunFrom(_, _, _, _, _)
RunFrom(fix, c, s, lc, i) ==
  IF i > N THEN [s |-> s, ok |-> TRUE]
  ELSE IF ~Happens(Labels[i], c, s, lc) THEN RunFrom(fix, c, s, lc, i + 1)
  ELSE LET r == Effect(fix, Labels[i], c, s, lc) IN
       IF r.err THEN [s |-> r.s, ok |-> FALSE] ELSE RunFrom(fix, c, r.s, r.lc, i + 1)
RunOnce(fix, c, s) == RunFrom(fix, c, s, Loc0, 1)

\* what of a store is observable modulo the identity of generated material
AbsLeaf(x, ca) == [s |-> IF x.s \in {"crt", "key", "cacrt"} THEN "partial" ELSE x.s,
                   chain |-> HasCrt(x) /\ CaHasCert(ca) /\ x.iss = ca.id,
                   cab   |-> HasCaCrt(x) /\ CaHasCert(ca) /\ x.iss = ca.id]
AbsStore(s) ==
  [ ca |-> s.ca.s, srv |-> AbsLeaf(s.srv, s.ca), cli |-> AbsLeaf(s.cli, s.ca), ess |-> AbsLeaf(s.ess, s.ca),
    crdA |-> [p |-> s.crdA.p, cur |-> s.crdA.p /\ HasCrt(s.srv) /\ s.crdA.b = s.srv.id],
    crdB |-> s.crdB,
    val  |-> [p |-> s.val.p, cur |-> s.val.p /\ HasCrt(s.srv) /\ s.val.b = s.srv.id],
    mut  |-> [p |-> s.mut.p, cur |-> s.mut.p /\ HasCrt(s.srv) /\ s.mut.b = s.srv.id],
    lock |-> s.lock, sc |-> s.sc, drc |-> s.drc, pkgs |-> s.pkgs ]

\* ---- behaviour: runs with faults ----
Init ==
  /\ cfg \in Cfgs
  /\ st = InitStore(cfg) /\ loc = Loc0 /\ pc = 1 /\ run = 1 /\ res = "none" /\ nf = 0
  /\ inj = FALSE /\ everInj = FALSE
  /\ prev = [valid |-> FALSE, clean |-> FALSE, st |-> InitStore(cfg)]
  /\ hist = <<[t |-> "init", runs |-> MaxRuns] @@ cfg>>

Running == pc \in 1..N
EndRun(r) == /\ pc' = 0 /\ res' = r
\* the call is served
Ok ==
  /\ Running
  /\ LET r == Effect(FixD7, Labels[pc], cfg, st, loc) IN
     /\ st' = r.s /\ loc' = r.lc
     /\ (IF r.err THEN EndRun("error")
         ELSE LET n == Skip(pc + 1, cfg, r.s, r.lc) IN
              (IF n > N THEN EndRun("ok") ELSE (pc' = n /\ res' = res)))
  /\ UNCHANGED <<cfg, run, nf, inj, everInj, prev, hist>>
CanFault == Running /\ nf < MaxFaults /\ ~inj /\ Labels[pc] \in FaultAt(cfg)
\* the call fails without effect (error / conflict / crash before): the run is aborted
Fail ==
  /\ CanFault
  /\ EndRun("aborted") /\ nf' = nf + 1 /\ inj' = TRUE /\ everInj' = TRUE
  /\ hist' = Append(hist, [t |-> "fault", run |-> run, at |-> Labels[pc], f |-> "fail"])
  /\ UNCHANGED <<cfg, st, loc, run, prev>>
\* the write takes effect, then the process dies
CrashAfter ==
  /\ CanFault /\ Labels[pc] \in Writes
  /\ st' = Effect(FixD7, Labels[pc], cfg, st, loc).s
  /\ EndRun("aborted") /\ nf' = nf + 1 /\ inj' = TRUE /\ everInj' = TRUE
  /\ hist' = Append(hist, [t |-> "fault", run |-> run, at |-> Labels[pc], f |-> "crashAfter"])
  /\ UNCHANGED <<cfg, loc, run, prev>>
\* Another actor (a second initializer, a certificate manager) makes the CA secret complete between this run's read of it
\* and its write: the write is refused (AlreadyExists for a Create, Conflict for the Update of the empty secret), the run
\* is aborted with the other actor's CA in place - the next run loads and keeps it.
RivalCA ==
  /\ CanFault /\ Labels[pc] = "tls.put.ca" /\ st.ca.s \in {"absent", "empty"}
  /\ st' = [st EXCEPT !.ca = [s |-> "complete", id |-> 7]]      \* (7: neither the initial material's CA nor the issuer 9 of "foreign" leaves)
  /\ EndRun("aborted") /\ nf' = nf + 1 /\ inj' = TRUE /\ everInj' = TRUE
  /\ hist' = Append(hist, [t |-> "fault", run |-> run, at |-> Labels[pc], f |-> "rivalca"])
  /\ UNCHANGED <<cfg, loc, run, prev>>
\* the initializer is started again (the pod restarts, the chart is upgraded ...)
Rerun ==
  /\ pc = 0 /\ run < MaxRuns
  /\ run' = run + 1 /\ pc' = 1 /\ loc' = Loc0 /\ res' = "none" /\ inj' = FALSE
  /\ prev' = [valid |-> TRUE, clean |-> ~inj, st |-> st]
  /\ UNCHANGED <<cfg, st, nf, everInj, hist>>
Next == Ok \/ Fail \/ CrashAfter \/ RivalCA \/ Rerun
Spec == Init /\ [][Next]_vars

\* ---- properties (design level; MonInit.tla evaluates their counterparts on the real executions) ----
Ended == pc = 0
Idempotent == (Ended /\ ~inj /\ prev.valid /\ prev.clean) => st = prev.st
\* an aborted run followed by a run to completion ends where a single undisturbed run ends
AbortRerun == (Ended /\ res = "ok" /\ ~inj /\ everInj) =>
                AbsStore(st) = AbsStore(RunOnce(FixD7, cfg, InitStore(cfg)).s)
KeepCA    == [][st.ca.s = "complete" => st'.ca = st.ca]_vars
KeepCerts == [][\A x \in Leaves : HasMaterial(st[x]) => st'[x] = st[x]]_vars
Chain     == [][\A x \in Leaves : st'[x] # st[x] =>
                   st'[x].s = "complete" /\ st'.ca.s = "complete" /\ st'[x].iss = st'.ca.id]_vars
Untouched == [][/\ st.lock # "absent" => st'.lock = st.lock
                /\ st.sc # "absent" => st'.sc = st.sc
                /\ st.drc # "absent" => st'.drc = st.drc]_vars
Key(o) == <<o.k, o.h, o.r>>
NoDupPkg ==
  (Ended /\ res = "ok") =>
    /\ \A o1, o2 \in st.pkgs : Key(o1) = Key(o2) => o1 = o2
    /\ \A i \in 1..Len(Reqs(cfg)) : \E o \in st.pkgs : Key(o) = Key(Reqs(cfg)[i]) /\ o.v = Reqs(cfg)[i].v
    /\ \A i \in 1..Len(Reqs(cfg)) : \A o0 \in InitPkgs(cfg) : Key(o0) = Key(Reqs(cfg)[i]) =>
         \E o \in st.pkgs : o.n = o0.n /\ Key(o) = Key(o0) /\ o.v = Reqs(cfg)[i].v
Bundle == (Ended /\ res = "ok") =>
            /\ st.crdA.p /\ st.crdA.b = st.srv.id /\ HasCrt(st.srv)
            /\ st.val.p /\ st.val.b = st.srv.id /\ st.mut.p /\ st.mut.b = st.srv.id
=============================================================================
