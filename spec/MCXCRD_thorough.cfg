SPECIFICATION Spec
CONSTANTS
  SpecNames <- SpecNamesAll
  StatusNames <- StatusNamesAll
  Tags <- Tags3
  MaxSpecProps = 2
  MaxStatusProps = 2
  MaxVer = 3
  PoolSize = 3
  NameMaxes <- NM8
  ClaimSing <- Modes3
  ClaimList <- Modes3
  Policies <- Pol9
  Convs <- Conv4
  PairConvs <- Conv3
  PairSing = TRUE
  NMix = 100000
ACTION_CONSTRAINT Emit
CHECK_DEADLOCK FALSE
INVARIANTS DInputOK DRendered DVersions DScope DOwner DAuthor DMachinery DCollide DImmutable
