--------------------------- MODULE MonXrdLifecycle ---------------------------
(***************************************************************************)
(* Trace monitor of X02 (module XrdLifecycle): the rules P1..P8 of the     *)
(* spec header, evaluated on every recorded state / step of executions of  *)
(* the REAL definition.Reconciler and offered.Reconciler (interleaved,     *)
(* with faults, crashes, XRD edits and third parties) over simapi and a    *)
(* recording engine.  p = the record before (the state the call was made   *)
(* in), e = the call and the state after it.  e.seen = what the actor's    *)
(* reconcile has observed so far (its copy of the XRD, what its Apply left *)
(* the CRD as, whether it started the controller itself); e.post = the     *)
(* projected store + engine.  A false formula prints a VIOL line; the      *)
(* monitor goes on.                                                        *)
(***************************************************************************)
EXTENDS Integers, Sequences, FiniteSets, TLC, Json, IOUtils

Trace == ndJsonDeserialize(IOEnv.VERIF_TRACE)
VARIABLE l

AW(e) == IF e.actor = "def" THEN "x" ELSE "c"
Crd(s, w) == IF w = "x" THEN s.post.crdx ELSE s.post.crdc
Run(s, w) == IF w = "x" THEN s.post.runx ELSE s.post.runc
WVer(s, w) == IF w = "x" THEN s.post.wverx ELSE s.post.wverc
Cond(s, w) == IF w = "x" THEN s.post.xrd.condx ELSE s.post.xrd.condc
Type(s, w) == IF w = "x" THEN s.post.xrd.typex ELSE s.post.xrd.typec
Fin(s, w) == IF w = "x" THEN s.post.xrd.fd ELSE s.post.xrd.fo
IsCall(e) == e.ev = "call" /\ e.actor \in {"def", "off"}
CrdWrite(e) == IsCall(e) /\ e.kind = "crd" /\ e.applied

\* P1: a controller is started only after this reconcile's Apply left a live, own, Established CRD
StartOnlyEstablished(e) ==
  (IsCall(e) /\ e.abs = "start" /\ e.outcome = "ok") =>
     (e.seen.applied /\ e.seen.aest /\ e.seen.ast = "live" /\ e.seen.actrl = "xrd")

\* P2: the reconciler reports Watching (own condition True after its own successful status write) only if ...
Reports(e) == IsCall(e) /\ e.abs = "status:xrd" /\ e.outcome = "ok" /\ Cond(e, AW(e)) = "True"
CondRunning(e) == Reports(e) => Run(e, AW(e))
CondWatches(e) == (Reports(e) /\ Run(e, AW(e))) => WVer(e, AW(e)) # "none"
CondVersion(e) == (Reports(e) /\ WVer(e, AW(e)) # "none") => WVer(e, AW(e)) = e.seen.ver
CondTypeRef(e) == (Reports(e) /\ WVer(e, AW(e)) # "none") => Type(e, AW(e)) = WVer(e, AW(e))

\* P3: Start only while nothing runs under the name; a controller that runs for the right version and is recorded so
\* is not stopped outside the deletion branch
StopFirst(p, e) == (IsCall(e) /\ e.abs = "start") => ~Run(p, AW(e))
NoNeedlessStop(p, e) ==
  (IsCall(e) /\ e.abs = "stop" /\ e.applied /\ ~e.seen.del) =>
     ~(WVer(p, AW(e)) = e.seen.ver /\ e.seen.type = e.seen.ver)

\* P4: a CRD write carries the rendering of the XRD this reconcile read, on the actor's own CRD; XRD writes keep the spec
FaithfulWrite(e) ==
  (CrdWrite(e) /\ e.abs # "delete:crd" /\ Crd(e, e.w).st # "none") =>
     LET c == Crd(e, e.w) IN c.ver = e.seen.ver /\ c.s = e.seen.s /\ ~c.t /\ c.ctrl = "xrd"
OwnCrd(e) == CrdWrite(e) => e.w = AW(e)
XrdSpecKept(p, e) ==
  (IsCall(e) /\ e.kind = "xrd" /\ e.applied /\ e.post.xrd.ex) =>
     (e.post.xrd.ver = p.post.xrd.ver /\ e.post.xrd.s = p.post.xrd.s /\ e.post.xrd.claim = p.post.xrd.claim)

\* P5 (C02 placement): a CRD somebody else controls is not written; the reconcile that saw it stops there and fails
ForeignUntouched(p, e) == CrdWrite(e) => Crd(p, e.w).ctrl # "foreign"
ForeignStops(e) == (IsCall(e) /\ e.seen.crd = "foreign") => e.abs = "get:crd"
ForeignSurfaces(e) == (e.ev = "end" /\ e.seen.crd = "foreign" /\ e.result # "crashed") => e.result = "error"

\* P6: the finalizer is on the XRD before the CRD is written or the controller started
FinalizerFirst(p, e) ==
  (IsCall(e) /\ (CrdWrite(e) \/ (e.abs = "start" /\ e.outcome = "ok")) /\ p.post.xrd.ex) => Fin(p, AW(e))

\* P7: an XRD that offers no claim: the offered reconciler does nothing beyond reading it
NotOffered(e) == (IsCall(e) /\ e.actor = "off" /\ e.seen.got /\ ~e.seen.claim) => e.abs = "get:xrd"
\* a CRD is deleted only on behalf of an XRD that is being deleted
DeleteOnlyOnXrdDeletion(e) == (IsCall(e) /\ e.abs = "delete:crd") => e.seen.del

\* P8: a reconcile that returned "done" in a quiet environment, whatever happened before it
Settles(e) == e.ev = "end" /\ e.result = "done" /\ e.quiet /\ ~e.faulty /\ e.seen.got /\ e.post.xrd.ex /\ ~e.post.xrd.del
AfterCrd(e) == Settles(e) =>
   LET c == Crd(e, AW(e)) IN
   c.st = "live" /\ c.ctrl = "xrd" /\ c.ver = e.post.xrd.ver /\ c.s = e.post.xrd.s /\ ~c.t /\ c.est
AfterRunning(e) == Settles(e) => Run(e, AW(e))
AfterWatches(e) == (Settles(e) /\ Run(e, AW(e))) => WVer(e, AW(e)) # "none"
AfterVersion(e) == (Settles(e) /\ WVer(e, AW(e)) # "none") => WVer(e, AW(e)) = e.post.xrd.ver
AfterTypeRef(e) == (Settles(e) /\ WVer(e, AW(e)) # "none") => Type(e, AW(e)) = e.post.xrd.ver
AfterCond(e) == Settles(e) => Cond(e, AW(e)) = "True"
AfterFinalizer(e) == Settles(e) => Fin(e, AW(e))
\* ... and it is a fixed point: the next reconcile of that actor (nothing happened in between) changes nothing
Quiescent(e) == (IsCall(e) /\ e.sb /\ e.quiet) => ~e.applied

\* fingerprints of the two mechanisms found by the model (spec header, D17 / D18): the reconcile took the
\* "controller is running" branch (it did not start the controller itself) ...
\* ... although the recorded type it read does not say what runs (the record was lost with a failed status update)
D17(e) == IF ~e.seen.started /\ e.seen.type # WVer(e, AW(e)) THEN ".StaleRecord" ELSE ""
\* ... and never started the watches (StartWatches had failed after Start)
D18(e) == IF ~e.seen.started THEN ".RunningBranch" ELSE ""

Viol(name, i) == PrintT("VIOL|" \o name \o "|" \o ToString(i) \o "|" \o Trace[i].scenario)
Check(i) ==
  LET e == Trace[i] IN
  /\ (e.ev # "hung" \/ Viol("NoDeadlock", i))
  /\ (StartOnlyEstablished(e) \/ Viol("StartOnlyEstablished", i))
  /\ (CondRunning(e) \/ Viol("CondTruth.Running", i))
  /\ (CondWatches(e) \/ Viol("CondTruth.Watches" \o D18(e), i))
  /\ (CondVersion(e) \/ Viol("CondTruth.Version" \o D17(e), i))
  /\ (CondTypeRef(e) \/ Viol("CondTruth.TypeRef" \o D17(e), i))
  /\ (FaithfulWrite(e) \/ Viol("Faithful.Write", i))
  /\ (OwnCrd(e) \/ Viol("Faithful.OwnCrd", i))
  /\ (ForeignStops(e) \/ Viol("Foreign.Stops", i))
  /\ (ForeignSurfaces(e) \/ Viol("Foreign.Surfaces", i))
  /\ (NotOffered(e) \/ Viol("NotOffered", i))
  /\ (DeleteOnlyOnXrdDeletion(e) \/ Viol("DeleteOnlyOnXrdDeletion", i))
  /\ (AfterCrd(e) \/ Viol("AfterReconcile.Crd", i))
  /\ (AfterRunning(e) \/ Viol("AfterReconcile.Running", i))
  /\ (AfterWatches(e) \/ Viol("AfterReconcile.Watches" \o D18(e), i))
  /\ (AfterVersion(e) \/ Viol("AfterReconcile.Version" \o D17(e), i))
  /\ (AfterTypeRef(e) \/ Viol("AfterReconcile.TypeRef" \o D17(e), i))
  /\ (AfterCond(e) \/ Viol("AfterReconcile.Cond", i))
  /\ (AfterFinalizer(e) \/ Viol("AfterReconcile.Finalizer", i))
  /\ (Quiescent(e) \/ Viol("Quiescent", i))
  /\ (e.ev = "reset" \/ i = 1 \/
        LET p == Trace[i - 1] IN
        /\ (StopFirst(p, e) \/ Viol("Restart.StopFirst", i))
        /\ (NoNeedlessStop(p, e) \/ Viol("Restart.NoNeedlessStop", i))
        /\ (XrdSpecKept(p, e) \/ Viol("Faithful.XrdSpecKept", i))
        /\ (ForeignUntouched(p, e) \/ Viol("Foreign.Untouched", i))
        /\ (FinalizerFirst(p, e) \/ Viol("FinalizerFirst", i)))

Init == l = 0
Next == /\ l < Len(Trace) /\ l' = l + 1 /\ Check(l')
        /\ (l' < Len(Trace) \/ PrintT("DONE|" \o ToString(l')))
Spec == Init /\ [][Next]_l
=============================================================================
