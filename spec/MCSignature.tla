---------------------------- MODULE MCSignature ----------------------------
EXTENDS Signature, Json
\* scenario emission: one line per transition that ends a reconcile (shortest history reaching it)
Emit == (ns' + nr' > ns + nr) => PrintT(<<"TRACE", ToJson(hist')>>)

OnlyTrue == {TRUE}
OnlyFalse == {FALSE}
Bools == {FALSE, TRUE}
Fwd == {"fwd"}
BothOrders == {"fwd", "rev"}

\* ---- the revision
V(st, by) == [st |-> st, by |-> by]
\* as the package manager creates it
Fresh(des) == [NoRev EXCEPT !.ex = TRUE, !.des = des, !.img = "i1"]
\* as the two controllers leave it after the first installation: nothing matched / vb's verification passed
Installed(des, v) == [Fresh(des) EXCEPT !.fin = TRUE, !.ver = v, !.healthy = "True", !.refs = TRUE, !.inst = TRUE]
Skipped == V("Skipped", None)
ByVb == V("Succeeded", "vb")
\* waiting at the gate with a verdict that is not True
Waiting(des, v) == [Fresh(des) EXCEPT !.ver = v, !.healthy = "Await"]
RevFresh == {Fresh("Active")}
RevFreshBoth == {Fresh("Active"), Fresh("Inactive")}
RevInstalled == {Installed("Active", Skipped)}
\* the feature (or a verification config) arrives on a running installation: installed, no verdict
RevLegacy == {Installed("Active", NoVer), Installed("Inactive", NoVer)}
RevGate == {Fresh("Active"), Fresh("Inactive"), Installed("Active", Skipped), Installed("Active", ByVb), Installed("Active", NoVer),
            Installed("Inactive", Skipped), Installed("Inactive", NoVer), Waiting("Active", V("Failed", "vb")),
            Waiting("Active", V("Incomplete", None)), Waiting("Inactive", V("Failed", "vb")),
            [Installed("Active", Skipped) EXCEPT !.paused = TRUE, !.pcond = TRUE],
            [Installed("Active", Skipped) EXCEPT !.pcond = TRUE]}
RevVerdicts == {Fresh("Active"), Installed("Active", ByVb), Waiting("Active", V("Failed", "vb")), Waiting("Active", V("Failed", "va")),
                Waiting("Active", V("Incomplete", None))}
\* rare inputs: own pull secrets, a reference that does not parse, the same digest in another registry
RevOdd == {[Fresh("Active") EXCEPT !.sec = TRUE], [Fresh("Active") EXCEPT !.img = "i3"], [Fresh("Active") EXCEPT !.img = "i2"],
           [Fresh("Active") EXCEPT !.img = "i3", !.sec = TRUE]}
RevInactiveRoute == {Installed("Active", Skipped), Installed("Active", ByVb), Waiting("Active", V("Failed", "vb")),
                     [Fresh("Active") EXCEPT !.fin = TRUE, !.ver = V("Failed", "vb"), !.healthy = "True", !.refs = TRUE, !.inst = TRUE]}

\* ---- ImageConfigs
Vst0 == [c \in AllICs |-> IF c = "pb" THEN "none" ELSE IF c = "vn" THEN "nocosign" ELSE "cosign"]
VstDefault == {Vst0}
IcNone == {{}}
IcSome == {{}, {"va", "vb"}}
IcVb == {{"vb"}}
IcMix == {{}, {"va"}, {"va", "vb", "pb"}, {"pb"}}
IcTie == {{"va", "vb", "vc", "pb"}, {"vb", "vc"}}
IcOdd == {{"va", "vn"}, {"va", "vq", "pb"}, {"va", "vb", "vn", "pb"}}
IcAll == {{"pb", "va", "vb", "vc", "vn", "vq"}}
NoICs == {}
IcsVb == {"vb"}
IcsQ == {"va", "vb"}
IcsT == {"va", "vb", "pb", "vn"}
OkNone == {{}}
OkVb == {{"vb"}}
OkBoth == {{}, {"vb"}}
OkMany == {{}, {"vb"}, {"va"}, {"va", "vb", "vc", "vq"}, {"vc"}}
ImgsNone == {}
ImgsQ == {"i2"}
ImgsT == {"i1", "i2"}

EnvRev == {"pauserev", "unpauserev", "deact", "act", "touch", "delrev"}
EnvImg == {"setimg"}
EnvIc == {"addic", "delic", "editic"}
EnvSign == {"sign", "unsign"}
EnvPause == {"pauserev", "unpauserev", "deact", "act"}
EnvRoute == {"pauserev", "unpauserev", "deact"}
EnvGate == EnvPause \cup {"delrev"}
EnvWorld == EnvIc \cup EnvSign \cup EnvImg
EnvAll == EnvRev \cup EnvImg \cup EnvIc \cup EnvSign
NoEnv == {}
FaultsAll == {"error", "conflict", "miss", "crashBefore", "crashAfter"}
FaultsFew == {"error", "crashAfter"}
NoFaults == {}

----------------------------------------------------------------------------
(* The vector part: every ImageConfig event x every set of other configs x *)
(* the images of two revisions.  The driver asks the REAL store for the    *)
(* selection before and after the event (both list orders) and hands the   *)
(* event to the REAL watch handler; MonSignature.tla holds the reference    *)
(* semantics (computed from the strings, not from PLen).                   *)
CONSTANTS VecICs, VecEvICs, VecImgs
EvStates == {"absent", "none", "cosign", "nocosign"}
VecAll == AllICs \cup {"ve", "vm"}     \* ve: the empty prefix; vm: two matching prefixes of different length
VecVst0 == [c \in VecAll |-> IF c = "pb" THEN "none" ELSE IF c = "vn" THEN "nocosign" ELSE "cosign"]
VecInit ==
  /\ rev = NoRev /\ ics = {} /\ vst = Vst0 /\ okby = {} /\ feat = TRUE /\ ord = "fwd"
  /\ rc = Idle /\ ns = 0 /\ nr = 0 /\ faults = 0 /\ envs = 0 /\ bad = {} /\ quiet = FALSE /\ last = NoLast
  /\ \E i \in VecImgs, j \in VecImgs \cup {None}, S \in SUBSET VecICs, c \in VecEvICs, o \in EvStates, n \in EvStates :
       /\ o # n /\ c \notin S
       /\ hist = << [t |-> "vec", imgs |-> <<i, j>>, ics |-> S, vst |-> VecVst0, ev |-> [c |-> c, old |-> o, new |-> n]] >>
VecNext == /\ ns = 0 /\ ns' = 1 /\ PrintT(<<"VEC", ToJson(hist[1])>>)
           /\ UNCHANGED <<rev, ics, vst, okby, feat, ord, rc, nr, faults, envs, bad, quiet, last, hist>>
SpecVec == VecInit /\ [][VecNext]_vars
VecQ == {"va", "vb", "pb"}
VecT == {"va", "vb", "vc", "pb", "vn"}
VecEvQ == {"va", "vc", "vn", "ve", "vq"}
VecEvT == {"va", "vb", "vc", "vn", "vq", "ve", "vm", "pb"}
VecImgsQ == {"i1", "i2"}
VecImgsT == {"i1", "i2", "i3", "i4"}
=============================================================================
