SPECIFICATION Spec
CONSTANTS
  Fns <- FaOnly
  Callers <- C2
  MaxCalls = 1
  MaxGC = 0
  MaxEnv = 1
  MaxConn = 3
  MaxFaults = 0
  EnvOps <- EnvMove
  EnvEps <- Eps12
  InitEps <- InitE1
  Orders <- Asc
  Codes <- OkOnly
  FaultKinds <- NoFaults
  Recheck = TRUE
  VerifyTarget = TRUE
  CloseStale = FALSE
  FixPkg = FALSE
VIEW view

CHECK_DEADLOCK FALSE
INVARIANTS NoLeak
