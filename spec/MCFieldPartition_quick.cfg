SPECIFICATION Spec
CONSTANTS
  Strength = 1
  PairMod = 32
  Lookalike = FALSE
  SyncModes <- SM_All
  ClaimPols <- Pol3
  XRPols <- Pol3
ACTION_CONSTRAINT Emit
CHECK_DEADLOCK FALSE
INVARIANTS InvNoLeakToXR InvPropagated InvRevision InvReserved InvXRSide InvClaimRef InvUserStatus InvNoLeakToClaim InvCompRef InvExtToClaim
