------------------------------ MODULE MCFnRunner ------------------------------
EXTENDS FnRunner, Json
\* one schedule per transition that completes an operation (a call ends, a collector run ends)
Emit == ((\E p \in Callers : ncalls'[p] # ncalls[p]) \/ ngc' # ngc) => PrintT(<<"TRACE", ToJson(hist')>>)

FaOnly == {"fa"}
FaFb == {"fa", "fb"}
C1 == {1}
C2 == {1, 2}
C3 == {1, 2, 3}
EnvAll == {"SetEp", "SetAct", "Roll", "DeleteFn", "CreateFn"}
EnvMove == {"SetEp", "Roll", "SetAct"}
EnvGc == {"DeleteFn", "CreateFn", "Roll"}
EnvDel == {"DeleteFn", "CreateFn"}
EnvNone == {}
Eps12 == {"e1", "e2"}
Eps13 == {"e1", "e2", "e3"}
EpsAll == {"e1", "e2", "e3", "e4", "bad", "none"}
InitE1 == {"e1"}
InitE12 == {"e1", "e2"}
InitAll == {"e1", "e2", "e3", "e4", "bad", "none"}
Asc == {"asc"}
Both == {"asc", "desc"}
OkOnly == {"ok"}
OkInternal == {"ok", "internal"}
CodesAll == {"ok", "internal", "unavailable", "unimpl"}
NoFaults == {}
FaultErr == {"err"}
FaultsAll == {"err", "forbidden", "timeout"}
=============================================================================
