SPECIFICATION Spec
CONSTANTS
  RTypes = {"Provider"}
  Streams <- StreamsLate
  ConsIgn <- ConsPlain
  Verifs <- VerifOff
  Cache0 <- CacheCold
  MaxRecs = 2
  MaxFaults = 1
  MaxSig = 0
  MaxEnv = 0
  SrcFaults = TRUE
  StoreFaults <- NoStoreFaults
  DelFaults = FALSE
  ApiCrash = FALSE
  FixTee = FALSE
VIEW view
CHECK_DEADLOCK FALSE
INVARIANTS Gate
