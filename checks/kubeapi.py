"""KUBEAPI - not a property of crossplane: binds the trusted environment double harness/simapi to its TLA+ contract
spec/KubeAPI.tla (random operation sequences against the real simapi, every step judged by MonKubeAPI.tla).
./check KUBEAPI ; a failure means the API model every other check relies on no longer satisfies its contract."""
import os

import vlib

PID = "KUBEAPI"


def run(ctx):
    binp = ctx.go_build("./drivers/kubeapi")
    trace = os.path.join(ctx.work, "trace.ndjson")
    summ = os.path.join(ctx.work, "summary.json")
    ctx.run([binp, "-trace", trace, "-summary", summ, "-seed", str(ctx.seed), "-runs", "400" if ctx.quick else "6000"])
    viols, n = ctx.monitor("MonKubeAPI", trace, heap="8g")
    for formula, line, scid in viols:
        ctx.violation(formula, scid, trace, "trace line %d" % line, fingerprint=formula)
    ctx.level = "other"
    ctx.cov.update(dict(explanation="simapi conformance to spec/KubeAPI.tla: %d random calls, every step satisfies the step relation" % n,
                        evaluations=n, distinct_nontrivial=n, samples=[{"trace": trace}], events=n))


def replay(ctx, path):
    run(ctx)
