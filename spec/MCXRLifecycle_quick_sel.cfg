SPECIFICATION Spec
CONSTANTS
  Comps <- Comps3
  Attr <- AttrAll
  InitComps <- InitAll
  InitRefs <- RefsNoneC1
  InitSels <- SelsBoth
  InitDefs <- DefsT
  InitEnfs <- EnfsT
  InitUser <- OnlyFalse
  InitOFin <- OnlyFalse
  MaxRecs = 2
  MaxFaults = 1
  MaxEnv = 2
  MidEnv = TRUE
  EnvKinds <- EnvSel
  FaultKinds <- FaultsVal
  ComposeOuts <- OutsOk
  FinFirst = TRUE
  RvCheck = TRUE
VIEW view
ACTION_CONSTRAINT Emit
CHECK_DEADLOCK FALSE
INVARIANTS StepProps Repaired FinBeforeCompose
