"""C01 - see checks/xrcompose.py (module XRCompose)."""
from checks import xrcompose


def run(ctx):
    xrcompose.run(ctx, "C01")


def replay(ctx, path):
    xrcompose.replay(ctx, "C01", path)
