#!/bin/bash
# Runs checks against /repo + a diff without touching /repo: a scratch worktree of /repo and a copy of /verif are bound over
# /repo and /verif in a private mount namespace (the same arrangement tools/seed.py uses).
#   tools/try_diff.sh <diff> <check id>...       env: SEED (default 1), TIER (default quick)
# Prints, per check, the verdict line and how often each formula was violated.
D=$1; shift
T=/tmp/wt-try-$$; V=/tmp/vc-try-$$
git -C /repo worktree add --detach $T HEAD -q || exit 2
( cd $T && git apply "$D" ) || { echo "diff does not apply"; git -C /repo worktree remove --force $T; exit 2; }
mkdir -p $V && rsync -a --exclude .work --exclude .git --exclude evidence /verif/ $V/ && mkdir -p $V/evidence
for c in "$@"; do
  unshare -m sh -c "mount --bind $T /repo && mount --bind $V /verif && cd /verif && VERIF_SEED=${SEED:-1} ./check $c --tier ${TIER:-quick}" 2>&1 \
    | grep "VIOLATION\|quick:\|thorough:\|INCONCLUSIVE" | sed 's/.*formula=\([^ ]*\).*/\1/' | sort | uniq -c | sort -rn | head -12
done
git -C /repo worktree remove --force $T; rm -rf $T $V
