---------------------------- MODULE MonEstablisher ----------------------------
(***************************************************************************)
(* Trace monitor for Establisher: evaluates the C16 formulas (and the C02  *)
(* placement "package object controlled by somebody else") on every        *)
(* recorded state / step of executions of the real revision reconciler +   *)
(* APIEstablisher.  Every event carries the whole projected state, so the  *)
(* search is linear: one state per line.  A violated formula is reported   *)
(* as a VIOL line and the monitor keeps going.                             *)
(*                                                                         *)
(* Event fields: ev (reset | start | call | est-start | est-end |          *)
(* rel-start | rel-end | end | env | gc), actor (R1 | R2 | none), control  *)
(* (what the reconciler passed to Establish), phase (none | release |      *)
(* establish), dry, target, outcome, result, faulty, back (distance to the *)
(* est-start / rel-start event of the phase in flight), pkg (the objects   *)
(* of the actor's package), refs (the actor's status.objectRefs when its   *)
(* reconcile started), post = [objs : [name, exists, rej, rv, dig,         *)
(* owners : [uid, controller]], revs : [name, exists, active, refs, bad]]. *)
(* See Establisher.tla for the interpretation of "cannot be taken over".   *)
(***************************************************************************)
EXTENDS Integers, Sequences, FiniteSets, TLC, Json, IOUtils

Trace == ndJsonDeserialize(IOEnv.VERIF_TRACE)
VARIABLE l
Range(s) == {s[i] : i \in DOMAIN s}
Revs == {"R1", "R2"}

Objs(e) == Range(e.post.objs)
Names(e) == {o.name : o \in Objs(e)}
Obj(e, n) == CHOOSE o \in Objs(e) : o.name = n
Owners(o) == Range(o.owners)
IsCtrl(o, u) == \E w \in Owners(o) : w.uid = u /\ w.controller
IsPlain(o, u) == \E w \in Owners(o) : w.uid = u /\ ~w.controller
\* somebody other than a is the controller
ForeignCtrl(o, a) == o.exists /\ \E w \in Owners(o) : w.controller /\ w.uid # a
RevActive(e, r) == \E v \in Range(e.post.revs) : v.name = r /\ v.active
Changed(p, e, n) == Obj(p, n) # Obj(e, n)
Pkg(e) == Range(e.pkg)

\* ---- state formulas (every recorded state)
OneController(e) == \A o \in Objs(e) : Cardinality({i \in DOMAIN o.owners : o.owners[i].controller}) <= 1

\* ---- step formulas (p = previous event of the same run, e = this event)
\* an API call changes at most the object it addresses, a dry-run changes nothing, nothing is deleted
Frame(p, e) == e.ev = "call" => \A n \in Names(e) : Changed(p, e, n) =>
                  /\ n = e.target /\ ~e.dry /\ e.outcome = "ok"
                  /\ (Obj(p, n).exists => Obj(e, n).exists)
OnlyActiveCreates(p, e) ==      \* (objects that appear at an environment step were created by somebody else)
  e.ev # "env" => \A n \in Names(e) : (Obj(e, n).exists /\ ~Obj(p, n).exists) => (e.actor \in Revs /\ RevActive(p, e.actor))
InactivePlainStep(p, e) ==
  \A n \in Names(e), r \in Revs : (IsCtrl(Obj(e, n), r) /\ ~IsCtrl(Obj(p, n), r)) => RevActive(p, r)
\* a completed fault-free reconcile of an inactive revision leaves it the controller of nothing in its package
InactivePlainSettled(e) ==
  (e.ev = "end" /\ e.result = "ok" /\ ~e.faulty /\ e.actor \in Revs /\ ~RevActive(e, e.actor)) =>
    \A n \in Pkg(e) : ~IsCtrl(Obj(e, n), e.actor)
\* a write of ReleaseObjects turns the revision's entry into a plain owner entry and keeps everything else
ReleaseKeepsStep(p, e) ==
  (e.ev = "call" /\ e.phase = "release") => \A n \in Names(e) : Changed(p, e, n) =>
    /\ Obj(e, n).exists /\ IsPlain(Obj(e, n), e.actor)
    /\ Obj(e, n).dig = Obj(p, n).dig
    /\ \A w \in Owners(Obj(p, n)) : w.uid # e.actor => w \in Owners(Obj(e, n))
    /\ \A w \in Owners(Obj(e, n)) : w.uid # e.actor => w \in Owners(Obj(p, n))
ReleaseKeepsSettled(e) ==
  (e.ev = "rel-end" /\ e.result = "ok") =>
    \A n \in Range(e.refs) : Obj(e, n).exists => IsPlain(Obj(e, n), e.actor)
\* the garbage collector finds nothing to collect among the package objects
NotCollected(p, e) == e.ev = "gc" => \A n \in Names(e) : Obj(e, n) = Obj(p, n)
\* every object written by Establish has the package as a plain owner
PkgOwnerWrite(p, e) ==
  (e.ev = "call" /\ e.phase = "establish") => \A n \in Names(e) : Changed(p, e, n) => IsPlain(Obj(e, n), "P")
PkgOwnerSettled(e) ==
  (e.ev = "est-end" /\ e.result = "ok") => \A n \in Pkg(e) : Obj(e, n).exists => IsPlain(Obj(e, n), "P")

\* ---- all or nothing; s = the state when this Establish started
EstWrite(p, e) == e.ev = "call" /\ e.phase = "establish" /\ \E n \in Names(e) : Changed(p, e, n)
Blocked(s, e) == {n \in Pkg(e) : LET o == Obj(s, n) IN
                    IF o.exists THEN o.rej \/ (e.control /\ ForeignCtrl(o, e.actor)) ELSE e.control /\ o.rej}
Needs(s, e) == {n \in Pkg(e) : Obj(s, n).exists \/ e.control}
StartOk(i, e) == i - e.back >= 1 /\ Trace[i - e.back].ev = "est-start" /\ Trace[i - e.back].scenario = e.scenario
AllOrNothingBlocked(i, p, e) == EstWrite(p, e) => (StartOk(i, e) /\ Blocked(Trace[i - e.back], e) = {})
DryOk(i, e) == {Trace[j].target : j \in {k \in (i - e.back + 1)..(i - 1) :
                   Trace[k].ev = "call" /\ Trace[k].dry /\ Trace[k].outcome = "ok"}}
ValidatedFirst(i, p, e) == EstWrite(p, e) => (StartOk(i, e) /\ Needs(Trace[i - e.back], e) \subseteq DryOk(i, e))

\* ---- C02: what a controlling (active) revision finds controlled by somebody else is left exactly as it is ...
ForeignActive(p, e) ==
  (e.ev = "call" /\ e.control) => \A n \in Names(e) : ForeignCtrl(Obj(p, n), e.actor) => Obj(e, n) = Obj(p, n)
\* ... an inactive revision may only add itself and its package as plain owners (outside C02's scope) ...
ForeignInactive(p, e) ==
  (e.ev = "call" /\ ~e.control) => \A n \in Names(e) : (ForeignCtrl(Obj(p, n), e.actor) /\ Changed(p, e, n)) =>
    /\ Obj(e, n).exists /\ Obj(e, n).dig = Obj(p, n).dig
    /\ \A w \in Owners(Obj(p, n)) : (w.controller \/ w.uid \notin {e.actor, "P"}) => w \in Owners(Obj(e, n))
    /\ \A w \in Owners(Obj(e, n)) : w \in Owners(Obj(p, n)) \/ (w.uid \in {e.actor, "P"} /\ ~w.controller)
\* ... and the conflict surfaces: Establish fails, and the reconcile does not report success
Surfaces(i, e) ==
  (e.ev = "est-end" /\ e.control /\ StartOk(i, e) /\ \E n \in Pkg(e) : ForeignCtrl(Obj(Trace[i - e.back], n), e.actor)) =>
    e.result = "error"
SurfacesReconcile(e) == (e.ev = "end" /\ e.estres = "error") => e.result # "ok"

Viol(name, i) == PrintT("VIOL|" \o name \o "|" \o ToString(i) \o "|" \o Trace[i].scenario)
Check(i) ==
  LET e == Trace[i] IN
  /\ (OneController(e) \/ Viol("OneController", i))
  /\ (InactivePlainSettled(e) \/ Viol("InactivePlain.Settled", i))
  /\ (ReleaseKeepsSettled(e) \/ Viol("ReleaseKeeps.Settled", i))
  /\ (PkgOwnerSettled(e) \/ Viol("PkgOwner.Settled", i))
  /\ (Surfaces(i, e) \/ Viol("ForeignUntouched.Surfaces", i))
  /\ (SurfacesReconcile(e) \/ Viol("ForeignUntouched.SurfacesReconcile", i))
  /\ (e.ev = "reset" \/ i = 1 \/
        LET p == Trace[i - 1] IN
        /\ (Frame(p, e) \/ Viol("Frame", i))
        /\ (OnlyActiveCreates(p, e) \/ Viol("OnlyActiveCreates", i))
        /\ (InactivePlainStep(p, e) \/ Viol("InactivePlain.Step", i))
        /\ (ReleaseKeepsStep(p, e) \/ Viol("ReleaseKeeps.Step", i))
        /\ (NotCollected(p, e) \/ Viol("ReleaseKeeps.NotCollected", i))
        /\ (PkgOwnerWrite(p, e) \/ Viol("PkgOwner.Write", i))
        /\ (AllOrNothingBlocked(i, p, e) \/ Viol("AllOrNothing.Blocked", i))
        /\ (ValidatedFirst(i, p, e) \/ Viol("AllOrNothing.ValidatedFirst", i))
        /\ (ForeignActive(p, e) \/ Viol("ForeignUntouched.Active", i))
        /\ (ForeignInactive(p, e) \/ Viol("ForeignUntouched.Inactive", i)))

Init == l = 0
Next == /\ l < Len(Trace) /\ l' = l + 1 /\ Check(l')
        /\ (l' < Len(Trace) \/ PrintT("DONE|" \o ToString(l')))
Spec == Init /\ [][Next]_l
=============================================================================
