SPECIFICATION Spec
CONSTANTS
  Syncer = "CSA"
  Pres <- PresAll
  Cdps <- PolNone
  Xdefs <- PolAll
  Ofins <- OnlyFalse
  Rdys <- RdyT
  Conn = TRUE
  MaxRecs = 2
  MaxFaults = 1
  MaxEnv = 2
  MidEnv = TRUE
  EnvKinds <- EnvBind
  FaultKinds <- FaultsAll
  FinFirst = TRUE
  RvCheck = TRUE
  FixDeleting = TRUE
  FixMiss = FALSE
  FixStale = FALSE
VIEW view
ACTION_CONSTRAINT Emit
CHECK_DEADLOCK FALSE
INVARIANTS StepProps Repaired FinBeforeSync DeletingTruth
