// Package fakes holds the stand-ins for controller-runtime machinery that the
// real Crossplane constructors need.
package fakes

import (
	"context"
	"net/http"
	"sync"

	"github.com/go-logr/logr"
	apimeta "k8s.io/apimachinery/pkg/api/meta"
	"k8s.io/apimachinery/pkg/runtime"
	"k8s.io/client-go/rest"
	"k8s.io/client-go/tools/record"
	"sigs.k8s.io/controller-runtime/pkg/cache"
	"sigs.k8s.io/controller-runtime/pkg/client"
	"sigs.k8s.io/controller-runtime/pkg/config"
	"sigs.k8s.io/controller-runtime/pkg/healthz"
	"sigs.k8s.io/controller-runtime/pkg/manager"
	"sigs.k8s.io/controller-runtime/pkg/webhook"
)

// Manager is a manager.Manager that only serves a client, a scheme and a field indexer.
// It keeps every Runnable handed to Add (the controllers a production Setup function
// registers through controller-runtime's builder), see Runnables.
type Manager struct {
	Client  client.Client
	Sch     *runtime.Scheme
	Indexer client.FieldIndexer
	Webhook webhook.Server

	addMu sync.Mutex
	added []manager.Runnable
}

var _ manager.Manager = &Manager{}

func (m *Manager) GetClient() client.Client                        { return m.Client }
func (m *Manager) GetScheme() *runtime.Scheme                      { return m.Sch }
func (m *Manager) GetFieldIndexer() client.FieldIndexer            { return m.Indexer }
func (m *Manager) GetAPIReader() client.Reader                     { return m.Client }
func (m *Manager) GetHTTPClient() *http.Client                     { return nil }
func (m *Manager) GetConfig() *rest.Config                         { return &rest.Config{} }
func (m *Manager) GetCache() cache.Cache                           { return nil }
func (m *Manager) GetEventRecorderFor(string) record.EventRecorder { return record.NewFakeRecorder(1024) }
func (m *Manager) GetRESTMapper() apimeta.RESTMapper               { return nil }
func (m *Manager) Elected() <-chan struct{}                        { return nil }
func (m *Manager) AddMetricsServerExtraHandler(string, http.Handler) error { return nil }
func (m *Manager) AddHealthzCheck(string, healthz.Checker) error   { return nil }
func (m *Manager) AddReadyzCheck(string, healthz.Checker) error    { return nil }
func (m *Manager) Start(context.Context) error                     { return nil }
func (m *Manager) GetWebhookServer() webhook.Server                { return m.Webhook }
func (m *Manager) GetLogger() logr.Logger                          { return logr.Discard() }

// Add keeps the Runnable (nothing is ever started).
func (m *Manager) Add(r manager.Runnable) error {
	m.addMu.Lock()
	defer m.addMu.Unlock()
	m.added = append(m.added, r)
	return nil
}

// Runnables returns what was handed to Add so far, in order.
func (m *Manager) Runnables() []manager.Runnable {
	m.addMu.Lock()
	defer m.addMu.Unlock()
	return append([]manager.Runnable(nil), m.added...)
}

// GetControllerOptions skips controller-runtime's process-wide check that controller names are
// unique: a driver builds the same controllers many times in one process.
func (m *Manager) GetControllerOptions() config.Controller {
	skip := true
	return config.Controller{SkipNameValidation: &skip}
}
