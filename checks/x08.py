"""X08 - the function runner: connection pool, garbage collector, v1 -> v1beta1 fallback (extension beyond C01..C20).
xfn.PackagedFunctionRunner under concurrent RunFunction callers, the connection garbage collector and an environment that
moves endpoints, (de)activates revisions, upgrades, deletes and re-creates Functions.
Model: spec/FnRunner.tla (one action per lock acquisition / API read / RPC send / RPC reply); driver:
harness/drivers/fnrunner (the REAL runner, real in-process gRPC servers per endpoint, simapi behind its client.Reader,
goroutines gated at the reader, the interceptor creators, the interceptors and the servers; a turnstile on the runner's own
RWMutex makes several callers pass the fast path before any takes the slow path); monitor: spec/MonFnRunner.tla."""
import concurrent.futures
import glob
import json
import os

import vlib

PID = "X08"
MODULE = "MCFnRunner"
# (cfg suffix, schedules replayed) per tier
QUICK = [("quick", 800), ("quick_env", 800), ("quick_gc", 800), ("quick_rpc", 700)]
THOROUGH = [("thorough", 24000), ("thorough_b", 14000), ("thorough_rpc", 12000), ("quick", 6000), ("quick_env", 6000), ("quick_gc", 8000), ("quick_rpc", 8000)]
# witness cfgs: a guard of the model switched off must violate the named invariant (anti-vacuity at model level);
# aswritten: the code as written does not keep the interceptors' package fresh (F-a); closedunder: O1 is reachable
WITNESS = [("witness_recheck", ["NoLeak"]), ("witness_verify", ["StepProps"]), ("witness_closestale", ["NoLeak"]),
           ("witness_aswritten", ["PkgFresh"]), ("witness_closedunder", ["NeverClosedUnder"])]
FIXED = [("fixed", [])]   # the candidate repair of F-a keeps every invariant (thorough tier)

MON_FORMULAS = [
    "Routing.Endpoint", "Routing.OwnRevisions", "Routing.Sent",
    "Error.List", "Error.NoActive", "Error.EmptyEndpoint", "Error.Dial", "Error.NothingSent", "Error.Wrapped", "Error.Known",
    "Pool.Open", "Pool.Keyed", "Pool.OneOpen", "NoLeak", "Dials.Count", "Pool.Reuse", "Pool.DialOnce", "Replace.Closed", "Pool.ReuseOrRedial", "Pool.DialError",
    "Pool.OthersUntouched", "Pool.QuietSteps", "Pool.ErrorKeeps", "Group.DialOnce", "Group.ShareOne", "Group.NoChurn",
    "Gc.NoWork", "Gc.Lists", "Gc.ListError", "Gc.Spared", "Gc.Collected", "Gc.Count", "Gc.Only",
    "GcLoop.Collects", "GcLoop.SurvivesError", "GcLoop.Stops", "Final.AllClosed",
    "Fallback.V1First", "Fallback.Once", "Fallback.OnlyUnimplemented", "Fallback.Retries", "Fallback.Result", "Fallback.Served",
    "Wire.Request", "Wire.Response", "Wire.AllFields", "Wire.SameSchema",
    "Intercept.Created", "Intercept.Created.Package", "Intercept.Chain", "Intercept.Name", "Intercept.Package", "Metrics.Requests",
    "Canceled.OnlyIfClosed", "Solo.Succeeds", "Solo.Unimplemented", "NoDeadlock", "NoRace",
]


def regression():
    out = []
    for p in sorted(glob.glob(os.path.join(vlib.VERIF, "scenarios", PID, "*.json"))):
        with open(p) as f:
            out.append(json.load(f))
    return out


def build(ctx):
    """go build of the driver; VERIF_X08_OVERLAY = a `go build -overlay` file (used by checks/x08_selftest.py for scratch
    mutants of the code under test; nothing is written to /repo)."""
    ov = os.environ.get("VERIF_X08_OVERLAY")
    if not ov:
        return ctx.go_build("./drivers/fnrunner")
    import shutil
    import subprocess
    bindir = os.path.join(ctx.work, "bin")
    os.makedirs(bindir, exist_ok=True)
    out = os.path.join(bindir, "fnrunner")
    e = dict(os.environ)
    e.update(vlib.GOENV)
    shutil.copy("/repo/go.sum", os.path.join(vlib.HARNESS, "go.sum"))
    p = subprocess.run(["go", "build", "-overlay", ov, "-o", out, "./drivers/fnrunner"], cwd=vlib.HARNESS, env=e,
                       stdout=subprocess.PIPE, stderr=subprocess.STDOUT, text=True)
    if p.returncode != 0:
        raise vlib.Inconclusive("harness does not build with overlay %s:\n%s" % (ov, p.stdout[-3000:]))
    return out


def hit_counts(prefix):
    """How often the things the formulas talk about occur in the recorded traces (anti-vacuity and the observation O1;
    not part of the verdict)."""
    d = os.path.dirname(prefix)
    c = {}

    def inc(k, n=1):
        c[k] = c.get(k, 0) + n
    for fn in sorted(os.listdir(d)):
        if not fn.startswith(os.path.basename(prefix)):
            continue
        with open(os.path.join(d, fn)) as f:
            for line in f:
                e = json.loads(line)
                if e["ev"] == "final":
                    inc("final")
                    if e["loop"]["ran"]:
                        inc("teardown-by-the-real-GarbageCollectConnections-loop")
                    continue
                if e["ev"] == "group":
                    inc("turnstile-group-of-%d" % len(e["grp"]["members"]))
                if e["ev"] != "step":
                    continue
                if e["op"] == "env":
                    inc("env:" + e["seg"])
                if e["overlapped"]:
                    inc("overlapped-steps")
                if e["op"] == "gc" and e["fin"]:
                    g = e["gc"]
                    inc("gc:" + ("list-error" if g["listerr"] else "no-work" if not g["didlist"] else "collected-%d" % min(g["n"], 2)))
                if e["op"] == "call":
                    cl = e["call"]
                    if e["acq"] and not e["overlapped"] and cl["conn"] != "none":
                        inc("acquire:" + ("dial" if cl["icreated"] else "reuse"))
                    if e["acq"] and e["overlapped"] and cl["conn"] != "none":
                        inc("acquire-overlapped:" + ("dial" if cl["icreated"] else "hit"))
                    if e["fin"] and cl["done"]:
                        inc("call:" + cl["res"] + (":" + cl["code"] if cl["res"] == "rpc" else ""))
                        if len(cl["rpcs"]) == 2:
                            inc("fallback:" + cl["rpcs"][1]["code"])
                        if any(r["code"] == "Canceled" for r in cl["rpcs"]):
                            inc("O1:call-failed-because-its-connection-was-closed-under-it")
                            if cl["served"]:
                                inc("O1:...while-in-flight-at-the-server")
                        acts = [x for x in cl["listed"] if x["act"]]
                        if len(acts) >= 2:
                            inc("two-active-revisions-listed")
                            if acts[0]["ep"] != acts[1]["ep"]:
                                inc("two-active-revisions-with-different-endpoints")
                        if acts and cl["rpcs"] and any(k != acts[0]["pkg"] for r in cl["rpcs"] for k in r["ipkgs"]):
                            inc("F-a:rpc-through-interceptors-created-for-another-package")
    return dict(sorted(c.items()))


def racy(h):
    """A caller finds its connection only by looking again under the write lock (W with result hit): another caller dialled it
    between this caller's fast path and its slow path - the schedules the driver replays with a turnstile group."""
    return any(x["op"] == "call" and x["seg"] == "W" and x["r"] == "hit" for x in h)


def pick_racy(ctx, path, n, taken):
    """Up to n more schedules (seeded choice) with callers racing on the slow path: the feature-covering sample holds few."""
    cand = []
    with open(path) as f:
        for i, line in enumerate(f, 1):
            if i not in taken and '"hit"' in line:
                h = json.loads(line)
                if racy(h):
                    cand.append((i, h))
    ctx.rng.shuffle(cand)
    return cand[:n]


def drive_and_judge(ctx, scs, shards=6, counts=True, probes=8, repeat=2, stress=0):
    by_id = {s["id"]: s for s in scs}
    binp = build(ctx)
    prefix, s = ctx.run_sharded(binp, scs, ["-chunk", "20000", "-probes", str(probes), "-repeat", str(repeat)], shards=shards)
    if stress:
        ss = os.path.join(ctx.work, "summary_stress.json")
        ctx.run([binp, "-trace", prefix + ".stress", "-summary", ss, "-stress", str(stress), "-seed", str(ctx.seed)])
        with open(ss) as f:
            s = vlib.merge_summaries([s, json.load(f)])
    viols, nlines = ctx.monitor("MonFnRunner", prefix, par=8)
    per = {}
    for formula, _, _ in viols:
        per[formula] = per.get(formula, 0) + 1
    if per:
        vlib.log("  violations per formula: %s" % json.dumps(dict(sorted(per.items()))))
    ctx.cov["violations_per_formula"] = dict(sorted(per.items()))
    # (the check prints the first 20 violations: the rarer formulas first, so that none hides behind a frequent one)
    viols.sort(key=lambda v: (per[v[0]], v[0], v[2], v[1]))
    for formula, line, scid in viols:
        base = scid.split("/")[0]
        sc = by_id.get(base, {"id": base})
        if base.startswith("stress-"):
            sc = {"id": base, "stress": True, "seed": ctx.seed, "runs": stress}
        ctx.violation(formula, scid, ctx.replay_file(sc), "trace line %d" % line, fingerprint=formula)
    hc = hit_counts(prefix) if counts else {}
    return s, nlines, hc


def race_run(ctx, n):
    """Truly concurrent random runs under the Go race detector (memory-model races are outside TLA+: attached as NoRace)."""
    import subprocess
    out = os.path.join(ctx.work, "bin", "fnrunner-race")
    e = dict(os.environ)
    e.update(vlib.GOENV)
    cmd = ["go", "build", "-race", "-o", out]
    if os.environ.get("VERIF_X08_OVERLAY"):
        cmd += ["-overlay", os.environ["VERIF_X08_OVERLAY"]]
    p = subprocess.run(cmd + ["./drivers/fnrunner"], cwd=vlib.HARNESS, env=e, stdout=subprocess.PIPE, stderr=subprocess.STDOUT, text=True)
    if p.returncode != 0:
        raise vlib.Inconclusive("race build failed:\n" + p.stdout[-3000:])
    tr = os.path.join(ctx.work, "trace_race.ndjson")
    p = subprocess.run([out, "-trace", tr, "-summary", os.path.join(ctx.work, "summary_race.json"), "-stress", str(n), "-seed", str(ctx.seed + 1000)],
                       cwd=ctx.work, env=e, stdout=subprocess.PIPE, stderr=subprocess.STDOUT, text=True, timeout=3000)
    races = p.stdout.count("WARNING: DATA RACE")
    if races:
        rp = os.path.join(ctx.work, "race_report.txt")
        with open(rp, "w") as f:
            f.write(p.stdout)
        ctx.violation("NoRace", "stress-race-seed-%d" % (ctx.seed + 1000), rp, "%d data race reports" % races, fingerprint="NoRace")
    elif p.returncode != 0:
        raise vlib.Inconclusive("race stress run failed rc=%d:\n%s" % (p.returncode, p.stdout[-3000:]))
    return races


def model_runs(ctx, plan, workers):
    """The model-checking runs of a tier, side by side (they are independent TLC processes)."""
    def one(job):
        name, expect = job
        return name, ctx.model_check(MODULE, "%s_%s.cfg" % (MODULE, name), sub="mc_" + name, workers=workers if not expect else 2,
                                     timeout=300 if ctx.quick else 3000, expect_violations=expect, heap="4g" if ctx.quick else "12g")
    with concurrent.futures.ThreadPoolExecutor(max_workers=5 if ctx.quick else 3) as ex:
        return dict(ex.map(one, plan))


def run(ctx):
    plan = QUICK if ctx.quick else THOROUGH
    jobs = [(name, []) for name, _ in plan] + WITNESS + ([] if ctx.quick else FIXED)
    res = model_runs(ctx, jobs, 4 if ctx.quick else 8)
    scs, states, trans, emitted, consts = [], 0, 0, 0, {}
    for name, n in plan:
        mc = res[name]
        picked = ctx.sample_lines(mc["emitted_file"], n, mc["emitted"])
        picked += pick_racy(ctx, mc["emitted_file"], n // 10, {i for i, _ in picked})
        scs += [{"id": "%s-%s-%07d" % (PID, name, i), "hist": h} for i, h in picked]
        states += mc["states"]
        trans += mc["transitions"]
        emitted += mc["emitted"]
        consts["%s_%s.cfg" % (MODULE, name)] = dict(states=mc["states"], transitions=mc["transitions"], depth=mc["depth"], schedules=mc["emitted"])
    for name, expect in WITNESS + ([] if ctx.quick else FIXED):
        consts["%s_%s.cfg" % (MODULE, name)] = dict(states=res[name]["states"], violated=res[name]["violated"], expected=expect)
    chosen = regression() + scs
    s, nlines, hc = drive_and_judge(ctx, chosen, shards=6 if ctx.quick else 14, repeat=2 if ctx.quick else 4, stress=150 if ctx.quick else 4000)
    races = race_run(ctx, 40 if ctx.quick else 1000)
    ctx.cov.update(dict(
        states=states, transitions=trans, traces_validated_against_impl=s["runs"] + s.get("stress_runs", 0), samples=s["samples"][:2],
        stress_runs=s.get("stress_runs", 0), race_detector_runs=40 if ctx.quick else 1000, race_reports=races,
        model_runs=consts, schedules_emitted=emitted, schedules_replayed=s["scenarios"], steps=s["steps"], events=nlines,
        turnstile=dict(groups=s.get("turnstile_groups", 0), all_members_queued_at_the_read_lock=s.get("turnstile_groups_all_queued", 0),
                       note="callers that want the same connection and reach the slow path right after each other in the schedule are "
                            "released while the driver holds the runner's write lock: all of them miss on the fast path before any of "
                            "them dials; the winner is not controlled (steps marked overlapped, schedule replayed again)"),
        atomicity_probes=dict(attempted=s.get("atomicity_probes", 0), other_actor_not_blocked=s.get("atomicity_probes_entered", 0),
                              note="an actor held inside its slow path (at CreateInterceptor) / inside the collector's List of Functions "
                                   "while the schedule's next lock-taking actor is released for a moment: it must block"),
        gc_loop_runs=s.get("gc_loop_runs", 0), hung=s.get("hung", 0), hung_first_attempt=s.get("hung_first_attempt", 0),
        per_action_counts=s.get("counts", {}),
        drift=dict(steps_out_of_sync=s["drift"], runs_with_drift=s["drift_runs"], by_kind=s.get("drift_by", {})),
        formula_hit_counts=hc, monitor_formulas=MON_FORMULAS, exhaustive=(emitted == len(scs)),
        checker_cmd="tlc MCFnRunner (M,G) -> harness/drivers/fnrunner on /repo (T) -> tlc MonFnRunner",
        rule="one schedule per model transition that completes an operation (a RunFunction call or a collector run; shortest "
             "history reaching it); every schedule is followed by one fault-free call per function that runs alone, a collector "
             "run, the deletion of every Function and a last collection (every fourth time by the real "
             "GarbageCollectConnections ticker loop, whose first List fails); one schedule in eight is replayed once more "
             "with atomicity probes; plus truly concurrent random runs (4 callers x 5 calls, the collector, the environment, nobody "
             "paused; every call judged on its own record and the state at quiescence) and the same under the race detector",
    ))
    ctx.assumptions += [
        "simapi serves the runner's client.Reader (List with label selector); revisions are listed in name order or reversed",
        "the gRPC servers are real (google.golang.org/grpc over unix sockets, in process): e1 registers only the v1 service, e2 only "
        "v1beta1, e3 both, e4 none; connection state is the client side's (ClientConn.GetState after Close)",
        "there is no seam between the fast path and the slow path of getClientConn: R(miss)...W is replayed at the W step, and real "
        "overlap of several callers on the fast path is forced with the runner's own RWMutex (driver holds the write lock until "
        "all of them queue at RLock); steps of such groups are judged by the state formulas only",
        "O1 (not asserted): a connection closed by another caller / the collector fails the calls that hold it with Canceled",
        "verdict only from traces of the real PackagedFunctionRunner judged by MonFnRunner.tla",
    ]


def replay(ctx, path):
    with open(path) as f:
        sc = json.load(f)
    if sc.get("stress"):
        binp = build(ctx)
        tr = os.path.join(ctx.work, "trace.ndjson")
        ctx.run([binp, "-trace", tr, "-summary", os.path.join(ctx.work, "summary.json"), "-stress", str(sc.get("runs", 150)), "-seed", str(sc.get("seed", 1))])
        viols, nlines = ctx.monitor("MonFnRunner", tr)
        for formula, line, scid in viols:
            ctx.violation(formula, scid, path, "trace line %d" % line, fingerprint=formula)
        ctx.cov.update(dict(states=1, transitions=1, traces_validated_against_impl=sc.get("runs", 150), samples=[sc], events=nlines))
        return
    s, nlines, _ = drive_and_judge(ctx, [sc], shards=1, counts=False, probes=1, repeat=4)
    ctx.cov.update(dict(states=1, transitions=1, traces_validated_against_impl=s["runs"], samples=[sc], events=nlines))
