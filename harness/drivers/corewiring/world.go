package main

// One world per input vector: one API server (simapi) with three named clients, the fake manager, the real controller
// engine, and the captured controllers.

import (
	"context"
	"crypto/tls"
	"errors"
	"fmt"
	"net/http"
	"reflect"
	"strings"
	"sync"
	"time"

	kerrors "k8s.io/apimachinery/pkg/api/errors"
	"k8s.io/apimachinery/pkg/runtime/schema"
	"k8s.io/apimachinery/pkg/types"
	"k8s.io/client-go/util/workqueue"
	"sigs.k8s.io/controller-runtime/pkg/client"
	"sigs.k8s.io/controller-runtime/pkg/handler"
	"sigs.k8s.io/controller-runtime/pkg/predicate"
	"sigs.k8s.io/controller-runtime/pkg/reconcile"

	xpcontroller "github.com/crossplane/crossplane-runtime/pkg/controller"
	"github.com/crossplane/crossplane-runtime/pkg/feature"
	xpunstructured "github.com/crossplane/crossplane-runtime/pkg/resource/unstructured"

	apiextcontroller "github.com/crossplane/crossplane/internal/controller/apiextensions/controller"
	rbaccontroller "github.com/crossplane/crossplane/internal/controller/rbac/controller"
	"github.com/crossplane/crossplane/internal/engine"
	"github.com/crossplane/crossplane/internal/features"
	"github.com/crossplane/crossplane/internal/xfn"
	"github.com/crossplane/crossplane/zzverif/fakes"
	"github.com/crossplane/crossplane/zzverif/simapi"
)

// vec is one input vector (what TLC enumerates).
type vec struct {
	Fam    string `json:"fam"`    // "core" | "rbac"
	Usages bool   `json:"usages"` // EnableBetaUsages
	Ssa    bool   `json:"ssa"`    // EnableBetaClaimSSA
	Ess    bool   `json:"ess"`    // EnableAlphaExternalSecretStores
	Rt     bool   `json:"rt"`     // EnableAlphaRealtimeCompositions
	Schema bool   `json:"schema"` // EnableBetaCompositionWebhookSchemaValidation
	Poll   int    `json:"poll"`   // Options.PollInterval, seconds
	Conc   int    `json:"conc"`   // Options.MaxConcurrentReconciles
	Claim  bool   `json:"claim"`  // the XRD offers a claim
	Keys   bool   `json:"keys"`   // the XRD filters connection secret keys
	Allow  string `json:"allow"`  // rbac: AllowClusterRole ("none" = not set)
	Reg    string `json:"reg"`    // rbac: DefaultRegistry
}

type watch struct {
	kind    string
	wt      string // engine watch type ("" for a manager watch)
	cache   string // which cache a manager watch reads ("mgr", "nil", "other")
	handler handler.TypedEventHandler[client.Object, reconcile.Request]
	preds   []predicate.TypedPredicate[client.Object]
}

type ctl struct {
	id       string // composition | definition | offered | usage | rbacdef | binding | roles | xr | claim | unknown
	name     string
	do       reconcile.Reconciler
	conc     int
	recoverP bool
	limiter  workqueue.TypedRateLimiter[reconcile.Request]
	watches  []watch
	core     reflect.Value // the core reconciler (addressable struct)
	coreType string
	chain    []string
	fc       *faultClient // the client the first read of this controller goes through
}

type world struct {
	in vec

	s         *simapi.Server
	mgrC      *faultClient
	cachedC   *faultClient
	uncachedC client.Client
	apiReader client.Client
	mgrCache  *tagCache
	mgrIdx    *recIndexer
	engIdx    *recIndexer
	mgr       *capManager
	wh        *whServer
	lim       *recLimiter
	log       *recLogger
	feat      *feature.Flags
	tlsCfg    *tls.Config
	eng       *engine.ControllerEngine
	cap       *capEngine
	runner    *xfn.PackagedFunctionRunner

	ctls     []*ctl
	setupErr string

	mu      sync.Mutex
	phase   string
	calls   []apiCall
	logs    map[string]map[string]bool
	evsrc   map[string]map[string]bool
	evann   map[string]map[string]bool
	indexes []string
	miss    map[string]bool // kinds the informer cache does not see (yet)
	fnCalls int
}

func newWorld(in vec) *world {
	w := &world{in: in, lim: &recLimiter{}, logs: map[string]map[string]bool{}, evsrc: map[string]map[string]bool{}, evann: map[string]map[string]bool{},
		miss: map[string]bool{}, phase: "env", tlsCfg: &tls.Config{ServerName: "verif-ess", MinVersion: tls.VersionTLS13}}
	w.log = &recLogger{w: w}
	w.s = simapi.NewServer(theScheme)
	w.s.Namespaced(schema.GroupKind{Group: "ex.org", Kind: "ThingClaim"})
	w.s.OnEvent = func(e *simapi.Event) {
		w.mu.Lock()
		w.calls = append(w.calls, apiCall{phase: w.phase, client: e.Actor, verb: e.Verb, kind: e.Kind, sub: e.Sub, name: e.Name, outcome: e.Outcome, dry: e.DryRun, write: e.IsWrite()})
		w.mu.Unlock()
	}
	mk := func(name string) *simapi.Client {
		c := simapi.NewClient(w.s, name)
		c.Intercept = func(cl *simapi.Call) simapi.Decision {
			w.mu.Lock()
			m := name == "cached" && cl.Verb == "get" && w.miss[cl.Key.Kind]
			w.mu.Unlock()
			if m {
				return simapi.CacheMiss
			}
			return simapi.Proceed
		}
		return c
	}
	w.mgrC = &faultClient{Client: mk("mgr")}
	w.cachedC = &faultClient{Client: mk("cached")}
	w.uncachedC = mk("uncached")
	w.apiReader = mk("apireader")
	w.mgrCache = &tagCache{id: "mgr"}
	w.mgrIdx = &recIndexer{w: w, id: "mgr", inner: simapi.NewClient(w.s, "mgr-indexer")}
	w.engIdx = &recIndexer{w: w, id: "engine", inner: simapi.NewClient(w.s, "engine-indexer")}
	w.wh = &whServer{hooks: map[string]http.Handler{}}
	w.mgr = &capManager{Manager: &fakes.Manager{Webhook: w.wh}, w: w}
	w.feat = &feature.Flags{}
	for _, f := range []struct {
		on bool
		f  feature.Flag
	}{{in.Usages, features.EnableBetaUsages}, {in.Ssa, features.EnableBetaClaimSSA}, {in.Ess, features.EnableAlphaExternalSecretStores},
		{in.Rt, features.EnableAlphaRealtimeCompositions}, {in.Schema, features.EnableBetaCompositionWebhookSchemaValidation}} {
		if f.on {
			w.feat.Enable(f.f)
		}
	}
	// what cmd/crossplane/core does around Setup (that file needs a cluster: its part is re-stated here, below the
	// Setup functions): the engine's clients are wrapped for unstructured access, the engine owns its informers
	w.eng = engine.New(w.mgr, &engineInformers{idx: w.engIdx}, xpunstructured.NewClient(w.cachedC), xpunstructured.NewClient(w.uncachedC))
	return w
}

func (w *world) options() xpcontroller.Options {
	return xpcontroller.Options{Logger: w.log, GlobalRateLimiter: w.lim, PollInterval: time.Duration(w.in.Poll) * time.Second,
		MaxConcurrentReconciles: w.in.Conc, Features: w.feat,
		// cmd/crossplane/core sets ESSOptions only with the flag; it is always present here so that code reading it
		// without the flag is observed instead of crashing the driver
		ESSOptions: &xpcontroller.ESSOptions{TLSConfig: w.tlsCfg}}
}

func (w *world) apiextOptions() apiextcontroller.Options {
	return apiextcontroller.Options{Options: w.options(), ControllerEngine: w.eng, FunctionRunner: w.runner}
}

func (w *world) rbacOptions() rbaccontroller.Options {
	allow := w.in.Allow
	if allow == "none" {
		allow = ""
	}
	return rbaccontroller.Options{Options: w.options(), AllowClusterRole: allow, DefaultRegistry: w.in.Reg}
}

func (w *world) at(phase string) {
	w.mu.Lock()
	w.phase = phase
	w.mu.Unlock()
}

func (w *world) setMiss(kind string, on bool) {
	w.mu.Lock()
	w.miss[kind] = on
	w.mu.Unlock()
}

// guard runs fn and turns a panic into a string.
func guard(fn func()) (p string) {
	defer func() {
		if r := recover(); r != nil {
			p = fmt.Sprint(r)
			if len(p) > 200 {
				p = p[:200]
			}
		}
	}()
	fn()
	return ""
}

// ---------------------------------------------------------------- capturing a registered controller

// corePackages maps the package of a core reconciler to the controller id of the reference.
var corePackages = map[string]string{
	"github.com/crossplane/crossplane/internal/controller/apiextensions/composition": "composition",
	"github.com/crossplane/crossplane/internal/controller/apiextensions/definition":  "definition",
	"github.com/crossplane/crossplane/internal/controller/apiextensions/offered":     "offered",
	"github.com/crossplane/crossplane/internal/controller/apiextensions/usage":       "usage",
	"github.com/crossplane/crossplane/internal/controller/apiextensions/composite":   "xr",
	"github.com/crossplane/crossplane/internal/controller/apiextensions/claim":       "claim",
	"github.com/crossplane/crossplane/internal/controller/rbac/definition":           "rbacdef",
	"github.com/crossplane/crossplane/internal/controller/rbac/provider/binding":     "binding",
	"github.com/crossplane/crossplane/internal/controller/rbac/provider/roles":       "roles",
}

// walk goes down the wrappers of a reconciler (fields 'inner' / 'Reconciler', whatever the wrapper types are) to the
// core reconciler of a Crossplane controller package.
func (c *ctl) walk() {
	cur := reflect.ValueOf(c.do)
	for depth := 0; cur.IsValid() && depth < 8; depth++ {
		if (cur.Kind() == reflect.Ptr || cur.Kind() == reflect.Interface) && cur.IsNil() {
			break
		}
		c.chain = append(c.chain, cur.Type().String())
		st, ok := structOf(cur)
		if !ok {
			break
		}
		if id, ok := corePackages[st.Type().PkgPath()]; ok {
			c.id, c.core, c.coreType = id, st, cur.Type().String()
			return
		}
		var next reflect.Value
		for _, n := range []string{"inner", "Reconciler"} {
			if f, ok := fieldOf(st, n); ok && f.Kind() == reflect.Interface && !f.IsNil() {
				next = f.Elem()
			}
		}
		if !next.IsValid() {
			break
		}
		cur = next
	}
}

// capture reads a controller registered through controller-runtime's builder (its internal Controller type).
func (w *world) capture(r any) *ctl {
	c := &ctl{id: "unknown", fc: w.mgrC}
	st, ok := structOf(reflect.ValueOf(r))
	if !ok {
		c.name = "not-a-controller:" + typeName(r)
		return c
	}
	if f, ok := fieldOf(st, "Name"); ok && f.Kind() == reflect.String {
		c.name = f.String()
	}
	if f, ok := fieldOf(st, "MaxConcurrentReconciles"); ok && f.Kind() == reflect.Int {
		c.conc = int(f.Int())
	}
	if f, ok := fieldOf(st, "RecoverPanic"); ok && f.Kind() == reflect.Ptr && !f.IsNil() {
		c.recoverP = f.Elem().Bool()
	}
	if f, ok := fieldOf(st, "Do"); ok && !f.IsNil() {
		c.do, _ = f.Interface().(reconcile.Reconciler)
	}
	if f, ok := fieldOf(st, "RateLimiter"); ok && !f.IsNil() {
		c.limiter, _ = f.Interface().(workqueue.TypedRateLimiter[reconcile.Request])
	}
	if f, ok := fieldOf(st, "startWatches"); ok && f.Kind() == reflect.Slice {
		for j := 0; j < f.Len(); j++ {
			src, ok := structOf(f.Index(j))
			if !ok {
				c.watches = append(c.watches, watch{kind: "unknown-source:" + typeOfValue(f.Index(j))})
				continue
			}
			wt := watch{kind: "unknown", cache: "nil"}
			if tf, ok := fieldOf(src, "Type"); ok && !tf.IsNil() {
				wt.kind = kindOf(tf.Interface())
			}
			if cf, ok := fieldOf(src, "Cache"); ok && !cf.IsNil() {
				wt.cache = "other"
				if tc, ok := cf.Interface().(*tagCache); ok {
					wt.cache = tc.id
				}
			}
			if hf, ok := fieldOf(src, "Handler"); ok && !hf.IsNil() {
				wt.handler, _ = hf.Interface().(handler.TypedEventHandler[client.Object, reconcile.Request])
			}
			if pf, ok := fieldOf(src, "Predicates"); ok && !pf.IsNil() {
				wt.preds, _ = pf.Interface().([]predicate.TypedPredicate[client.Object])
			}
			c.watches = append(c.watches, wt)
		}
	}
	c.walk()
	return c
}

// fromEngine builds the view of a controller started on the engine: the options of the Start call plus the watches
// of the StartWatches calls under the same name.
func (w *world) fromEngine(s engStart) *ctl {
	c := &ctl{id: "unknown", name: s.name, fc: w.cachedC}
	co := &engine.ControllerOptions{}
	for _, o := range s.opts {
		o(co)
	}
	cov := reflect.ValueOf(co).Elem()
	if rt, ok := fieldOf(cov, "runtime"); ok {
		if f, ok := fieldOf(rt, "Reconciler"); ok && !f.IsNil() {
			c.do, _ = f.Interface().(reconcile.Reconciler)
		}
		if f, ok := fieldOf(rt, "MaxConcurrentReconciles"); ok {
			c.conc = int(f.Int())
		}
		if f, ok := fieldOf(rt, "RecoverPanic"); ok && f.Kind() == reflect.Ptr && !f.IsNil() {
			c.recoverP = f.Elem().Bool()
		}
		if f, ok := fieldOf(rt, "RateLimiter"); ok && !f.IsNil() {
			c.limiter, _ = f.Interface().(workqueue.TypedRateLimiter[reconcile.Request])
		}
	}
	for _, call := range w.cap.watchCalls() {
		if call.name != s.name {
			continue
		}
		for i := range call.ws {
			c.watches = append(c.watches, engineWatch(&call.ws[i]))
		}
	}
	c.walk()
	return c
}

func engineWatch(ew *engine.Watch) watch {
	wt := watch{kind: "unknown", cache: "engine"}
	v := reflect.ValueOf(ew).Elem()
	if f, ok := fieldOf(v, "kind"); ok && !f.IsNil() {
		wt.kind = kindOf(f.Interface())
	}
	if f, ok := fieldOf(v, "wt"); ok {
		wt.wt = f.String()
	}
	if f, ok := fieldOf(v, "handler"); ok && !f.IsNil() {
		wt.handler, _ = f.Interface().(handler.TypedEventHandler[client.Object, reconcile.Request])
	}
	if f, ok := fieldOf(v, "predicates"); ok && !f.IsNil() {
		wt.preds, _ = f.Interface().([]predicate.TypedPredicate[client.Object])
	}
	return wt
}

// gcOf names the watch garbage collector among the options of a Start call.
func gcOf(s engStart) string {
	co := &engine.ControllerOptions{}
	for _, o := range s.opts {
		o(co)
	}
	if f, ok := fieldOf(reflect.ValueOf(co).Elem(), "gc"); ok {
		return typeOfValue(f)
	}
	return "absent"
}

// ---------------------------------------------------------------- running a captured reconciler

type recResult struct {
	requeue bool
	after   time.Duration
	err     error
	panicV  string
	hung    bool
}

func (c *ctl) reconcile(w *world, phase, ns, name string) recResult {
	w.at(phase)
	defer w.at("env")
	if c.do == nil {
		return recResult{err: errors.New("no reconciler")}
	}
	reconciles++
	ch := make(chan recResult, 1)
	go func() {
		defer func() {
			if r := recover(); r != nil {
				ch <- recResult{panicV: fmt.Sprint(r), err: fmt.Errorf("panic: %v", r)}
			}
		}()
		res, err := c.do.Reconcile(context.Background(), reconcile.Request{NamespacedName: types.NamespacedName{Namespace: ns, Name: name}})
		ch <- recResult{requeue: res.Requeue, after: res.RequeueAfter, err: err}
	}()
	select {
	case r := <-ch:
		return r
	case <-time.After(20 * time.Second):
		return recResult{hung: true, err: errors.New("reconcile did not return within 20s")}
	}
}

func (r recResult) record() map[string]any {
	cls := "ok"
	switch {
	case r.hung:
		cls = "hung"
	case r.panicV != "":
		cls = "panic"
	case r.err != nil:
		cls = "error"
	}
	return map[string]any{"res": cls, "requeue": r.requeue, "after": int(r.after / time.Millisecond), "msg": errText(r.err)}
}

func errText(err error) string {
	if err == nil {
		return ""
	}
	s := err.Error()
	if len(s) > 160 {
		s = s[:160]
	}
	return s
}

// ---------------------------------------------------------------- the wrapper probes (behavioural)

// limiterProbe: while the global rate limiter says "wait 7s" the request must come back with RequeueAfter = 7s
// without having reached the API, and the limiter must have been asked under this controller's name.
func (w *world) limiterProbe(c *ctl) map[string]any {
	w.lim.set(7 * time.Second)
	phase := "limit:" + c.id
	r := c.reconcile(w, phase, "", "held-obj")
	keys := w.lim.seen()
	w.lim.set(0)
	key := "none"
	if len(keys) > 0 {
		key = strings.TrimSuffix(keys[len(keys)-1], "/held-obj")
	}
	return map[string]any{"after": int(r.after / time.Second), "err": r.err != nil, "calls": w.callCount(phase), "asked": len(keys), "key": key}
}

// errorProbe hands the controller's first read an error value and classifies what comes back.
func (w *world) errorProbe(c *ctl, kind string, ns string) string {
	var e error = errors.New("verif: plain failure")
	if kind == "conflict" {
		e = kerrors.NewConflict(schema.GroupResource{Group: "verif", Resource: "things"}, "probe-obj", errors.New("verif: injected"))
	}
	c.fc.arm(e)
	r := c.reconcile(w, kind+":"+c.id, ns, "probe-obj")
	used := c.fc.consumed()
	c.fc.arm(nil)
	switch {
	case !used:
		return "none"
	case r.panicV != "" || r.hung:
		return "panic"
	case r.err != nil:
		return "error"
	case r.requeue:
		return "requeue"
	case r.after > 0:
		return "after"
	}
	return "dropped"
}

// backoff asks the controller's own work queue rate limiter: the first delay and the delay it is capped at.
func backoff(c *ctl) map[string]any {
	out := map[string]any{"first": -1, "cap": -1, "kind": typeName(c.limiter)}
	if c.limiter == nil {
		return out
	}
	req := reconcile.Request{NamespacedName: types.NamespacedName{Name: "backoff-probe"}}
	first, last := time.Duration(-1), time.Duration(0)
	for i := 0; i < 24; i++ {
		d := c.limiter.When(req)
		if i == 0 {
			first = d
		}
		last = d
	}
	c.limiter.Forget(req)
	out["first"], out["cap"] = int(first/time.Millisecond), int(last/time.Millisecond)
	return out
}

func (w *world) seenLogs(prefixes ...string) []any {
	out := map[string]bool{}
	w.mu.Lock()
	for ph, m := range w.logs {
		for _, p := range prefixes {
			if strings.HasPrefix(ph, p) {
				for k := range m {
					out[k] = true
				}
			}
		}
	}
	w.mu.Unlock()
	return sortedSet(out)
}

func (w *world) seenEvents(prefixes ...string) ([]any, []any) {
	src, ann := map[string]bool{}, map[string]bool{}
	w.mu.Lock()
	for ph, m := range w.evsrc {
		for _, p := range prefixes {
			if strings.HasPrefix(ph, p) {
				for k := range m {
					src[k] = true
				}
				for k := range w.evann[ph] {
					ann[k] = true
				}
			}
		}
	}
	w.mu.Unlock()
	return sortedSet(src), sortedSet(ann)
}

func (w *world) clientsOf(prefixes ...string) []any {
	out := map[string]bool{}
	w.mu.Lock()
	for _, c := range w.calls {
		for _, p := range prefixes {
			if strings.HasPrefix(c.phase, p) {
				out[c.client] = true
			}
		}
	}
	w.mu.Unlock()
	return sortedSet(out)
}

// hasField reports whether the core reconciler has a field of that name (what a Setup function COULD hand on).
func (c *ctl) hasField(name string) bool {
	if !c.core.IsValid() {
		return false
	}
	_, ok := fieldOf(c.core, name)
	return ok
}

func (c *ctl) durationField(name string) int {
	if !c.core.IsValid() {
		return -1
	}
	f, ok := fieldOf(c.core, name)
	if !ok || f.Kind() != reflect.Int64 {
		return -1
	}
	return int(time.Duration(f.Int()) / time.Millisecond)
}
