package main

// Certificate material for the C20 driver.
//
// The real initializer generates a fresh 2048 bit RSA key for every CA /
// certificate (internal/initializer/cert_generator.go), which costs a few
// hundred milliseconds each and would limit the driver to a handful of
// scenarios per second. TLSCertificateGenerator has a CertificateGenerator
// seam (the unexported field "certificate"), but no exported option sets it.
// The driver therefore plugs a CertificateGenerator that behaves exactly like
// the real one except that the RSA key comes from a pre-generated pool
// (a different key for every call within one scenario) into that field with
// reflect + unsafe. Nothing of the code under test is replaced: which signer
// is used, the certificate templates (DNS names, usages), what is written to
// which secret and when, are all decided by the real tls.go. A sample of the
// scenarios (-realgen) runs with the untouched real CertGenerator. If the
// field ever disappears the driver falls back to the real generator.

import (
	"bytes"
	"crypto/rand"
	"crypto/rsa"
	"crypto/sha256"
	"crypto/x509"
	"crypto/x509/pkix"
	"encoding/hex"
	"encoding/pem"
	"errors"
	"math/big"
	"reflect"
	"sync"
	"time"
	"unsafe"

	"github.com/crossplane/crossplane/internal/initializer"
)

var keyPool []*rsa.PrivateKey

func makeKeyPool(n, bits int) {
	keyPool = make([]*rsa.PrivateKey, n)
	var wg sync.WaitGroup
	sem := make(chan struct{}, 16)
	for i := range keyPool {
		wg.Add(1)
		sem <- struct{}{}
		go func(i int) {
			defer wg.Done()
			k, err := rsa.GenerateKey(rand.Reader, bits)
			if err != nil {
				panic(err)
			}
			keyPool[i] = k
			<-sem
		}(i)
	}
	wg.Wait()
}

// keys hands out pool keys, a different one for every request of one scenario.
type keys struct{ next int }

func (k *keys) take() *rsa.PrivateKey {
	if k.next >= len(keyPool) {
		panic("key pool exhausted")
	}
	k.next++
	return keyPool[k.next-1]
}

func pemCert(der []byte) []byte {
	b := new(bytes.Buffer)
	_ = pem.Encode(b, &pem.Block{Type: "CERTIFICATE", Bytes: der})
	return b.Bytes()
}

func pemKey(k *rsa.PrivateKey) []byte {
	b := new(bytes.Buffer)
	_ = pem.Encode(b, &pem.Block{Type: "RSA PRIVATE KEY", Bytes: x509.MarshalPKCS1PrivateKey(k)})
	return b.Bytes()
}

// fastGen is the pool-backed CertificateGenerator.
type fastGen struct {
	ks    *keys
	calls int
}

func signerParts(cs *initializer.CertificateSigner) (*x509.Certificate, *rsa.PrivateKey, error) {
	v := reflect.ValueOf(cs).Elem()
	cf, kf := v.FieldByName("certificate"), v.FieldByName("key")
	if !cf.IsValid() || !kf.IsValid() {
		return nil, nil, errors.New("CertificateSigner layout changed")
	}
	c := reflect.NewAt(cf.Type(), unsafe.Pointer(cf.UnsafeAddr())).Elem().Interface()
	k := reflect.NewAt(kf.Type(), unsafe.Pointer(kf.UnsafeAddr())).Elem().Interface()
	cc, ok1 := c.(*x509.Certificate)
	kk, ok2 := k.(*rsa.PrivateKey)
	if !ok1 || !ok2 {
		return nil, nil, errors.New("CertificateSigner layout changed")
	}
	return cc, kk, nil
}

func (g *fastGen) Generate(c *x509.Certificate, cs *initializer.CertificateSigner) ([]byte, []byte, error) {
	g.calls++
	priv := g.ks.take()
	parent, pkey := c, priv
	if cs != nil {
		var err error
		if parent, pkey, err = signerParts(cs); err != nil {
			return nil, nil, err
		}
	}
	der, err := x509.CreateCertificate(rand.Reader, c, parent, &priv.PublicKey, pkey)
	if err != nil {
		return nil, nil, err
	}
	return pemKey(priv), pemCert(der), nil
}

// inject plugs g into the generator's CertificateGenerator seam. It reports
// false if the seam is not there (the real generator stays in place).
func inject(t *initializer.TLSCertificateGenerator, g initializer.CertificateGenerator) bool {
	f := reflect.ValueOf(t).Elem().FieldByName("certificate")
	if !f.IsValid() || !reflect.TypeOf(g).AssignableTo(f.Type()) && !reflect.TypeOf(g).Implements(f.Type()) {
		return false
	}
	reflect.NewAt(f.Type(), unsafe.Pointer(f.UnsafeAddr())).Elem().Set(reflect.ValueOf(g))
	return true
}

// ---- material of the initial cluster contents (the environment's, not the code's) ----

type pair struct {
	key, crt []byte
	cert     *x509.Certificate
	priv     *rsa.PrivateKey
}

var subject = pkix.Name{CommonName: "Crossplane", Organization: []string{"Crossplane"}}

func mkCA(ks *keys, cn string) pair {
	k := ks.take()
	t := &x509.Certificate{SerialNumber: big.NewInt(2022), Subject: pkix.Name{CommonName: cn}, DNSNames: []string{"crossplane-root-ca"},
		NotBefore: time.Now().Add(-time.Hour), NotAfter: time.Now().AddDate(10, 0, 0), IsCA: true,
		KeyUsage: x509.KeyUsageCRLSign | x509.KeyUsageCertSign, BasicConstraintsValid: true}
	der, err := x509.CreateCertificate(rand.Reader, t, t, &k.PublicKey, k)
	if err != nil {
		panic(err)
	}
	c, _ := x509.ParseCertificate(der)
	return pair{key: pemKey(k), crt: pemCert(der), cert: c, priv: k}
}

func mkLeaf(ks *keys, ca pair, dns []string, usage x509.ExtKeyUsage) pair {
	k := ks.take()
	t := &x509.Certificate{SerialNumber: big.NewInt(2022), Subject: subject, DNSNames: dns,
		NotBefore: time.Now().Add(-time.Hour), NotAfter: time.Now().AddDate(10, 0, 0),
		KeyUsage:    x509.KeyUsageDigitalSignature | x509.KeyUsageKeyEncipherment,
		ExtKeyUsage: []x509.ExtKeyUsage{usage}, BasicConstraintsValid: true}
	der, err := x509.CreateCertificate(rand.Reader, t, ca.cert, &k.PublicKey, ca.priv)
	if err != nil {
		panic(err)
	}
	c, _ := x509.ParseCertificate(der)
	return pair{key: pemKey(k), crt: pemCert(der), cert: c, priv: k}
}

func dig(bs ...[]byte) string {
	h := sha256.New()
	for _, b := range bs {
		h.Write([]byte{byte(len(b) >> 8), byte(len(b))})
		h.Write(b)
	}
	return hex.EncodeToString(h.Sum(nil))[:10]
}

// verify facts about a stored leaf certificate, computed with crypto/x509:
// chain: it verifies against caPEM for the given usage; dns: it covers names.
func verifyLeaf(crtPEM, caPEM []byte, names []string, usage x509.ExtKeyUsage) (chain, dns bool) {
	blk, _ := pem.Decode(crtPEM)
	if blk == nil {
		return false, false
	}
	c, err := x509.ParseCertificate(blk.Bytes)
	if err != nil {
		return false, false
	}
	dns = true
	have := map[string]bool{}
	for _, n := range c.DNSNames {
		have[n] = true
	}
	for _, n := range names {
		if !have[n] {
			dns = false
		}
	}
	pool := x509.NewCertPool()
	if len(caPEM) == 0 || !pool.AppendCertsFromPEM(caPEM) {
		return false, dns
	}
	_, err = c.Verify(x509.VerifyOptions{Roots: pool, KeyUsages: []x509.ExtKeyUsage{usage}})
	return err == nil, dns
}
