SPECIFICATION Spec
CONSTANTS
  Syncer = "SSA"
  Pres <- PresAll
  Cdps <- PolAll
  Xdefs <- PolNone
  Ofins <- Bools
  Rdys <- RdyAll
  Conn = TRUE
  MaxRecs = 3
  MaxFaults = 1
  MaxEnv = 2
  MidEnv = TRUE
  EnvKinds <- EnvAll
  FaultKinds <- FaultsAll
  FinFirst = TRUE
  RvCheck = TRUE
  FixDeleting = TRUE
  FixMiss = FALSE
  FixStale = FALSE
VIEW view
ACTION_CONSTRAINT Emit
CHECK_DEADLOCK FALSE
INVARIANTS StepProps Repaired FinBeforeSync DeletingTruth
