SPECIFICATION Spec
CONSTANTS
  Inits <- InitsFresh
  EnvKinds = {}
  FaultKinds = {"fail", "crashBefore", "crashAfter", "miss", "efail"}
  MaxEnv = 0
  MaxFaults = 1
  MaxRecs = 3
  Interleave = FALSE
  MidEnv = TRUE
  WaitEstablished = TRUE
  FixTypeRef = FALSE
  FixWatches = FALSE
VIEW view
ACTION_CONSTRAINT EmitEnd
CHECK_DEADLOCK FALSE
INVARIANTS Safe
PROPERTIES ForeignFrozen XrdSpecKept
