SPECIFICATION Spec
CONSTANTS
  Tier = "quick"
  Fams = {"patch", "mode", "ready", "conn", "malformed"}
  KnownCells = {"ConvertFormatOnInteger"}
ACTION_CONSTRAINT Emit
CHECK_DEADLOCK FALSE
INVARIANTS DesignSound RefTotal
