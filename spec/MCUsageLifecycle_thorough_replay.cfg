SPECIFICATION Spec
CONSTANTS
  USeq <- S2
  Useds <- U1
  Configs <- CfgReplay
  InitSel <- NoSet
  InitCtl <- NoSet
  Policies <- Pol2
  DryRuns <- Bools
  HookFaults <- HookOk
  EnvKinds <- EnvReplay
  FaultKinds <- FaultsAll
  MaxCreates = 2
  MaxRecs = 4
  MaxFaults = 1
  MaxEnv = 3
  MaxDel = 1
  MidEnv = TRUE
  BFin = FALSE
  FinFirst = TRUE
  DryRunAware = TRUE
  PanicFree = TRUE
VIEW view
ACTION_CONSTRAINT Emit
CHECK_DEADLOCK FALSE
INVARIANTS TypeOK StepProps FinBeforeLabel FinResolved OwnOnlyBy PendSane Repaired
