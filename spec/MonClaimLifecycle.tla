---------------------------- MODULE MonClaimLifecycle ----------------------------
(***************************************************************************)
(* Trace monitor for ClaimLifecycle (X06): evaluates the properties P1..P9 *)
(* of ClaimLifecycle.tla on every recorded state / step of executions of   *)
(* the real claim.Reconciler as wired by the real offered.Reconciler (rate *)
(* limiter, silent requeue on conflict, client-side or server-side syncer, *)
(* managed-fields upgrader, API connection propagator, API finalizer).     *)
(* Fully logged trace, linear search.  Record fields:                      *)
(*   ev       reset | start | call | env | end                             *)
(*   abs/cls/kind/verb/phase/target/outcome/injected/applied/noop: the call*)
(*            (phase: main | upgrade | sync | propagate | unpublish - which *)
(*            component of the reconciler made it)                         *)
(*   seen     the claim as this reconcile's Get returned it                *)
(*   sxr      the XR as this reconcile's Get returned it (missed: NotFound  *)
(*            from a cache that has not seen the XR although it exists)    *)
(*   atsync   the XR the syncer handed back (ok: it returned nil)          *)
(*   syncres/upg/prop/unpub: what syncer / upgrader / propagator /         *)
(*            unpublisher returned in this reconcile (none: not called)    *)
(*   delxr    how Delete(XR) was answered in this reconcile                *)
(*   xsecRead the data of the XR's secret as the propagator read it         *)
(*   fails    the calls of this reconcile that did not answer as expected  *)
(*   statusOK the reconciler's own status update was accepted              *)
(*   evs/tags the events recorded in this reconcile                        *)
(*   post     projection of the store after the step                       *)
(* A false formula prints VIOL|name|line|scenario; the monitor goes on.    *)
(***************************************************************************)
EXTENDS Integers, Sequences, FiniteSets, TLC, Json, IOUtils

Trace == ndJsonDeserialize(IOEnv.VERIF_TRACE)
VARIABLE l
Range(s) == {s[i] : i \in DOMAIN s}
PollMs == 60000
Avail == "True:Available"
Custom == "DatabaseReady"
System == {"Synced", "Ready", "Healthy"}

C(e) == e.post.cm
XRs(e) == Range(e.post.xrs)
XR(e, id) == {x \in XRs(e) : x.id = id}
IsCall(e) == e.ev = "call"
Wrote(e) == IsCall(e) /\ e.applied /\ ~e.noop
ClaimWrite(e) == Wrote(e) /\ e.kind = "claim"
StatusWrite(e) == ClaimWrite(e) /\ e.verb = "update-status"
MetaWrite(e) == ClaimWrite(e) /\ e.verb # "update-status"
XrWrite(e) == Wrote(e) /\ e.kind = "xr"
\* the reconciler's own (exit) status update was accepted by the API server
ExitStatus(e) == IsCall(e) /\ e.abs = "status:claim" /\ e.phase = "main" /\ e.outcome = "ok"
ByCtl(e) == e.ev \in {"call", "end"}
Ended(e) == e.ev = "end" /\ e.result # "crashed"
SawLive(e) == e.seen.got /\ e.seen.ex
SawPaused(e) == SawLive(e) /\ e.seen.paused
SawDeleting(e) == SawLive(e) /\ e.seen.del /\ ~e.seen.paused
SawOther(e) == e.sxr.got /\ e.sxr.ex /\ e.sxr.cref = "other"
Fg(e) == e.seen.cdp = "Foreground"
\* everything of the claim but our finalizer, the reference and the status
Core(c) == <<c.ex, c.del, c.paused, c.ofin, c.cdp, c.wsec, c.size, c.rest, c.uid>>
Synced(e) == e.syncres = "ok"
PropFailed(e) == e.prop \in {"error", "conflict", "crashed"}
NoFails(e) == e.fails = <<>>
Tags(e) == Range(e.tags)
Evs(e) == Range(e.evs)

StepOf(f) ==
  CASE f.abs = "get:xr" -> "getxr"
    [] f.phase = "upgrade" -> "upgrade"
    [] f.abs = "delete:xr" -> "delxr"
    [] f.phase = "unpublish" -> "unpublish"
    [] f.abs = "rmfin:claim" -> "rmfin"
    [] f.abs = "addfin:claim" -> "addfin"
    [] f.phase = "sync" -> "sync"
    [] f.phase = "propagate" -> "propagate"
    [] OTHER -> "unknown"
EventOf(step) ==
  CASE step \in {"getxr", "unbound", "upgrade", "addfin", "sync"} -> "Warning:BindCompositeResource"
    [] step \in {"delxr", "unpublish", "rmfin"} -> "Warning:DeleteCompositeResource"
    [] step = "propagate" -> "Warning:PropagateConnectionSecret"
    [] OTHER -> "?"

\* ------------------------------------------------------------------ wiring (what offered.Reconciler hands to the engine)
Wiring(e) == e.ev = "reset" =>
  /\ e.wiring.outer = "*ratelimiter.Reconciler" /\ e.wiring.inner = "*errors.silentlyRequeueOnConflict" /\ e.wiring.core = "*claim.Reconciler"
  /\ e.wiring.propagator = "*claim.APIConnectionPropagator" /\ e.wiring.unpublisher = "*claim.NopConnectionUnpublisher"
  /\ e.wiring.finalizer = "*resource.APIFinalizer" /\ e.wiring.poll = PollMs /\ e.wiring.watches = 2
  /\ e.wiring.claimKind = "ex.org/v1, Kind=Thing" /\ e.wiring.xrKind = "ex.org/v1, Kind=XThing"
WiringSyncer(e) == e.ev = "reset" =>
  IF e.syncer = "SSA" THEN e.wiring.syncer = "*claim.ServerSideCompositeSyncer" /\ e.wiring.upgrader = "*claim.PatchingManagedFieldsUpgrader"
  ELSE e.wiring.syncer = "*claim.ClientSideCompositeSyncer" /\ e.wiring.upgrader = "*claim.NopManagedFieldsUpgrader"
\* the XRD's defaultCompositeDeletePolicy reaches a claim that has none through the CRD the offered reconciler rendered
WiringDefaultPolicy(e) == e.ev = "reset" => C(e).cdp = (IF e.icdp # "none" THEN e.icdp ELSE e.ixdef)

\* ------------------------------------------------------------------ P1 paused
PausedCalls(e) == (IsCall(e) /\ SawPaused(e)) => e.abs \in {"get:claim", "status:claim"}
PausedCondition(e) == (ExitStatus(e) /\ SawPaused(e) /\ C(e).ex) => (C(e).synced = "False:ReconcilePaused" /\ C(e).step = "paused")
PausedOnlyStatus(p, e) == (ClaimWrite(e) /\ C(p).ex /\ C(p).paused) => e.verb = "update-status"
StatusOnlyStatus(p, e) == (StatusWrite(e) /\ C(p).ex /\ C(e).ex) => (Core(C(e)) = Core(C(p)) /\ C(e).fin = C(p).fin /\ C(e).ref = C(p).ref)
PausedExit(e) == (Ended(e) /\ SawPaused(e)) =>
                   /\ "Normal:ReconciliationPaused" \in Evs(e)
                   /\ (NoFails(e) => (e.result = "ok" /\ ~e.requeue /\ e.after = 0))
                   /\ (~NoFails(e) => (e.requeue \/ e.result = "error"))

\* ------------------------------------------------------------------ P2 exits
SyncedTrueNeedsSync(e) == (ExitStatus(e) /\ C(e).ex /\ C(e).synced = "True:ReconcileSuccess") => (Synced(e) \/ SawDeleting(e))
ExitSyncedFalse(e) ==
  (ExitStatus(e) /\ C(e).ex /\ ~SawPaused(e) /\ ~SawDeleting(e) /\ (~Synced(e) \/ PropFailed(e))) => C(e).synced = "False:ReconcileError"
\* (the exit "waiting for the foreground deletion of the XR" writes Ready=False/Deleting and leaves Synced as it was)
FgWait(e) == SawDeleting(e) /\ Fg(e) /\ ~SawOther(e) /\ e.sxr.ex /\ e.sxr.del /\ NoFails(e)
ErrorExit(e) == ExitStatus(e) /\ C(e).ex /\ C(e).synced = "False:ReconcileError" /\ ~SawPaused(e) /\ ~FgWait(e)
ExitReasonCall(e) == (ErrorExit(e) /\ ~NoFails(e)) => C(e).step = StepOf(e.fails[Len(e.fails)])
ExitReasonState(e) == (ErrorExit(e) /\ NoFails(e)) => (C(e).step = "unbound" /\ SawOther(e))
ExitEvent(e) == ErrorExit(e) => EventOf(C(e).step) \in Evs(e)
\* a reconcile that returned without error and without an accepted status write ran into a Conflict - or has just asked
\* for the foreground deletion of its XR
ExitSilent(e) ==
  (e.ev = "end" /\ e.result = "ok" /\ SawLive(e) /\ ~e.statusOK) =>
     \/ \E f \in Range(e.fails) : f.outcome = "conflict"
     \/ SawDeleting(e) /\ Fg(e) /\ e.delxr \in {"ok", "notfound"}
RequeueGone(e) == (Ended(e) /\ e.seen.got /\ ~e.seen.ex) => (e.result = "ok" /\ ~e.requeue /\ e.after = 0)
RequeueSuccess(e) ==
  (Ended(e) /\ e.result = "ok" /\ SawLive(e) /\ ~SawPaused(e) /\ ~SawDeleting(e) /\ Synced(e) /\ NoFails(e)) => (~e.requeue /\ e.after = 0)
RequeueUnbound(e) == (Ended(e) /\ SawLive(e) /\ ~SawPaused(e) /\ SawOther(e) /\ NoFails(e)) => (e.result = "ok" /\ ~e.requeue /\ e.after = 0)
RequeueOnFailure(e) == (Ended(e) /\ SawLive(e) /\ ~SawPaused(e) /\ ~NoFails(e)) => (e.requeue \/ e.result = "error")
RequeueForeground(e) ==
  (Ended(e) /\ SawDeleting(e) /\ ~SawOther(e) /\ NoFails(e) /\ Fg(e) /\ e.sxr.ex) => (e.result = "ok" /\ e.requeue)
RequeueDeleted(e) ==
  (Ended(e) /\ e.result = "ok" /\ SawDeleting(e) /\ ~SawOther(e) /\ NoFails(e) /\ ~(Fg(e) /\ (e.sxr.ex \/ e.delxr = "ok"))) => (~e.requeue /\ e.after = 0)

\* ------------------------------------------------------------------ P3 finalizer
FinalizerBeforeXR(e) == (XrWrite(e) /\ e.abs \in {"create:xr", "apply:xr", "patch:xr"}) => (C(e).ex => C(e).fin)
FinalizerKept(p, e) == (ByCtl(e) /\ C(p).ex /\ C(p).fin /\ ~C(p).del) => (C(e).ex /\ C(e).fin)
FinRemoved(p, e) == ByCtl(e) /\ C(p).ex /\ C(p).fin /\ (~C(e).ex \/ ~C(e).fin)
\* what the code promises: the finalizer goes only in a reconcile that has dealt with the XR
DeleteFirst(p, e) ==
  FinRemoved(p, e) =>
     \/ e.seen.ref = "none"
     \/ e.sxr.got /\ ~e.sxr.ex
     \/ e.delxr = "notfound"
     \/ ~Fg(e) /\ e.delxr = "ok"
\* what it is for: when the finalizer goes, the XR is gone or (not Foreground) being deleted
XRFirst(p, e) == FinRemoved(p, e) => \A x \in XR(e, C(p).ref) : x.cref # "other" => (x.del /\ ~Fg(e))
DeletePolicy(p, e) ==
  (Wrote(e) /\ e.abs = "delete:xr") =>
     \A x \in XR(e, e.target) : IF Fg(e) THEN x.fgf ELSE (x.fgf => \E y \in XR(p, e.target) : y.fgf)

\* ------------------------------------------------------------------ P4 deleting
DeletingCalls(e) == (IsCall(e) /\ SawDeleting(e)) => e.abs \in {"get:claim", "get:xr", "upgrade:xr", "delete:xr", "rmfin:claim", "status:claim"}
DeletingNoSync(e) == (XrWrite(e) /\ SawDeleting(e)) => e.abs \in {"delete:xr", "upgrade:xr"}
DeletingOnlyFinalizer(p, e) ==
  (MetaWrite(e) /\ C(p).ex /\ C(p).del) => (C(p).fin /\ (~C(e).ex \/ (~C(e).fin /\ Core(C(e)) = Core(C(p)) /\ C(e).ref = C(p).ref)))
LiveNoDelete(e) == (IsCall(e) /\ e.abs = "delete:xr") => SawDeleting(e)
\* every status write of the deletion branch says Ready=False/Deleting (the branch starts with SetConditions(Deleting()));
\* named separately: the status write that follows the removal of our finalizer in the same reconcile (D25, repaired by
\* 835e9e0: RemoveFinalizer's Update replaces the in-memory claim, the condition has to be set again)
InBranch(e) == ~(C(e).synced = "False:ReconcileError" /\ C(e).step \in {"getxr", "unbound", "upgrade"})
RemovedFin(e) == e.seen.fin /\ C(e).ex /\ ~C(e).fin
DeletingCondition(e) == (ExitStatus(e) /\ SawDeleting(e) /\ C(e).ex /\ InBranch(e) /\ ~RemovedFin(e)) => C(e).ready = "False:Deleting"
DeletingConditionAfterRemoval(e) == (ExitStatus(e) /\ SawDeleting(e) /\ C(e).ex /\ InBranch(e) /\ RemovedFin(e)) => C(e).ready = "False:Deleting"
DeletedEvent(e) == (Ended(e) /\ "deleted" \in Tags(e)) => (SawDeleting(e) /\ (e.seen.ref = "none" \/ (e.sxr.got /\ ~e.sxr.ex) \/ e.delxr \in {"ok", "notfound"}))

\* ------------------------------------------------------------------ the XR is bound to another claim
OtherCalls(e) == (IsCall(e) /\ SawOther(e)) => e.abs \in {"get:xr", "status:claim"}
\* (a reconcile whose cached Get missed the XR cannot know: C06's subject, where XR reads are fresh)
OtherUntouched(p, e) == (ByCtl(e) /\ ~e.sxr.missed) => \A x \in XRs(p) : x.cref = "other" => x \in XRs(e)

\* ------------------------------------------------------------------ P5 ready
ReadyTruth(p, e) ==
  (ByCtl(e) /\ C(e).ex /\ C(e).ready = Avail /\ (~C(p).ex \/ C(p).ready # Avail)) => (e.atsync.ok /\ e.atsync.ready = Avail /\ ~PropFailed(e))
ReadyMirror(e) ==
  (ExitStatus(e) /\ C(e).ex /\ Synced(e) /\ NoFails(e) /\ ~SawDeleting(e) /\ ~SawPaused(e)) =>
     C(e).ready = (IF e.atsync.ready = Avail THEN Avail ELSE "False:Waiting")
ReadyWaiting(e) ==
  (Ended(e) /\ e.result = "ok" /\ Synced(e) /\ NoFails(e) /\ e.atsync.ready # Avail) => ("notready" \in Tags(e) /\ ~e.requeue)

\* ------------------------------------------------------------------ P6 custom conditions
CustomCopied(e) ==
  (ExitStatus(e) /\ C(e).ex /\ Synced(e) /\ C(e).synced = "True:ReconcileSuccess") => (Custom \in Range(e.atsync.cct) => C(e).db = e.atsync.db)
CustomOnlyListed(e) == (ByCtl(e) /\ C(e).ex) => \A t \in Range(C(e).conds) : t \notin System => t \in Range(e.post.everListed)
CustomChange(p, e) ==
  (ByCtl(e) /\ C(p).ex /\ C(e).ex /\ C(e).db # C(p).db) => (e.atsync.ok /\ Custom \in Range(e.atsync.cct) /\ C(e).db = e.atsync.db)

\* ------------------------------------------------------------------ P7 connection details
ConnPublished(p, e) == (ByCtl(e) /\ C(p).ex /\ C(e).ex /\ C(e).pub # C(p).pub) => (e.prop = "true" /\ "propagated" \in Tags(e))
ConnRecorded(e) == (ExitStatus(e) /\ C(e).ex /\ e.prop = "true") => (C(e).pub # "none" /\ "Normal:PropagateConnectionSecret" \in Evs(e))
\* the claim's secret is only written by the propagator, with the data it read from the XR's secret in this reconcile
ConnSecret(p, e) == (ByCtl(e) /\ e.post.csec # p.post.csec) => (e.phase = "propagate" /\ e.post.csec.data = e.xsecRead /\ e.post.csec.ctrl = C(p).uid)

\* ------------------------------------------------------------------ P8 reference, user fields, events
RefStable(p, e) == (ByCtl(e) /\ C(p).ex /\ C(e).ex /\ C(p).ref # "none") => C(e).ref = C(p).ref
RefFirst(p, e) == (XrWrite(e) /\ XR(p, e.target) = {} /\ XR(e, e.target) # {}) => e.post.lastRef = e.target
UserFieldsKept(p, e) == (ByCtl(e) /\ C(p).ex /\ C(e).ex) => Core(C(e)) = Core(C(p))
BoundEvent(e) ==
  Ended(e) => ("bound" \in Tags(e)) = (Synced(e) /\ (~e.sxr.ex \/ e.sxr.cref # "this"))

\* ------------------------------------------------------------------ P9 repair
Clean(e) == e.ev = "end" /\ e.clean /\ C(e).ex
F(e) == XR(e, C(e).ref)
Other(e) == \E x \in F(e) : x.cref = "other"
RepairPaused(e) == (Clean(e) /\ C(e).paused) => C(e).synced = "False:ReconcilePaused"
RepairUnbound(e) == (Clean(e) /\ ~C(e).paused /\ Other(e)) => (C(e).synced = "False:ReconcileError" /\ C(e).step = "unbound")
RepairDeleted(e) ==
  (Clean(e) /\ ~C(e).paused /\ ~Other(e) /\ C(e).del) =>
     IF C(e).cdp = "Foreground" /\ F(e) # {} THEN \A x \in F(e) : x.del
     ELSE ~C(e).fin /\ (\A x \in F(e) : x.del) /\ C(e).synced = "True:ReconcileSuccess" /\ C(e).ready = "False:Deleting"
RepairLive(e) ==
  (Clean(e) /\ ~C(e).paused /\ ~Other(e) /\ ~C(e).del) =>
     /\ C(e).fin /\ C(e).ref # "none" /\ C(e).synced = "True:ReconcileSuccess"
     /\ \E x \in F(e) :
          /\ x.cref = "this" /\ x.size = C(e).size
          /\ C(e).ready = (IF x.ready = Avail THEN Avail ELSE "False:Waiting")
          /\ (Custom \in Range(x.cct) => C(e).db = x.db)
          /\ ((C(e).wsec /\ x.wsec /\ x.ready = Avail) =>
                (e.post.csec.ex /\ e.post.csec.data = e.post.xsec.data /\ e.post.csec.ctrl = C(e).uid))
\* a claim that is gone leaves no XR behind that is bound to it and not being deleted
Orphan(e) == (e.ev = "end" /\ ~C(e).ex) => \A x \in XRs(e) : x.cref = "this" => x.del
\* fixed point: the third fault-free reconcile in a row in a quiet world changes no object, the second one not the claim
Quiescent(e) == (e.ev = "end" /\ e.streak >= 3) => e.post.digest = e.prevDigest
\* (a deletion needs more: Delete without a status write, then Ready=False/Deleting)
QuiescentClaim(e) == (e.ev = "end" /\ e.streak >= 2 /\ C(e).ex /\ ~C(e).del) => C(e).rv = e.prevCmRv
\* fault-free reconciles that wait for the foreground deletion of the XR do not leave an error on the claim that is over
ForegroundStaleError(e) == (Clean(e) /\ FgWait(e)) => C(e).synced # "False:ReconcileError"

Viol(name, i) == PrintT("VIOL|" \o name \o "|" \o ToString(i) \o "|" \o Trace[i].scenario)
MissSfx(e) == IF e.sxr.missed THEN ".CacheMiss" ELSE ""
EverSfx(e) == IF e.everMissed THEN ".CacheMiss" ELSE ""
Check(i) ==
  LET e == Trace[i] IN
  /\ (Wiring(e) \/ Viol("Wiring.Stack", i))
  /\ (WiringSyncer(e) \/ Viol("Wiring.Syncer", i))
  /\ (WiringDefaultPolicy(e) \/ Viol("Wiring.DefaultPolicy", i))
  /\ (PausedCalls(e) \/ Viol("Paused.Calls", i))
  /\ (PausedCondition(e) \/ Viol("Paused.Condition", i))
  /\ (PausedExit(e) \/ Viol("Paused.Exit", i))
  /\ (SyncedTrueNeedsSync(e) \/ Viol("Exit.SyncedTrueNeedsSync", i))
  /\ (ExitSyncedFalse(e) \/ Viol("Exit.SyncedFalse", i))
  /\ (ExitReasonCall(e) \/ Viol("Exit.Reason.Call", i))
  /\ (ExitReasonState(e) \/ Viol("Exit.Reason.State", i))
  /\ (ExitEvent(e) \/ Viol("Exit.Event", i))
  /\ (ExitSilent(e) \/ Viol("Exit.Silent", i))
  /\ (RequeueGone(e) \/ Viol("Requeue.Gone", i))
  /\ (RequeueSuccess(e) \/ Viol("Requeue.Success", i))
  /\ (RequeueUnbound(e) \/ Viol("Requeue.Unbound", i))
  /\ (RequeueOnFailure(e) \/ Viol("Requeue.OnFailure", i))
  /\ (RequeueForeground(e) \/ Viol("Requeue.Foreground", i))
  /\ (RequeueDeleted(e) \/ Viol("Requeue.Deleted", i))
  /\ (FinalizerBeforeXR(e) \/ Viol("Finalizer.BeforeXR", i))
  /\ (DeletingCalls(e) \/ Viol("Deleting.Calls", i))
  /\ (DeletingNoSync(e) \/ Viol("Deleting.NoSync", i))
  /\ (LiveNoDelete(e) \/ Viol("Deleting.LiveNoDelete", i))
  /\ (DeletingCondition(e) \/ Viol("Deleting.Condition", i))
  /\ (DeletingConditionAfterRemoval(e) \/ Viol("Deleting.Condition.AfterFinalizerRemoval", i))
  /\ (DeletedEvent(e) \/ Viol("Deleting.Event", i))
  /\ (OtherCalls(e) \/ Viol("Other.Calls", i))
  /\ (ReadyMirror(e) \/ Viol("Ready.Mirror", i))
  /\ (ReadyWaiting(e) \/ Viol("Ready.Waiting", i))
  /\ (CustomCopied(e) \/ Viol("Custom.Copied", i))
  /\ (CustomOnlyListed(e) \/ Viol("Custom.OnlyListed", i))
  /\ (ConnRecorded(e) \/ Viol("Conn.Recorded", i))
  /\ (BoundEvent(e) \/ Viol("Event.Bound", i))
  /\ (RepairPaused(e) \/ Viol("Repair.Paused", i))
  /\ (RepairUnbound(e) \/ Viol("Repair.Unbound", i))
  /\ (RepairDeleted(e) \/ Viol("Repair.Deleted", i))
  /\ (RepairLive(e) \/ Viol("Repair.Live", i))
  /\ (Orphan(e) \/ Viol("Repair.Orphan" \o EverSfx(e), i))
  /\ (ForegroundStaleError(e) \/ Viol("Repair.Foreground.StaleError", i))
  /\ (Quiescent(e) \/ Viol("Quiescent", i))
  /\ (QuiescentClaim(e) \/ Viol("Quiescent.Claim", i))
  /\ (e.ev = "reset" \/ i = 1 \/
        LET p == Trace[i - 1] IN
        /\ (PausedOnlyStatus(p, e) \/ Viol("Paused.OnlyStatus", i))
        /\ (StatusOnlyStatus(p, e) \/ Viol("Status.OnlyStatus", i))
        /\ (FinalizerKept(p, e) \/ Viol("Finalizer.Kept", i))
        /\ (DeleteFirst(p, e) \/ Viol("Finalizer.DeleteFirst", i))
        /\ (XRFirst(p, e) \/ Viol("Finalizer.XRFirst" \o MissSfx(e), i))
        /\ (DeletePolicy(p, e) \/ Viol("Deleting.Policy", i))
        /\ (DeletingOnlyFinalizer(p, e) \/ Viol("Deleting.OnlyFinalizer", i))
        /\ (OtherUntouched(p, e) \/ Viol("Other.Untouched", i))
        /\ (ReadyTruth(p, e) \/ Viol("Ready.Truth", i))
        /\ (CustomChange(p, e) \/ Viol("Custom.Change", i))
        /\ (ConnPublished(p, e) \/ Viol("Conn.Published", i))
        /\ (ConnSecret(p, e) \/ Viol("Conn.Secret", i))
        /\ (RefStable(p, e) \/ Viol("Ref.Stable", i))
        /\ (RefFirst(p, e) \/ Viol("Ref.First", i))
        /\ (UserFieldsKept(p, e) \/ Viol("User.FieldsKept", i)))

Init == l = 0
Next == /\ l < Len(Trace) /\ l' = l + 1 /\ Check(l')
        /\ (l' < Len(Trace) \/ PrintT("DONE|" \o ToString(l')))
Spec == Init /\ [][Next]_l
=============================================================================
