#!/usr/bin/env python3
"""Anti-vacuity self test of the X12 check (run by hand: python3 checks/x12_selftest.py [mutant-name ...]).

1. model level: the witness cfg MCCoreWiring_witness_flags.cfg must be VIOLATED (the reference does depend on the flags);
2. sanity mutants of the Setup / options / webhook functions, applied ONLY through `go build -overlay` on scratch copies under
   /verif/.work/X12/selftest (nothing is written to /repo): each must make MonCoreWiring report the expected formulas
   (formulas that do not fire, or fire less often, on the unchanged tree);
3. seeded corruption of one recorded field of a real trace: MonCoreWiring must reject exactly that line."""
import json
import os
import subprocess
import sys

sys.path.insert(0, os.path.dirname(os.path.dirname(os.path.abspath(__file__))))
import vlib  # noqa: E402
from checks import x12  # noqa: E402

XP = "/repo/internal/controller/apiextensions/"
APIEXT = XP + "apiextensions.go"
DEF = XP + "definition/reconciler.go"
OFF = XP + "offered/reconciler.go"
COMP = XP + "composition/reconciler.go"
USG = XP + "usage/reconciler.go"
ROLES = "/repo/internal/controller/rbac/provider/roles/reconciler.go"
RWATCH = "/repo/internal/controller/rbac/provider/roles/watch.go"
BIND = "/repo/internal/controller/rbac/provider/binding/reconciler.go"
CHOOK = "/repo/internal/validation/apiextensions/v1/composition/handler.go"
UHOOK = "/repo/internal/usage/handler.go"

MUTANTS = [
    # (name, file, old text, new text, formulas that must fire)
    ("usage-setup-on-the-wrong-flag", APIEXT,
     "\tif o.Features.Enabled(features.EnableBetaUsages) {", "\tif o.Features.Enabled(features.EnableBetaClaimSSA) {",
     ["Wiring.Usage.Flag"]),
    ("usage-setup-without-the-flag", APIEXT,
     "\tif o.Features.Enabled(features.EnableBetaUsages) {", "\tif o.Features.Enabled(features.EnableBetaUsages) || o.Features != nil {",
     ["Wiring.Usage.Flag"]),
    ("offered-ssa-syncer-when-flag-off", OFF,
     "\tif r.options.Features.Enabled(features.EnableBetaClaimSSA) {", "\tif !r.options.Features.Enabled(features.EnableBetaClaimSSA) {",
     ["Wiring.Claim.Syncer", "Wiring.Claim.Upgrader"]),
    ("offered-ssa-on-the-ess-flag", OFF,
     "\tif r.options.Features.Enabled(features.EnableBetaClaimSSA) {", "\tif r.options.Features.Enabled(features.EnableAlphaExternalSecretStores) {",
     ["Wiring.Claim.Syncer"]),
    ("xr-ess-chain-without-the-flag", DEF,
     "\tif r.options.Features.Enabled(features.EnableAlphaExternalSecretStores) {", "\tif !r.options.Features.Enabled(features.EnableAlphaExternalSecretStores) {",
     ["Wiring.XR.Publishers", "Wiring.XR.Configurators", "Wiring.XR.Composer", "Wiring.XR.StoreTLS"]),
    ("xr-watch-starter-without-the-flag", DEF,
     "\t// XR reconciler so that it can start watches for composed resources.\n\tif r.options.Features.Enabled(features.EnableAlphaRealtimeCompositions) {",
     "\t// XR reconciler so that it can start watches for composed resources.\n\tif !r.options.Features.Enabled(features.EnableAlphaRealtimeCompositions) {",
     ["Wiring.XR.WatchStarter", "Wiring.XR.Index", "Wiring.XR.DynamicWatches"]),
    ("xr-watch-gc-on-the-wrong-flag", DEF,
     "\tco := []engine.ControllerOption{engine.WithRuntimeOptions(ko)}\n\tif r.options.Features.Enabled(features.EnableAlphaRealtimeCompositions) {",
     "\tco := []engine.ControllerOption{engine.WithRuntimeOptions(ko)}\n\tif r.options.Features.Enabled(features.EnableAlphaExternalSecretStores) {",
     ["Wiring.XR.WatchGC"]),
    ("composition-setup-without-silent-requeue", COMP,
     "\t\tComplete(ratelimiter.NewReconciler(name, errors.WithSilentRequeueOnConflict(r), o.GlobalRateLimiter))",
     "\t\tComplete(ratelimiter.NewReconciler(name, r, o.GlobalRateLimiter))",
     ["Wiring.Composition.SilentRequeue", "Uniform.SilentRequeue"]),
    ("claim-controller-without-rate-limiter", OFF,
     "\tko.Reconciler = ratelimiter.NewReconciler(claim.ControllerName(d.GetName()), errors.WithSilentRequeueOnConflict(cr), r.options.GlobalRateLimiter)",
     "\tko.Reconciler = errors.WithSilentRequeueOnConflict(cr)",
     ["Wiring.Claim.Limiter", "Uniform.RateLimiter"]),
    ("xr-rate-limiter-under-the-xrd-controllers-name", DEF,
     "\tko.Reconciler = ratelimiter.NewReconciler(composite.ControllerName(d.GetName()), errors.WithSilentRequeueOnConflict(cr), r.options.GlobalRateLimiter)",
     "\tko.Reconciler = ratelimiter.NewReconciler(\"defined/compositeresourcedefinition.apiextensions.crossplane.io\", errors.WithSilentRequeueOnConflict(cr), r.options.GlobalRateLimiter)",
     ["Wiring.XR.LimiterKey", "Uniform.LimiterKey"]),
    ("xr-backoff-cap-dropped", DEF,
     "\tko.RateLimiter = workqueue.NewTypedItemExponentialFailureRateLimiter[reconcile.Request](1*time.Second, 30*time.Second)\n",
     "\t_ = workqueue.NewTypedItemExponentialFailureRateLimiter[reconcile.Request](1*time.Second, 30*time.Second)\n",
     ["Wiring.XR.Backoff"]),
    ("roles-allow-list-watch-enqueues-nothing", RWATCH,
     "\tif cr.GetName() != e.clusterRoleName {", "\tif cr.GetName() == e.clusterRoleName {",
     ["Wiring.RbacRoles.Enqueue.ClusterRole"]),
    ("roles-validator-reads-the-wrong-role", ROLES,
     "\t\tWithPermissionRequestsValidator(NewClusterRoleBackedValidator(mgr.GetClient(), o.AllowClusterRole)),",
     "\t\tWithPermissionRequestsValidator(NewClusterRoleBackedValidator(mgr.GetClient(), name)),",
     ["Wiring.RbacRoles.Validator"]),
    ("revert-95e3026-no-family-watch-without-allow-list", ROLES,
     "\t\t\tOwns(&rbacv1.ClusterRole{}).\n\t\t\tWatches(&v1.ProviderRevision{}, sfh).\n",
     "\t\t\tOwns(&rbacv1.ClusterRole{}).\n",
     ["Wiring.RbacRoles.Enqueue.ProviderRevision"]),
    ("revert-fde63af-no-org-differ-without-allow-list", ROLES,
     "\t\t\tWithRecorder(event.NewAPIRecorder(mgr.GetEventRecorderFor(name))),\n\t\t\tWithOrgDiffer(OrgDiffer{DefaultRegistry: o.DefaultRegistry}))",
     "\t\t\tWithRecorder(event.NewAPIRecorder(mgr.GetEventRecorderFor(name))))",
     ["Wiring.RbacRoles.OrgRegistry"]),
    ("binding-deployment-watch-controller-owner-only", BIND,
     "handler.EnqueueRequestForOwner(mgr.GetScheme(), mgr.GetRESTMapper(), &v1.ProviderRevision{})).",
     "handler.EnqueueRequestForOwner(mgr.GetScheme(), mgr.GetRESTMapper(), &v1.ProviderRevision{}, handler.OnlyControllerOwner())).",
     ["Wiring.RbacBinding.Enqueue.Deployment"]),
    ("definition-finalizer-on-the-uncached-client", DEF,
     "\t\tWithControllerEngine(o.ControllerEngine),\n\t\tWithOptions(o))\n\n\treturn ctrl.NewControllerManagedBy(mgr).\n\t\tNamed(name).\n\t\tFor(&v1.CompositeResourceDefinition{}).\n\t\tOwns(&extv1.CustomResourceDefinition{}, builder.WithPredicates(resource.NewPredicates(IsCompositeResourceCRD()))).",
     "\t\tWithControllerEngine(o.ControllerEngine),\n\t\tWithFinalizer(resource.NewAPIFinalizer(o.ControllerEngine.GetUncached(), finalizer)),\n\t\tWithOptions(o))\n\n\treturn ctrl.NewControllerManagedBy(mgr).\n\t\tNamed(name).\n\t\tFor(&v1.CompositeResourceDefinition{}).\n\t\tOwns(&extv1.CustomResourceDefinition{}, builder.WithPredicates(resource.NewPredicates(IsCompositeResourceCRD()))).",
     ["Wiring.Definition.Clients", "Wiring.Definition.ClientsHeld"]),
    ("offered-crd-watch-without-predicate", OFF,
     "\t\tOwns(&extv1.CustomResourceDefinition{}, builder.WithPredicates(resource.NewPredicates(IsClaimCRD()))).",
     "\t\tOwns(&extv1.CustomResourceDefinition{}).",
     ["Wiring.Offered.Enqueue.CustomResourceDefinition"]),
    ("offered-reconciles-xrds-without-claim", OFF,
     "\t\tFor(&v1.CompositeResourceDefinition{}, builder.WithPredicates(resource.NewPredicates(OffersClaim()))).",
     "\t\tFor(&v1.CompositeResourceDefinition{}).",
     ["Wiring.Offered.Enqueue.CompositeResourceDefinition"]),
    ("composition-webhook-schema-check-inverted", CHOOK,
     "\tif !v.options.Features.Enabled(features.EnableBetaCompositionWebhookSchemaValidation) {\n\t\treturn warns, nil",
     "\tif v.options.Features.Enabled(features.EnableBetaCompositionWebhookSchemaValidation) {\n\t\treturn warns, nil",
     ["Wiring.Webhook.Composition.Schema"]),
    ("composition-webhook-index-without-the-flag", CHOOK,
     "func SetupWebhookWithManager(mgr ctrl.Manager, options controller.Options) error {\n\tif options.Features.Enabled(features.EnableBetaCompositionWebhookSchemaValidation) {",
     "func SetupWebhookWithManager(mgr ctrl.Manager, options controller.Options) error {\n\tif !options.Features.Enabled(features.EnableBetaCompositionWebhookSchemaValidation) {",
     ["Wiring.Webhook.Composition.Index"]),
    ("usage-webhook-on-another-path", UHOOK,
     "\tmgr.GetWebhookServer().Register(\"/validate-no-usages\",", "\tmgr.GetWebhookServer().Register(\"/validate-no-usage\",",
     ["Wiring.Webhook.Usage.Path", "Wiring.Webhook.Config.Served"]),
    ("xr-poll-interval-not-handed-on", DEF,
     "\t\tcomposite.WithPollInterval(r.options.PollInterval),\n", "",
     ["Wiring.XR.Poll", "Uniform.HandOn.Poll"]),
    ("usage-recorder-not-handed-on", USG,
     "\t\tWithRecorder(event.NewAPIRecorder(mgr.GetEventRecorderFor(name))),\n\t\tWithPollInterval(o.PollInterval))",
     "\t\tWithPollInterval(o.PollInterval))",
     ["Wiring.Usage.Recorder", "Uniform.HandOn.Recorder"]),
    ("usage-poll-interval-not-handed-on", USG,
     "\t\tWithRecorder(event.NewAPIRecorder(mgr.GetEventRecorderFor(name))),\n\t\tWithPollInterval(o.PollInterval))",
     "\t\tWithRecorder(event.NewAPIRecorder(mgr.GetEventRecorderFor(name))))",
     ["Wiring.Usage.Poll", "Uniform.HandOn.Poll"]),
    ("pipeline-observer-gets-the-cache-twice", DEF,
     "composite.NewExistingComposedResourceObserver(r.engine.GetCached(), r.engine.GetUncached(), fetcher)",
     "composite.NewExistingComposedResourceObserver(r.engine.GetCached(), r.engine.GetCached(), fetcher)",
     ["Wiring.XR.Clients.MissReread"]),
    ("pt-composer-writes-through-the-uncached-client", DEF,
     "\tptc := composite.NewPTComposer(r.engine.GetCached(), r.engine.GetUncached(), composite.WithComposedConnectionDetailsFetcher(fetcher))",
     "\tptc := composite.NewPTComposer(r.engine.GetUncached(), r.engine.GetCached(), composite.WithComposedConnectionDetailsFetcher(fetcher))",
     ["Wiring.XR.Clients.UncachedOnlyRereads", "Wiring.XR.Clients.Writes"]),
    ("revision-watch-lists-through-the-managers-client", DEF,
     "\tcrh := EnqueueForCompositionRevision(resource.CompositeKind(xrGVK), r.engine.GetCached(), log)",
     "\tcrh := EnqueueForCompositionRevision(resource.CompositeKind(xrGVK), r.client, log)",
     ["Wiring.XR.WatchClients"]),
    ("xr-connection-key-filter-dropped", DEF,
     "\t\tcomposite.WithConnectionPublishers(composite.NewAPIFilteredSecretPublisher(r.engine.GetCached(), d.GetConnectionSecretKeys())),",
     "\t\tcomposite.WithConnectionPublishers(composite.NewAPIFilteredSecretPublisher(r.engine.GetCached(), nil)),",
     ["Wiring.XR.PublisherFilter"]),
    ("xr-selector-chain-reordered", DEF,
     "\t\t\tcomposite.NewEnforcedCompositionSelector(*d, r.record),\n\t\t\tcomposite.NewAPIDefaultCompositionSelector(r.engine.GetCached(), *meta.ReferenceTo(d, v1.CompositeResourceDefinitionGroupVersionKind), r.record),\n",
     "\t\t\tcomposite.NewAPIDefaultCompositionSelector(r.engine.GetCached(), *meta.ReferenceTo(d, v1.CompositeResourceDefinitionGroupVersionKind), r.record),\n\t\t\tcomposite.NewEnforcedCompositionSelector(*d, r.record),\n",
     ["Wiring.XR.Selectors"]),
    ("xr-default-selector-reads-the-live-api", DEF,
     "\t\t\tcomposite.NewAPIDefaultCompositionSelector(r.engine.GetCached(), *meta.ReferenceTo(d, v1.CompositeResourceDefinitionGroupVersionKind), r.record),\n",
     "\t\t\tcomposite.NewAPIDefaultCompositionSelector(r.engine.GetUncached(), *meta.ReferenceTo(d, v1.CompositeResourceDefinitionGroupVersionKind), r.record),\n",
     ["Wiring.XR.Clients.UncachedOnlyRereads"]),
    ("xr-publisher-on-the-managers-client", DEF,
     "\t\tcomposite.WithConnectionPublishers(composite.NewAPIFilteredSecretPublisher(r.engine.GetCached(), d.GetConnectionSecretKeys())),",
     "\t\tcomposite.WithConnectionPublishers(composite.NewAPIFilteredSecretPublisher(r.client, d.GetConnectionSecretKeys())),",
     ["Wiring.XR.Clients", "Wiring.XR.ClientsHeld"]),
    ("claim-controller-logger-of-the-xrd-controller", OFF,
     "\t\tclaim.WithLogger(log.WithValues(\"controller\", claim.ControllerName(d.GetName()))),", "\t\tclaim.WithLogger(log),",
     ["Wiring.Claim.Logger", "Uniform.HandOn.Logger"]),
]


def build_mutant(ctx, name, path, old, new):
    src = open(path).read()
    if src.count(old) != 1:
        raise SystemExit("mutant %s: anchor text occurs %d times in %s" % (name, src.count(old), path))
    d = os.path.join(ctx.work, "mutants", name)
    os.makedirs(d, exist_ok=True)
    mp = os.path.join(d, os.path.basename(path))
    with open(mp, "w") as f:
        f.write(src.replace(old, new))
    ov = os.path.join(d, "overlay.json")
    with open(ov, "w") as f:
        json.dump({"Replace": {path: mp}}, f)
    out = os.path.join(d, "corewiring")
    e = dict(os.environ)
    e.update(vlib.GOENV)
    p = subprocess.run(["go", "build", "-overlay", ov, "-o", out, "./drivers/corewiring"], cwd=vlib.HARNESS, env=e,
                       stdout=subprocess.PIPE, stderr=subprocess.STDOUT, text=True)
    if p.returncode != 0:
        raise SystemExit("mutant %s does not build:\n%s" % (name, p.stdout[-3000:]))
    return out


def judge(ctx, binp, sp, tag):
    trace = os.path.join(ctx.work, "trace_%s.ndjson" % tag)
    ctx.run([binp, "-scenarios", sp, "-trace", trace, "-summary", os.path.join(ctx.work, "summary_%s.json" % tag), "-chunk", "150"])
    viols, _ = ctx.monitor("MonCoreWiring", trace, par=3)
    by = {}
    for f, _, _ in viols:
        by[f] = by.get(f, 0) + 1
    return by, trace


def main():
    only = set(sys.argv[1:])
    ctx = vlib.Ctx("X12/selftest", "quick", 1)
    ok = True
    if not only:
        mc = ctx.model_check(x12.MODULE, x12.MODULE + "_witness_flags.cfg", sub="mc_witness", workers=2, timeout=300, expect_violations=("FlagsIrrelevant",))
        print("witness cfg: FlagsIrrelevant violated as expected (%d states)" % mc["states"], flush=True)
    scs, _, _, _ = x12.vectors(ctx, [("rider", 0)], workers=2)
    sp = ctx.write_scenarios(scs)
    base, trace = judge(ctx, ctx.go_build("./drivers/corewiring"), sp, "base")
    print("unchanged tree (%d vectors):" % len(scs), base, flush=True)
    for name, path, old, new, expect in MUTANTS:
        if only and name not in only:
            continue
        got, _ = judge(ctx, build_mutant(ctx, name, path, old, new), sp, name)
        raised = {f: n for f, n in got.items() if n > base.get(f, 0)}
        hit = all(f in raised for f in expect)
        ok &= hit
        print("mutant %-52s %s  new/raised: %s" % (name, "DETECTED" if hit else "MISSED (expected %s)" % expect, raised), flush=True)
    if only:
        print("selftest (subset)", "PASSED" if ok else "FAILED")
        return 0 if ok else 1

    # seeded corruption of recorded fields of a real trace
    lines = []
    for f in sorted(f for f in os.listdir(ctx.work) if f.startswith("trace_base.ndjson")):
        lines += open(os.path.join(ctx.work, f)).read().splitlines()

    def ctl(e, c, t="ctl"):
        return e["t"] == t and e["ctl"] == c

    corruptions = [
        ("composition controller runs 5 workers instead of the configured number", lambda e: ctl(e, "composition"),
         lambda e: e["o"].update(conc=e["o"]["conc"] + 2), "Wiring.Composition.Concurrency"),
        ("definition controller backs off to 5 minutes", lambda e: ctl(e, "definition"),
         lambda e: e["o"]["rl"].update(cap=300000), "Wiring.Definition.Backoff"),
        ("offered controller logs under another controller's name", lambda e: ctl(e, "offered"),
         lambda e: e["o"].update(logctl=["defined/compositeresourcedefinition.apiextensions.crossplane.io"]), "Wiring.Offered.Logger"),
        ("usage controller swallows a plain error", lambda e: ctl(e, "usage"),
         lambda e: e["o"].update(plain="dropped"), "Wiring.Usage.ErrorSurfaces"),
        ("composition controller reads through the engine's cache", lambda e: ctl(e, "composition"),
         lambda e: e["o"].update(clients=["cached", "mgr"]), "Wiring.Composition.Clients"),
        ("definition controller does not watch CRDs", lambda e: ctl(e, "definition"),
         lambda e: e["o"].update(kinds=["CompositeResourceDefinition"]), "Wiring.Definition.Watches"),
        ("a deleted composite CRD does not wake the definition controller",
         lambda e: ctl(e, "definition"),
         lambda e: [p.update(enq=[]) for p in e["o"]["probes"] if p["id"] == "compositeOfX1" and p["ev"] == "delete"], "Wiring.Definition.Enqueue.CustomResourceDefinition"),
        ("XR controller keeps polling at the default interval", lambda e: ctl(e, "xr", "dyn"),
         lambda e: e["o"]["parts"]["poll"].update(min=54000, max=66000), "Wiring.XR.Poll"),
        ("XR controller's events lack the controller annotation", lambda e: ctl(e, "xr", "dyn"),
         lambda e: e["o"].update(evann=["none"]), "Wiring.XR.Recorder"),
        ("Manual-policy XR enqueued for a new revision", lambda e: ctl(e, "xr", "dyn"),
         lambda e: [p.update(enq=["xr-a", "xr-b"]) for p in e["o"]["probes"] if p["k"] == "CompositionRevision" and p["id"] == "ctrlComp" and p["ev"] == "create"],
         "Wiring.XR.Enqueue.CompositionRevision"),
        ("claim controller reads through the manager's client", lambda e: ctl(e, "claim", "dyn") and e["o"]["ran"],
         lambda e: e["o"]["runs"][0]["calls"][0].update(c="mgr"), "Wiring.Claim.Runs"),
        ("XRD webhook really creates the CRD", lambda e: ctl(e, "xrd", "hook"),
         lambda e: e["o"]["reqs"][0]["calls"][0].update(dry=False), "Wiring.Webhook.Xrd.DryRun"),
        ("usage webhook lets the deletion of a used resource pass", lambda e: ctl(e, "usage", "hook"),
         lambda e: e["o"]["reqs"][0].update(allowed=True, code=200), "Wiring.Webhook.Usage.Blocks"),
        ("the shipped configuration sends UPDATE to the usage webhook", lambda e: e["t"] == "hookcfg",
         lambda e: e["o"]["cfg"][2].update(ops=["DELETE", "UPDATE"]), "Wiring.Webhook.Config.Operations"),
        ("one controller is not rate limited", lambda e: e["t"] == "uniform",
         lambda e: e["o"]["rows"][1]["lim"].update(after=0, calls=3), "Uniform.RateLimiter"),
        ("rbac definition controller registered twice", lambda e: e["t"] == "setup" and e["input"]["fam"] == "rbac",
         lambda e: e["o"].update(ids=e["o"]["ids"] + ["rbacdef"]), "Wiring.Rbac.Controllers"),
    ]
    for what, pick, mutate, formula in corruptions:
        idx = next((i for i, ln in enumerate(lines) if pick(json.loads(ln))), None)
        if idx is None:
            ok = False
            print("corruption %-72s NO CANDIDATE LINE" % what)
            continue
        e = json.loads(lines[idx])
        mutate(e)
        lo = max(0, idx - 3)
        cp = os.path.join(ctx.work, "corrupt.ndjson")
        with open(cp, "w") as f:
            f.write("\n".join(lines[lo:idx] + [json.dumps(e)] + lines[idx + 1:idx + 3]) + "\n")
        viols, _ = ctx.monitor("MonCoreWiring", cp)
        hit = any(f == formula and ln == idx - lo + 1 for f, ln, _ in viols)
        ok &= hit
        print("corruption %-72s line %d: %s" % (what, idx + 1, "REJECTED by " + formula if hit else "NOT NOTICED %s" % viols[:5]), flush=True)
    print("selftest", "PASSED" if ok else "FAILED")
    return 0 if ok else 1


if __name__ == "__main__":
    sys.exit(main())
