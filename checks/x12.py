"""X12 (extension) - CoreWiring: what the PRODUCTION Setup functions of the apiextensions and rbac controllers, the options
functions of the two XRD controllers and the admission-webhook Setup functions wire, for every vector of feature flags and
options.

Reference: spec/CoreWiring.tla (derived from what each controller is for: rules R1-R6 in its header); input enumeration and
design-level checks of the reference: spec/MCCoreWiring.tla; driver: harness/drivers/corewiring (the real
apiextensions.Setup / rbac.Setup / SetupWebhookWithManager on a capturing manager; captured controllers probed
behaviourally; the captured definition / offered reconcilers run on simapi until they start the XR / claim controller on a
capturing engine); monitor: spec/MonCoreWiring.tla (formulas Wiring.<Controller>.<Aspect>, Wiring.Webhook.*, Uniform.*)."""
import glob
import json
import os

import vlib

PID = "X12"
MODULE = "MCCoreWiring"
QUICK = [("quick", 0), ("quick_opts", 20)]          # (cfg, sample size; 0 = every vector)
THOROUGH = [("thorough", 0)]
ASPECTS = ["Runs", "Limiter", "LimiterKey", "SilentRequeue", "ErrorSurfaces", "Backoff", "Concurrency", "Recorder", "Logger", "Poll",
           "Clients", "ClientsHeld", "WatchClients", "Watches", "Cache", "Enqueue.<Kind>", "Unexpected"]
MON_FORMULAS = (
    ["Wiring.Core.Controllers", "Wiring.Usage.Flag", "Wiring.Rbac.Controllers", "Wiring.Stray"]
    + ["Wiring.%s.%s" % (c, a) for c in ("Composition", "Definition", "Offered", "Usage", "RbacDefinition", "RbacBinding", "RbacRoles") for a in ASPECTS]
    + ["Wiring.Definition.Options", "Wiring.Definition.Engine", "Wiring.Offered.Options", "Wiring.Offered.Engine",
       "Wiring.Definition.Clients", "Wiring.Offered.Clients",
       "Wiring.RbacRoles.Validator", "Wiring.RbacRoles.OrgRegistry", "Wiring.RbacRoles.OrgForeign", "Wiring.RbacRoles.NoFamily", "Wiring.RbacBinding.Binds"]
    + ["Wiring.XR.%s" % a for a in ASPECTS if a != "Runs"]
    + ["Wiring.XR.%s" % a for a in ("Started", "Runs", "Publishers", "PublisherFilter", "Configurators", "Selectors", "Composer", "Pipeline", "StoreTLS",
                                     "Finalizer", "Selects", "WatchStarter", "WatchGC", "Index", "DynamicWatches", "Clients.UncachedOnlyRereads",
                                     "Clients.MissReread", "Clients.Writes", "FunctionRunner")]
    + ["Wiring.Claim.%s" % a for a in ASPECTS if a != "Runs"]
    + ["Wiring.Claim.%s" % a for a in ("Started", "NotOffered", "Runs", "Syncer", "Upgrader", "Propagator", "Unpublisher", "Finalizer", "StoreTLS")]
    + ["Wiring.Webhook.%s.%s" % (h, a) for h in ("Xrd", "Composition", "Usage") for a in ("Path", "Index", "Clients")]
    + ["Wiring.Webhook.Xrd.Validates", "Wiring.Webhook.Xrd.DryRun", "Wiring.Webhook.Composition.Logic", "Wiring.Webhook.Composition.Schema",
       "Wiring.Webhook.Composition.ReadOnly", "Wiring.Webhook.Usage.Blocks", "Wiring.Webhook.Usage.Logger",
       "Wiring.Webhook.Config.Served", "Wiring.Webhook.Config.Complete", "Wiring.Webhook.Config.Operations", "Wiring.Webhook.Config.UsageSelector"]
    + ["Uniform.RateLimiter", "Uniform.LimiterKey", "Uniform.SilentRequeue", "Uniform.ErrorSurfaces", "Uniform.Concurrency",
       "Uniform.HandOn.Poll", "Uniform.HandOn.Recorder", "Uniform.HandOn.Logger"])
INVARIANTS = ["RefLocality", "RefMonotone", "RefBaseline", "RefNeverBlind", "RefClientSplit (ASSUME)"]


def regression():
    out = []
    for p in sorted(glob.glob(os.path.join(vlib.VERIF, "scenarios", PID, "*.json"))):
        with open(p) as f:
            out.append(json.load(f))
    return out


def vectors(ctx, plan, prefix=PID, workers=4):
    """Runs the MC cfgs of the plan; returns (scenarios, states, transitions, emitted)."""
    scs, seen, st, tr, em = [], set(), 0, 0, 0
    for name, n in plan:
        mc = ctx.model_check(MODULE, "%s_%s.cfg" % (MODULE, name), sub="mc_" + name, workers=workers, timeout=600)
        st, tr, em = st + mc["states"], tr + mc["transitions"], em + mc["emitted"]
        if n and mc["emitted"] > n:
            picked = [h for _, h in ctx.sample_lines(mc["emitted_file"], n, mc["emitted"])]
        else:
            with open(mc["emitted_file"]) as f:
                picked = [json.loads(x) for x in f if x.strip()]
        # (TLC with several workers emits in any order: ids are given in a canonical order)
        for key, h in sorted((json.dumps(h, sort_keys=True), h) for h in picked):
            if key in seen:
                continue
            seen.add(key)
            scs.append({"id": "%s-%s-%04d" % (prefix, name, len(scs) + 1), "input": h})
    return scs, st, tr, em


def drive_and_judge(ctx, scs, chunk=170):
    sp = ctx.write_scenarios(scs)
    binp = ctx.go_build("./drivers/corewiring")
    trace = os.path.join(ctx.work, "trace.ndjson")
    summ = os.path.join(ctx.work, "summary.json")
    ctx.run([binp, "-scenarios", sp, "-trace", trace, "-summary", summ, "-chunk", str(chunk), "-seed", str(ctx.seed)])
    with open(summ) as f:
        s = json.load(f)
    viols, nlines = ctx.monitor("MonCoreWiring", trace)
    if nlines != s["events"]:
        raise vlib.Inconclusive("the monitor read %d lines, the driver wrote %d (two runs of X12 at once?)" % (nlines, s["events"]))
    by_id = {x["id"]: x for x in scs}
    for formula, line, scid in viols:
        ctx.violation(formula, scid, ctx.replay_file(by_id.get(scid, {"id": scid})), "trace line %d" % line, fingerprint=formula)
    return s, nlines


def run(ctx):
    plan = QUICK if ctx.quick else THOROUGH
    scs, st, tr, em = vectors(ctx, plan)
    scs = regression() + scs
    s, nlines = drive_and_judge(ctx, scs)
    hits = {}
    for v in ctx.violations:
        hits[v["formula"]] = hits.get(v["formula"], 0) + 1
    ctx.cov.update(dict(
        states=st, transitions=tr, traces_validated_against_impl=s["vectors"], samples=(s.get("samples") or [])[:2],
        model_cfgs=[n for n, _ in plan], vectors_emitted=em, vectors_replayed=s["vectors"], per_family=s["families"],
        records=s["records"], controllers_observed=s["controllers"], watch_probes=s["probes"], reconciles=s["reconciles"], events=nlines, drift=0,
        monitor_formulas=MON_FORMULAS, formulas_violated=hits, model_invariants=INVARIANTS, exhaustive=all(n == 0 for _, n in plan),
        checker_cmd="tlc MCCoreWiring (M,G: enumerates the flag / option vectors, checks the reference: locality, monotonicity, baseline, "
                    "never blind) -> harness/drivers/corewiring on /repo (T: the real Setup functions on a capturing manager) -> tlc MonCoreWiring",
        rule="every enumerated vector is handed to the real apiextensions.Setup / rbac.Setup / SetupWebhookWithManager; every captured "
             "controller, the XR / claim controllers started through the captured XRD controllers and every webhook are observed",
    ))
    ctx.assumptions += [
        "what cmd/crossplane/core does around Setup (engine construction with wrapped clients, ESSOptions, function runner, webhook "
        "registration only under --enable-usages) needs a cluster and is re-stated below the Setup functions by the driver: not covered",
        "simapi models the API server rules listed in spec/KubeAPI.tla; informers are not started (watch handlers and predicates are "
        "driven directly with events)",
        "the secret-store plugins of External Secret Stores are not contacted: their wiring is judged on types and the TLS configuration handed on",
        "verdict only from observations of the real code judged by MonCoreWiring.tla",
    ]


def replay(ctx, path):
    with open(path) as f:
        sc = json.load(f)
    s, nlines = drive_and_judge(ctx, [sc])
    ctx.cov.update(dict(states=1, transitions=1, traces_validated_against_impl=s["vectors"], samples=[sc], events=nlines, records=s["records"]))
