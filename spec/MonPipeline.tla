---------------------------- MODULE MonPipeline ----------------------------
(***************************************************************************)
(* Trace monitor for C04.  Every trace line is one input vector of         *)
(* MCPipeline together with what the REAL code did with it                 *)
(* (harness/drivers/pipeline):                                             *)
(*  family "pipeline"  one reconcile of the real composite.Reconciler with *)
(*     the real FunctionComposer, FetchingFunctionRunner and               *)
(*     ExistingExtraResourcesFetcher on simapi; out.calls = the summary of *)
(*     every RunFunctionRequest a scripted function received (in process,  *)
(*     or as a gRPC server behind the real PackagedFunctionRunner), then   *)
(*     the CompositionResult, the recorded events, the XR's conditions,    *)
(*     the composed resources and references in the store                  *)
(*  family "routing"   the real PackagedFunctionRunner against gRPC        *)
(*     servers: per operation which server received the call, on which     *)
(*     connection, request / response digests on both sides, and the       *)
(*     connections the servers have seen closed                            *)
(* The formulas are those of Pipeline.tla, evaluated on the recorded run.  *)
(*                                                                         *)
(* Property text -> formulas                                               *)
(*  "sent to the active revision of the function it names"                 *)
(*        Routing.Endpoint, Routing.Delivered, Routing.Step,               *)
(*        Routing.SameContent (v1beta1 fallback is a lossless re-encoding),*)
(*        Routing.ClosedAfterGC (connection closed once uninstalled)       *)
(*  "with the same observed state (the XR and its connection details, and  *)
(*   every existing composed resource of this XR with its connection       *)
(*   details)"        SameObserved.Once, SameObserved.Content              *)
(*  "the desired state and context returned by the previous step (empty    *)
(*   for the first)"  Threading.Desired, Threading.Context, Order.*        *)
(*  "its own input and credentials"   OwnInput.Input, OwnInput.Creds       *)
(*  "the final desired state is the last step's output"                    *)
(*        Final.Applied, Final.Refs, Final.XR, Final.Outcome               *)
(*  "Extra resources a function requires are fetched and supplied again    *)
(*   until its requirements stop changing"  Rounds.Rerun, Rounds.Stop      *)
(*  "for a bounded number of rounds"        Rounds.Bound, Rounds.Unstable  *)
(*  "each round supplying exactly the resources that match the latest      *)
(*   requirements"    Rounds.Extra (and Rounds.Context: the context a      *)
(*                    round returns is what the next round is given)       *)
(*  "Results and conditions are surfaced in pipeline order and none is     *)
(*   dropped"   Results.Order, Results.Conditions, Results.Surfaced,       *)
(*              Results.XRConditions, Results.FatalStops                   *)
(*  the whole run against the reference interpreter                        *)
(*              Reference.Calls, Reference.Outcome                         *)
(* Harness.* formulas are self-checks of the harness (the Go program       *)
(* family against the TLA+ one, the reconcile reached Compose); the check  *)
(* script reports them as inconclusive, never as a violation.              *)
(***************************************************************************)
EXTENDS Pipeline, Json, IOUtils

Trace == ndJsonDeserialize(IOEnv.VERIF_TRACE)
VARIABLE l

KV(s) == Range(s)
NExtra(s) == {[k |-> x.k, names |-> Range(x.names)] : x \in Range(s)}
NObs(o) == [xr |-> o.xr, xrconn |-> Range(o.xrconn), res |-> {[n |-> x.n, conn |-> Range(x.conn)] : x \in Range(o.res)}]
NCall(c) ==
  [step |-> c.step, round |-> c.round, prog |-> c.prog, input |-> c.input, des |-> Range(c.des), dxr |-> c.dxr,
   ctx |-> Range(c.ctx), extra |-> NExtra(c.extra), creds |-> Range(c.creds), obs |-> NObs(c.obs), digest |-> c.digest,
   server |-> c.server, sent |-> c.sent, got |-> c.got]
NRsp(x) == [des |-> Range(x.des), dxr |-> x.dxr, ctx |-> Range(x.ctx), reqs |-> Range(x.reqs), results |-> x.results,
            conds |-> x.conds]

\* the recorded run of a pipeline vector, in the shape Pipeline.tla talks about
RunOf(e) ==
  LET o == e.out IN
  [in |-> e.input, calls |-> [j \in DOMAIN o.calls |-> NCall(o.calls[j])], err |-> o.err,
   applied |-> Range(o.applied), refs |-> Range(o.refs), xrm |-> o.xrm, events |-> o.events, conds |-> o.conds,
   xrEvents |-> o.xrEvents, claimEvents |-> o.claimEvents, errToks |-> Range(o.errToks),
   xrConds |-> Range(o.xrConds), claimTypes |-> Range(o.claimTypes)]
RouteRunOf(e) == [in |-> e.input, ops |-> e.out.ops]

\* harness self-checks
HarnessProgram(e, r) == \A j \in DOMAIN r.calls : Rsp(r, j) = NRsp(e.out.calls[j].rsp)
HarnessRan(e) == e.out.ran /\ ~e.out.recErr
HarnessNoDup(e) ==
  \A j \in DOMAIN e.out.calls :
    LET c == e.out.calls[j] IN
    /\ Cardinality({x.n : x \in Range(c.des)}) = Len(c.des)
    /\ Cardinality({x.k : x \in Range(c.ctx)}) = Len(c.ctx)
    /\ Cardinality({x.k : x \in Range(c.extra)}) = Len(c.extra)

Viol(name, i) == PrintT("VIOL|" \o name \o "|" \o ToString(i) \o "|" \o Trace[i].scenario)

CheckPipeline(e, i) ==
  LET r == RunOf(e) IN
  /\ (HarnessRan(e) \/ Viol("Harness.Ran", i))
  /\ (HarnessProgram(e, r) \/ Viol("Harness.Program", i))
  /\ (HarnessNoDup(e) \/ Viol("Harness.NoDup", i))
  /\ (OrderFirst(r) \/ Viol("Order.First", i))
  /\ (OrderNext(r) \/ Viol("Order.Next", i))
  /\ (OrderAll(r) \/ Viol("Order.AllSteps", i))
  /\ (ThreadingDesired(r) \/ Viol("Threading.Desired", i))
  /\ (ThreadingContext(r) \/ Viol("Threading.Context", i))
  /\ (ObservedOnce(r) \/ Viol("SameObserved.Once", i))
  /\ (ObservedContent(r) \/ Viol("SameObserved.Content", i))
  /\ (RoundsExtra(r) \/ Viol("Rounds.Extra", i))
  /\ (RoundsContext(r) \/ Viol("Rounds.Context", i))
  /\ (RoundsRerun(r) \/ Viol("Rounds.Rerun", i))
  /\ (RoundsStop(r) \/ Viol("Rounds.Stop", i))
  /\ (RoundsBound(r) \/ Viol("Rounds.Bound", i))
  /\ (RoundsUnstable(r) \/ Viol("Rounds.Unstable", i))
  /\ (OwnInput(r) \/ Viol("OwnInput.Input", i))
  /\ (OwnCreds(r) \/ Viol("OwnInput.Creds", i))
  /\ (FinalOutcome(r) \/ Viol("Final.Outcome", i))
  /\ (FinalApplied(r) \/ Viol("Final.Applied", i))
  /\ (FinalRefs(r) \/ Viol("Final.Refs", i))
  /\ (FinalXR(r) \/ Viol("Final.XR", i))
  /\ (ResultsOrder(r) \/ Viol("Results.Order", i))
  /\ (ResultsConditions(r) \/ Viol("Results.Conditions", i))
  /\ (ResultsSurfaced(r) \/ Viol("Results.Surfaced", i))
  /\ (ResultsXRConditions(r) \/ Viol("Results.XRConditions", i))
  /\ (FatalStops(r) \/ Viol("Results.FatalStops", i))
  /\ (RoutingStep(r) \/ Viol("Routing.Step", i))
  /\ (RoutingContent(r) \/ Viol("Routing.SameContent", i))
  /\ (RefCalls(r) \/ Viol("Reference.Calls", i))
  /\ (RefOutcome(r) \/ Viol("Reference.Outcome", i))

CheckRouting(e, i) ==
  LET r == RouteRunOf(e) IN
  /\ (RoutingOps(r) \/ Viol("Harness.Ops", i))
  /\ (RoutingEndpoint(r) \/ Viol("Routing.Endpoint", i))
  /\ (RoutingDelivered(r) \/ Viol("Routing.Delivered", i))
  /\ (RoutingSameContent(r) \/ Viol("Routing.SameContent", i))
  /\ (RoutingClosedAfterGC(r) \/ Viol("Routing.ClosedAfterGC", i))

Check(i) ==
  LET e == Trace[i] IN
  IF e.family = "pipeline" THEN CheckPipeline(e, i) ELSE CheckRouting(e, i)

Init == l = 0
Next == /\ l < Len(Trace) /\ l' = l + 1 /\ Check(l')
        /\ (l' < Len(Trace) \/ PrintT("DONE|" \o ToString(l')))
Spec == Init /\ [][Next]_l
=============================================================================
