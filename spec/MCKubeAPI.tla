----------------------------- MODULE MCKubeAPI -----------------------------
(***************************************************************************)
(* The API-server contract as an executable state machine: one abstract    *)
(* object, a finite alphabet of requests (every verb, every way a request  *)
(* can relate to the stored resourceVersion, finalizers, controller        *)
(* references, dry-run, injected faults, two server-side-apply managers     *)
(* with and without force).  Result(pre, op) computes the object after the *)
(* request and the outcome; the invariant Conforms checks - at design      *)
(* level - that this function satisfies the step relation of KubeAPI.tla   *)
(* in every reachable state, so the relation is satisfiable and the        *)
(* function is one of its models.  TLC explores every (state, request)     *)
(* pair reachable within MaxOps requests and emits one request sequence    *)
(* per transition; harness/drivers/kubeapi replays each on the real simapi *)
(* and MonKubeAPI.tla judges every recorded step with the relation.        *)
(***************************************************************************)
EXTENDS KubeAPI, Json

CONSTANTS MaxOps, Alphabet

VARIABLES obj, maxrv, n, last, hist
vars == <<obj, maxrv, n, last, hist>>
view == <<obj, maxrv, n, last>>

Absent == [ex |-> FALSE, rv |-> 0, gen |-> 0, del |-> FALSE, fins |-> <<>>, ctrl |-> "none", f1 |-> "-", f2 |-> "-", st |-> "-",
           own1 |-> <<>>, own2 |-> <<>>]
SetSeq(S) == IF S = {} THEN <<>> ELSE IF S = {"m1"} THEN <<"m1">> ELSE IF S = {"m2"} THEN <<"m2">> ELSE
             IF S = {"x"} THEN <<"x">> ELSE IF S = {"u"} THEN <<"u">> ELSE IF S = {"m1", "m2"} THEN <<"m1", "m2">> ELSE
             IF S = {"m1", "u"} THEN <<"m1", "u">> ELSE IF S = {"m2", "u"} THEN <<"m2", "u">> ELSE <<"m1", "m2", "u">>

\* a request: [verb, sub, dry, inj, rvmode ("none" | "cur" | "stale"), f1, f2, st, fins, ctrls, mgr, force, keep]
\*   keep = TRUE: the request body starts from the stored object (only the named fields change)
Req(verb, sub, dry, inj, rvmode, f1, f2, st, fins, ctrls, mgr, force) ==
  [verb |-> verb, sub |-> sub, dry |-> dry, inj |-> inj, rvmode |-> rvmode, f1 |-> f1, f2 |-> f2, st |-> st,
   fins |-> fins, ctrls |-> ctrls, mgr |-> mgr, force |-> force]
K == "keep"     \* field value: leave as stored
KF == <<"keep">>  \* the same for the finalizer list
Ops ==
  { Req("get", "", FALSE, "", "none", K, K, K, KF, 0, "", FALSE),
    Req("create", "", FALSE, "", "none", "a", "-", "a", <<>>, 0, "", FALSE),
    Req("create", "", FALSE, "", "none", "a", "b", "-", <<"x">>, 1, "", FALSE),
    Req("create", "", FALSE, "", "none", "a", "-", "-", <<>>, 2, "", FALSE),
    Req("create", "", TRUE, "", "none", "b", "-", "-", <<>>, 0, "", FALSE),
    Req("create", "", FALSE, "error", "none", "a", "-", "-", <<>>, 0, "", FALSE),
    Req("update", "", FALSE, "", "cur", "b", K, "b", KF, 1, "", FALSE),
    Req("update", "", FALSE, "", "stale", "b", K, K, KF, 1, "", FALSE),
    Req("update", "", FALSE, "", "none", "-", K, K, KF, 0, "", FALSE),
    Req("update", "", FALSE, "", "cur", K, K, K, <<>>, 1, "", FALSE),
    Req("update", "", FALSE, "", "cur", K, K, K, <<"x">>, 1, "", FALSE),
    Req("update", "", FALSE, "", "cur", K, K, K, KF, 2, "", FALSE),
    Req("update", "", TRUE, "", "cur", "a", K, K, KF, 1, "", FALSE),
    Req("update", "", FALSE, "crashAfter", "cur", "a", K, K, KF, 1, "", FALSE),
    Req("update", "", FALSE, "conflict", "cur", "a", K, K, KF, 1, "", FALSE),
    Req("update", "status", FALSE, "", "cur", "b", K, "a", KF, 1, "", FALSE),
    Req("update", "status", FALSE, "", "stale", K, K, "b", KF, 1, "", FALSE),
    Req("patch-merge", "", FALSE, "", "none", "b", K, K, KF, 0, "", FALSE),
    Req("patch-merge", "", FALSE, "", "stale", "a", K, K, KF, 0, "", FALSE),
    Req("patch-merge", "", FALSE, "", "none", "-", K, K, KF, 0, "", FALSE),
    Req("delete", "", FALSE, "", "none", K, K, K, KF, 0, "", FALSE),
    Req("delete", "", FALSE, "", "stale", K, K, K, KF, 0, "", FALSE),
    Req("delete", "", TRUE, "", "none", K, K, K, KF, 0, "", FALSE),
    Req("delete", "", FALSE, "crashBefore", "none", K, K, K, KF, 0, "", FALSE),
    Req("patch-apply", "", FALSE, "", "none", "a", "-", K, KF, 0, "m1", TRUE),
    Req("patch-apply", "", FALSE, "", "none", "-", "a", K, KF, 0, "m1", TRUE),
    Req("patch-apply", "", FALSE, "", "none", "b", "-", K, KF, 0, "m2", FALSE),
    Req("patch-apply", "", FALSE, "", "none", "b", "b", K, KF, 0, "m2", TRUE),
    Req("patch-apply", "", FALSE, "", "none", "a", "-", K, KF, 0, "m2", FALSE),
    Req("patch-apply", "", TRUE, "", "none", "b", "-", K, KF, 0, "m1", TRUE),
    Req("patch-apply", "", FALSE, "", "stale", "a", "-", K, KF, 0, "m1", TRUE) }
Used == IF Alphabet = "all" THEN Ops ELSE {o \in Ops : o.verb \in Alphabet}

\* ---- the concrete request the driver will send, as the relation sees it (op.req ...), given the stored object
Keep(v, stored) == IF v = K THEN stored ELSE v
ReqRv(r, pre) == CASE r.rvmode = "none" -> 0 [] r.rvmode = "cur" -> pre.rv [] OTHER -> IF pre.rv > 1 THEN pre.rv - 1 ELSE 99
ReqOf(r, pre) ==
  [rv |-> ReqRv(r, pre),
   f1 |-> IF r.verb = "patch-apply" THEN r.f1 ELSE Keep(r.f1, pre.f1),
   f2 |-> IF r.verb = "patch-apply" THEN r.f2 ELSE Keep(r.f2, pre.f2),
   st |-> Keep(r.st, pre.st),
   fins |-> IF r.fins = KF THEN pre.fins ELSE r.fins,
   ctrls |-> r.ctrls, ctrl |-> IF r.ctrls >= 1 THEN "o1" ELSE "none"]

\* ---- the function
Bump(pre, post0) ==        \* resourceVersion / generation bookkeeping of a write that went through
  LET same == Content(post0) = Content(pre) IN
  [post0 EXCEPT !.rv = IF same THEN pre.rv ELSE maxrv + 1,
                !.gen = IF Spec_(post0) = Spec_(pre) THEN pre.gen ELSE pre.gen + 1]
Out(o, p) == [outcome |-> o, post |-> p]
Conflicting(pre, q) == q.rv # 0 /\ q.rv # pre.rv
\* fields written through update / create / merge-patch become owned by the update manager "u" (managedFields)
OwnAfterUpdate(old, new, owners) == IF new = old THEN owners ELSE IF new = "-" THEN <<>> ELSE <<"u">>
DoCreate(pre, r, q) ==
  IF pre.ex THEN Out("exists", pre)
  ELSE IF q.ctrls > 1 THEN Out("invalid", pre)
  ELSE Out("ok", IF r.dry THEN pre ELSE
         [ex |-> TRUE, rv |-> maxrv + 1, gen |-> 1, del |-> FALSE, fins |-> q.fins, ctrl |-> q.ctrl, f1 |-> q.f1, f2 |-> q.f2, st |-> "-",
          own1 |-> IF q.f1 = "-" THEN <<>> ELSE <<"u">>, own2 |-> IF q.f2 = "-" THEN <<>> ELSE <<"u">>])
DoUpdate(pre, r, q) ==
  IF ~pre.ex THEN Out("notfound", pre)
  ELSE IF Conflicting(pre, q) THEN Out("conflict", pre)
  ELSE IF q.ctrls > 1 THEN Out("invalid", pre)
  ELSE IF r.dry THEN Out("ok", pre)
  ELSE IF pre.del /\ Range(q.fins) = {} THEN Out("ok", Absent)
  ELSE Out("ok", Bump(pre, [pre EXCEPT !.f1 = q.f1, !.f2 = q.f2, !.fins = q.fins, !.ctrl = q.ctrl,
                                       !.own1 = OwnAfterUpdate(pre.f1, q.f1, pre.own1), !.own2 = OwnAfterUpdate(pre.f2, q.f2, pre.own2)]))
DoStatus(pre, r, q) ==
  IF ~pre.ex THEN Out("notfound", pre)
  ELSE IF Conflicting(pre, q) THEN Out("conflict", pre)
  ELSE IF r.dry THEN Out("ok", pre)
  ELSE Out("ok", Bump(pre, [pre EXCEPT !.st = q.st]))
DoMerge(pre, r, q) ==
  IF ~pre.ex THEN Out("notfound", pre)
  ELSE IF Conflicting(pre, q) THEN Out("conflict", pre)
  ELSE IF r.dry THEN Out("ok", pre)
  ELSE Out("ok", Bump(pre, [pre EXCEPT !.f1 = q.f1, !.own1 = OwnAfterUpdate(pre.f1, q.f1, pre.own1)]))
DoDelete(pre, r, q) ==
  IF ~pre.ex THEN Out("notfound", pre)
  ELSE IF Conflicting(pre, q) THEN Out("conflict", pre)
  ELSE IF r.dry THEN Out("ok", pre)
  ELSE IF Range(pre.fins) = {} THEN Out("ok", Absent)
  ELSE Out("ok", IF pre.del THEN pre ELSE [pre EXCEPT !.del = TRUE, !.rv = maxrv + 1])
\* server-side apply of the manager's intent (f1, f2; "-" = not asserted)
AppliedField(pre, f, m, want) ==
  LET old == IF f = 1 THEN pre.f1 ELSE pre.f2
      own == Range(IF f = 1 THEN pre.own1 ELSE pre.own2) IN
  IF want # "-" THEN [v |-> want, own |-> IF want = old THEN own \cup {m} ELSE {m}]
  ELSE IF pre.ex /\ m \in own /\ own = {m} THEN [v |-> "-", own |-> {}]
  ELSE [v |-> old, own |-> own \ {m}]
DoApply(pre, r, q) ==
  IF q.rv # 0 /\ (~pre.ex \/ q.rv # pre.rv) THEN Out("conflict", pre)
  ELSE IF ~r.force /\ ApplyConflicts(pre, [req |-> q, mgr |-> r.mgr]) THEN Out("conflict", pre)
  ELSE IF r.dry THEN Out("ok", pre)
  ELSE LET a1 == AppliedField(pre, 1, r.mgr, q.f1)
           a2 == AppliedField(pre, 2, r.mgr, q.f2) IN
       IF pre.ex
       THEN Out("ok", Bump(pre, [pre EXCEPT !.f1 = a1.v, !.f2 = a2.v, !.own1 = SetSeq(a1.own), !.own2 = SetSeq(a2.own)]))
       ELSE Out("ok", [Absent EXCEPT !.ex = TRUE, !.rv = maxrv + 1, !.gen = 1, !.f1 = a1.v, !.f2 = a2.v,
                                     !.own1 = SetSeq(a1.own), !.own2 = SetSeq(a2.own)])
Served(pre, r, q) ==
  CASE r.verb = "get" -> Out(IF pre.ex THEN "ok" ELSE "notfound", pre)
    [] r.verb = "create" -> DoCreate(pre, r, q)
    [] r.verb = "update" /\ r.sub = "" -> DoUpdate(pre, r, q)
    [] r.verb = "update" -> DoStatus(pre, r, q)
    [] r.verb = "patch-merge" -> DoMerge(pre, r, q)
    [] r.verb = "delete" -> DoDelete(pre, r, q)
    [] OTHER -> DoApply(pre, r, q)
Result(pre, r) ==
  LET q == ReqOf(r, pre) IN
  IF r.inj \in {"error", "conflict", "crashBefore"}
  THEN Out(IF r.inj = "crashBefore" THEN "dropped" ELSE IF r.inj = "conflict" /\ r.verb # "get" THEN "conflict" ELSE "error", pre)
  ELSE Served(pre, r, q)     \* crashAfter: the effect is applied (the reply is lost)

\* the operation record as the relation (and the monitor) sees it
OpRec(pre, r, res) ==
  [verb |-> r.verb, sub |-> r.sub, dry |-> r.dry /\ r.verb # "get", injected |-> IF r.inj = "crashAfter" THEN "" ELSE r.inj,
   outcome |-> res.outcome, req |-> ReqOf(r, pre), mgr |-> r.mgr, force |-> r.force, maxrv |-> maxrv,
   identical |-> (res.post = pre)]

Init == obj = Absent /\ maxrv = 0 /\ n = 0 /\ last = [pre |-> Absent, op |-> OpRec(Absent, CHOOSE r \in Ops : r.verb = "get", Out("notfound", Absent)), post |-> Absent]
        /\ hist = <<>>
Do(r) == /\ n < MaxOps
         /\ LET res == Result(obj, r) IN
            /\ obj' = res.post
            /\ maxrv' = IF res.post.ex /\ res.post.rv > maxrv THEN res.post.rv ELSE maxrv
            /\ last' = [pre |-> obj, op |-> OpRec(obj, r, res), post |-> res.post]
         /\ n' = n + 1 /\ hist' = Append(hist, r)
Next == \E r \in Used : Do(r)
Spec == Init /\ [][Next]_vars

\* design level: the function is a model of the relation
Conforms == Step(last.pre, last.op, last.post)
Emit == PrintT(<<"TRACE", ToJson(hist')>>)
=============================================================================
