"""Rider shared by C03 and C04: the function runner every pipeline call goes through.

Module FnRunner (check X08) replays schedules of concurrent callers, the connection collector and the environment
(revisions activated, endpoints changed, functions upgraded / deleted / re-created) on the REAL xfn.PackagedFunctionRunner
with in-process gRPC servers (v1 only, v1beta1 only, both, neither).  From its formulas (MonFnRunner.tla):
  C04 ("every step sees exactly the state the contract promises"): the request that arrives at the function and the
      response that comes back are the ones sent (Wire.*, also over the v1 -> v1beta1 fallback, every field filled), at the
      endpoint of the function's active revision as read by that call (Routing.*), v1 first and v1beta1 exactly once on
      Unimplemented (Fallback.*);
  C03 ("a failing call is never taken for a result"): the call's outcome is the last RPC's (Fallback.Result), every error
      class reaches the caller wrapped, none is swallowed (Error.*)."""
FORMULAS = {
    "C04": ["Routing.Endpoint", "Routing.OwnRevisions", "Routing.Sent", "Fallback.V1First", "Fallback.Once", "Fallback.OnlyUnimplemented",
            "Fallback.Retries", "Fallback.Served", "Wire.Request", "Wire.Response", "Wire.AllFields", "Wire.SameSchema"],
    "C03": ["Fallback.Result", "Fallback.OnlyUnimplemented", "Error.List", "Error.NoActive", "Error.EmptyEndpoint", "Error.Dial",
            "Error.NothingSent", "Error.Wrapped", "Error.Known", "Routing.Sent"],
}


def run(ctx, pid):
    from checks import x08
    sub = ctx.sub("fnrunner")
    plan = [("quick_rpc", 500), ("quick_env", 300)] if ctx.quick else [("thorough_rpc", 8000), ("quick_rpc", 6000), ("quick_env", 4000)]
    res = x08.model_runs(sub, [(name, ()) for name, _ in plan], 4)
    scs, st, tr = [], 0, 0
    for name, n in plan:
        mc = res[name]
        scs += [{"id": "%s-fn-%s-%07d" % (pid, name, i), "hist": h, "rider": "fnrunner"} for i, h in sub.sample_lines(mc["emitted_file"], n, mc["emitted"])]
        st += mc["states"]
        tr += mc["transitions"]
    s, n, _ = x08.drive_and_judge(sub, scs, shards=4 if ctx.quick else 10, counts=False, probes=0, repeat=1)
    keep = set(FORMULAS[pid])
    for v in sub.violations:
        if v["formula"] in keep:
            ctx.violations.append(v)
    return dict(states=st, transitions=tr, runs=s.get("runs", s.get("scenarios")), events=n, formulas=FORMULAS[pid])


def replay(ctx, pid, path):
    from checks import x08
    x08.replay(ctx, path)
    keep = set(FORMULAS[pid])
    ctx.violations = [v for v in ctx.violations if v["formula"] in keep]
