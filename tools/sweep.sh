#!/bin/sh
# Runs every check (the 20 listed properties, the API-model check and the extension modules) once on the unchanged tree.
#   tools/sweep.sh [quick|thorough] [seed]          exit 0 iff every check exited 0
tier=${1:-quick}; seed=${2:-1}; cd "$(dirname "$0")/.." || exit 2; bad=0
for c in C01 C02 C03 C04 C05 C06 C07 C08 C09 C10 C11 C12 C13 C14 C15 C16 C17 C18 C19 C20 KUBEAPI X01 X02 X03 X04 X05 X06 X07 X08 X09 X10 X11 X12; do
  [ -f "checks/$(echo $c | tr A-Z a-z).py" ] || continue
  VERIF_SEED=$seed ./check $c --tier $tier > .work/sweep_$c.out 2>&1; rc=$?
  printf "%s rc=%s  %s\n" "$c" "$rc" "$(tail -1 .work/sweep_$c.out)"
  [ $rc -eq 0 ] || bad=1
done
exit $bad
