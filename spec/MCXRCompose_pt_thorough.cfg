SPECIFICATION Spec
CONSTANTS
  Mode = "PT"
  Names = {"a", "b", "c"}
  MaxObjs = 5
  MaxRecs = 4
  MaxFaults = 2
  MaxEnv = 3
  ForeignAt = "none"
  RenderFails = TRUE
  CacheMisses = FALSE
  VerBumps = FALSE
  Forges = FALSE
  Legacies = FALSE
  FailKinds = {}
VIEW view
ACTION_CONSTRAINT Emit
CHECK_DEADLOCK FALSE
INVARIANTS NoLeak AtMostOne StepProps GcExact
PROPERTIES NameStable
