"""Rider of the listed checks whose drivers build their reconcilers by hand: the controllers as production wires them.

The drivers of C01 / C03 / C05 / C09 (XR controller), C06 / C07 (claim controller), C12 (composition revision controller),
C08 / C11 / C13 (definition / offered controllers, engine use), C18 (rbac manager) and C19 (usage controller + webhook)
construct definition.NewReconciler, offered.NewReconciler, composition.NewReconciler, usage.NewReconciler and the rbac
reconcilers themselves, with hand-picked options, so that they can place faults and interleavings precisely. What production
wires - which controllers exist for which flags, what they watch and which requests a change enqueues, the global rate limiter
and the silent requeue on conflict, logger / recorder / poll interval handed on, which of the manager's and the engine's two
clients every component uses, which implementation a feature flag selects - is decided in the Setup and options functions,
and is judged by the module CoreWiring (check X12): the REAL Setup functions run on a capturing manager, the captured
controllers are probed behaviourally, and MonCoreWiring.tla compares the observations with the reference CoreWiring.tla.
This rider runs the module's small vector set and adds the violations of the formulas that decide part of the listed
property `pid` (scenario ids start with the pid; replay(ctx, pid, path) replays one of them).
(Lesson of the seeded-change wave 6: wiring is code.)"""
import json

XR = ["Wiring.XR."]
CLAIM = ["Wiring.Claim."]
XRD = ["Wiring.Definition.", "Wiring.Offered.", "Wiring.Core.Controllers", "Wiring.Stray", "Wiring.XR.Started", "Wiring.Claim.Started", "Wiring.Claim.NotOffered",
       "Wiring.XR.Watches", "Wiring.XR.Cache", "Wiring.XR.WatchStarter", "Wiring.XR.WatchGC", "Wiring.XR.Index", "Wiring.XR.DynamicWatches",
       "Wiring.Claim.Watches", "Wiring.Claim.Cache"]
RELEVANT = {
    "C01": XR, "C03": XR, "C05": XR, "C09": XR,
    "C06": CLAIM, "C07": CLAIM,
    "C12": ["Wiring.Composition."],
    "C08": XRD, "C11": XRD, "C13": XRD,
    "C18": ["Wiring.Rbac"],
    "C19": ["Wiring.Usage.", "Wiring.Webhook.Usage.", "Wiring.Webhook.Config."],
}


def relevant(pid, formula):
    return any(formula.startswith(p) for p in RELEVANT.get(pid, []))


def family(pid):
    return "rbac" if pid == "C18" else "core"


def run(ctx, pid):
    from checks import x12
    sub = ctx.sub("corewiring")
    plan = [("rider", 0)] if ctx.quick else [("quick", 0)]
    scs, st, tr, em = x12.vectors(sub, plan, prefix=pid + "-cw", workers=2)
    scs = [s for s in scs if s["input"]["fam"] == family(pid)]
    for s in scs:
        s["rider"] = "corewiring"
    s, n = x12.drive_and_judge(sub, scs, chunk=120)
    kept = [v for v in sub.violations if relevant(pid, v["formula"])]
    ctx.violations += kept
    return dict(states=st, transitions=tr, vectors=s["vectors"], events=n, controllers=s["controllers"], watch_probes=s["probes"],
                formulas=RELEVANT.get(pid, []), violations=len(kept))


def replay(ctx, pid, path):
    from checks import x12
    with open(path) as f:
        sc = json.load(f)
    sub = ctx.sub("corewiring")
    x12.drive_and_judge(sub, [sc])
    ctx.violations += [v for v in sub.violations if relevant(pid, v["formula"])]
