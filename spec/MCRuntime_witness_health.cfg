SPECIFICATION Spec
CONSTANTS
  Kind = "provider"
  Starts <- StartsUp
  Certs <- BoolT
  Tmpls <- TmplPlain
  Drc0 <- DrcNamed
  EnvKinds <- EnvCalm
  Interf <- InterfNone
  MaxEdits = 2
  MaxFaults = 0
  MaxRecs = 3
  MaxNest = 0
  MidEnv = FALSE
  GuardInactive = TRUE
  GuardHealth = FALSE
  OwnDelete = FALSE
  CacheMiss = FALSE
VIEW view
CHECK_DEADLOCK FALSE
PROPERTIES HealthTruth
