package main

import (
	"crypto/x509"
	"encoding/base64"
	"encoding/json"
	"sort"

	"k8s.io/apimachinery/pkg/apis/meta/v1/unstructured"
	"k8s.io/apimachinery/pkg/runtime/schema"
	"sigs.k8s.io/yaml"

	"github.com/crossplane/crossplane/zzverif/simapi"
)

func yamlToJSON(y []byte) ([]byte, error) { return yaml.YAMLToJSON(y) }

// content is the digest of everything a user could have put into the object:
// the whole object minus the fields the API server maintains.
func (w *world) content(u *unstructured.Unstructured) string {
	if u == nil {
		return ""
	}
	ck := simapi.KeyOf(u).String() + "@" + u.GetResourceVersion()
	if d, ok := w.ccache[ck]; ok {
		return d
	}
	d := content(u)
	w.ccache[ck] = d
	return d
}

func content(u *unstructured.Unstructured) string {
	c := u.DeepCopy()
	c.SetResourceVersion("")
	c.SetManagedFields(nil)
	c.SetGeneration(0)
	c.SetUID("")
	unstructured.RemoveNestedField(c.Object, "metadata", "creationTimestamp")
	b, err := json.Marshal(c.Object)
	if err != nil {
		panic(err)
	}
	return dig(b)
}

func secretData(u *unstructured.Unstructured) map[string][]byte {
	out := map[string][]byte{}
	if u == nil {
		return out
	}
	m, _, _ := unstructured.NestedMap(u.Object, "data")
	for k, v := range m {
		if s, ok := v.(string); ok {
			b, err := base64.StdEncoding.DecodeString(s)
			if err == nil {
				out[k] = b
			}
		}
	}
	return out
}

func (w *world) leafProj(name string, caCrt []byte, names []string, usage x509.ExtKeyUsage) map[string]any {
	u := w.s.Peek(kSecret(name))
	p := map[string]any{"s": "absent", "d": "", "crt": false, "chain": false, "dns": false, "cab": false}
	if u == nil {
		return p
	}
	d := secretData(u)
	crt, key, ca := d["tls.crt"], d["tls.key"], d["ca.crt"]
	n := 0
	for _, b := range [][]byte{crt, key, ca} {
		if len(b) > 0 {
			n++
		}
	}
	p["s"] = map[int]string{0: "empty", 1: "partial", 2: "partial", 3: "complete"}[n]
	p["d"] = dig(crt, key, ca)
	p["crt"] = len(crt) > 0
	if len(crt) > 0 {
		k := dig(crt, caCrt) + name
		v, ok := w.vcache[k]
		if !ok {
			c, dn := verifyLeaf(crt, caCrt, names, usage)
			v = [2]bool{c, dn}
			w.vcache[k] = v
		}
		p["chain"], p["dns"] = v[0], v[1]
	}
	p["cab"] = len(ca) > 0 && len(caCrt) > 0 && string(ca) == string(caCrt)
	return p
}

func bundleOf(u *unstructured.Unstructured, kind string) [][]byte {
	var out [][]byte
	dec := func(v any) []byte {
		s, _ := v.(string)
		b, _ := base64.StdEncoding.DecodeString(s)
		return b
	}
	if kind == "crd" {
		v, ok, _ := unstructured.NestedFieldNoCopy(u.Object, "spec", "conversion", "webhook", "clientConfig", "caBundle")
		if !ok {
			return [][]byte{nil}
		}
		return [][]byte{dec(v)}
	}
	whs, _, _ := unstructured.NestedSlice(u.Object, "webhooks")
	for _, wh := range whs {
		m, _ := wh.(map[string]any)
		v, _, _ := unstructured.NestedFieldNoCopy(m, "clientConfig", "caBundle")
		out = append(out, dec(v))
	}
	if len(out) == 0 {
		out = [][]byte{nil}
	}
	return out
}

// proj is the abstract state spec/Init.tla talks about, computed from the store.
func (w *world) proj() map[string]any {
	caU := w.s.Peek(kSecret(caName))
	ca := map[string]any{"s": "absent", "d": ""}
	var caCrt []byte
	if caU != nil {
		d := secretData(caU)
		caCrt = d["tls.crt"]
		k := d["tls.key"]
		switch {
		case len(caCrt) > 0 && len(k) > 0:
			ca["s"] = "complete"
		case len(caCrt) > 0:
			ca["s"] = "nokey"
		case len(k) > 0:
			ca["s"] = "nocert"
		default:
			ca["s"] = "empty"
		}
		ca["d"] = dig(caCrt, k)
	}
	srv := w.leafProj(srvName, caCrt, srvDNS, x509.ExtKeyUsageServerAuth)
	var srvCrt []byte
	if u := w.s.Peek(kSecret(srvName)); u != nil {
		srvCrt = secretData(u)["tls.crt"]
	}
	cur := func(u *unstructured.Unstructured, kind string) bool {
		if len(srvCrt) == 0 {
			return false
		}
		for _, b := range bundleOf(u, kind) {
			if string(b) != string(srvCrt) {
				return false
			}
		}
		return true
	}
	withBundle := func(k simapi.Key, kind string) map[string]any {
		u := w.s.Peek(k)
		if u == nil {
			return map[string]any{"p": false, "cur": false, "d": ""}
		}
		return map[string]any{"p": true, "cur": cur(u, kind), "d": w.content(u)}
	}
	crdB := map[string]any{"p": false, "st": "none", "d": ""}
	if u := w.s.Peek(kCRD(crdBName)); u != nil {
		sv, _, _ := unstructured.NestedStringSlice(u.Object, "status", "storedVersions")
		st := "none"
		for _, v := range sv {
			if v == "v1beta1" && st == "none" {
				st = "cur"
			}
			if v == "v1alpha1" {
				st = "old"
			}
		}
		crdB = map[string]any{"p": true, "st": st, "d": w.content(u)}
	}
	plain := func(k simapi.Key) map[string]any {
		u := w.s.Peek(k)
		return map[string]any{"p": u != nil, "d": w.content(u)}
	}
	pkgs := []any{}
	for _, kind := range []string{"Configuration", "Function", "Provider"} {
		for _, u := range w.s.All(schema.GroupKind{Group: "pkg.crossplane.io", Kind: kind}) {
			if u.GetName() == preloadedName {
				continue // (part of the scenery: it is in the digest of the package objects, so it must stay untouched)
			}
			src, _, _ := unstructured.NestedString(u.Object, "spec", "package")
			h, r, v := parseImage(src)
			pkgs = append(pkgs, map[string]any{"k": absKind[kind], "n": u.GetName(), "h": h, "r": r, "v": v, "d": w.content(u)})
		}
	}
	dx, dp := w.digest()
	return map[string]any{
		"ca": ca, "srv": srv,
		"cli":  w.leafProj(cliName, caCrt, cliDNS, x509.ExtKeyUsageClientAuth),
		"ess":  w.leafProj(essName, caCrt, essDNS, x509.ExtKeyUsageServerAuth),
		"crdA": withBundle(kCRD(crdAName), "crd"), "crdB": crdB,
		"val": withBundle(kVal, "whc"), "mut": withBundle(kMut, "whc"),
		"lock": plain(kLock), "sc": plain(kSC), "drc": plain(kDRC),
		"pkgs": pkgs, "Dx": dx, "Dp": dp,
	}
}

// digest of the whole store content: everything but the package objects, and the package objects.
func (w *world) digest() (rest, pkgs string) {
	all := w.s.All(schema.GroupKind{})
	var parts [2][]string
	for _, u := range all {
		k := simapi.KeyOf(u)
		i := 0
		if k.Group == "pkg.crossplane.io" && absKind[k.Kind] != "" {
			i = 1
		}
		parts[i] = append(parts[i], k.String()+"="+w.content(u))
	}
	var out [2]string
	for i := range parts {
		sort.Strings(parts[i])
		bs := make([][]byte, len(parts[i]))
		for j, p := range parts[i] {
			bs[j] = []byte(p)
		}
		out[i] = dig(bs...)
	}
	return out[0], out[1]
}
