// Driver for spec/FnRunner.tla (check X08): replays TLC schedules of concurrent RunFunction callers, the connection
// garbage collector and the environment on the REAL xfn.PackagedFunctionRunner, with real in-process gRPC function
// servers (one per abstract endpoint: e1 serves v1 only, e2 v1beta1 only, e3 both, e4 neither) and harness/simapi
// behind the runner's client.Reader.
//
// Every actor of a schedule runs in its own goroutine and is paused at the seams that can be reached without
// touching /repo:
//   - the client.Reader: after a caller's List of FunctionRevisions ("listed"), inside the collector's List of
//     Functions (under the write lock: a hold point for atomicity probes);
//   - the InterceptorCreators handed to WithInterceptorCreators: CreateInterceptor runs inside the slow path, under
//     the write lock, right before the dial (hold point "dial"); the interceptor itself runs on the caller's
//     goroutine before every RPC, v1 and v1beta1 ("rpc:<api>" gate) and tells which *grpc.ClientConn carries it;
//   - the gRPC servers: the handler pauses with the call in flight ("server:<api>" gate);
//   - the runner's unexported conns map and its RWMutex, read by reflection (as harness/drivers/pipeline does).
//
// What cannot be forced from outside: there is no seam between a caller's fast path (read lock) and its slow path
// (write lock).  A sequence R(miss) ... W of the model is therefore replayed by releasing the caller at its W step
// (everything in between commutes with the read-only R).  When the model lets SEVERAL callers pass R before any of
// them reaches W - the race the re-check under the write lock exists for - the driver takes the runner's own
// write lock, releases those callers, waits until all of them queue at RLock (the mutex's reader count), and
// unlocks: sync.RWMutex then admits all of them as readers before any of them can become the writer, so all of
// them really miss on the fast path and race for the slow path.  Which of them wins is not controlled: the steps
// of such a group are marked `overlapped` (the monitor judges the state invariants on them, not the per-step
// deltas; a `group` event carries the state before the group so that the group as a whole is judged) and the order
// observed is what is recorded.  Only callers that read the same endpoint and package for the same function and
// whose W steps follow each other directly in the schedule are grouped: a caller that wants another endpoint misses
// on the fast path whenever it runs, so releasing it at its own W step is exact.
//
// Atomicity probes (one schedule in eight is replayed once more): the model makes the slow path and the collector's
// locked segment one action each; a probe pauses the actor inside it (at CreateInterceptor / inside the List of
// Functions, both under the write lock) and releases the schedule's next lock-taking actor for a moment: it must
// block.  -stress N adds truly concurrent random runs (nobody paused), judged per call and at quiescence.
//
// The driver only projects and records; every property is judged by spec/MonFnRunner.tla.
package main

import (
	"context"
	"crypto/sha256"
	"encoding/hex"
	"encoding/json"
	"flag"
	"fmt"
	"math/rand"
	"net"
	"os"
	"path/filepath"
	"reflect"
	"regexp"
	goruntime "runtime"
	"sort"
	"strconv"
	"strings"
	"sync"
	"sync/atomic"
	"time"
	"unsafe"

	"google.golang.org/grpc"
	"google.golang.org/grpc/codes"
	"google.golang.org/grpc/connectivity"
	"google.golang.org/grpc/status"
	"google.golang.org/protobuf/proto"
	"google.golang.org/protobuf/reflect/protoreflect"
	kerrors "k8s.io/apimachinery/pkg/api/errors"
	metav1 "k8s.io/apimachinery/pkg/apis/meta/v1"
	"k8s.io/apimachinery/pkg/apis/meta/v1/unstructured"
	"k8s.io/apimachinery/pkg/runtime"
	"k8s.io/apimachinery/pkg/runtime/schema"
	"sigs.k8s.io/controller-runtime/pkg/client"

	fnv1 "github.com/crossplane/crossplane/apis/apiextensions/fn/proto/v1"
	fnv1beta1 "github.com/crossplane/crossplane/apis/apiextensions/fn/proto/v1beta1"
	pkgv1 "github.com/crossplane/crossplane/apis/pkg/v1"
	"github.com/crossplane/crossplane/internal/xfn"
	"github.com/crossplane/crossplane/zzverif/scen"
	"github.com/crossplane/crossplane/zzverif/simapi"
	"github.com/crossplane/crossplane/zzverif/trace"
)

const (
	waitLimit  = 20 * time.Second       // an actor that neither reaches a gate nor finishes within this time counts as hung
	probeWait  = 30 * time.Millisecond  // how long an atomicity probe watches whether the other actor gets in
	gcActor    = 9                      // actor id of the collector in the schedules
	soloActor  = 8                      // actor id of the fault-free calls the driver appends to every schedule
	nVariants  = 6                      // message variants (they differ in the member chosen for every oneof)
	badTarget  = "%zz"                  // a target grpc.NewClient cannot parse
	pkgPrefix  = "xpkg.example.org/"    // package of revision r of function f: xpkg.example.org/f:r
	loopPeriod = 300 * time.Microsecond // interval of the GarbageCollectConnections loop in the teardown
)

// ---------------------------------------------------------------------------------------------------------------
// protobuf: messages that fill every field, a digest over the KNOWN fields, schema comparison

type filler struct {
	n    int             // rotates the member chosen for each oneof
	seen map[string]bool // message.field populated somewhere
}

func scalar(fd protoreflect.FieldDescriptor, k int) protoreflect.Value {
	switch fd.Kind() {
	case protoreflect.BoolKind:
		return protoreflect.ValueOfBool(true)
	case protoreflect.EnumKind:
		vs := fd.Enum().Values()
		if vs.Len() == 1 {
			return protoreflect.ValueOfEnum(vs.Get(0).Number())
		}
		return protoreflect.ValueOfEnum(vs.Get(1 + k%(vs.Len()-1)).Number())
	case protoreflect.Int32Kind, protoreflect.Sint32Kind, protoreflect.Sfixed32Kind:
		return protoreflect.ValueOfInt32(int32(-7 - k))
	case protoreflect.Uint32Kind, protoreflect.Fixed32Kind:
		return protoreflect.ValueOfUint32(uint32(7 + k))
	case protoreflect.Int64Kind, protoreflect.Sint64Kind, protoreflect.Sfixed64Kind:
		return protoreflect.ValueOfInt64(int64(1<<40 + k))
	case protoreflect.Uint64Kind, protoreflect.Fixed64Kind:
		return protoreflect.ValueOfUint64(uint64(1<<41 + k))
	case protoreflect.FloatKind:
		return protoreflect.ValueOfFloat32(1.25 + float32(k))
	case protoreflect.DoubleKind:
		return protoreflect.ValueOfFloat64(-2.5 - float64(k))
	case protoreflect.StringKind:
		return protoreflect.ValueOfString(fmt.Sprintf("%s-%d é世", fd.Name(), k))
	case protoreflect.BytesKind:
		return protoreflect.ValueOfBytes([]byte{0, 255, byte(k), 10, 0})
	}
	panic("unexpected kind " + fd.Kind().String())
}

// fill populates every field of m (one member per oneof, rotating); wk is the nesting depth inside the recursive
// well-known types (Struct / Value / ListValue), which is cut at 3.
func (f *filler) fill(m protoreflect.Message, wk int) {
	md := m.Descriptor()
	skip := map[protoreflect.FieldNumber]bool{}
	for i := 0; i < md.Oneofs().Len(); i++ {
		od := md.Oneofs().Get(i)
		if od.IsSynthetic() {
			continue
		}
		n := od.Fields().Len()
		k := f.n % n
		f.n++
		if wk >= 3 { // deep inside a Struct: only scalar members
			for od.Fields().Get(k).Kind() == protoreflect.MessageKind {
				k = (k + 1) % n
			}
		}
		for j := 0; j < n; j++ {
			if j != k {
				skip[od.Fields().Get(j).Number()] = true
			}
		}
	}
	isWK := strings.HasPrefix(string(md.FullName()), "google.protobuf.")
	next := wk
	if isWK {
		next = wk + 1
	}
	for i := 0; i < md.Fields().Len(); i++ {
		fd := md.Fields().Get(i)
		if skip[fd.Number()] {
			continue
		}
		if wk >= 3 && (fd.Kind() == protoreflect.MessageKind || fd.IsMap()) && isWK {
			continue
		}
		f.seen[string(md.FullName())+"."+string(fd.Name())] = true
		switch {
		case fd.IsMap():
			mp := m.Mutable(fd).Map()
			for e := 0; e < 2; e++ {
				key := scalar(fd.MapKey(), e).MapKey()
				if fd.MapValue().Kind() == protoreflect.MessageKind {
					v := mp.NewValue()
					f.fill(v.Message(), next)
					mp.Set(key, v)
				} else {
					mp.Set(key, scalar(fd.MapValue(), e))
				}
			}
		case fd.IsList():
			l := m.Mutable(fd).List()
			for e := 0; e < 2; e++ {
				if fd.Kind() == protoreflect.MessageKind {
					v := l.NewElement()
					f.fill(v.Message(), next)
					l.Append(v)
				} else {
					l.Append(scalar(fd, e))
				}
			}
		case fd.Kind() == protoreflect.MessageKind:
			f.fill(m.Mutable(fd).Message(), next)
		default:
			m.Set(fd, scalar(fd, f.n))
		}
	}
}

// tree is the content of the KNOWN fields of a message (unknown fields are reported as such): two messages of
// different Go types (v1 / v1beta1) have the same tree iff every field of the one arrived in the other.
func tree(m protoreflect.Message) any {
	out := map[string]any{}
	m.Range(func(fd protoreflect.FieldDescriptor, v protoreflect.Value) bool {
		key := fmt.Sprintf("%d:%s", fd.Number(), fd.Name())
		switch {
		case fd.IsMap():
			mm := map[string]any{}
			v.Map().Range(func(k protoreflect.MapKey, e protoreflect.Value) bool {
				mm[k.String()] = leaf(fd.MapValue(), e)
				return true
			})
			out[key] = mm
		case fd.IsList():
			l := []any{}
			for i := 0; i < v.List().Len(); i++ {
				l = append(l, leaf(fd, v.List().Get(i)))
			}
			out[key] = l
		default:
			out[key] = leaf(fd, v)
		}
		return true
	})
	if u := m.GetUnknown(); len(u) > 0 {
		out["?unknown"] = hex.EncodeToString(u)
	}
	return out
}

func leaf(fd protoreflect.FieldDescriptor, v protoreflect.Value) any {
	switch fd.Kind() {
	case protoreflect.MessageKind:
		return tree(v.Message())
	case protoreflect.BytesKind:
		return "b:" + hex.EncodeToString(v.Bytes())
	case protoreflect.EnumKind:
		return fmt.Sprintf("e:%d", v.Enum())
	case protoreflect.FloatKind, protoreflect.DoubleKind:
		return fmt.Sprintf("f:%g", v.Float())
	}
	return fmt.Sprintf("%v", v.Interface())
}

func digest(m proto.Message) string {
	if m == nil || !m.ProtoReflect().IsValid() {
		return "nil"
	}
	b, err := json.Marshal(tree(m.ProtoReflect()))
	if err != nil {
		return "marshal-error"
	}
	h := sha256.Sum256(b)
	return hex.EncodeToString(h[:8])
}

// schemaDiff lists the differences between two message descriptors (and everything reachable from them).
func schemaDiff(a, b protoreflect.MessageDescriptor, path string, done map[string]bool, out *[]string) {
	if done[string(a.FullName())] {
		return
	}
	done[string(a.FullName())] = true
	if a.Fields().Len() != b.Fields().Len() {
		*out = append(*out, fmt.Sprintf("%s: %d fields vs %d", path, a.Fields().Len(), b.Fields().Len()))
	}
	for i := 0; i < a.Fields().Len(); i++ {
		fa := a.Fields().Get(i)
		fb := b.Fields().ByNumber(fa.Number())
		p := path + "." + string(fa.Name())
		if fb == nil {
			*out = append(*out, p+": missing")
			continue
		}
		if fa.Name() != fb.Name() || fa.Kind() != fb.Kind() || fa.Cardinality() != fb.Cardinality() || fa.IsMap() != fb.IsMap() ||
			fa.HasPresence() != fb.HasPresence() || (fa.ContainingOneof() == nil) != (fb.ContainingOneof() == nil) {
			*out = append(*out, p+": differs")
			continue
		}
		if fa.ContainingOneof() != nil && fa.ContainingOneof().Name() != fb.ContainingOneof().Name() {
			*out = append(*out, p+": other oneof")
		}
		ma, mb := fa.Message(), fb.Message()
		if fa.IsMap() {
			if fa.MapKey().Kind() != fb.MapKey().Kind() || fa.MapValue().Kind() != fb.MapValue().Kind() {
				*out = append(*out, p+": map types differ")
			}
			ma, mb = fa.MapValue().Message(), fb.MapValue().Message()
		}
		if ma != nil && mb != nil {
			if ma.Name() != mb.Name() {
				*out = append(*out, p+": message type differs")
			}
			schemaDiff(ma, mb, p, done, out)
		}
		if ea, eb := fa.Enum(), fb.Enum(); ea != nil && eb != nil {
			if ea.Values().Len() != eb.Values().Len() {
				*out = append(*out, p+": enum differs")
			} else {
				for j := 0; j < ea.Values().Len(); j++ {
					if ea.Values().Get(j).Name() != eb.Values().Get(j).Name() || ea.Values().Get(j).Number() != eb.Values().Get(j).Number() {
						*out = append(*out, p+": enum value differs")
					}
				}
			}
		}
	}
}

// allFields lists message.field of everything reachable from md.
func allFields(md protoreflect.MessageDescriptor, out map[string]bool, done map[string]bool) {
	if done[string(md.FullName())] {
		return
	}
	done[string(md.FullName())] = true
	for i := 0; i < md.Fields().Len(); i++ {
		fd := md.Fields().Get(i)
		out[string(md.FullName())+"."+string(fd.Name())] = true
		m := fd.Message()
		if fd.IsMap() {
			m = fd.MapValue().Message()
		}
		if m != nil && !fd.IsMap() {
			allFields(m, out, done)
		} else if m != nil {
			allFields(m, out, done)
		}
	}
}

var (
	reqV1    [nVariants]*fnv1.RunFunctionRequest
	rspV1    [nVariants]*fnv1.RunFunctionResponse
	rspBeta  [nVariants]*fnv1beta1.RunFunctionResponse
	wireInfo map[string]any // schema differences and unfilled fields, computed once
)

func buildMessages() {
	f := &filler{seen: map[string]bool{}}
	for v := 0; v < nVariants; v++ {
		f.n = v
		reqV1[v] = &fnv1.RunFunctionRequest{}
		f.fill(reqV1[v].ProtoReflect(), 0)
		f.n = v
		rspV1[v] = &fnv1.RunFunctionResponse{}
		f.fill(rspV1[v].ProtoReflect(), 0)
		fb := &filler{seen: map[string]bool{}, n: v}
		rspBeta[v] = &fnv1beta1.RunFunctionResponse{}
		fb.fill(rspBeta[v].ProtoReflect(), 0)
	}
	want, done := map[string]bool{}, map[string]bool{}
	allFields((&fnv1.RunFunctionRequest{}).ProtoReflect().Descriptor(), want, done)
	allFields((&fnv1.RunFunctionResponse{}).ProtoReflect().Descriptor(), want, done)
	unfilled := []any{}
	for k := range want {
		if !f.seen[k] {
			unfilled = append(unfilled, k)
		}
	}
	sort.Slice(unfilled, func(i, j int) bool { return unfilled[i].(string) < unfilled[j].(string) })
	diffs := []string{}
	d := map[string]bool{}
	schemaDiff((&fnv1.RunFunctionRequest{}).ProtoReflect().Descriptor(), (&fnv1beta1.RunFunctionRequest{}).ProtoReflect().Descriptor(), "RunFunctionRequest", d, &diffs)
	schemaDiff((&fnv1.RunFunctionResponse{}).ProtoReflect().Descriptor(), (&fnv1beta1.RunFunctionResponse{}).ProtoReflect().Descriptor(), "RunFunctionResponse", d, &diffs)
	d = map[string]bool{}
	schemaDiff((&fnv1beta1.RunFunctionRequest{}).ProtoReflect().Descriptor(), (&fnv1.RunFunctionRequest{}).ProtoReflect().Descriptor(), "beta.RunFunctionRequest", d, &diffs)
	schemaDiff((&fnv1beta1.RunFunctionResponse{}).ProtoReflect().Descriptor(), (&fnv1.RunFunctionResponse{}).ProtoReflect().Descriptor(), "beta.RunFunctionResponse", d, &diffs)
	wireInfo = map[string]any{"fields": len(want), "unfilled": unfilled, "diff": strs(diffs)}
}

// ---------------------------------------------------------------------------------------------------------------
// gRPC function servers

var (
	sockDir string
	epKinds = map[string][2]bool{"e1": {true, false}, "e2": {false, true}, "e3": {true, true}, "e4": {false, false}} // v1, v1beta1
	cur     atomic.Pointer[world]
)

func target(ep string) string {
	switch ep {
	case "none":
		return ""
	case "bad":
		return badTarget
	}
	return "unix://" + filepath.Join(sockDir, ep+".sock")
}

func epOf(t string) string {
	switch t {
	case "":
		return "none"
	case badTarget:
		return "bad"
	}
	for ep := range epKinds {
		if t == target(ep) {
			return ep
		}
	}
	return "other:" + t
}

type v1Impl struct {
	fnv1.UnimplementedFunctionRunnerServiceServer
	ep string
}

func (i *v1Impl) RunFunction(ctx context.Context, req *fnv1.RunFunctionRequest) (*fnv1.RunFunctionResponse, error) {
	variant, err := serve(ctx, i.ep, "v1", req.GetMeta().GetTag(), digest(req), func(v int) string { return digest(rspV1[v]) })
	if err != nil {
		return nil, err
	}
	return proto.Clone(rspV1[variant]).(*fnv1.RunFunctionResponse), nil
}

type betaImpl struct {
	fnv1beta1.UnimplementedFunctionRunnerServiceServer
	ep string
}

func (i *betaImpl) RunFunction(ctx context.Context, req *fnv1beta1.RunFunctionRequest) (*fnv1beta1.RunFunctionResponse, error) {
	variant, err := serve(ctx, i.ep, "v1beta1", req.GetMeta().GetTag(), digest(req), func(v int) string { return digest(rspBeta[v]) })
	if err != nil {
		return nil, err
	}
	return proto.Clone(rspBeta[variant]).(*fnv1beta1.RunFunctionResponse), nil
}

var codeOf = map[string]codes.Code{"internal": codes.Internal, "unavailable": codes.Unavailable, "unimpl": codes.Unimplemented}

// serve is what every server does with a request: record it, pause with the call in flight, answer as scripted.
func serve(ctx context.Context, ep, api, tag, got string, rsent func(int) string) (int, error) {
	w := cur.Load()
	var p *proc
	if w != nil {
		w.mu.Lock()
		p = w.byTag[tag]
		w.mu.Unlock()
	}
	if p == nil {
		return 0, status.Error(codes.Aborted, "verif: request of an unknown scenario")
	}
	w.mu.Lock()
	c := p.call
	c.Served = append(c.Served, map[string]any{"api": api, "server": ep, "got": got, "rsent": "none"})
	ix := len(c.Served) - 1
	rel := p.release
	w.mu.Unlock()
	if !w.free {
		p.at <- "gate:server:" + api
		select {
		case <-rel:
		case <-ctx.Done():
			return 0, status.Error(codes.Canceled, "verif: the call was cancelled while in flight")
		}
	}
	w.mu.Lock()
	code := p.nextCode
	p.nextCode = "ok"
	c.Replies = append(c.Replies, code)
	w.mu.Unlock()
	if code != "ok" && code != "" {
		return 0, status.Error(codeOf[code], "verif: scripted function error "+code)
	}
	w.mu.Lock()
	c.Served[ix]["rsent"] = rsent(c.variant)
	w.mu.Unlock()
	return c.variant, nil
}

func startServers() error {
	if err := os.MkdirAll(sockDir, 0o755); err != nil {
		return err
	}
	for ep, k := range epKinds {
		p := filepath.Join(sockDir, ep+".sock")
		_ = os.Remove(p)
		lis, err := net.Listen("unix", p)
		if err != nil {
			return err
		}
		gs := grpc.NewServer()
		if k[0] {
			fnv1.RegisterFunctionRunnerServiceServer(gs, &v1Impl{ep: ep})
		}
		if k[1] {
			fnv1beta1.RegisterFunctionRunnerServiceServer(gs, &betaImpl{ep: ep})
		}
		go func() { _ = gs.Serve(lis) }()
	}
	return nil
}

// ---------------------------------------------------------------------------------------------------------------
// the world of one scenario

type callRec struct {
	ID       int              `json:"id"`
	F        string           `json:"f"`
	Fault    string           `json:"fault"`
	Listed   []map[string]any `json:"listed"`
	ListErr  bool             `json:"listerr"`
	DidList  bool             `json:"didlist"`
	ICreated []map[string]any `json:"icreated"`
	RPCs     []map[string]any `json:"rpcs"`
	Served   []map[string]any `json:"served"`
	Replies  []string         `json:"replies"`
	Sent     string           `json:"sent"`
	RGot     string           `json:"rgot"`
	Conn     string           `json:"conn"`
	Done     bool             `json:"done"`
	Res      string           `json:"res"`
	Code     string           `json:"code"`
	Wrap     string           `json:"wrap"`
	WrapFn   string           `json:"wrapfn"`
	ErrRev   string           `json:"errrev"`
	ErrEp    string           `json:"errep"`
	Err      string           `json:"err"`
	variant  int
	chainN   []any // the interceptors an RPC passed, in order: creator number, name and package it was created with
	chainNm  []any
	chainPk  []any
	wantEp   string // endpoint and package of the first Active revision listed (used only to choose how an interleaving is realised)
	wantPkg  string
}

type gcRec struct {
	N       int      `json:"n"`
	Err     bool     `json:"err"`
	Fault   string   `json:"fault"`
	DidList bool     `json:"didlist"`
	ListErr bool     `json:"listerr"`
	Listed  []string `json:"listed"`
	Done    bool     `json:"done"`
}

type proc struct {
	id         int
	tag        string
	release    chan struct{}
	at         chan string
	call       *callRec
	gc         *gcRec
	pending    string
	nextCode   string
	gate       string // where it rests: "listed", "rpc:v1", "server:v1", ..., "done"
	deferredR  bool   // the model's R(miss) was seen: the caller is released at its W step
	overlapped bool
	acq        bool   // released from "listed" during the step being recorded
	hold       string // atomicity probe: pause at this hold point ("dial", "gc-list")
}

type connInfo struct {
	id     string
	cc     *grpc.ClientConn
	f      string
	target string
	pkg    string // the package its interceptors were created with ("unknown" until an RPC passes them)
}

type world struct {
	mu      sync.Mutex
	s       *simapi.Server
	pr      *xfn.PackagedFunctionRunner
	connsMx *sync.RWMutex
	readers *int32 // the mutex's reader count (nil if the field cannot be found)
	metrics *xfn.Metrics
	order   string
	seq     int
	fns     []string
	procs   map[int]*proc
	byG     map[int64]*proc
	byTag   map[string]*proc
	clients map[int]*simapi.Client
	known   []*connInfo
	byCC    map[*grpc.ClientConn]*connInfo
	dials   int
	dialErr int
	ncalls  int
	rpcN    map[string]int // function|api -> RPCs seen by the first interceptor
	free    bool           // stress mode: nobody is paused anywhere
}

func goid() int64 {
	var buf [64]byte
	n := goruntime.Stack(buf[:], false)
	f := strings.Fields(string(buf[:n]))
	if len(f) < 2 {
		return -1
	}
	id, _ := strconv.ParseInt(f[1], 10, 64)
	return id
}

func (w *world) me() *proc {
	g := goid()
	w.mu.Lock()
	defer w.mu.Unlock()
	return w.byG[g]
}

// gate pauses the calling goroutine on behalf of p until the driver releases p.
func (w *world) gate(p *proc, point string) {
	if p == nil || w.free {
		return
	}
	w.mu.Lock()
	rel := p.release
	w.mu.Unlock()
	p.at <- "gate:" + point
	<-rel
}

// hold is an internal point of a lock-protected segment: an atomicity probe pauses the actor there.
func (w *world) hold(p *proc, point string) {
	if p == nil || w.free {
		return
	}
	w.mu.Lock()
	fire := p.hold == point
	if fire {
		p.hold = ""
	}
	w.mu.Unlock()
	if fire {
		w.gate(p, "hold:"+point)
	}
}

func (w *world) connOf(cc *grpc.ClientConn, f string) *connInfo { // callers hold w.mu
	if ci := w.byCC[cc]; ci != nil {
		return ci
	}
	ci := &connInfo{id: "c" + strconv.Itoa(len(w.known)+1), cc: cc, f: f, target: epOf(cc.Target()), pkg: "unknown"}
	w.known = append(w.known, ci)
	w.byCC[cc] = ci
	return ci
}

// ---- the client.Reader of the runner

type reader struct{ w *world }

func injected(kind string) error {
	switch kind {
	case "forbidden":
		return kerrors.NewForbidden(schema.GroupResource{Group: "pkg.crossplane.io", Resource: "functionrevisions"}, "", fmt.Errorf("verif: injected"))
	case "timeout":
		return context.DeadlineExceeded
	}
	return kerrors.NewInternalError(simapi.ErrInjected)
}

func (r *reader) Get(context.Context, client.ObjectKey, client.Object, ...client.GetOption) error {
	return fmt.Errorf("verif: unexpected Get")
}

func (r *reader) List(ctx context.Context, list client.ObjectList, opts ...client.ListOption) error {
	w := r.w
	p := w.me()
	id := 0
	if p != nil {
		id = p.id
	}
	w.mu.Lock()
	c := w.clients[id]
	if c == nil {
		c = simapi.NewClient(w.s, "xfn-"+strconv.Itoa(id))
		w.clients[id] = c
	}
	w.mu.Unlock()
	switch l := list.(type) {
	case *pkgv1.FunctionRevisionList:
		if p == nil || p.call == nil {
			return c.List(ctx, list, opts...)
		}
		w.mu.Lock()
		p.call.DidList = true
		fault := p.call.Fault
		w.mu.Unlock()
		if fault != "ok" && fault != "" {
			w.mu.Lock()
			p.call.ListErr = true
			w.mu.Unlock()
			return injected(fault)
		}
		err := c.List(ctx, list, opts...)
		if w.order == "desc" {
			for i, j := 0, len(l.Items)-1; i < j; i, j = i+1, j-1 {
				l.Items[i], l.Items[j] = l.Items[j], l.Items[i]
			}
		}
		listed := []map[string]any{}
		for i := range l.Items {
			it := &l.Items[i]
			listed = append(listed, map[string]any{"name": it.GetName(), "act": it.GetDesiredState() == pkgv1.PackageRevisionActive,
				"ep": epOf(it.Status.Endpoint), "pkg": it.Spec.Package, "parent": it.GetLabels()[pkgv1.LabelParentPackage]})
		}
		w.mu.Lock()
		p.call.Listed = listed
		for _, x := range listed {
			if x["act"] == true {
				p.call.wantEp, p.call.wantPkg = x["ep"].(string), x["pkg"].(string)
				break
			}
		}
		w.mu.Unlock()
		w.gate(p, "listed")
		return err
	case *pkgv1.FunctionList:
		if p == nil || p.gc == nil {
			return c.List(ctx, list, opts...)
		}
		w.mu.Lock()
		p.gc.DidList = true
		fault := p.gc.Fault
		w.mu.Unlock()
		w.hold(p, "gc-list")
		if fault != "ok" && fault != "" {
			w.mu.Lock()
			p.gc.ListErr = true
			w.mu.Unlock()
			return injected(fault)
		}
		err := c.List(ctx, list, opts...)
		names := []string{}
		for i := range l.Items {
			names = append(names, l.Items[i].GetName())
		}
		w.mu.Lock()
		p.gc.Listed = names
		w.mu.Unlock()
		return err
	}
	return fmt.Errorf("verif: unexpected List of %T", list)
}

// ---- the interceptor creators

type creator struct {
	w *world
	n int
}

func apiOf(method string) string {
	switch {
	case strings.Contains(method, ".v1beta1."):
		return "v1beta1"
	case strings.Contains(method, ".v1."):
		return "v1"
	}
	return method
}

func (c *creator) CreateInterceptor(name, pkg string) grpc.UnaryClientInterceptor {
	w := c.w
	p := w.me()
	w.mu.Lock()
	if c.n == 1 {
		w.dials++
	}
	if p != nil && p.call != nil {
		p.call.ICreated = append(p.call.ICreated, map[string]any{"n": c.n, "name": name, "pkg": pkg})
	}
	w.mu.Unlock()
	if c.n == 1 {
		w.hold(p, "dial")
	}
	n := c.n
	return func(ctx context.Context, method string, req, reply any, cc *grpc.ClientConn, invoker grpc.UnaryInvoker, opts ...grpc.CallOption) error {
		q := w.me()
		if q == nil || q.call == nil {
			return invoker(ctx, method, req, reply, cc, opts...)
		}
		if n != 1 {
			w.mu.Lock()
			q.call.chainN, q.call.chainNm, q.call.chainPk = append(q.call.chainN, n), append(q.call.chainNm, name), append(q.call.chainPk, pkg)
			w.mu.Unlock()
			return invoker(ctx, method, req, reply, cc, opts...)
		}
		api := apiOf(method)
		w.mu.Lock()
		ci := w.connOf(cc, q.call.F)
		ci.pkg = pkg
		q.call.Conn = ci.id
		q.call.chainN, q.call.chainNm, q.call.chainPk = []any{n}, []any{name}, []any{pkg}
		w.rpcN[name+"|"+api]++
		w.mu.Unlock()
		w.gate(q, "rpc:"+api)
		err := invoker(ctx, method, req, reply, cc, opts...)
		w.mu.Lock()
		q.call.RPCs = append(q.call.RPCs, map[string]any{"api": api, "conn": ci.id, "target": ci.target, "code": status.Code(err).String(),
			"iorder": q.call.chainN, "inames": q.call.chainNm, "ipkgs": q.call.chainPk})
		w.mu.Unlock()
		return err
	}
}

// ---- construction

func fnKey(n string) simapi.Key {
	return simapi.Key{Group: "pkg.crossplane.io", Kind: "Function", Name: n}
}
func revKey(f, r string) simapi.Key {
	return simapi.Key{Group: "pkg.crossplane.io", Kind: "FunctionRevision", Name: f + "-" + r}
}

func (w *world) putRev(f, r string, act bool, ep string) {
	fr := &pkgv1.FunctionRevision{ObjectMeta: metav1.ObjectMeta{Name: f + "-" + r, Labels: map[string]string{pkgv1.LabelParentPackage: f}}}
	fr.Spec.DesiredState = pkgv1.PackageRevisionInactive
	if act {
		fr.Spec.DesiredState = pkgv1.PackageRevisionActive
	}
	fr.Spec.Package = pkgPrefix + f + ":" + r
	fr.Status.Endpoint = target(ep)
	w.s.Remove(revKey(f, r))
	w.s.Put(fr)
}

var scenarioSeq int

func newWorld(order, faEp string, fns []string) *world {
	sch := runtime.NewScheme()
	_ = pkgv1.AddToScheme(sch)
	scenarioSeq++
	w := &world{s: simapi.NewServer(sch), order: order, seq: scenarioSeq, fns: fns, procs: map[int]*proc{}, byG: map[int64]*proc{}, byTag: map[string]*proc{},
		clients: map[int]*simapi.Client{}, byCC: map[*grpc.ClientConn]*connInfo{}, rpcN: map[string]int{}}
	w.metrics = xfn.NewMetrics()
	w.pr = xfn.NewPackagedFunctionRunner(&reader{w: w}, xfn.WithInterceptorCreators(&creator{w: w, n: 1}, &creator{w: w, n: 2}, w.metrics))
	v := reflect.ValueOf(w.pr).Elem().FieldByName("connsMx")
	if v.IsValid() && v.Type() == reflect.TypeOf(sync.RWMutex{}) {
		w.connsMx = (*sync.RWMutex)(unsafe.Pointer(v.UnsafeAddr()))
		if rc := v.FieldByName("readerCount"); rc.IsValid() && rc.Type().Size() == 4 {
			w.readers = (*int32)(unsafe.Pointer(rc.UnsafeAddr()))
		}
	}
	for _, f := range fns {
		w.s.Put(&pkgv1.Function{ObjectMeta: metav1.ObjectMeta{Name: f}})
		if f == "fa" {
			w.putRev(f, "r1", true, faEp)
			w.putRev(f, "r2", false, "e2")
		} else {
			w.putRev(f, "r1", true, "e1")
		}
	}
	cur.Store(w)
	return w
}

func (w *world) table() (map[string]*grpc.ClientConn, bool) {
	v := reflect.ValueOf(w.pr).Elem().FieldByName("conns")
	if !v.IsValid() || v.Type() != reflect.TypeOf(map[string]*grpc.ClientConn{}) {
		return nil, false
	}
	return *(*map[string]*grpc.ClientConn)(unsafe.Pointer(v.UnsafeAddr())), true
}

// ---- the environment

func (w *world) firstActive(f string) string {
	names := []string{"r1", "r2"}
	if w.order == "desc" {
		names = []string{"r2", "r1"}
	}
	for _, r := range names {
		if u := w.s.Peek(revKey(f, r)); u != nil {
			if st, _, _ := unstructured.NestedString(u.Object, "spec", "desiredState"); st == string(pkgv1.PackageRevisionActive) {
				return r
			}
		}
	}
	return ""
}

func (w *world) env(s step) {
	switch s.Seg {
	case "SetEp":
		w.s.Mutate(revKey(s.F, s.A), func(u *unstructured.Unstructured) {
			if t := target(s.B); t == "" {
				unstructured.RemoveNestedField(u.Object, "status", "endpoint")
			} else {
				_ = unstructured.SetNestedField(u.Object, t, "status", "endpoint")
			}
		})
	case "SetAct":
		st := string(pkgv1.PackageRevisionInactive)
		if s.B == "on" {
			st = string(pkgv1.PackageRevisionActive)
		}
		w.s.Mutate(revKey(s.F, s.A), func(u *unstructured.Unstructured) {
			_ = unstructured.SetNestedField(u.Object, st, "spec", "desiredState")
		})
	case "Roll":
		if r := w.firstActive(s.F); r != "" {
			w.s.Mutate(revKey(s.F, r), func(u *unstructured.Unstructured) {
				_ = unstructured.SetNestedField(u.Object, string(pkgv1.PackageRevisionInactive), "spec", "desiredState")
			})
		}
		w.putRev(s.F, s.A, true, s.B)
	case "DeleteFn":
		w.s.Remove(fnKey(s.F))
		if s.A != "keep" {
			w.s.Remove(revKey(s.F, "r1"))
			w.s.Remove(revKey(s.F, "r2"))
		}
	case "CreateFn":
		w.s.Put(&pkgv1.Function{ObjectMeta: metav1.ObjectMeta{Name: s.F}})
		w.s.Remove(revKey(s.F, "r2"))
		w.putRev(s.F, "r1", true, s.B)
	case "Teardown":
		for _, f := range w.fns {
			w.s.Remove(fnKey(f))
			w.s.Remove(revKey(f, "r1"))
			w.s.Remove(revKey(f, "r2"))
		}
	}
}

// ---- projection

func strs(ss []string) []any {
	out := make([]any, len(ss))
	for i, s := range ss {
		out[i] = s
	}
	return out
}

func maps(ms []map[string]any) []any {
	out := make([]any, len(ms))
	for i, m := range ms {
		c := map[string]any{}
		for k, v := range m {
			c[k] = v
		}
		out[i] = c
	}
	return out
}

// post projects the pool, every connection ever seen, and the environment. Nobody holds the runner's lock when it
// is called (no actor is paused inside a lock-protected segment when an event is recorded).
func (w *world) post() map[string]any {
	pool := []any{}
	if w.connsMx != nil {
		locked := false
		for i := 0; i < 20000 && !locked; i++ {
			if locked = w.connsMx.TryRLock(); !locked {
				time.Sleep(100 * time.Microsecond)
			}
		}
		if !locked {
			panic("verif: the runner's lock is held while the state is recorded")
		}
		defer w.connsMx.RUnlock()
	}
	tbl, _ := w.table()
	w.mu.Lock()
	defer w.mu.Unlock()
	names := make([]string, 0, len(tbl))
	for f := range tbl {
		names = append(names, f)
	}
	sort.Strings(names)
	inPool := map[*grpc.ClientConn]bool{}
	for _, f := range names {
		ci := w.connOf(tbl[f], f)
		inPool[tbl[f]] = true
		pool = append(pool, map[string]any{"f": f, "conn": ci.id, "target": epOf(tbl[f].Target())})
	}
	conns := []any{}
	for _, ci := range w.known {
		conns = append(conns, map[string]any{"conn": ci.id, "f": ci.f, "target": ci.target, "pkg": ci.pkg, "closed": ci.cc.GetState() == connectivity.Shutdown, "pooled": inPool[ci.cc]})
	}
	fns, revs := []any{}, []any{}
	for _, u := range w.s.All(schema.GroupKind{Group: "pkg.crossplane.io", Kind: "Function"}) {
		fns = append(fns, u.GetName())
	}
	for _, u := range w.s.All(schema.GroupKind{Group: "pkg.crossplane.io", Kind: "FunctionRevision"}) {
		st, _, _ := unstructured.NestedString(u.Object, "spec", "desiredState")
		ep, _, _ := unstructured.NestedString(u.Object, "status", "endpoint")
		pk, _, _ := unstructured.NestedString(u.Object, "spec", "package")
		revs = append(revs, map[string]any{"f": u.GetLabels()[pkgv1.LabelParentPackage], "name": u.GetName(), "act": st == string(pkgv1.PackageRevisionActive), "ep": epOf(ep), "pkg": pk})
	}
	return map[string]any{"pool": pool, "conns": conns, "dials": w.dials, "dialerrs": w.dialErr, "fns": fns, "revs": revs}
}

var (
	reWrap = regexp.MustCompile(`^cannot (get gRPC client connection for|run) Function "([^"]*)"`)
	reRev  = regexp.MustCompile(`active FunctionRevision "([^"]*)"`)
	reDial = regexp.MustCompile(`cannot gRPC dial target "([^"]*)"`)
)

// classify projects the error of a finished call (callers hold w.mu).
func (w *world) classify(c *callRec, err error) {
	c.Done = true
	c.Res, c.Code, c.Wrap, c.WrapFn, c.ErrRev, c.ErrEp, c.Err = "ok", "OK", "none", "none", "none", "none", ""
	if err == nil {
		return
	}
	msg := err.Error()
	c.Err = msg
	if m := reWrap.FindStringSubmatch(msg); m != nil {
		c.Wrap, c.WrapFn = map[string]string{"get gRPC client connection for": "getconn", "run": "run"}[m[1]], m[2]
	}
	if m := reRev.FindStringSubmatch(msg); m != nil {
		c.ErrRev = m[1]
	}
	c.Code = status.Code(err).String()
	switch {
	case strings.Contains(msg, "cannot list FunctionRevisions"):
		c.Res = "list"
	case strings.Contains(msg, "cannot find an active FunctionRevision"):
		c.Res = "noactive"
	case strings.Contains(msg, "has an empty status.endpoint"):
		c.Res = "emptyep"
	case strings.Contains(msg, "cannot gRPC dial target"):
		c.Res = "dial"
		w.dialErr++
		if m := reDial.FindStringSubmatch(msg); m != nil {
			c.ErrEp = epOf(m[1])
		}
	case c.Code != "Unknown": // the error carries a gRPC status: an RPC failed
		c.Res = "rpc"
	default:
		c.Res = "other"
	}
}

func (w *world) callJSON(c *callRec) map[string]any { // callers hold w.mu
	if c == nil {
		c = &callRec{F: "none", Fault: "ok", Sent: "none", RGot: "none", Conn: "none", Res: "none", Code: "none", Wrap: "none", WrapFn: "none", ErrRev: "none", ErrEp: "none"}
	}
	return map[string]any{"id": c.ID, "f": c.F, "fault": c.Fault, "listed": maps(c.Listed), "listerr": c.ListErr, "didlist": c.DidList, "icreated": maps(c.ICreated),
		"rpcs": maps(c.RPCs), "served": maps(c.Served), "replies": strs(c.Replies), "sent": c.Sent, "rgot": c.RGot, "conn": c.Conn, "done": c.Done,
		"res": c.Res, "code": c.Code, "wrap": c.Wrap, "wrapfn": c.WrapFn, "errrev": c.ErrRev, "errep": c.ErrEp}
}

func gcJSON(g *gcRec) map[string]any {
	if g == nil {
		g = &gcRec{Fault: "ok"}
	}
	return map[string]any{"n": g.N, "err": g.Err, "fault": g.Fault, "didlist": g.DidList, "listerr": g.ListErr, "listed": strs(g.Listed), "done": g.Done}
}

// ---------------------------------------------------------------------------------------------------------------
// replay

type step struct {
	P   int    `json:"p"`
	Op  string `json:"op"`
	Seg string `json:"seg"`
	F   string `json:"f"`
	A   string `json:"a"`
	B   string `json:"b"`
	R   string `json:"r"`
}

type summary struct {
	Scenarios     int            `json:"scenarios"`
	Runs          int            `json:"runs"`
	Steps         int            `json:"steps"`
	Events        int            `json:"events"`
	Drift         int            `json:"drift"`
	DriftRuns     int            `json:"drift_runs"`
	Hung          int            `json:"hung"`
	HungRetried   int            `json:"hung_first_attempt"`
	Groups        int            `json:"turnstile_groups"`
	GroupsExact   int            `json:"turnstile_groups_all_queued"`
	Probes        int            `json:"atomicity_probes"`
	ProbesEntered int            `json:"atomicity_probes_entered"`
	Loops         int            `json:"gc_loop_runs"`
	Stress        int            `json:"stress_runs"`
	Counts        map[string]int `json:"counts"`
	DriftBy       map[string]int `json:"drift_by"`
	Samples       []any          `json:"samples"`
}

type run struct {
	w       *world
	tw      *trace.Writer
	sum     *summary
	id      string
	idx     int
	drift   int
	hung    bool
	final   bool
	results map[string]int
	grp     map[string]any // the turnstile group being recorded
	last    map[string]any // the state recorded by the previous event
	after   []func()       // events of steps that an atomicity probe ran early: recorded right after the probing step
}

func (r *run) drifted(kind string) {
	r.drift++
	r.sum.DriftBy[kind]++
	if os.Getenv("VERIF_DEBUG") != "" {
		fmt.Fprintf(os.Stderr, "drift %s: scenario %s step %d\n", kind, r.id, r.idx)
	}
}

func (r *run) flush() {
	for _, f := range r.after {
		f()
	}
	r.after = nil
}

func (r *run) emit(ev string, s step, p *proc, fin bool) {
	w := r.w
	post := w.post()
	w.mu.Lock()
	var c *callRec
	var g *gcRec
	over, acq := false, false
	if p != nil {
		c, g, over, acq = p.call, p.gc, p.overlapped, p.acq
		p.acq = false
	}
	rec := map[string]any{"ev": ev, "scenario": r.id, "i": r.idx, "p": s.P, "op": s.Op, "seg": s.Seg, "f": s.F, "a": s.A, "b": s.B, "mr": s.R,
		"fin": fin, "overlapped": over, "acq": acq, "call": w.callJSON(c), "gc": gcJSON(g), "post": post, "wire": wireInfo, "order": w.order,
		"metrics": []any{}, "rpcn": []any{}, "loop": map[string]any{"ran": false, "collected": false, "stopped": false, "errors": 0}, "grp": noGroup}
	if ev == "group" {
		rec["grp"] = r.grp
	}
	w.mu.Unlock()
	r.last = post
	r.tw.Emit(rec)
}

var noGroup = map[string]any{"f": "none", "ep": "none", "pkg": "none", "members": []any{}, "pre": map[string]any{"pool": []any{}, "conns": []any{}, "dials": 0, "dialerrs": 0}}

func (r *run) wait(p *proc) (string, bool) {
	if p.pending != "" {
		at := p.pending
		p.pending = ""
		return at, true
	}
	select {
	case at := <-p.at:
		return at, true
	case <-time.After(waitLimit):
		return "", false
	}
}

func (r *run) release(p *proc) {
	w := r.w
	w.mu.Lock()
	if p.gate == "listed" {
		p.acq = true // the caller is about to pass the fast / slow path
	}
	old := p.release
	p.release = make(chan struct{})
	w.mu.Unlock()
	close(old)
}

// rest waits until p reaches its next gate or finishes; it records where.
func (r *run) rest(p *proc) (string, bool) {
	at, ok := r.wait(p)
	if !ok {
		return "", false
	}
	r.w.mu.Lock()
	p.gate = strings.TrimPrefix(at, "gate:")
	r.w.mu.Unlock()
	return at, true
}

func (r *run) newProc(id int) *proc {
	w := r.w
	p := &proc{id: id, release: make(chan struct{}), at: make(chan string, 2), nextCode: "ok"}
	w.mu.Lock()
	w.procs[id] = p
	w.mu.Unlock()
	return p
}

func (r *run) startCall(id int, f, fault string) *proc {
	w := r.w
	p := r.newProc(id)
	w.mu.Lock()
	w.ncalls++
	p.tag = fmt.Sprintf("s%d-p%d-n%d", w.seq, id, w.ncalls)
	p.call = &callRec{ID: w.ncalls, F: f, Fault: fault, Sent: "none", RGot: "none", Conn: "none", Res: "none", Code: "none", Wrap: "none", WrapFn: "none", ErrRev: "none", ErrEp: "none",
		variant: (w.seq + w.ncalls) % nVariants}
	w.byTag[p.tag] = p
	c := p.call
	w.mu.Unlock()
	req := proto.Clone(reqV1[c.variant]).(*fnv1.RunFunctionRequest)
	req.Meta.Tag = p.tag
	c.Sent = digest(req)
	go func() {
		g := goid()
		w.mu.Lock()
		w.byG[g] = p
		w.mu.Unlock()
		rsp, err := w.pr.RunFunction(context.Background(), f, req)
		w.mu.Lock()
		delete(w.byG, g)
		w.classify(c, err)
		if rsp != nil {
			c.RGot = digest(rsp)
		}
		r.results[c.Res+":"+c.Code]++
		w.mu.Unlock()
		p.at <- "done"
	}()
	return p
}

func (r *run) startGC(fault string) *proc {
	w := r.w
	p := r.newProc(gcActor)
	p.gc = &gcRec{Fault: fault}
	go func() {
		g := goid()
		w.mu.Lock()
		w.byG[g] = p
		w.mu.Unlock()
		n, err := w.pr.GarbageCollectConnectionsNow(context.Background())
		w.mu.Lock()
		delete(w.byG, g)
		p.gc.N, p.gc.Err, p.gc.Done = n, err != nil, true
		w.mu.Unlock()
		p.at <- "done"
	}()
	return p
}

func (r *run) forget(p *proc) {
	r.w.mu.Lock()
	if r.w.procs[p.id] == p {
		delete(r.w.procs, p.id)
	}
	r.w.mu.Unlock()
}

func (r *run) fail(s step, p *proc) {
	r.hung = true
	if r.final {
		r.sum.Hung++
		r.emit("hung", s, p, false)
	}
	fmt.Fprintf(os.Stderr, "scenario %s: step %d %+v did not reach a gate or finish within %s\n", r.id, r.idx, s, waitLimit)
}

// finishProc lets a paused operation run to its end (functions answer ok).
func (r *run) finishProc(p *proc, s step) bool {
	for {
		r.w.mu.Lock()
		g := p.gate
		r.w.mu.Unlock()
		if g == "done" {
			r.forget(p)
			return true
		}
		r.release(p)
		if _, ok := r.rest(p); !ok {
			r.fail(s, p)
			return false
		}
	}
}

// turnstile releases several callers that wait at "listed" so that all of them pass the fast path before any of them
// takes the write lock: the driver holds the runner's write lock until all of them queue at RLock.
func (r *run) turnstile(group []*proc) bool {
	w := r.w
	r.sum.Groups++
	if w.connsMx == nil {
		for _, p := range group {
			r.release(p)
		}
	} else {
		w.connsMx.Lock()
		for _, p := range group {
			r.release(p)
		}
		exact := false
		if w.readers != nil {
			for i := 0; i < 40000 && !exact; i++ {
				if exact = int(atomic.LoadInt32(w.readers))+(1<<30) >= len(group); !exact {
					time.Sleep(50 * time.Microsecond)
				}
			}
		} else {
			time.Sleep(3 * time.Millisecond)
		}
		if exact {
			r.sum.GroupsExact++
		}
		w.connsMx.Unlock()
	}
	for _, p := range group {
		if _, ok := r.rest(p); !ok {
			return false
		}
	}
	return true
}

func (r *run) atListed(p *proc) bool {
	r.w.mu.Lock()
	defer r.w.mu.Unlock()
	return p != nil && p.gate == "listed"
}

// poolStep tells whether step n (of another actor than `not`) takes the runner's lock when released now; it returns
// the actor to release (nil: the collector has to be started).
func (r *run) poolStep(hist []step, i int, not int) (bool, *proc) {
	if i >= len(hist) {
		return false, nil
	}
	n := hist[i]
	if n.P == not {
		return false, nil
	}
	r.w.mu.Lock()
	q := r.w.procs[n.P]
	r.w.mu.Unlock()
	switch {
	case n.Op == "gc" && n.Seg == "G2" && q == nil:
		return true, nil
	case n.Op == "call" && (n.Seg == "W" || (n.Seg == "R" && n.R == "hit")) && r.atListed(q):
		return true, q
	}
	return false, nil
}

func (r *run) replay(hist []step, probe int) {
	w := r.w
	consumed := map[int]bool{}
	for idx := 0; idx < len(hist); idx++ {
		s := hist[idx]
		r.idx = idx + 1
		r.sum.Steps++
		if consumed[idx] {
			continue
		}
		switch s.Op {
		case "env":
			w.env(s)
			r.emit("step", s, nil, true)
			continue
		case "gc":
			if s.Seg == "G1" && s.R != "empty" {
				continue // G1 only reads: the collector is started at its G2 step
			}
			w.mu.Lock()
			old := w.procs[gcActor]
			w.mu.Unlock()
			if old != nil {
				r.drifted("gc-running")
				continue
			}
			fault := "ok"
			if s.Seg == "G2" {
				fault = s.A
			}
			p := r.startGC(fault)
			if probe >= 0 {
				p.hold = "gc-list"
			}
			at, ok := r.rest(p)
			if ok && at == "gate:hold:gc-list" {
				at, ok = r.probe(hist, idx, p, consumed)
			}
			if !ok {
				r.fail(s, p)
				return
			}
			r.forget(p)
			r.emit("step", s, p, true)
			r.flush()
			continue
		}
		// a caller's step
		w.mu.Lock()
		p := w.procs[s.P]
		w.mu.Unlock()
		switch s.Seg {
		case "L":
			if p != nil { // the model thinks this caller is idle but its previous call is still paused: finish it first
				r.drifted("call-still-paused")
				if !r.finishProc(p, s) {
					return
				}
				r.emit("step", step{P: s.P, Op: "call", Seg: "finish", F: p.call.F}, p, true)
			}
			p = r.startCall(s.P, s.F, s.A)
			if _, ok := r.rest(p); !ok {
				r.fail(s, p)
				return
			}
			if (s.R == "noactive" || s.R == "emptyep") && r.atListed(p) {
				// the model's call ends here (there is no usable revision): let the real one return as well
				p.acq = true
				r.release(p)
				if _, ok := r.rest(p); !ok {
					r.fail(s, p)
					return
				}
			}
		case "R":
			if p == nil || !r.atListed(p) {
				r.drifted("R-not-at-listed")
				continue
			}
			if s.R != "hit" {
				p.deferredR = true // R only reads: the caller is released at its W step
				continue
			}
			p.acq = true
			if probe >= 0 {
				p.hold = "dial"
			}
			r.release(p)
			at, ok := r.rest(p)
			if ok && at == "gate:hold:dial" {
				at, ok = r.probe(hist, idx, p, consumed)
			}
			if !ok {
				r.fail(s, p)
				return
			}
		case "W":
			if p == nil || !r.atListed(p) {
				r.drifted("W-not-at-listed")
				continue
			}
			group := []*proc{}
			w.mu.Lock()
			for _, q := range w.procs {
				// callers that want the same connection: only for them does it matter that all pass the fast path before
				// any takes the slow path (a caller that wants another endpoint misses on the fast path either way)
				if q.call != nil && q.deferredR && q.gate == "listed" && q.call.F == p.call.F && q.call.wantEp == p.call.wantEp && q.call.wantPkg == p.call.wantPkg {
					group = append(group, q)
				}
			}
			w.mu.Unlock()
			sort.Slice(group, func(i, j int) bool { return group[i].id < group[j].id })
			// ... and only if the schedule lets them take the slow path right after each other: nothing that changes the
			// pool or the environment between this W and theirs
			kept := []*proc{}
			for _, q := range group {
				ok := q == p
				for j := idx + 1; j < len(hist) && q != p; j++ {
					h := hist[j]
					if h.Op == "call" && h.P == q.id && h.Seg == "W" {
						ok = true
						break
					}
					member := false
					for _, m := range group {
						member = member || m.id == h.P
					}
					if h.Op != "call" || (h.Seg == "W" && !member) {
						break
					}
				}
				if ok {
					kept = append(kept, q)
				}
			}
			group = kept
			if len(group) >= 2 && probe < 0 {
				for _, q := range group {
					q.deferredR, q.overlapped, q.acq = false, true, true
				}
				pre := r.last
				if !r.turnstile(group) {
					r.fail(s, p)
					return
				}
				members := []any{}
				w.mu.Lock()
				for _, q := range group {
					members = append(members, map[string]any{"p": q.id, "conn": q.call.Conn, "done": q.gate == "done"})
				}
				w.mu.Unlock()
				r.grp = map[string]any{"f": p.call.F, "ep": p.call.wantEp, "pkg": p.call.wantPkg, "members": members, "pre": pre}

				// the other members' W steps happened here
				for j := idx + 1; j < len(hist); j++ {
					for _, q := range group {
						if q != p && hist[j].P == q.id && hist[j].Op == "call" && hist[j].Seg == "W" && !consumed[j] {
							ahead := false
							for k := idx + 1; k < j; k++ {
								ahead = ahead || (hist[k].P == q.id && hist[k].Seg == "W")
							}
							if !ahead {
								consumed[j] = true
							}
						}
					}
				}
				for _, q := range group {
					if q != p {
						r.emitCall(step{P: q.id, Op: "call", Seg: "W", F: q.call.F, R: "group"}, q)
					}
				}
				r.emitCall(s, p)
				r.emit("group", step{P: 0, Op: "group", Seg: "W", F: p.call.F}, nil, true)
				r.flush()
				continue
			} else {
				p.deferredR, p.acq = false, true
				if probe >= 0 {
					p.hold = "dial"
				}
				r.release(p)
				at, ok := r.rest(p)
				if ok && at == "gate:hold:dial" {
					at, ok = r.probe(hist, idx, p, consumed)
				}
				if !ok {
					r.fail(s, p)
					return
				}
			}
		default: // C1, S1, C2, S2: an RPC is sent / answered
			if p == nil || r.atListed(p) {
				r.drifted("rpc-step-no-call")
				continue
			}
			w.mu.Lock()
			if strings.HasPrefix(s.Seg, "S") {
				p.nextCode = s.A
				if !strings.HasPrefix(p.gate, "server:") {
					r.drifted("reply-not-at-server")
				}
			} else if !strings.HasPrefix(p.gate, "rpc:") {
				r.drifted("send-not-at-rpc")
			}
			done := p.gate == "done"
			w.mu.Unlock()
			if !done {
				r.release(p)
				if _, ok := r.rest(p); !ok {
					r.fail(s, p)
					return
				}
			}
		}
		r.emitCall(s, p)
		r.flush()
	}
	// let paused operations finish
	w.mu.Lock()
	rest := make([]*proc, 0, len(w.procs))
	for _, p := range w.procs {
		rest = append(rest, p)
	}
	w.mu.Unlock()
	sort.Slice(rest, func(i, j int) bool { return rest[i].id < rest[j].id })
	r.idx = len(hist) + 1
	for _, p := range rest {
		s := step{P: p.id, Op: "call", Seg: "finish"}
		if p.call != nil {
			s.F = p.call.F
			p.acq = p.acq || r.atListed(p)
		} else {
			s.Op = "gc"
		}
		if !r.finishProc(p, s) {
			return
		}
		r.emit("step", s, p, true)
	}
}

// emitCall records a caller's step; a call that finished is forgotten.
func (r *run) emitCall(s step, p *proc) {
	r.w.mu.Lock()
	fin := p.gate == "done"
	r.w.mu.Unlock()
	if fin {
		r.forget(p)
		if s.R != "" && s.R != "group" {
			// drift: the model expected another end of this call (not judged)
			exp := map[string]string{"list": "list", "noactive": "noactive", "emptyep": "emptyep", "dial": "dial", "ok": "ok", "canceled": "rpc", "unimpl": "rpc", "fnerr": "rpc"}[s.R]
			if exp != p.call.Res {
				r.drifted("result-differs")
			}
		}
	}
	r.emit("step", s, p, fin)
}

// probe: p is paused inside a segment the model treats as atomic (it holds the runner's write lock).  The next
// lock-taking step of another actor in the schedule is released for a moment: while the segment is protected it
// blocks; if it gets in, the two really overlap and the monitor judges the outcome.  Both steps are marked
// overlapped either way (a slow start looks like a blocked one).
func (r *run) probe(hist []step, idx int, p *proc, consumed map[int]bool) (string, bool) {
	ok, q := r.poolStep(hist, idx+1, p.id)
	var qs step
	if ok {
		qs = hist[idx+1]
		r.sum.Probes++
		consumed[idx+1] = true
		if q == nil {
			q = r.startGC(qs.A)
		} else {
			q.deferredR, q.acq = false, true
			r.release(q)
		}
		p.overlapped, q.overlapped = true, true
		select {
		case at := <-q.at:
			q.pending = at
			r.sum.ProbesEntered++
		case <-time.After(probeWait):
		}
	}
	r.release(p)
	at, okp := r.rest(p)
	if !okp {
		return at, false
	}
	if ok {
		if _, okq := r.rest(q); !okq {
			return "", false
		}
		// the other actor's step is recorded right after this one (by the caller of probe, through the deferred list)
		r.after = append(r.after, func() {
			r.idx = idx + 2
			if q.gc != nil {
				r.forget(q)
				r.emit("step", qs, q, true)
			} else {
				r.emitCall(qs, q)
			}
		})
	}
	return at, true
}

// ---------------------------------------------------------------------------------------------------------------
// the end of every schedule: fault-free calls that run alone, a collector run, teardown

func (r *run) solo(f string) bool {
	s := step{P: soloActor, Op: "call", Seg: "solo", F: f}
	p := r.startCall(soloActor, f, "ok")
	p.acq = true
	if _, ok := r.rest(p); !ok {
		r.fail(s, p)
		return false
	}
	if !r.finishProc(p, s) {
		return false
	}
	r.emit("step", s, p, true)
	return true
}

func (r *run) soloGC(seg string) bool {
	s := step{P: gcActor, Op: "gc", Seg: seg}
	p := r.startGC("ok")
	if _, ok := r.rest(p); !ok {
		r.fail(s, p)
		return false
	}
	r.forget(p)
	r.emit("step", s, p, true)
	return true
}

// metricsOf reads the real xfn.Metrics collector: RunFunctionRequests sent per function and gRPC method.  It goes through
// reflection (Collect -> Metric.Write -> the label pairs and the counter value) because the harness module does not
// require the prometheus packages directly.
func (w *world) metricsOf() []any {
	tot := map[string]int{}
	defer func() { _ = recover() }() // an unexpected shape only means that nothing is counted (Metrics.Requests then fails visibly)
	collect := reflect.ValueOf(w.metrics).MethodByName("Collect")
	ch := reflect.MakeChan(reflect.ChanOf(reflect.BothDir, collect.Type().In(0).Elem()), 4096)
	collect.Call([]reflect.Value{ch})
	ch.Close()
	for {
		m, ok := ch.Recv()
		if !ok {
			break
		}
		desc := m.MethodByName("Desc").Call(nil)[0].MethodByName("String").Call(nil)[0].String()
		if !strings.Contains(desc, "run_function_request_total") {
			continue
		}
		write := m.MethodByName("Write")
		d := reflect.New(write.Type().In(0).Elem())
		if e := write.Call([]reflect.Value{d})[0]; !e.IsNil() {
			continue
		}
		l := map[string]string{}
		labels := d.MethodByName("GetLabel").Call(nil)[0]
		for i := 0; i < labels.Len(); i++ {
			lp := labels.Index(i)
			l[lp.MethodByName("GetName").Call(nil)[0].String()] = lp.MethodByName("GetValue").Call(nil)[0].String()
		}
		v := d.MethodByName("GetCounter").Call(nil)[0].MethodByName("GetValue").Call(nil)[0].Float()
		tot[l["function_name"]+"|"+apiOf(l["grpc_method"])] += int(v)
	}
	return countList(tot)
}

func countList(m map[string]int) []any {
	keys := make([]string, 0, len(m))
	for k := range m {
		keys = append(keys, k)
	}
	sort.Strings(keys)
	out := []any{}
	for _, k := range keys {
		out = append(out, map[string]any{"k": k, "n": m[k]})
	}
	return out
}

// loopGC tears the pool down with the real GarbageCollectConnections loop: its first List fails (the loop must
// carry on), then it must close everything, and it must return once its context is cancelled.
func (r *run) loopGC() map[string]any {
	w := r.w
	r.sum.Loops++
	p := r.newProc(gcActor)
	p.gc = &gcRec{Fault: "err"}
	ctx, cancel := context.WithCancel(context.Background())
	stopped := make(chan struct{})
	errs := 0
	go func() {
		g := goid()
		w.mu.Lock()
		w.byG[g] = p
		w.mu.Unlock()
		w.pr.GarbageCollectConnections(ctx, loopPeriod)
		w.mu.Lock()
		delete(w.byG, g)
		w.mu.Unlock()
		close(stopped)
	}()
	collected := false
	deadline := time.Now().Add(waitLimit)
	for time.Now().Before(deadline) && !collected {
		w.mu.Lock()
		if p.gc.ListErr { // the injected error was delivered: from now on the List works
			p.gc.Fault = "ok"
			if errs == 0 {
				errs = 1
			}
		}
		w.mu.Unlock()
		if w.connsMx.TryRLock() {
			tbl, _ := w.table()
			collected = len(tbl) == 0 && errs > 0
			w.connsMx.RUnlock()
		}
		if !collected {
			time.Sleep(200 * time.Microsecond)
		}
	}
	cancel()
	ok := false
	select {
	case <-stopped:
		ok = true
	case <-time.After(waitLimit):
	}
	r.forget(p)
	return map[string]any{"ran": true, "collected": collected, "stopped": ok, "errors": errs}
}

func (r *run) finale(useLoop bool) {
	w := r.w
	r.idx++
	for _, f := range w.fns {
		if !r.solo(f) {
			return
		}
	}
	if !r.soloGC("solo") {
		return
	}
	r.idx++
	td := step{P: 0, Op: "env", Seg: "Teardown"}
	w.env(td)
	r.emit("step", td, nil, true)
	loop := map[string]any{"ran": false, "collected": false, "stopped": false, "errors": 0}
	if useLoop && w.connsMx != nil {
		// (the loop's collector only lists Functions - and so only meets the injected error - while something is pooled)
		w.connsMx.RLock()
		tbl, _ := w.table()
		useLoop = len(tbl) > 0
		w.connsMx.RUnlock()
	}
	if useLoop && w.connsMx != nil {
		loop = r.loopGC()
	} else if !r.soloGC("teardown") {
		return
	}
	post := w.post()
	w.mu.Lock()
	rec := map[string]any{"ev": "final", "scenario": r.id, "i": r.idx, "p": 0, "op": "final", "seg": "", "f": "", "a": "", "b": "", "mr": "",
		"fin": true, "overlapped": false, "acq": false, "call": w.callJSON(nil), "gc": gcJSON(nil), "post": post, "wire": wireInfo, "order": w.order,
		"metrics": w.metricsOf(), "rpcn": countList(w.rpcN), "loop": loop, "grp": noGroup}
	w.mu.Unlock()
	r.tw.Emit(rec)
}

// stress runs callers, the collector and the environment truly concurrently (nobody is paused) on two functions. Every call
// is recorded when everything has come to rest (its own record - what it listed, where its RPCs went, how it ended - and
// the state at quiescence), then the usual end of a schedule follows. All steps count as overlapped.
func stress(tw *trace.Writer, id string, rng *rand.Rand, sum *summary) bool {
	tw.Boundary()
	order := []string{"asc", "desc"}[rng.Intn(2)]
	r := &run{w: newWorld(order, "e1", []string{"fa", "fb"}), tw: tw, sum: sum, id: id, final: true, results: map[string]int{}}
	w := r.w
	w.free = true
	r.emit("reset", step{Op: "reset"}, nil, false)
	var wg sync.WaitGroup
	var pmu sync.Mutex
	procs := []*proc{}
	for c := 0; c < 4; c++ {
		plan := []string{}
		for k := 0; k < 5; k++ {
			plan = append(plan, []string{"fa", "fa", "fb"}[rng.Intn(3)])
		}
		wg.Add(1)
		go func(c int, plan []string) {
			defer wg.Done()
			for k, f := range plan {
				p := r.startCall(100+10*c+k, f, "ok")
				<-p.at // "done"
				p.overlapped = true
				pmu.Lock()
				procs = append(procs, p)
				pmu.Unlock()
			}
		}(c, plan)
	}
	envs := []step{}
	eps := []string{"e1", "e2", "e3"}
	for k := 0; k < 8; k++ {
		f := []string{"fa", "fb"}[rng.Intn(2)]
		switch rng.Intn(5) {
		case 0:
			envs = append(envs, step{Op: "env", Seg: "SetEp", F: f, A: "r1", B: eps[rng.Intn(3)]})
		case 1:
			envs = append(envs, step{Op: "env", Seg: "Roll", F: f, A: []string{"r1", "r2"}[rng.Intn(2)], B: eps[rng.Intn(3)]})
		case 2:
			envs = append(envs, step{Op: "env", Seg: "DeleteFn", F: f, A: []string{"keep", "all"}[rng.Intn(2)]})
		default:
			envs = append(envs, step{Op: "env", Seg: "CreateFn", F: f, A: "r1", B: eps[rng.Intn(3)]})
		}
	}
	pauses := make([]time.Duration, 16)
	for i := range pauses {
		pauses[i] = time.Duration(rng.Intn(400)) * time.Microsecond
	}
	wg.Add(2)
	go func() {
		defer wg.Done()
		for k, s := range envs {
			time.Sleep(pauses[k])
			if s.Seg == "Roll" && w.s.Peek(fnKey(s.F)) == nil {
				continue
			}
			w.env(s)
		}
	}()
	go func() {
		defer wg.Done()
		for k := 0; k < 6; k++ {
			time.Sleep(pauses[8+k])
			_, _ = w.pr.GarbageCollectConnectionsNow(context.Background())
		}
	}()
	done := make(chan struct{})
	go func() { wg.Wait(); close(done) }()
	select {
	case <-done:
	case <-time.After(3 * waitLimit):
		sum.Hung++
		r.emit("hung", step{Op: "stress"}, nil, false)
		return true
	}
	sort.Slice(procs, func(i, j int) bool { return procs[i].call.ID < procs[j].call.ID })
	for _, p := range procs {
		r.forget(p)
		r.emit("step", step{P: p.id, Op: "call", Seg: "stress", F: p.call.F}, p, true)
	}
	w.free = false
	w.fns = []string{"fa", "fb"}
	r.finale(true)
	if r.hung {
		return true
	}
	sum.Stress++
	for k, v := range r.results {
		sum.Counts["call:"+k] += v
	}
	return false
}

func idNumber(id string) int {
	i := len(id)
	for i > 0 && id[i-1] >= '0' && id[i-1] <= '9' {
		i--
	}
	n, _ := strconv.Atoi(id[i:])
	return n
}

// replayOnce runs one schedule on a fresh world; it reports whether an actor hung.
func replayOnce(tw *trace.Writer, id string, hist []step, sum *summary, probe int, final bool) bool {
	tw.Boundary()
	order, faEp := "asc", "e1"
	if len(hist) > 0 && hist[0].Op == "init" {
		order, faEp = hist[0].Seg, hist[0].B
		hist = hist[1:]
	}
	fns := []string{"fa"}
	for _, s := range hist {
		if s.F == "fb" {
			fns = []string{"fa", "fb"}
		}
	}
	r := &run{w: newWorld(order, faEp, fns), tw: tw, sum: sum, id: id, final: final, results: map[string]int{}}
	r.emit("reset", step{Op: "reset"}, nil, false)
	r.replay(hist, probe)
	if !r.hung {
		r.finale(idNumber(id)%4 == 0)
	}
	if r.hung {
		return true
	}
	sum.Runs++
	sum.Drift += r.drift
	if r.drift > 0 {
		sum.DriftRuns++
	}
	for k, v := range r.results {
		sum.Counts["call:"+k] += v
	}
	return false
}

// a schedule that does not come to rest is run a second time on a fresh world before it is reported as hung: a starved
// process (the checks run many things at once) must not be taken for a deadlock.
func replayTwice(tw *trace.Writer, id string, hist []step, sum *summary, probe int) {
	if replayOnce(tw, id, hist, sum, probe, false) {
		sum.HungRetried++
		replayOnce(tw, id+"/again", hist, sum, probe, true)
	}
}

func main() {
	scenarios := flag.String("scenarios", "", "NDJSON file of TLC schedules")
	tracePath := flag.String("trace", "", "output trace")
	sumPath := flag.String("summary", "", "output summary JSON")
	chunk := flag.Int("chunk", 0, "split the trace into files of about this many events")
	repeat := flag.Int("repeat", 1, "how often a schedule with a turnstile group is replayed")
	probes := flag.Int("probes", 8, "one schedule in this many is replayed once more with atomicity probes (0: none)")
	stressN := flag.Int("stress", 0, "number of truly concurrent random runs")
	seed := flag.Int64("seed", 1, "seed of the stress runs")
	flag.Parse()
	fail := func(err error) {
		fmt.Fprintln(os.Stderr, err)
		os.Exit(2)
	}
	var err error
	if sockDir, err = filepath.Abs(filepath.Join(filepath.Dir(*tracePath), fmt.Sprintf("sock-%d", os.Getpid()))); err != nil {
		fail(err)
	}
	if len(sockDir) > 90 {
		fail(fmt.Errorf("socket directory path too long: %s", sockDir))
	}
	defer os.RemoveAll(sockDir)
	if err := startServers(); err != nil {
		fail(err)
	}
	buildMessages()
	tw, err := trace.New(*tracePath, *chunk)
	if err != nil {
		fail(err)
	}
	var raws []json.RawMessage
	if *scenarios != "" {
		if raws, err = scen.Load(*scenarios); err != nil {
			fail(err)
		}
	}
	sum := &summary{Counts: map[string]int{}, DriftBy: map[string]int{}}
	rng := rand.New(rand.NewSource(*seed))
	for i := 0; i < *stressN; i++ {
		if stress(tw, fmt.Sprintf("stress-%d-%d", *seed, i), rng, sum) && sum.Hung >= 3 {
			break
		}
	}
	for _, raw := range raws {
		var sc struct {
			ID   string `json:"id"`
			Hist []step `json:"hist"`
		}
		if err := json.Unmarshal(raw, &sc); err != nil {
			fail(fmt.Errorf("bad scenario: %w", err))
		}
		sum.Scenarios++
		if len(sum.Samples) < 2 {
			sum.Samples = append(sum.Samples, json.RawMessage(raw))
		}
		g0 := sum.Groups
		replayTwice(tw, sc.ID, sc.Hist, sum, -1)
		if sum.Groups > g0 { // the winner of a turnstile group is not controlled: run it again
			for k := 1; k < *repeat; k++ {
				replayTwice(tw, fmt.Sprintf("%s/r%d", sc.ID, k), sc.Hist, sum, -1)
			}
		}
		if *probes > 0 && idNumber(sc.ID)%*probes == 0 {
			replayTwice(tw, sc.ID+"/probe", sc.Hist, sum, 0)
		}
		if sum.Hung >= 3 {
			fmt.Fprintln(os.Stderr, "giving up after 3 hung schedules")
			break
		}
	}
	sum.Events = tw.Lines
	for k, v := range tw.Counts {
		sum.Counts[k] += v
	}
	if err := tw.Close(); err != nil {
		fail(err)
	}
	os.RemoveAll(sockDir)
	if err := scen.WriteJSON(*sumPath, sum); err != nil {
		fail(err)
	}
}
