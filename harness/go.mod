module github.com/crossplane/crossplane/zzverif

go 1.23.0

toolchain go1.23.7

require (
	github.com/crossplane/crossplane v0.0.0
	github.com/crossplane/crossplane-runtime v1.20.0-rc.0
	github.com/evanphx/json-patch v5.9.0+incompatible
	github.com/go-logr/logr v1.4.2
	github.com/google/go-containerregistry v0.19.2
	github.com/spf13/afero v1.11.0
	google.golang.org/grpc v1.68.0
	google.golang.org/protobuf v1.35.2
	k8s.io/api v0.31.2
	k8s.io/apiextensions-apiserver v0.31.2
	k8s.io/apimachinery v0.31.2
	k8s.io/client-go v0.31.2
	k8s.io/utils v0.0.0-20240711033017-18e509b52bc8
	sigs.k8s.io/controller-runtime v0.19.0
	sigs.k8s.io/structured-merge-diff/v4 v4.4.1
	sigs.k8s.io/yaml v1.4.0
)

require (
	cloud.google.com/go/compute/metadata v0.5.0 // indirect
	dario.cat/mergo v1.0.1 // indirect
	github.com/Azure/azure-sdk-for-go v68.0.0+incompatible // indirect
	github.com/Azure/go-autorest/autorest v0.11.29 // indirect
	github.com/Azure/go-autorest/autorest/adal v0.9.23 // indirect
	github.com/Azure/go-autorest/autorest/azure/auth v0.5.12 // indirect
	github.com/Azure/go-autorest/autorest/azure/cli v0.4.6 // indirect
	github.com/Azure/go-autorest/autorest/date v0.3.0 // indirect
	github.com/Azure/go-autorest/logger v0.2.1 // indirect
	github.com/Azure/go-autorest/tracing v0.6.0 // indirect
	github.com/Masterminds/semver v1.5.0 // indirect
	github.com/alecthomas/kong v0.9.0 // indirect
	github.com/asaskevich/govalidator v0.0.0-20230301143203-a9d515a09cc2 // indirect
	github.com/aws/aws-sdk-go-v2 v1.30.0 // indirect
	github.com/aws/aws-sdk-go-v2/config v1.27.21 // indirect
	github.com/aws/aws-sdk-go-v2/credentials v1.17.21 // indirect
	github.com/aws/aws-sdk-go-v2/feature/ec2/imds v1.16.8 // indirect
	github.com/aws/aws-sdk-go-v2/internal/configsources v1.3.12 // indirect
	github.com/aws/aws-sdk-go-v2/internal/endpoints/v2 v2.6.12 // indirect
	github.com/aws/aws-sdk-go-v2/internal/ini v1.8.0 // indirect
	github.com/aws/aws-sdk-go-v2/service/ecr v1.24.7 // indirect
	github.com/aws/aws-sdk-go-v2/service/ecrpublic v1.21.6 // indirect
	github.com/aws/aws-sdk-go-v2/service/internal/accept-encoding v1.11.2 // indirect
	github.com/aws/aws-sdk-go-v2/service/internal/presigned-url v1.11.14 // indirect
	github.com/aws/aws-sdk-go-v2/service/sso v1.21.1 // indirect
	github.com/aws/aws-sdk-go-v2/service/ssooidc v1.25.1 // indirect
	github.com/aws/aws-sdk-go-v2/service/sts v1.29.1 // indirect
	github.com/aws/smithy-go v1.20.2 // indirect
	github.com/awslabs/amazon-ecr-credential-helper/ecr-login v0.0.0-20231024185945-8841054dbdb8 // indirect
	github.com/beorn7/perks v1.0.1 // indirect
	github.com/blang/semver v3.5.1+incompatible // indirect
	github.com/blang/semver/v4 v4.0.0 // indirect
	github.com/cespare/xxhash/v2 v2.3.0 // indirect
	github.com/chrismellard/docker-credential-acr-env v0.0.0-20230304212654-82a0ddb27589 // indirect
	github.com/containerd/stargz-snapshotter/estargz v0.15.1 // indirect
	github.com/cyberphone/json-canonicalization v0.0.0-20231011164504-785e29786b46 // indirect
	github.com/davecgh/go-spew v1.1.2-0.20180830191138-d8f796af33cc // indirect
	github.com/digitorus/pkcs7 v0.0.0-20230818184609-3a137a874352 // indirect
	github.com/digitorus/timestamp v0.0.0-20231217203849-220c5c2851b7 // indirect
	github.com/dimchansky/utfbom v1.1.1 // indirect
	github.com/distribution/reference v0.5.0 // indirect
	github.com/docker/cli v27.4.1+incompatible // indirect
	github.com/docker/distribution v2.8.3+incompatible // indirect
	github.com/docker/docker v27.1.1+incompatible // indirect
	github.com/docker/docker-credential-helpers v0.8.2 // indirect
	github.com/docker/go-connections v0.5.0 // indirect
	github.com/docker/go-units v0.5.0 // indirect
	github.com/dustin/go-humanize v1.0.1 // indirect
	github.com/emicklei/go-restful/v3 v3.12.1 // indirect
	github.com/evanphx/json-patch/v5 v5.9.0 // indirect
	github.com/felixge/httpsnoop v1.0.4 // indirect
	github.com/fsnotify/fsnotify v1.7.0 // indirect
	github.com/fxamacker/cbor/v2 v2.7.0 // indirect
	github.com/go-chi/chi v4.1.2+incompatible // indirect
	github.com/go-jose/go-jose/v4 v4.0.5 // indirect
	github.com/go-logr/stdr v1.2.2 // indirect
	github.com/go-openapi/analysis v0.23.0 // indirect
	github.com/go-openapi/errors v0.22.0 // indirect
	github.com/go-openapi/jsonpointer v0.21.0 // indirect
	github.com/go-openapi/jsonreference v0.21.0 // indirect
	github.com/go-openapi/loads v0.22.0 // indirect
	github.com/go-openapi/runtime v0.28.0 // indirect
	github.com/go-openapi/spec v0.21.0 // indirect
	github.com/go-openapi/strfmt v0.23.0 // indirect
	github.com/go-openapi/swag v0.23.0 // indirect
	github.com/go-openapi/validate v0.24.0 // indirect
	github.com/gogo/protobuf v1.3.2 // indirect
	github.com/golang-jwt/jwt/v4 v4.5.2 // indirect
	github.com/golang/groupcache v0.0.0-20210331224755-41bb18bfe9da // indirect
	github.com/golang/protobuf v1.5.4 // indirect
	github.com/golang/snappy v0.0.4 // indirect
	github.com/google/certificate-transparency-go v1.2.1 // indirect
	github.com/google/gnostic-models v0.6.9-0.20230804172637-c7be7c783f49 // indirect
	github.com/google/go-cmp v0.6.0 // indirect
	github.com/google/go-containerregistry/pkg/authn/k8schain v0.0.0-20230919002926-dbcd01c402b2 // indirect
	github.com/google/go-containerregistry/pkg/authn/kubernetes v0.0.0-20230919002926-dbcd01c402b2 // indirect
	github.com/google/gofuzz v1.2.0 // indirect
	github.com/google/uuid v1.6.0 // indirect
	github.com/hashicorp/hcl v1.0.1-vault-5 // indirect
	github.com/imdario/mergo v0.3.16 // indirect
	github.com/in-toto/in-toto-golang v0.9.0 // indirect
	github.com/jedisct1/go-minisign v0.0.0-20230811132847-661be99b8267 // indirect
	github.com/jmespath/go-jmespath v0.4.0 // indirect
	github.com/josharian/intern v1.0.0 // indirect
	github.com/json-iterator/go v1.1.12 // indirect
	github.com/klauspost/compress v1.17.9 // indirect
	github.com/letsencrypt/boulder v0.0.0-20240620165639-de9c06129bec // indirect
	github.com/magiconair/properties v1.8.7 // indirect
	github.com/mailru/easyjson v0.7.7 // indirect
	github.com/mitchellh/go-homedir v1.1.0 // indirect
	github.com/mitchellh/mapstructure v1.5.0 // indirect
	github.com/moby/docker-image-spec v1.3.1 // indirect
	github.com/modern-go/concurrent v0.0.0-20180306012644-bacd9c7ef1dd // indirect
	github.com/modern-go/reflect2 v1.0.2 // indirect
	github.com/munnerz/goautoneg v0.0.0-20191010083416-a7dc8b61c822 // indirect
	github.com/nozzle/throttler v0.0.0-20180817012639-2ea982251481 // indirect
	github.com/oklog/ulid v1.3.1 // indirect
	github.com/opencontainers/go-digest v1.0.0 // indirect
	github.com/opencontainers/image-spec v1.1.0 // indirect
	github.com/opentracing/opentracing-go v1.2.0 // indirect
	github.com/pelletier/go-toml/v2 v2.2.2 // indirect
	github.com/pkg/errors v0.9.1 // indirect
	github.com/prometheus/client_golang v1.20.2 // indirect
	github.com/prometheus/client_model v0.6.1 // indirect
	github.com/prometheus/common v0.55.0 // indirect
	github.com/prometheus/procfs v0.15.1 // indirect
	github.com/sagikazarmark/slog-shim v0.1.0 // indirect
	github.com/sassoftware/relic v7.2.1+incompatible // indirect
	github.com/secure-systems-lab/go-securesystemslib v0.8.0 // indirect
	github.com/shibumi/go-pathspec v1.3.0 // indirect
	github.com/sigstore/cosign/v2 v2.2.4 // indirect
	github.com/sigstore/rekor v1.3.6 // indirect
	github.com/sigstore/sigstore v1.8.6 // indirect
	github.com/sigstore/timestamp-authority v1.2.2 // indirect
	github.com/sirupsen/logrus v1.9.3 // indirect
	github.com/spf13/cast v1.6.0 // indirect
	github.com/spf13/cobra v1.8.1 // indirect
	github.com/spf13/pflag v1.0.5 // indirect
	github.com/spf13/viper v1.19.0 // indirect
	github.com/subosito/gotenv v1.6.0 // indirect
	github.com/syndtr/goleveldb v1.0.1-0.20220721030215-126854af5e6d // indirect
	github.com/theupdateframework/go-tuf v0.7.0 // indirect
	github.com/titanous/rocacheck v0.0.0-20171023193734-afe73141d399 // indirect
	github.com/transparency-dev/merkle v0.0.2 // indirect
	github.com/vbatts/tar-split v0.11.5 // indirect
	github.com/x448/float16 v0.8.4 // indirect
	go.mongodb.org/mongo-driver v1.14.0 // indirect
	go.opentelemetry.io/auto/sdk v1.1.0 // indirect
	go.opentelemetry.io/contrib/instrumentation/net/http/otelhttp v0.53.0 // indirect
	go.opentelemetry.io/otel v1.33.0 // indirect
	go.opentelemetry.io/otel/metric v1.33.0 // indirect
	go.opentelemetry.io/otel/trace v1.33.0 // indirect
	go.uber.org/multierr v1.11.0 // indirect
	go.uber.org/zap v1.27.0 // indirect
	golang.org/x/crypto v0.35.0 // indirect
	golang.org/x/exp v0.0.0-20240808152545-0cdaa3abc0fa // indirect
	golang.org/x/mod v0.21.0 // indirect
	golang.org/x/net v0.36.0 // indirect
	golang.org/x/oauth2 v0.27.0 // indirect
	golang.org/x/sync v0.11.0 // indirect
	golang.org/x/sys v0.30.0 // indirect
	golang.org/x/term v0.29.0 // indirect
	golang.org/x/text v0.22.0 // indirect
	golang.org/x/time v0.6.0 // indirect
	gomodules.xyz/jsonpatch/v2 v2.4.0 // indirect
	google.golang.org/genproto/googleapis/rpc v0.0.0-20241209162323-e6fa225c2576 // indirect
	gopkg.in/inf.v0 v0.9.1 // indirect
	gopkg.in/ini.v1 v1.67.0 // indirect
	gopkg.in/yaml.v2 v2.4.0 // indirect
	gopkg.in/yaml.v3 v3.0.1 // indirect
	k8s.io/apiserver v0.31.2 // indirect
	k8s.io/component-base v0.31.2 // indirect
	k8s.io/klog/v2 v2.130.1 // indirect
	k8s.io/kube-openapi v0.0.0-20240808142205-8e686545bdb8 // indirect
	sigs.k8s.io/json v0.0.0-20221116044647-bc3834ca7abd // indirect
)

replace github.com/crossplane/crossplane => /repo
