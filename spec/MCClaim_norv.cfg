SPECIFICATION Spec
CONSTANTS
  Syncer = "SSA"
  RvCheck = FALSE
  GenNames <- Gen2
  Starts <- StartsFresh
  Fgs <- FgOff
  FailKinds <- KindsCrash
  Conn = FALSE
  MaxVers = 8
  MaxEnv = 0
  MaxFaults = 0
  MaxRecs = 2
  MaxStale = 1
  MaxCollide = 0
  Rebinds = FALSE
  MidEnv = FALSE
VIEW view
CONSTRAINT Bounded
CHECK_DEADLOCK FALSE
INVARIANTS OneXR
