SPECIFICATION Spec
CONSTANTS
  MaxOps = 3
  Alphabet = "all"
VIEW view
ACTION_CONSTRAINT Emit
CHECK_DEADLOCK FALSE
INVARIANTS Conforms
