-------------------------------- MODULE Deps --------------------------------
(***************************************************************************)
(* C17 - dependency resolution: reference semantics.                       *)
(*                                                                         *)
(* This module is the oracle of   property C17: what the package DAG       *)
(* (internal/dag), the Lock resolver's version selection                   *)
(* (internal/controller/pkg/resolver) and the revision's dependency check  *)
(* (internal/controller/pkg/revision/dependency.go Resolve) must compute,  *)
(* written as pure TLA+ operators over a small abstract domain:            *)
(*                                                                         *)
(*   graphs      : a set of edge records [f, t, c] (from, to, constraint)  *)
(*   versions    : records [k, maj, min, pat, pre, sp, d]                  *)
(*                   k   "sem" (a semantic version tag), "junk" (a tag     *)
(*                       that is not a semantic version), "digest",        *)
(*                       "none" (nothing installed), "other" (a string the *)
(*                       driver could not map back: never legal)           *)
(*                   pre 0 = "-alpha", 1 = "-rc.1", 2 = release (REL)      *)
(*                   sp  spelling variant ("v1.0.0" / "1.0.0"; two tags    *)
(*                       that differ only in sp are a tie), d digest id    *)
(*   constraints : records [op, a, b, d, sp]; op one of RangeOps,          *)
(*                 "digest" (pinned), "invalid" (not a constraint)         *)
(*                                                                         *)
(* The Go driver materialises these as real tag / constraint / digest      *)
(* strings and maps the real answers back; MonDeps.tla judges the answers  *)
(* with the operators below.  Nothing here is derived from the Go code:    *)
(* ranges have their mathematical meaning over the semantic-version order. *)
(*                                                                         *)
(* Interpretations (the property text leaves them open; each follows the   *)
(* reading the authors evidently intend):                                  *)
(*  I1 a prerelease tag is eligible only for a constraint that itself      *)
(*     names a prerelease of the same major.minor.patch (the rule shared   *)
(*     by the documented behaviour of Masterminds/semver and of npm; the   *)
(*     enumerated domain holds prereleases of one triple only, so the two  *)
(*     readings coincide on it).                                           *)
(*  I2 "^a" is only used with major >= 1, "~a" only with a # 0.0.0, where  *)
(*     all common semver dialects agree.                                   *)
(*  I3 two tags of equal precedence (a tie) are interchangeable: results   *)
(*     are compared by precedence key, never by spelling.                  *)
(*  I4 the update clause ("moves an installed dependency ...") applies     *)
(*     when the resolver has a reason to look at the dependency at all:    *)
(*     it is absent from the Lock, or its version in the Lock violates a   *)
(*     parent's constraint (Triggered).  For an installed version that is  *)
(*     not a semantic version "not older" is undefined: no target is       *)
(*     asserted (DESIGN 4 D5), only NeverViolates / NoDowngrade.           *)
(*  I5 a digest constraint is satisfied by exactly that digest.            *)
(***************************************************************************)
EXTENDS Integers, Sequences, FiniteSets

Range(s) == {s[i] : i \in DOMAIN s}

-----------------------------------------------------------------------------
(* Graphs *)
Succ(E, n) == {e.t : e \in {x \in E : x.f = n}}

RECURSIVE ReachFrom(_, _, _)
ReachFrom(E, frontier, seen) ==
  LET nxt == UNION {Succ(E, n) : n \in frontier} \ seen
  IN IF nxt = {} THEN seen ELSE ReachFrom(E, nxt, seen \cup nxt)

\* proper descendants of n (n itself only if it lies on a cycle)
Reach(E, n) == ReachFrom(E, {n}, {})

HasCycle(E) == \E e \in E : e.f \in Reach(E, e.f)

\* independent characterisation used to cross-check HasCycle in the model:
\* a graph is acyclic iff its nodes can be ranked strictly decreasing along every edge
NodesOf(E) == {e.f : e \in E} \cup {e.t : e \in E}
Rankable(E) ==
  LET N == NodesOf(E) IN
  \E rank \in [N -> 1..Cardinality(N)] : \A e \in E : rank[e.f] > rank[e.t]

\* independent characterisation of Reach: the least set closed under Succ that contains Succ(n)
ClosedFrom(E, n, X) == Succ(E, n) \subseteq X /\ \A m \in X : Succ(E, m) \subseteq X
LeastClosed(E, n) ==
  LET N == NodesOf(E)
      Cs == {X \in SUBSET N : ClosedFrom(E, n, X)}
  IN {m \in N : \A X \in Cs : m \in X}

-----------------------------------------------------------------------------
(* Versions and constraints *)
REL == 2
Key(v) == ((v.maj * 10 + v.min) * 10 + v.pat) * 10 + v.pre
IsSem(v) == v.k = "sem"

RangeOps == {"ge", "gt", "le", "lt", "eq", "caret", "tilde", "range", "between", "any"}
IsRange(c)  == c.op \in RangeOps
IsDigest(c) == c.op = "digest"

SameTriple(a, b) == a.maj = b.maj /\ a.min = b.min /\ a.pat = b.pat
\* I1
PreOK(c, v) == \/ v.pre = REL
               \/ c.op \in {"ge", "gt", "eq"} /\ c.a.pre # REL /\ SameTriple(c.a, v)

Cmp(c, v) ==
  CASE c.op = "ge"      -> Key(v) >= Key(c.a)
    [] c.op = "gt"      -> Key(v) >  Key(c.a)
    [] c.op = "le"      -> Key(v) <= Key(c.a)
    [] c.op = "lt"      -> Key(v) <  Key(c.a)
    [] c.op = "eq"      -> Key(v) =  Key(c.a)
    [] c.op = "caret"   -> Key(v) >= Key(c.a) /\ v.maj = c.a.maj                      \* >= a, < (maj+1).0.0
    [] c.op = "tilde"   -> Key(v) >= Key(c.a) /\ v.maj = c.a.maj /\ v.min = c.a.min   \* >= a, < maj.(min+1).0
    [] c.op = "range"   -> Key(v) >= Key(c.a) /\ Key(v) <= Key(c.b)                   \* "a - b"
    [] c.op = "between" -> Key(v) >= Key(c.a) /\ Key(v) <  Key(c.b)                   \* ">= a, < b"
    [] c.op = "any"     -> TRUE
    [] OTHER            -> FALSE

\* a tag satisfies a range constraint
Sat(c, v) == IsSem(v) /\ IsRange(c) /\ PreOK(c, v) /\ Cmp(c, v)

\* an installed version (tag or digest) is acceptable for a declared constraint (I5)
ValidFor(v, c) == IF IsDigest(c) THEN v.k = "digest" /\ v.d = c.d ELSE Sat(c, v)

SatSet(cs, T) == {t \in T : \A c \in cs : Sat(c, t)}
MaxKey(S) == CHOOSE k \in {Key(t) : t \in S} : \A u \in S : Key(u) <= k
MinKey(S) == CHOOSE k \in {Key(t) : t \in S} : \A u \in S : k <= Key(u)

\* expected results are [k, key, d]:  k = "sem" (a tag of precedence key), "digest" (d), "none"
\* (nothing may be installed / changed), "unspec" (the property does not fix a target)
RSem(k)  == [k |-> "sem", key |-> k, d |-> "none"]
RDig(d)  == [k |-> "digest", key |-> -1, d |-> d]
RNone    == [k |-> "none", key |-> -1, d |-> "none"]
RUnspec  == [k |-> "unspec", key |-> -1, d |-> "none"]

\* For a missing dependency: the highest tag satisfying the declared constraint, or exactly the
\* pinned digest, nothing when the constraint is invalid or no tag qualifies.
InstallTarget(c, T) ==
  IF IsDigest(c) THEN RDig(c.d)
  ELSE IF ~IsRange(c) \/ SatSet({c}, T) = {} THEN RNone
  ELSE RSem(MaxKey(SatSet({c}, T)))

\* the versions an installed dependency at iv may move to
Upgrades(cs, iv, T)   == {t \in SatSet(cs, T) : Key(t) >= Key(iv)}
Downgrades(cs, iv, T) == {t \in SatSet(cs, T) : Key(t) <  Key(iv)}

\* With upgrades enabled: the lowest not-older tag satisfying every parent's constraint, else
\* (downgrades allowed) the highest older one, else nothing.
UpdateTarget(cs, iv, T, down) ==
  LET digs == {c \in cs : IsDigest(c)} IN
  IF digs # {} THEN (IF digs = cs /\ Cardinality({c.d : c \in cs}) = 1
                     THEN RDig((CHOOSE c \in cs : TRUE).d) ELSE RNone)
  ELSE IF \E c \in cs : ~IsRange(c) THEN RNone
  ELSE IF ~IsSem(iv) THEN RUnspec
  ELSE IF Upgrades(cs, iv, T) # {} THEN RSem(MinKey(Upgrades(cs, iv, T)))
  ELSE IF down /\ Downgrades(cs, iv, T) # {} THEN RSem(MaxKey(Downgrades(cs, iv, T)))
  ELSE RNone

\* a concrete result r = [k, maj, ..] (a version record) agrees with an expected result x
Agrees(r, x) ==
  CASE x.k = "sem"    -> IsSem(r) /\ Key(r) = x.key
    [] x.k = "digest" -> r.k = "digest" /\ r.d = x.d
    [] x.k = "none"   -> r.k = "none"
    [] OTHER          -> TRUE

\* a version r the resolver put on a package is legal for the constraints cs and the tag list T
Legal(r, cs, T) ==
  \/ r.k = "digest" /\ \A c \in cs : IsDigest(c) /\ c.d = r.d
  \/ IsSem(r) /\ (\E t \in T : t = r) /\ (\A c \in cs : Sat(c, r))

-----------------------------------------------------------------------------
(* Implied nodes and the satisfied check *)

\* MapDag.Init: dependencies of lock members that are absent from the lock
Implied(L, E) == {e.t : e \in {x \in E : x.f \in L}} \ L

\* MapUpgradingDag.Init: additionally lock members whose installed version violates a parent's constraint
ImpliedUp(L, E, ver(_)) ==
  Implied(L, E) \cup {e.t : e \in {x \in E : x.f \in L /\ x.t \in L /\ ~ValidFor(ver(x.t), x.c)}}

\* Revision self with direct dependencies D (edges f = self) over lock graph E (all edges incl. D),
\* present = package ids in the lock, ver(_) = installed version of a lock member.
Satisfied(self, D, E, present, ver(_)) ==
  /\ Reach(E, self) \subseteq present
  /\ \A e \in D : e.t \in present /\ ValidFor(ver(e.t), e.c)
=============================================================================
