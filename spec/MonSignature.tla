---------------------------- MODULE MonSignature ----------------------------
(***************************************************************************)
(* Trace monitor for Signature (X09): evaluates the properties V1..V6,     *)
(* G1..G3 of Signature.tla on every recorded state / step of executions of *)
(* the real signature verification controller and the real package         *)
(* revision reconciler (one world, real ImageConfig store; recording       *)
(* Validator), of the real watch handler, and of the real selection on     *)
(* enumerated inputs.  Fully logged trace, linear search.  Record fields:  *)
(*   ev       reset | start | call | seam | env | enq | end | settled | vec*)
(*   actor    sig | rev | none                                             *)
(*   abs/cls/kind/verb/outcome/injected/applied/noop : the call (cls "ign" *)
(*            = a call of the revision reconciler's tail that the model    *)
(*            does not describe: ImageConfigs, ServiceAccount, Lock)       *)
(*   feat     the feature flag; ord: the list order of the cached client   *)
(*   seen     the revision as this reconcile's Get returned it             *)
(*   vconfigs the ImageConfigs as the FIRST List of this reconcile         *)
(*            returned them (the verification is selected from these),     *)
(*            configs: as the latest List returned them (the pull secret): *)
(*            name, prefixes (sequences of characters), ver (none | cosign *)
(*            | nocosign), secret; nlists: Lists so far                    *)
(*   val      what the validator was handed (cfg) and answered (out: none  *)
(*            | ok | invalid) in this reconcile; arg (validate seam): ref, *)
(*            cfg, provider, secrets; (establish seam): control            *)
(*   stages   seams / events so far in this reconcile ("validate:ok",      *)
(*            "release:ok", "establish:ok" ...); fails: calls that did not *)
(*            answer ok; nwrites: accepted writes that changed something   *)
(*   enq      (ev = enq) a watch event given to the real handler: ic,      *)
(*            kind, prefixes, oldver / newver (absent | none | cosign |    *)
(*            nocosign), revs (name, img as characters), reqs, nadds       *)
(*   vec      (ev = vec) revs, cb / ca (all configs before / after the     *)
(*            event), before / after: per revision the real selection with *)
(*            the list in name order (fwd) and reversed (rev)              *)
(*   pre      who controlled the package's objects / which revisions were  *)
(*            in the Lock when this reconcile started                      *)
(*   post     projection of the world after the step                       *)
(*   end:     result, requeue, after (ms), clean (fault-free, undisturbed), *)
(*            steady (... and the world is as this controller's last clean *)
(*            reconcile left it), prevDigest / post.digest                 *)
(*   upgrade: (scenarios with "r2" in the init record) how the NEXT         *)
(*            revision of the package ends up once all is settled: up      *)
(*   settled: the state after the fault-free aftermath (controllers run    *)
(*            when triggered - the verification controller also by the     *)
(*            watch events the real handler enqueued -, then everybody     *)
(*            once more: stable = that round wrote nothing)                *)
(* A false formula prints VIOL|name|line|scenario; the monitor goes on.    *)
(***************************************************************************)
EXTENDS Integers, Sequences, FiniteSets, TLC, Json, IOUtils

Trace == ndJsonDeserialize(IOEnv.VERIF_TRACE)
VARIABLE l
Range(s) == {s[i] : i \in DOMAIN s}
Max(S) == CHOOSE m \in S : \A x \in S : x <= m

IsCall(e) == e.ev = "call"
IsSeam(e) == e.ev = "seam"
Step(e) == e.ev \in {"call", "seam"}
Sig(e) == e.actor = "sig"
Rev(e) == e.actor = "rev"
Wrote(e) == IsCall(e) /\ e.applied /\ ~e.noop
Ended(e) == e.ev = "end" /\ e.result # "crashed"
Stage(e, s) == s \in Range(e.stages)
X(e) == e.post.rev
V(e) == e.post.rev.ver
IsTrue(v) == v.st \in {"Skipped", "Succeeded"}
Reasons == {"Skipped", "Succeeded", "Failed", "Incomplete"}
Saw(e) == e.seen.got /\ e.seen.ex
HTrue == "True:HealthyPackageRevision"
HAwait == "False:AwaitingSignatureVerification"
Paused == "False:ReconcilePaused"
BadRefs == {"i3"}

----------------------------------------------------------------------------
(* V2: reference semantics of the selection, computed from the strings     *)
IsPrefix(p, s) == Len(p) <= Len(s) /\ SubSeq(s, 1, Len(p)) = p
\* (an empty prefix never matches: the longest match so far starts at 0 and must be exceeded)
MatchLens(c, img) == {Len(c.prefixes[i]) : i \in {j \in DOMAIN c.prefixes : Len(c.prefixes[j]) > 0 /\ IsPrefix(c.prefixes[j], img)}}
VCands(cfgs, img) == {c \in Range(cfgs) : c.ver # "none" /\ MatchLens(c, img) # {}}
SCands(cfgs, img) == {c \in Range(cfgs) : c.secret # "none" /\ MatchLens(c, img) # {}}
BestOf(C, img) == LET L == Max(UNION {MatchLens(c, img) : c \in C}) IN {c \in C : L \in MatchLens(c, img)}
Names(C) == {c.name : c \in C}

----------------------------------------------------------------------------
(* V1: what the verification controller looks at                           *)
SigGone(e) == Sig(e) /\ e.seen.got /\ ~e.seen.ex
SigInactive(e) == Sig(e) /\ Saw(e) /\ e.seen.des # "Active"
SigFinal(e) == Sig(e) /\ Saw(e) /\ e.seen.des = "Active" /\ IsTrue(e.seen.ver)
SigWork(e) == Sig(e) /\ Saw(e) /\ e.seen.des = "Active" /\ ~IsTrue(e.seen.ver)
OnlyGet(e) == Step(e) => e.cls = "sget"
QuietExit(e) == Ended(e) => (e.result = "ok" /\ ~e.requeue /\ e.after = 0 /\ e.nwrites = 0)
SigGoneCalls(e) == SigGone(e) => OnlyGet(e)
SigGoneExit(e) == SigGone(e) => QuietExit(e)
SigInactiveCalls(e) == SigInactive(e) => OnlyGet(e)
SigInactiveExit(e) == SigInactive(e) => QuietExit(e)
SigFinalCalls(e) == SigFinal(e) => OnlyGet(e)
SigFinalExit(e) == SigFinal(e) => QuietExit(e)
\* a verdict that is not True is evaluated again by every reconcile
SigEvaluates(e) == (Ended(e) /\ SigWork(e) /\ e.clean) => (e.nlists >= 1 /\ ((e.fails = <<>> /\ X(e).ex) => V(e).st \in Reasons))

----------------------------------------------------------------------------
(* V2 / V3: the verdict that is written                                    *)
SLanded(e) == IsCall(e) /\ Sig(e) /\ e.cls = "sstatus" /\ e.outcome = "ok" /\ e.applied /\ X(e).ex
VC(e) == VCands(e.vconfigs, e.seen.imgc)
ListFailed(e) == \E f \in Range(e.fails) : f.cls = "list"
VerdictShape(e) ==
  SLanded(e) => /\ V(e).st \in Reasons
                /\ (V(e).st \in {"Skipped", "Succeeded"} <=> V(e).status = "True")
                /\ (V(e).st \in {"Failed", "Incomplete"} <=> V(e).status = "False")
                /\ (V(e).st \in {"Succeeded", "Failed"} <=> V(e).by # "none")
SkippedOnlyIfNoMatch(e) == (SLanded(e) /\ V(e).st = "Skipped") => (e.nlists >= 1 /\ VC(e) = {})
NoMatchSkipped(e) == (SLanded(e) /\ e.nlists >= 1 /\ VC(e) = {}) => V(e).st = "Skipped"
\* the validator is handed the section of one of the configs with the longest matching prefix among those that have one
SelectLongest(e) ==
  (IsSeam(e) /\ e.cls = "validate") =>
     /\ VC(e) # {} /\ e.arg.cfg \in Names(BestOf(VC(e), e.seen.imgc))
     /\ \A c \in VC(e) : c.name = e.arg.cfg => c.ver = "cosign"
     /\ e.arg.provider = "Cosign"
\* a section without cosign block: an error, never a silent skip
NoCosignIncomplete(e) ==
  (SLanded(e) /\ e.nlists >= 1 /\ VC(e) # {} /\ \A c \in BestOf(VC(e), e.seen.imgc) : c.ver = "nocosign") =>
     (V(e).st = "Incomplete" /\ V(e).step = "config")
IncompleteWhy(e) ==
  (SLanded(e) /\ V(e).st = "Incomplete") =>
     \/ V(e).step = "config" /\ (ListFailed(e) \/ (VC(e) # {} /\ \E c \in BestOf(VC(e), e.seen.imgc) : c.ver = "nocosign"))
     \/ V(e).step = "parse" /\ e.seen.img \in BadRefs /\ VC(e) # {}
     \/ V(e).step = "pullsecret" /\ ListFailed(e)
BadRefIncomplete(e) == (SLanded(e) /\ e.seen.img \in BadRefs /\ e.nlists >= 1 /\ VC(e) # {} /\ ~ListFailed(e)
                          /\ \A c \in BestOf(VC(e), e.seen.imgc) : c.ver = "cosign") => (V(e).st = "Incomplete" /\ V(e).step = "parse")
\* V4: what the validator is handed
ValidateRef(e) == (IsSeam(e) /\ e.cls = "validate") => e.arg.ref = e.seen.img
Own(e) == e.seen.secs
Extra(e) == IF Len(e.arg.secrets) > Len(Own(e)) THEN e.arg.secrets[Len(e.arg.secrets)] ELSE "none"
SecretsOwnKept(e) == (IsSeam(e) /\ e.cls = "validate") =>
                       (Len(e.arg.secrets) \in {Len(Own(e)), Len(Own(e)) + 1} /\ SubSeq(e.arg.secrets, 1, Len(Own(e))) = Own(e))
SecretsLongest(e) == (IsSeam(e) /\ e.cls = "validate") =>
                       LET C == SCands(e.configs, e.seen.imgc) IN
                       IF C = {} THEN Extra(e) = "none" ELSE Extra(e) \in {c.secret : c \in BestOf(C, e.seen.imgc)}
\* Succeeded only by a reconcile whose validator accepted the image under the named config
SucceededNeedsValidation(e) == (SLanded(e) /\ V(e).st = "Succeeded") => (e.val.out = "ok" /\ e.val.cfg = V(e).by)
FailedIffInvalid(e) == SLanded(e) => ((V(e).st = "Failed") <=> (e.val.out = "invalid"))
FailedNames(e) == (SLanded(e) /\ V(e).st = "Failed") => (V(e).by = e.val.cfg /\ V(e).err)
ValidatedSucceeds(e) == (SLanded(e) /\ e.val.out = "ok") => (V(e).st = "Succeeded" /\ V(e).by = e.val.cfg)
\* exits
RealFails(e) == {f \in Range(e.fails) : ~(f.cls = "sget" /\ f.outcome = "notfound")}
SigExitResult(e) == (Ended(e) /\ SigWork(e) /\ e.fails = <<>> /\ X(e).ex) => ((e.result = "ok" /\ ~e.requeue) <=> IsTrue(V(e)))
SigExitInvalid(e) == (Ended(e) /\ Sig(e) /\ e.val.out = "invalid") => (e.result = "error" \/ e.requeue)
SigRequeueOnFailure(e) == (Ended(e) /\ Sig(e) /\ RealFails(e) # {}) => (e.result = "error" \/ e.requeue)
SigNeverPolls(e) == (Ended(e) /\ Sig(e)) => e.after = 0

----------------------------------------------------------------------------
(* V5: what the verification controller writes                             *)
SigWritesOnly(e) == (Wrote(e) /\ Sig(e)) => (e.kind = "rev" /\ e.verb = "update-status")
SigOneWrite(e) == Sig(e) => e.nwrites <= 1
SigOnlyVerdict(p, e) ==
  (Wrote(e) /\ Sig(e) /\ X(p).ex /\ X(e).ex) =>
     (X(e).spec = X(p).spec /\ X(e).meta = X(p).meta /\ X(e).oconds = X(p).oconds /\ X(e).ostatus = X(p).ostatus)
SigQuiescent(e) == (e.ev = "end" /\ Sig(e) /\ e.steady) => e.post.digest = e.prevDigest
\* G2: who changes the verdict: the verification controller's status write, or the revision reconciler's removal of
\* all conditions after a pause
Cleaning(e) == Rev(e) /\ Saw(e) /\ ~e.seen.paused /\ e.seen.pcond /\ ~e.seen.del
VerdictChangedOnlyBy(p, e) ==
  (~e.settling /\ X(p).ex /\ X(e).ex /\ V(e) # V(p)) =>
     \/ IsCall(e) /\ Sig(e) /\ e.cls = "sstatus" /\ Wrote(e)
     \/ IsCall(e) /\ Cleaning(e) /\ e.cls = "status" /\ Wrote(e) /\ V(e).st = "none" /\ X(e).nconds = 0
RevKeepsVerdict(p, e) == (Wrote(e) /\ Rev(e) /\ ~Cleaning(e) /\ X(p).ex /\ X(e).ex) => V(e) = V(p)

----------------------------------------------------------------------------
(* V6: the watch handler                                                   *)
HasVer(v) == v \notin {"absent", "none"}
Matching(q) == {r.name : r \in {x \in Range(q.revs) : \E i \in DOMAIN q.prefixes : IsPrefix(q.prefixes[i], x.img)}}
EnqueueExact(e) == e.ev = "enq" => Range(e.enq.reqs) = (IF HasVer(e.enq.oldver) \/ HasVer(e.enq.newver) THEN Matching(e.enq) ELSE {})
EnqueueOnce(e) == e.ev = "enq" => e.enq.nadds = Len(e.enq.reqs)
\* every revision for which the config was or is the selected one is enqueued (p: the vec record of the same event)
Chosen(sel, c) == sel.fwd.v = c \/ sel.rev.v = c
EnqueueCoversSelected(p, e) ==
  (e.ev = "enq" /\ p.ev = "vec" /\ p.scenario = e.scenario) =>
     \A i \in DOMAIN p.vec.revs : (Chosen(p.vec.before[i], e.enq.ic) \/ Chosen(p.vec.after[i], e.enq.ic)) => p.vec.revs[i].name \in Range(e.enq.reqs)

----------------------------------------------------------------------------
(* V2 on enumerated inputs: the real store, both list orders               *)
VSelOK(cfgs, s) ==
  LET C == VCands(cfgs, s.img) IN
  IF C = {} THEN s.v = "none" /\ ~s.verr /\ ~s.hasvc
  ELSE /\ s.v \in Names(BestOf(C, s.img))
       /\ \A c \in C : c.name = s.v => IF c.ver = "cosign" THEN s.hasvc /\ ~s.verr /\ s.vcfg = s.v ELSE s.verr /\ ~s.hasvc
SSelOK(cfgs, s) ==
  LET C == SCands(cfgs, s.img) IN
  IF C = {} THEN s.sby = "none" /\ s.s = "none" /\ ~s.serr
  ELSE s.sby \in Names(BestOf(C, s.img)) /\ ~s.serr /\ \A c \in C : c.name = s.sby => s.s = c.secret
VecAll(e, f(_, _)) == e.ev = "vec" => /\ \A i \in DOMAIN e.vec.before : f(e.vec.cb, e.vec.before[i].fwd) /\ f(e.vec.cb, e.vec.before[i].rev)
                                      /\ \A i \in DOMAIN e.vec.after : f(e.vec.ca, e.vec.after[i].fwd) /\ f(e.vec.ca, e.vec.after[i].rev)
VecSelectLongest(e) == VecAll(e, VSelOK)
VecPullSecretLongest(e) == VecAll(e, SSelOK)
\* F-b (D34, open): the choice does not depend on the order in which the cached client lists the configs
SelectOrderIndependent(e) == e.ev = "vec" => /\ \A i \in DOMAIN e.vec.before : e.vec.before[i].fwd.v = e.vec.before[i].rev.v
                                             /\ \A i \in DOMAIN e.vec.after : e.vec.after[i].fwd.v = e.vec.after[i].rev.v
PullSecretOrderIndependent(e) == e.ev = "vec" => /\ \A i \in DOMAIN e.vec.before : e.vec.before[i].fwd.sby = e.vec.before[i].rev.sby
                                                 /\ \A i \in DOMAIN e.vec.after : e.vec.after[i].fwd.sby = e.vec.after[i].rev.sby

----------------------------------------------------------------------------
(* G1: the gate                                                            *)
RevWork(e) == Rev(e) /\ Saw(e) /\ ~e.seen.paused /\ ~e.seen.del /\ ~e.seen.pcond
Closed(e) == e.feat /\ RevWork(e) /\ ~IsTrue(e.seen.ver) /\ e.seen.des # "Inactive"
Open(e) == RevWork(e) /\ (~e.feat \/ IsTrue(e.seen.ver))
GateNoSeams(e) == (IsSeam(e) /\ Closed(e)) => FALSE
GateNoWrites(e) == (Wrote(e) /\ Closed(e)) => (e.cls = "status" /\ e.kind = "rev")
GateCalls(e) == (IsCall(e) /\ Closed(e)) => e.cls \in {"get", "status"}
GateAwait(e) == (IsCall(e) /\ Closed(e) /\ e.cls = "status" /\ e.outcome = "ok" /\ X(e).ex) => (e.seen.healthy = "none" /\ X(e).healthy = HAwait)
GateSilent(e) == (Step(e) /\ Closed(e) /\ e.seen.healthy # "none") => e.cls = "get"
GateAwaitWritten(e) == (Ended(e) /\ Closed(e) /\ e.clean /\ e.seen.healthy = "none" /\ X(e).ex) => X(e).healthy = HAwait
GateExit(e) == (Ended(e) /\ Closed(e) /\ e.fails = <<>>) => (e.result = "ok" /\ ~e.requeue /\ e.after = 0)
GateOnlyHealthy(p, e) == (Wrote(e) /\ Closed(e) /\ X(p).ex /\ X(e).ex) => (X(e).spec = X(p).spec /\ X(e).meta = X(p).meta /\ V(e) = V(p) /\ X(e).ostatus = X(p).ostatus)
\* verified (or the feature is off): the reconcile proceeds as it always did
GateOpenProceeds(e) ==
  (Ended(e) /\ Open(e) /\ e.clean /\ e.seen.des = "Active" /\ e.seen.img \notin BadRefs) =>
     (Stage(e, "establish:ok") /\ e.result = "ok" /\ X(e).healthy = HTrue /\ e.post.ctl = "r1")
GateOpenDeactivates(e) == (Ended(e) /\ Open(e) /\ e.clean /\ e.seen.des = "Inactive") => (Stage(e, "release:ok") /\ Stage(e, "removeself:ok"))
EstablishControl(e) == (IsSeam(e) /\ e.cls = "establish") => (e.arg.control <=> e.seen.des = "Active")
\* F-a (D33, repaired by a5e0931: holds now): an Inactive revision is deactivated whatever its verdict: an undisturbed reconcile of one that still controls its
\* objects / is still in the Lock ends that (pre: as the reconcile found the world)
GateInactiveDeactivates(e) ==
  (Ended(e) /\ e.feat /\ RevWork(e) /\ ~IsTrue(e.seen.ver) /\ e.clean /\ e.seen.des = "Inactive" /\ (e.pre.ctl = "r1" \/ "r1" \in Range(e.pre.lock))) =>
     (e.post.ctl # "r1" /\ "r1" \notin Range(e.post.lock))
\* the deletion path is not gated
GateDeletingNotGated(e) == (Ended(e) /\ Rev(e) /\ Saw(e) /\ e.seen.del /\ ~e.seen.paused /\ e.clean) => ~X(e).ex
PausedCalls(e) == (Step(e) /\ Rev(e) /\ Saw(e) /\ e.seen.paused) => (IsCall(e) /\ e.cls \in {"get", "status"})
RevQuiescent(e) == (e.ev = "end" /\ Rev(e) /\ e.steady) => e.post.digest = e.prevDigest

----------------------------------------------------------------------------
(* G3: the fixed point that fault-free reconciles reach                    *)
S(e) == e.ev = "settled"
Live(x) == x.ex /\ ~x.paused /\ ~x.pcond /\ ~x.del
SettledStable(e) == S(e) => e.stable
SettledVerdictDefined(e) == (S(e) /\ e.feat /\ X(e).ex /\ X(e).des = "Active") => V(e).st \in Reasons
\* a verdict that is not True is the one the world as it is now calls for
SettledVerdictCurrent(e) ==
  (S(e) /\ e.feat /\ X(e).ex /\ X(e).des = "Active" /\ V(e).st \in {"Failed", "Incomplete"}) =>
     LET C == VCands(e.post.ics, X(e).imgc) IN
     /\ C # {}
     /\ LET B == BestOf(C, X(e).imgc) IN
        /\ V(e).st = "Failed" => (V(e).by \in Names(B) /\ V(e).by \notin Range(e.post.okby) /\ X(e).img \notin BadRefs
                                  /\ \A c \in B : c.name = V(e).by => c.ver = "cosign")
        /\ V(e).st = "Incomplete" => ((\E c \in B : c.ver = "nocosign") \/ X(e).img \in BadRefs)
SettledInstalled(e) ==
  (S(e) /\ Live(X(e)) /\ X(e).des = "Active" /\ (~e.feat \/ IsTrue(V(e))) /\ X(e).img \notin BadRefs) =>
     (X(e).healthy = HTrue /\ X(e).fin /\ e.post.ctl = "r1" /\ "r1" \in Range(e.post.lock))
SettledInactiveDeactivatedOpen(e) ==
  (S(e) /\ Live(X(e)) /\ X(e).des = "Inactive" /\ (~e.feat \/ IsTrue(V(e)))) => (e.post.ctl # "r1" /\ "r1" \notin Range(e.post.lock))
\* F-a (D33)
SettledInactiveDeactivated(e) ==
  (S(e) /\ Live(X(e)) /\ X(e).des = "Inactive" /\ e.feat /\ ~IsTrue(V(e))) => (e.post.ctl # "r1" /\ "r1" \notin Range(e.post.lock))
\* F-a (D33), what it means for the user: the next revision of the package (Active, verified), reconciled once the world has come to
\* rest with the old revision Inactive, becomes healthy (up: how that revision ended up after four reconciles)
UpgradeNotBlocked(e) == (e.ev = "upgrade" /\ X(e).ex /\ X(e).des = "Inactive" /\ Live(X(e))) => e.up.healthy = HTrue
SettledPaused(e) == (S(e) /\ X(e).ex /\ X(e).paused) => X(e).synced = Paused
SettledDeleted(e) == (S(e) /\ X(e).ex /\ X(e).del) => X(e).paused

Viol(name, i) == PrintT("VIOL|" \o name \o "|" \o ToString(i) \o "|" \o Trace[i].scenario)
Check(i) ==
  LET e == Trace[i] IN
  /\ (SigGoneCalls(e) \/ Viol("Sig.Gone.Calls", i))
  /\ (SigGoneExit(e) \/ Viol("Sig.Gone.Exit", i))
  /\ (SigInactiveCalls(e) \/ Viol("Sig.Inactive.Calls", i))
  /\ (SigInactiveExit(e) \/ Viol("Sig.Inactive.Exit", i))
  /\ (SigFinalCalls(e) \/ Viol("Sig.Final.Calls", i))
  /\ (SigFinalExit(e) \/ Viol("Sig.Final.Exit", i))
  /\ (SigEvaluates(e) \/ Viol("Sig.Evaluates", i))
  /\ (VerdictShape(e) \/ Viol("Sig.Verdict.Shape", i))
  /\ (SkippedOnlyIfNoMatch(e) \/ Viol("Sig.Skipped.OnlyIfNoMatch", i))
  /\ (NoMatchSkipped(e) \/ Viol("Sig.NoMatch.Skipped", i))
  /\ (SelectLongest(e) \/ Viol("Sig.Select.Longest", i))
  /\ (NoCosignIncomplete(e) \/ Viol("Sig.NoCosign.Incomplete", i))
  /\ (IncompleteWhy(e) \/ Viol("Sig.Incomplete.Why", i))
  /\ (BadRefIncomplete(e) \/ Viol("Sig.BadRef.Incomplete", i))
  /\ (ValidateRef(e) \/ Viol("Sig.Validate.Ref", i))
  /\ (SecretsOwnKept(e) \/ Viol("Sig.Validate.Secrets.OwnKept", i))
  /\ (SecretsLongest(e) \/ Viol("Sig.Validate.Secrets.Longest", i))
  /\ (SucceededNeedsValidation(e) \/ Viol("Sig.Succeeded.NeedsValidation", i))
  /\ (FailedIffInvalid(e) \/ Viol("Sig.Failed.IffInvalid", i))
  /\ (FailedNames(e) \/ Viol("Sig.Failed.Names", i))
  /\ (ValidatedSucceeds(e) \/ Viol("Sig.Validated.Succeeds", i))
  /\ (SigExitResult(e) \/ Viol("Sig.Exit.Result", i))
  /\ (SigExitInvalid(e) \/ Viol("Sig.Exit.Invalid", i))
  /\ (SigRequeueOnFailure(e) \/ Viol("Sig.Requeue.OnFailure", i))
  /\ (SigNeverPolls(e) \/ Viol("Sig.Requeue.NeverPolls", i))
  /\ (SigWritesOnly(e) \/ Viol("Sig.Writes.OnlyStatus", i))
  /\ (SigOneWrite(e) \/ Viol("Sig.Writes.AtMostOne", i))
  /\ (SigQuiescent(e) \/ Viol("Sig.Quiescent", i))
  /\ (EnqueueExact(e) \/ Viol("Enqueue.Exact", i))
  /\ (EnqueueOnce(e) \/ Viol("Enqueue.Once", i))
  /\ (VecSelectLongest(e) \/ Viol("Select.Longest", i))
  /\ (VecPullSecretLongest(e) \/ Viol("Select.PullSecret.Longest", i))
  /\ (SelectOrderIndependent(e) \/ Viol("Select.OrderIndependent", i))
  /\ (PullSecretOrderIndependent(e) \/ Viol("Select.PullSecret.OrderIndependent", i))
  /\ (GateNoSeams(e) \/ Viol("Gate.Closed.NoSeams", i))
  /\ (GateNoWrites(e) \/ Viol("Gate.Closed.NoWrites", i))
  /\ (GateCalls(e) \/ Viol("Gate.Closed.Calls", i))
  /\ (GateAwait(e) \/ Viol("Gate.Closed.Await", i))
  /\ (GateSilent(e) \/ Viol("Gate.Closed.Silent", i))
  /\ (GateAwaitWritten(e) \/ Viol("Gate.Closed.AwaitWritten", i))
  /\ (GateExit(e) \/ Viol("Gate.Closed.Exit", i))
  /\ (GateOpenProceeds(e) \/ Viol("Gate.Open.Proceeds", i))
  /\ (GateOpenDeactivates(e) \/ Viol("Gate.Open.Deactivates", i))
  /\ (EstablishControl(e) \/ Viol("Gate.Establish.Control", i))
  /\ (GateInactiveDeactivates(e) \/ Viol("Gate.Inactive.Deactivates", i))
  /\ (GateDeletingNotGated(e) \/ Viol("Gate.Deleting.NotGated", i))
  /\ (PausedCalls(e) \/ Viol("Rev.Paused.Calls", i))
  /\ (RevQuiescent(e) \/ Viol("Rev.Quiescent", i))
  /\ (SettledStable(e) \/ Viol("Settled.Stable", i))
  /\ (SettledVerdictDefined(e) \/ Viol("Settled.Verdict.Defined", i))
  /\ (SettledVerdictCurrent(e) \/ Viol("Settled.Verdict.Current", i))
  /\ (SettledInstalled(e) \/ Viol("Settled.Installed", i))
  /\ (SettledInactiveDeactivatedOpen(e) \/ Viol("Settled.Inactive.Deactivated.Verified", i))
  /\ (SettledInactiveDeactivated(e) \/ Viol("Settled.Inactive.Deactivated", i))
  /\ (UpgradeNotBlocked(e) \/ Viol("Settled.Upgrade.NotBlocked", i))
  /\ (SettledPaused(e) \/ Viol("Settled.Paused", i))
  /\ (SettledDeleted(e) \/ Viol("Settled.Deleted", i))
  /\ (e.ev = "reset" \/ i = 1 \/
        LET p == Trace[i - 1] IN
        /\ (SigOnlyVerdict(p, e) \/ Viol("Sig.Writes.OnlyVerdict", i))
        /\ (VerdictChangedOnlyBy(p, e) \/ Viol("Verdict.ChangedOnlyBy", i))
        /\ (RevKeepsVerdict(p, e) \/ Viol("Rev.KeepsVerdict", i))
        /\ (GateOnlyHealthy(p, e) \/ Viol("Gate.Closed.OnlyHealthy", i))
        /\ (EnqueueCoversSelected(p, e) \/ Viol("Enqueue.CoversSelected", i)))

Init == l = 0
Next == /\ l < Len(Trace) /\ l' = l + 1 /\ Check(l')
        /\ (l' < Len(Trace) \/ PrintT("DONE|" \o ToString(l')))
Spec == Init /\ [][Next]_l
=============================================================================
