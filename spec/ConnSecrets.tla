---------------------------- MODULE ConnSecrets ----------------------------
(***************************************************************************)
(* Property C09 "Connection details reach only their owner's secret,       *)
(* filtered, from the right XR".                                           *)
(*                                                                         *)
(* This module holds                                                       *)
(*  (1) the REFERENCE SEMANTICS: the formulas of C09 as predicates over an *)
(*      observation record o (what was supplied, the secrets before and    *)
(*      after, what was returned, which writes reached the store).  They   *)
(*      say nothing about how Crossplane computes anything;                *)
(*  (2) the DESIGN OF THE CODE AS READ (operators Code..): what                  *)
(*      composite.APIFilteredSecretPublisher.PublishConnection,            *)
(*      claim.APIConnectionPropagator.PropagateConnection and              *)
(*      composite.ExtractConnectionDetails do, as a function from an input *)
(*      vector to an observation.  MCConnSecrets checks (1) on (2) for     *)
(*      every vector of the bounded domain (M); MonConnSecrets evaluates   *)
(*      (1) on observations of the REAL code (T, the verdict) and reports  *)
(*      differences between (2) and the real code as drift (information).  *)
(*                                                                         *)
(* Values.  A data map is a function from the key universe of the vector   *)
(* to value atoms, None ("-") = the key is absent.  A secret is            *)
(*   [exists, ctrl, type, data, rv, dig]                                   *)
(* ctrl = alias of the controller owner reference: "none", "plain" (only a *)
(* non-controller owner reference, to the XR), "xr" (the XR that publishes *)
(* / the XR the claim is bound to), "claim", "other" (a foreign UID);      *)
(* type = "conn" (connection.crossplane.io/v1alpha1), "opaque", "none";    *)
(* rv = resourceVersion, dig = digest of the whole stored object.          *)
(*                                                                         *)
(* Interpretations (the readings the authors evidently intended)           *)
(*  - Publishing is a JSON merge patch, so keys written to the XR's secret *)
(*    by earlier publishes stay.  Filtered is therefore stated about what  *)
(*    THIS publish writes (request bodies, and store diff); the            *)
(*    whole-secret form (WholeSecret) is judged only on histories that     *)
(*    start without a secret and keep the XRD filter constant, where every *)
(*    retained key was itself allowed and produced for this XR.            *)
(*  - "may be adopted": a secret without controller reference is adopted   *)
(*    only if it is of the connection type; an uncontrolled secret of any  *)
(*    other type (legacy Opaque) is indistinguishable from a user's secret *)
(*    and resource.ConnectionSecretMustBeControllableBy refuses it.  C09   *)
(*    lists "wrong type" among the pre-existing secrets; we state the      *)
(*    refusal as ForeignUntouched.UncontrolledOpaque.                      *)
(*  - "identical data" compares the secret's current data with the data    *)
(*    this publish / propagation would carry (cmp.Equal with EquateEmpty). *)
(*    A secret holding a strict superset is not identical.                 *)
(*  - "error surfaced": the call returns a non-nil error (the reconcilers  *)
(*    turn it into a Warning event and a ReconcileError condition; the     *)
(*    end-to-end family observes the event).                               *)
(***************************************************************************)
EXTENDS Integers, Sequences, FiniteSets, TLC

None == "-"
Range(s) == {s[i] : i \in DOMAIN s}
Present(m) == {k \in DOMAIN m : m[k] # None}
EmptyLike(m) == [k \in DOMAIN m |-> None]
Merge(old, new) == [k \in DOMAIN old |-> IF new[k] # None THEN new[k] ELSE old[k]]

Sec(c, t, d) == [exists |-> TRUE, ctrl |-> c, type |-> t, data |-> d]
AbsentSec(d) == [exists |-> FALSE, ctrl |-> "none", type |-> "none", data |-> EmptyLike(d)]
Stamp(s, rv) == [exists |-> s.exists, ctrl |-> s.ctrl, type |-> s.type, data |-> s.data,
                 rv |-> (IF s.exists THEN rv ELSE -1), dig |-> (IF s.exists THEN "d" \o ToString(rv) ELSE "absent")]

\* ====================================================== reference semantics
\* the keys the XRD lets through: every supplied key when it lists none
Allowed(filter, details) == IF filter = {} THEN Present(details) ELSE filter
\* what a publish is meant to carry
Desired(filter, details) == [k \in DOMAIN details |-> IF k \in Allowed(filter, details) THEN details[k] ELSE None]

\* o.leg = "publish": destination = the XR's secret (xpre/xpost), owner alias "xr"
\* o.leg = "propagate": source = the XR's secret, destination = the claim's secret (cpre/cpost), owner alias "claim"
Dst(o) == IF o.leg = "publish" THEN "xsec" ELSE "csec"
Owner(o) == IF o.leg = "publish" THEN "xr" ELSE "claim"
DPre(o) == IF o.leg = "publish" THEN o.xpre ELSE o.cpre
DPost(o) == IF o.leg = "publish" THEN o.xpost ELSE o.cpost
Asked(o) == IF o.leg = "publish" THEN o.xwants ELSE o.xwants /\ o.cwants
WritesTo(o, t) == {i \in DOMAIN o.writes : o.writes[i].target = t}
AppliedWrites(o) == {i \in DOMAIN o.writes : o.writes[i].applied}
Untouched(pre, post) == pre.exists = post.exists /\ pre.dig = post.dig /\ pre.rv = post.rv
SourceOwned(o) == o.xpre.exists /\ o.xpre.ctrl = "xr"
\* the data this step is meant to put into its destination
Carried(o) == IF o.leg = "publish" THEN Desired(Range(o.filter), o.details) ELSE o.xpre.data
IsPub(o) == o.leg = "publish"
IsProp(o) == o.leg = "propagate"
IsStore(o) == IsPub(o) \/ IsProp(o)

\* ---- Filtered: "contains only keys the XRD allows (all keys when the XRD lists none) and only values produced by the composition for this XR"
\* request bodies that reached the API server
FilteredBody(o) ==
  IsPub(o) => \A i \in WritesTo(o, "xsec") : \A k \in Present(o.writes[i].data) :
                 k \in Allowed(Range(o.filter), o.details) /\ o.writes[i].data[k] = o.details[k]
\* the store: every key of the secret is either exactly what was there before or an allowed, supplied detail
FilteredStore(o) ==
  IsPub(o) => \A k \in Present(o.xpost.data) :
                 \/ (k \in Present(o.xpre.data) /\ o.xpost.data[k] = o.xpre.data[k])
                 \/ (k \in Allowed(Range(o.filter), o.details) /\ o.xpost.data[k] = o.details[k])
\* whole-secret form, on histories with a constant filter that started without a secret (o.fresh):
\* every key is allowed by the XRD and its value was produced by the composition for this XR
WholeSecret(o) ==
  (IsPub(o) /\ o.fresh) => \A k \in Present(o.xpost.data) :
                 /\ (Range(o.filter) = {} \/ k \in Range(o.filter))
                 /\ \E p \in Range(o.produced) : p.k = k /\ p.v = o.xpost.data[k]

\* ---- OnlyIfAsked: "it is written only if the XR asks for one" (and the claim leg: only if both ends have a reference)
OnlyIfAsked(o) ==
  (IsStore(o) /\ ~Asked(o)) => /\ Len(o.writes) = 0
                               /\ Untouched(o.xpre, o.xpost) /\ Untouched(o.cpre, o.cpost)
                               /\ ~o.published

\* ---- ExactCopy: "a claim's connection secret is an exact copy of its bound XR's secret, made only if that secret is controlled by that XR"
ClaimWritten(o) == ~Untouched(o.cpre, o.cpost) \/ \E i \in WritesTo(o, "csec") : o.writes[i].applied
ExactCopy(o) == (IsProp(o) /\ ClaimWritten(o)) => (SourceOwned(o) /\ o.cpost.exists /\ o.cpost.data = o.xpre.data)
\* ---- NoRead: "a claim can never use Crossplane to read a secret its XR does not own"
NoRead(o) == (IsProp(o) /\ Asked(o) /\ ~SourceOwned(o)) =>
               /\ Untouched(o.cpre, o.cpost)
               /\ WritesTo(o, "csec") \cap AppliedWrites(o) = {}
               /\ o.err # ""
               /\ ~o.published

\* ---- NoRewrite: "identical data is never rewritten"
Identical(o) == /\ Asked(o) /\ DPre(o).exists /\ DPre(o).data = Carried(o)
                /\ (IsProp(o) => SourceOwned(o))
NoRewriteWrite(o) == (IsStore(o) /\ Identical(o)) => (WritesTo(o, Dst(o)) = {} /\ DPost(o).rv = DPre(o).rv)
NoRewritePublished(o) == (IsStore(o) /\ Identical(o)) => ~o.published

\* ---- ForeignUntouched (C02 placements "XR connection secret name", "claim secret name")
\* what resource.ConnectionSecretMustBeControllableBy demands: controlled by the owner, or uncontrolled AND of the connection type
ForeignCtrl(o) == DPre(o).exists /\ DPre(o).ctrl \notin {"none", "plain", Owner(o)}
UncontrolledOpaque(o) == DPre(o).exists /\ DPre(o).ctrl \in {"none", "plain"} /\ DPre(o).type # "conn"
Refused(o) == /\ Untouched(DPre(o), DPost(o))
              /\ WritesTo(o, Dst(o)) \cap AppliedWrites(o) = {}
              /\ ~o.published
\* the conflict surfaces when the step got as far as the destination
ReachesDst(o) == Asked(o) /\ (IsProp(o) => SourceOwned(o))
ForeignUntouched(o) == (IsStore(o) /\ ForeignCtrl(o)) => (Refused(o) /\ (ReachesDst(o) => o.err # ""))
ForeignOpaque(o) == (IsStore(o) /\ UncontrolledOpaque(o)) => (Refused(o) /\ (ReachesDst(o) => o.err # ""))

\* ---- OwnerOnly: "reach only their owner's secret": nothing but the owner's own secret is written, and what is written is the owner's
OwnerOnly(o) ==
  IsStore(o) => /\ \A i \in DOMAIN o.writes : o.writes[i].target = Dst(o)
                /\ (IsPub(o) => Untouched(o.cpre, o.cpost))
                /\ (IsProp(o) => Untouched(o.xpre, o.xpost))
                /\ o.bypre = o.bypost
                /\ (~Untouched(DPre(o), DPost(o)) => (DPost(o).exists /\ DPost(o).ctrl = Owner(o)))

\* ---- Extract: "ExtractConnectionDetails returns exactly the configured keys that can be resolved; missing optional sources omitted"
\* a config is [tp, name, arg]; arg "nil" = the field its type needs is not set
PathVal(p) == CASE p = "pstr" -> "v1" [] p = "pnum" -> "j42" [] p = "pobj" -> "jobj" [] OTHER -> None
Resolve(c, cdata) ==
  CASE c.tp = "value" -> c.arg
    [] c.tp = "key"   -> (IF c.arg \in DOMAIN cdata THEN cdata[c.arg] ELSE None)
    [] c.tp = "path"  -> PathVal(c.arg)
    [] OTHER -> None
Resolvable(c, cdata) == Resolve(c, cdata) # None
Malformed(c) == c.name = "" \/ (c.tp \in {"value", "key", "path"} /\ c.arg = "nil")
ResolvedNames(cfgs, cdata) == {cfgs[i].name : i \in {j \in DOMAIN cfgs : Resolvable(cfgs[j], cdata)}}
IsExt(o) == o.leg = "extract"
ExtractKeys(o) == (IsExt(o) /\ ~o.xerr) => Present(o.xout) = ResolvedNames(o.cfgs, o.cdata)
ExtractValues(o) == (IsExt(o) /\ ~o.xerr) => \A k \in Present(o.xout) :
                       \E i \in DOMAIN o.cfgs : o.cfgs[i].name = k /\ Resolvable(o.cfgs[i], o.cdata) /\ Resolve(o.cfgs[i], o.cdata) = o.xout[k]
\* a failed extraction hands nothing on
ExtractErrorEmpty(o) == (IsExt(o) /\ o.xerr) => Present(o.xout) = {}

AllFormulas(o) ==
  /\ FilteredBody(o) /\ FilteredStore(o) /\ WholeSecret(o) /\ OnlyIfAsked(o) /\ ExactCopy(o) /\ NoRead(o)
  /\ NoRewriteWrite(o) /\ NoRewritePublished(o) /\ ForeignUntouched(o) /\ ForeignOpaque(o) /\ OwnerOnly(o)
  /\ ExtractKeys(o) /\ ExtractValues(o) /\ ExtractErrorEmpty(o)

\* ================================================ design of the code as read
Controllable(s, owner) == \/ s.ctrl = owner
                          \/ (s.ctrl \in {"none", "plain"} /\ s.type = "conn")
W(verb, target, pre, post, d) == [verb |-> verb, target |-> target, applied |-> (pre # post), noop |-> (pre = post), data |-> d]

\* resource.Applicator.Apply(desired, ConnectionSecretMustBeControllableBy(owner), AllowUpdateIf(data differs)):
\* Get; absent -> Create; options against the CURRENT object; then merge-patch (publisher) or Update (propagator)
CodeApply(cur, owner, target, des, merge) ==
  LET keep == [published |-> FALSE, err |-> "", post |-> cur, writes |-> <<>>]
      new == Sec(owner, "conn", IF merge THEN Merge(cur.data, des) ELSE des)
  IN IF ~cur.exists
       THEN [published |-> TRUE, err |-> "", post |-> Sec(owner, "conn", des), writes |-> <<W("create", target, cur, Sec(owner, "conn", des), des)>>]
     ELSE IF ~Controllable(cur, owner) THEN [keep EXCEPT !.err = "notcontrollable"]
     ELSE IF cur.data = des THEN keep
     ELSE [published |-> TRUE, err |-> "", post |-> new,
           writes |-> <<W(IF merge THEN "patch-merge" ELSE "update", target, cur, new, des)>>]

\* common shape of an observation
Obs(leg, in, r, xpost, cpost) ==
  [leg |-> leg, details |-> in.details, filter |-> in.filter, xwants |-> in.xwants, cwants |-> in.cwants,
   xpre |-> Stamp(in.xsec, 1), xpost |-> Stamp(xpost, IF xpost = in.xsec THEN 1 ELSE 2),
   cpre |-> Stamp(in.csec, 1), cpost |-> Stamp(cpost, IF cpost = in.csec THEN 1 ELSE 2),
   bypre |-> "b", bypost |-> "b", published |-> r.published, err |-> r.err, writes |-> r.writes,
   fresh |-> FALSE, produced |-> <<>>, cfgs |-> in.cfgs, cdata |-> in.cdata, xout |-> EmptyLike(in.cdata), xerr |-> FALSE]

\* in.filter is a set in the model and a sequence in a recorded observation: the formulas use Range(o.filter)
SetToSeq(S) == LET RECURSIVE F(_)
                   F(T) == IF T = {} THEN <<>> ELSE LET x == CHOOSE y \in T : TRUE IN <<x>> \o F(T \ {x})
               IN F(S)

CodePublish(in) ==
  LET nothing == [published |-> FALSE, err |-> "", post |-> in.xsec, writes |-> <<>>]
      r == IF ~in.xwants THEN nothing
           ELSE CodeApply(in.xsec, "xr", "xsec", Desired(in.filter, in.details), TRUE)
  IN Obs("publish", [in EXCEPT !.filter = SetToSeq(in.filter)], r, r.post, in.csec)

CodePropagate(in) ==
  LET nothing == [published |-> FALSE, err |-> "", post |-> in.csec, writes |-> <<>>]
      r == IF ~in.xwants \/ ~in.cwants THEN nothing
           ELSE IF ~in.xsec.exists THEN [nothing EXCEPT !.err = "nosource"]
           ELSE IF in.xsec.ctrl # "xr" THEN [nothing EXCEPT !.err = "srcnotowned"]
           ELSE CodeApply(in.csec, "claim", "csec", in.xsec.data, FALSE)
  IN Obs("propagate", [in EXCEPT !.filter = SetToSeq(in.filter)], r, in.xsec, r.post)

\* ExtractConnectionDetails: configs in order, the first malformed one aborts; unresolvable ones are skipped; later wins
RECURSIVE ExtractFrom(_, _, _, _)
ExtractFrom(cfgs, i, cdata, acc) ==
  IF i > Len(cfgs) THEN [xerr |-> FALSE, xout |-> acc]
  ELSE IF Malformed(cfgs[i]) THEN [xerr |-> TRUE, xout |-> EmptyLike(acc)]
  ELSE IF Resolvable(cfgs[i], cdata) /\ cfgs[i].name \in DOMAIN acc
         THEN ExtractFrom(cfgs, i + 1, cdata, [acc EXCEPT ![cfgs[i].name] = Resolve(cfgs[i], cdata)])
  ELSE ExtractFrom(cfgs, i + 1, cdata, acc)
CodeExtract(in) ==
  LET r == ExtractFrom(in.cfgs, 1, in.cdata, EmptyLike(in.cdata))
      nothing == [published |-> FALSE, err |-> "", writes |-> <<>>]
  IN [Obs("extract", [in EXCEPT !.filter = SetToSeq(in.filter)], nothing, in.xsec, in.csec) EXCEPT !.xout = r.xout, !.xerr = r.xerr]

Code(in) == CASE in.fam = "publish" -> CodePublish(in)
              [] in.fam = "propagate" -> CodePropagate(in)
              [] in.fam = "extract" -> CodeExtract(in)
=============================================================================
