SPECIFICATION Spec
CONSTANTS
  RTypes = {"Provider", "Configuration"}
  Streams <- StreamsFixed
  ConsIgn <- ConsFew
  Verifs <- VerifFew
  Cache0 <- CacheAll
  MaxRecs = 3
  MaxFaults = 2
  MaxSig = 1
  MaxEnv = 1
  SrcFaults = TRUE
  StoreFaults <- AllStoreFaults
  DelFaults = TRUE
  ApiCrash = TRUE
  FixTee = TRUE
VIEW view
CHECK_DEADLOCK FALSE
INVARIANTS Exact CacheSound Gate NoWellFormedPrefix
