----------------------------- MODULE MonPatches -----------------------------
(***************************************************************************)
(* Trace monitor for C10.  Every trace line is one input vector of         *)
(* MCPatches together with what the real code did with it, twice           *)
(* (harness/drivers/patches): e.input = the vector, e.out / e.out2 = the   *)
(* projected outcome of the first / second run on fresh equal inputs.      *)
(* The formulas are evaluated on every line with the reference semantics   *)
(* of Patches.tla; a false formula prints VIOL|<name>|<line>|<scenario>.   *)
(*                                                                         *)
(* Formulas (C10 text in quotes)                                           *)
(*  Total.Transform / Total.Patch / Total.Render   "never panics": every   *)
(*      call returned a value or an error (a recovered panic is recorded   *)
(*      as outcome "panic").  Total.RegexpNegativeGroup is the same        *)
(*      formula on the cell classified - on the INPUT - as "a string       *)
(*      transform of type Regexp with a negative group is evaluated"       *)
(*      (suspected defect D1), so that D1 can be fingerprinted without     *)
(*      hiding any other panic.                                            *)
(*  Determinism    "apart from generated names, is a pure function of the  *)
(*      XR, the template and the existing composed resource": both runs    *)
(*      give the same projected outcome (composed resource names are       *)
(*      abstracted to o1, o2, ... by first appearance).                    *)
(*  SourcePure     "patches read but never modify their source object":    *)
(*      digest of the source before = after (also: a transform does not    *)
(*      modify its input value; metadata rendering does not modify the XR).*)
(*  OptionalNoop   "an optional patch whose source path is missing is a    *)
(*      no-op": policy unset / Optional and the source path missing =>     *)
(*      no error and the target is unchanged.                              *)
(*  RequiredErr    "and a required one is an error".                       *)
(*  ConvertLaw.<From><To>, ConvertLaw.RoundTrip, Meaning.Math / Map /      *)
(*  Match / String / Chain / Type, MathLaw.ClampFractional                 *)
(*      "Transforms agree with their documented meaning (for example       *)
(*      convert round-trips ... preserve the value)": the real outcome     *)
(*      equals the reference value / is an error where Patches.tla says    *)
(*      Val / ErrX; nothing is asserted where it says AnyX.                *)
(*  Patch.Copies, Patch.Transforms, Patch.Invalid, Combine.Format,         *)
(*  MergeLaw.Replace / Override / KeepMapValues / AppendSlice              *)
(*      documented meaning of the patch types (toFieldPath defaulting,     *)
(*      wildcards, bracketed paths, transforms applied as a FIFO pipe,     *)
(*      merge options).                                                    *)
(*  Render.Filter, Render.LastWins   RenderFrom/ToCompositePatches apply   *)
(*      exactly the patches of their direction, in order.                  *)
(*  Metadata.MissingLabel / Rendered / ForeignController,                  *)
(*  PatchSet.Inline / Invalid        metadata rendering and PatchSet       *)
(*      dereferencing.                                                     *)
(*  HalfRendered.NoWrite / Untouched / OthersApplied / RefKept             *)
(*      "A composed resource for which any from-XR patch, metadata         *)
(*      rendering or name generation failed is not created or updated in   *)
(*      that reconcile, while the other resources still are" (and its      *)
(*      reference is kept), on the write log of the real PTComposer.       *)
(* Interpretations                                                         *)
(*  - "missing" = the path does not exist in the source: absent field,     *)
(*    index beyond the array, a path below null.  A path that runs through *)
(*    a scalar, a wildcard used as a source, an unparsable or empty path   *)
(*    are not "missing" (the code returns an error for every policy); only *)
(*    totality, purity and determinism are required there.                 *)
(*  - a Combine patch is optional-missing when the first variable that is  *)
(*    not present is missing.                                              *)
(*  - outputs compared by Determinism exclude error message texts.         *)
(***************************************************************************)
EXTENDS Patches, Json, IOUtils

Trace == ndJsonDeserialize(IOEnv.VERIF_TRACE)
VARIABLE l
Range(s) == {s[k] : k \in DOMAIN s}

\* ---- anti-vacuity: how often each formula's antecedent was true (TLC registers, printed at the end)
Counters == <<"Total", "Determinism", "SourcePure", "OptionalNoop", "RequiredErr", "Meaning.val", "Meaning.err", "Meaning.any",
              "ConvertLaw", "ConvertLaw.RoundTrip", "Patch.Copies", "Patch.Transforms", "Patch.Invalid", "Combine.Format", "MergeLaw",
              "Render.Filter", "Render.LastWins", "Metadata", "PatchSet", "HalfRendered.NoWrite", "HalfRendered.OthersApplied",
              "HalfRendered.RefKept", "NegativeGroupReached">>
Reg(name) == CHOOSE k \in DOMAIN Counters : Counters[k] = name
Hit(name) == TLCSet(Reg(name), TLCGet(Reg(name)) + 1)
Viol(name, i) == PrintT("VIOL|" \o name \o "|" \o ToString(i) \o "|" \o Trace[i].scenario)
Ok(o) == o.outcome \in {"ok", "error"}

\* ------------------------------------------------------------- transform
HasNegGroup(ch) == \E k \in DOMAIN ch : NegativeGroup(ch[k])
CheckTransform(e, i) ==
  LET in == e.input
      x == ChainExpect(in.chain, in.val)
      law == LawName(in.chain, in.val)
      neg == ReachedNegGroup(in.chain, in.val) IN
  /\ Hit("Total")
  /\ (neg => Hit("NegativeGroupReached"))
  /\ ((Ok(e.out) /\ Ok(e.out2)) \/ Viol(IF neg THEN "Total.RegexpNegativeGroup" ELSE "Total.Transform", i))
  /\ Hit("SourcePure") /\ (e.out.srcBefore = e.out.srcAfter \/ Viol("SourcePure", i))
  /\ Hit("Meaning." \o x.k)
  /\ ((law = "ConvertLaw.RoundTrip" /\ x.k = "val") => Hit("ConvertLaw.RoundTrip"))
  /\ ((Len(in.chain) = 1 /\ in.chain[1].ty = "convert" /\ x.k = "val") => Hit("ConvertLaw"))
  /\ (CASE x.k = "val" -> ((e.out.outcome = "ok" /\ SameVal(e.out.v, x.v)) \/ Viol(law, i))
        [] x.k = "err" -> (e.out.outcome # "ok" \/ Viol(law, i))
        [] OTHER -> TRUE)

\* ----------------------------------------------------------------- patch
Unchanged(o) == o.tgtBefore = o.tgtAfter
CheckPatch(e, i) ==
  LET p == e.input.p
      v == e.input.val
      o == e.out
      land == Landing(p, CanonJson(v))
      x == ChainExpect(p.chain, v)
      cell == MergeCell(p, v)
      comb == CombineText(p, v)
      field == p.ptype \in FieldTypes
      plainSrc == field /\ IsPresent(p.from) IN
  /\ Hit("Total")
  /\ ((Ok(o) /\ Ok(e.out2)) \/ Viol(IF HasNegGroup(p.chain) THEN "Total.RegexpNegativeGroup" ELSE "Total.Patch", i))
  /\ Hit("SourcePure") /\ (o.srcBefore = o.srcAfter \/ Viol("SourcePure", i))
  /\ ((MissingSource(p) /\ Optional(p)) => (Hit("OptionalNoop") /\ ((o.outcome = "ok" /\ Unchanged(o)) \/ Viol("OptionalNoop", i))))
  /\ ((MissingSource(p) /\ ~Optional(p)) => (Hit("RequiredErr") /\ (o.outcome = "error" \/ Viol("RequiredErr", i))))
  /\ ((plainSrc /\ p.chain = <<>> /\ p.mo = "nil" /\ land.at # "none" /\ CanonKnown(v)) =>
        (Hit("Patch.Copies") /\ ((o.outcome = "ok" /\ o.at[land.at] = land.txt) \/ Viol("Patch.Copies", i))))
  /\ ((plainSrc /\ p.chain # <<>> /\ p.to.k = "plain" /\ p.mo = "nil" /\ x.k = "val" /\ CanonKnown(x.v)) =>
        (Hit("Patch.Transforms") /\ ((o.outcome = "ok" /\ o.at["out"] = CanonJson(x.v)) \/
           Viol(IF ReachedFractionalClamp(p.chain, v) THEN "MathLaw.ClampFractional" ELSE "Patch.Transforms", i))))
  /\ ((plainSrc /\ p.chain # <<>> /\ x.k = "err") =>
        (Hit("Patch.Transforms") /\ (o.outcome # "ok" \/ Viol("Patch.Transforms", i))))
  /\ ((plainSrc /\ p.chain = <<>> /\ cell # "") =>
        (Hit("MergeLaw") /\ ((o.outcome = "ok" /\ o.at[p.to.k] = cell) \/
           Viol(CASE p.mo = "nil" -> "MergeLaw.Replace" [] p.mo = "empty" -> "MergeLaw.Override" [] p.mo \in {"keep", "both"} -> "MergeLaw.KeepMapValues"
                  [] OTHER -> "MergeLaw.AppendSlice", i))))
  /\ ((p.ptype \in CombineTypes /\ WellFormed(p) /\ FirstNotPresent(p) = "none" /\ comb.ok /\ p.chain = <<>> /\ p.to.k = "plain" /\ AllIn(comb.cs, SafeSet)) =>
        (Hit("Combine.Format") /\ ((o.outcome = "ok" /\ o.at["out"] = JsonQuote(comb.cs)) \/ Viol("Combine.Format", i))))
  \* "Required when type is FromCompositeFieldPath or ToCompositeFieldPath"; Validate: combine / toFieldPath must be set, MinItems=1; unknown type
  /\ (((field /\ ~p.from.set) \/ (p.ptype \in CombineTypes /\ (p.cstrat = "nocombine" \/ ~p.to.set \/ p.vars = <<>>)) \/ p.ptype = "Bogus") =>
        (Hit("Patch.Invalid") /\ (o.outcome = "error" \/ Viol("Patch.Invalid", i))))

\* ---------------------------------------------------------------- rpatch
Active(dir, p) == p.ptype \in (IF dir = "from" THEN FromXRTypes ELSE ToXRTypes)
IsCopy(p) == p.ptype \in FieldTypes /\ IsPresent(p.from) /\ p.chain = <<>> /\ p.mo = "nil" /\ p.to.k = "plain"
CheckRPatch(e, i) ==
  LET in == e.input
      o == e.out
      act == {k \in DOMAIN in.ps : Active(in.dir, in.ps[k])}
      last == CHOOSE k \in act : \A m \in act : m <= k IN
  /\ Hit("Total") /\ ((Ok(o) /\ Ok(e.out2)) \/ Viol("Total.Render", i))
  /\ Hit("SourcePure") /\ (o.srcBefore = o.srcAfter \/ Viol("SourcePure", i))
  /\ (act = {} => (Hit("Render.Filter") /\ ((o.outcome = "ok" /\ Unchanged(o)) \/ Viol("Render.Filter", i))))
  /\ ((\E k \in act : MissingSource(in.ps[k]) /\ ~Optional(in.ps[k])) => (Hit("RequiredErr") /\ (o.outcome = "error" \/ Viol("RequiredErr", i))))
  /\ ((act # {} /\ \A k \in act : MissingSource(in.ps[k]) /\ Optional(in.ps[k])) =>
        (Hit("OptionalNoop") /\ ((o.outcome = "ok" /\ Unchanged(o)) \/ Viol("OptionalNoop", i))))
  /\ ((act # {} /\ CanonKnown(in.val) /\ \A k \in act : IsCopy(in.ps[k])) =>
        (Hit("Render.LastWins") /\ ((o.outcome = "ok" /\ o.at["out"] = (IF in.ps[last].from.k = "str" THEN "\"s\"" ELSE CanonJson(in.val))) \/ Viol("Render.LastWins", i))))

\* ------------------------------------------------------------------ meta
\* "Fail early if the supplied composite resource is missing the name prefix label"; "It makes the composite resource the
\* controller of the composed resource"; generate name = prefix-; template name annotation; the claim labels are copied
CheckMeta(e, i) ==
  LET in == e.input
      o == e.out IN
  /\ Hit("Total") /\ ((Ok(o) /\ Ok(e.out2)) \/ Viol("Total.Render", i))
  /\ Hit("SourcePure") /\ (o.srcBefore = o.srcAfter \/ Viol("SourcePure", i))
  /\ Hit("Metadata")
  /\ (in.label \in {"empty", "missing"} => (o.outcome = "error" \/ Viol("Metadata.MissingLabel", i)))
  /\ ((in.label = "present" /\ in.ctrl # "other") =>
        ((/\ o.outcome = "ok" /\ o.ctrl = "xr-uid" /\ o.gen = "xr1-" /\ o.lbl = "xr1"
          /\ (in.rname # "" => o.ann = in.rname)
          /\ (in.claim => (o.claimName = "claim1" /\ o.claimNS = "ns1"))) \/ Viol("Metadata.Rendered", i)))
  /\ ((in.label = "present" /\ in.ctrl = "other") => ((o.outcome = "error" /\ o.ctrl = "other-uid") \/ Viol("Metadata.ForeignController", i)))

\* ------------------------------------------------------------------ tmpl
\* "returns the supplied composed resource templates with any supplied patchsets dereferenced"
F(x) == "FromCompositeFieldPath:" \o x
TmplExpect(shape) ==
  CASE shape = "ok" -> <<<<F("x"), F("a"), F("b"), F("y")>>>>
    [] shape = "two" -> <<<<F("b"), F("a")>>, <<F("a")>>>>
    [] shape = "none" -> <<<<F("x")>>>>
    [] OTHER -> <<>>
CheckTmpl(e, i) ==
  LET in == e.input
      o == e.out IN
  /\ Hit("Total") /\ ((Ok(o) /\ Ok(e.out2)) \/ Viol("Total.Render", i))
  /\ Hit("PatchSet")
  /\ (in.shape \in {"ok", "two", "none"} => ((o.outcome = "ok" /\ o.ids = TmplExpect(in.shape)) \/ Viol("PatchSet.Inline", i)))
  /\ (in.shape \in {"undefined", "noname", "nested"} => (o.outcome = "error" \/ Viol("PatchSet.Invalid", i)))

\* --------------------------------------------------------------- compose
WriteVerbs == {"create", "update", "patch-merge", "patch-apply", "patch-json", "patch"}
CheckCompose(e, i) ==
  LET in == e.input
      o == e.out
      all == Templates(in.n)
      failing == FailingTemplates(in)
      ws == Range(o.writes)
      st(t) == CHOOSE s \in Range(o.stored) : s.tpl = t
      ix(t) == CHOOSE k \in 1..in.n : t = "t" \o ToString(k) IN
  /\ Hit("Total") /\ ((Ok(o) /\ Ok(e.out2)) \/ Viol("Total.Render", i))
  /\ (o.outcome \in {"ok", "error", "panic"} \/ Viol("Harness.Setup", i))
  /\ (Ok(o) =>
      \* no Create / Patch / Update / Delete of a template that failed to render: every write of the judged Compose
      \* belongs to a template that rendered
      /\ (failing # {} => Hit("HalfRendered.NoWrite"))
      /\ ((\A w \in ws : w.tpl \in all \ failing) \/ Viol("HalfRendered.NoWrite", i))
      /\ ((\A t \in failing : IF in.phase = "create" \/ in.kind \in {"namegen", "namegen-nomatch"} THEN ~st(t).exists ELSE (st(t).exists /\ st(t).size = "large"))
            \/ Viol("HalfRendered.Untouched", i))
      \* "while the other resources still are": a render failure is not terminal and every other template is applied
      /\ ((all \ failing) # {} => Hit("HalfRendered.OthersApplied"))
      /\ ((/\ o.outcome = "ok"
           /\ \A t \in all \ failing : /\ \E w \in ws : w.tpl = t /\ w.verb \in WriteVerbs /\ w.applied
                                       /\ st(t).exists /\ st(t).size = o.wantSize)
            \/ Viol("HalfRendered.OthersApplied", i))
      \* the reference of every template is kept (one entry per template, an existing name is not dropped)
      /\ Hit("HalfRendered.RefKept")
      /\ ((/\ Len(o.refsAfter) = in.n
           /\ \A t \in all : o.refsBefore[ix(t)] # "" => o.refsAfter[ix(t)] = o.refsBefore[ix(t)])
            \/ Viol("HalfRendered.RefKept", i)))

\* ------------------------------------------------------------------ all
Check(i) ==
  LET e == Trace[i] IN
  /\ Hit("Determinism") /\ (e.out = e.out2 \/ Viol("Determinism", i))
  /\ (CASE e.fam = "transform" -> CheckTransform(e, i)
        [] e.fam = "patch" -> CheckPatch(e, i)
        [] e.fam = "render" /\ e.sub = "rpatch" -> CheckRPatch(e, i)
        [] e.fam = "render" /\ e.sub = "meta" -> CheckMeta(e, i)
        [] e.fam = "render" /\ e.sub = "tmpl" -> CheckTmpl(e, i)
        [] e.fam = "render" /\ e.sub = "compose" -> CheckCompose(e, i)
        [] OTHER -> Viol("Harness.UnknownFamily", i))

PrintCounts == \A k \in DOMAIN Counters : PrintT("COUNT|" \o Counters[k] \o "|" \o ToString(TLCGet(k)))
Init == l = 0 /\ \A k \in DOMAIN Counters : TLCSet(k, 0)
Next == /\ l < Len(Trace) /\ l' = l + 1 /\ Check(l')
        /\ (l' < Len(Trace) \/ (PrintCounts /\ PrintT("DONE|" \o ToString(l'))))
Spec == Init /\ [][Next]_l
=============================================================================
