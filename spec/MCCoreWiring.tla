---------------------------- MODULE MCCoreWiring ----------------------------
(***************************************************************************)
(* X12 vector model: enumerates the input vectors of the two families and   *)
(* emits each as a "VEC" line (environment choices only: flags and options; *)
(* the expected wiring stays in CoreWiring.tla and is applied to the real   *)
(* observations by MonCoreWiring.tla).                                      *)
(*                                                                          *)
(*  fam "core"  feature flags x poll interval x concurrency x XRD shape     *)
(*              (offers a claim, filters connection secret keys)            *)
(*  fam "rbac"  allow-list ClusterRole x default registry x poll x conc     *)
(*                                                                          *)
(* The Compute step evaluates the reference on the input, so that TLC       *)
(* checks the reference itself (design level):                              *)
(*   RefLocality   a flag changes only the parts it is about (R4)           *)
(*   RefMonotone   enabling a flag only adds components, in order           *)
(*   RefBaseline   no flag = the defaults (Kubernetes secrets, client-side  *)
(*                 apply, polling, no usage controller, no schema checks)   *)
(*   RefNeverBlind every controller is told about its own kind and about    *)
(*                 everything it produces; a controller that polls still    *)
(*                 watches its primary kind (R1)                            *)
(*   RefClientSplit (an ASSUME) the clients of static and started            *)
(*                 controllers are disjoint (R3)                            *)
(* Witness (expected to FAIL, MCCoreWiring_witness_flags.cfg):              *)
(*   FlagsIrrelevant - the reference would be the same for every vector.    *)
(***************************************************************************)
EXTENDS CoreWiring, TLC, Json

CONSTANTS FlagSets,     \* set of records [usages, ssa, ess, rt, schema]
          PollChoices, ConcChoices, ClaimChoices, KeyChoices,
          AllowChoices, RegChoices

VARIABLES input, exp, done
vars == <<input, exp, done>>

AllFlags == [usages : BOOLEAN, ssa : BOOLEAN, ess : BOOLEAN, rt : BOOLEAN, schema : BOOLEAN]
\* a covering subset: all off, all on, each flag alone on, each flag alone off
NoFlag  == [usages |-> FALSE, ssa |-> FALSE, ess |-> FALSE, rt |-> FALSE, schema |-> FALSE]
Flip(f, n) == [f EXCEPT ![n] = ~f[n]]
FlagNames == {"usages", "ssa", "ess", "rt", "schema"}
AllOn   == [usages |-> TRUE, ssa |-> TRUE, ess |-> TRUE, rt |-> TRUE, schema |-> TRUE]
FewFlags == {NoFlag, AllOn} \cup {Flip(NoFlag, n) : n \in FlagNames} \cup {Flip(AllOn, n) : n \in FlagNames}

Polls2  == {37, 113}
Polls1  == {37}
Concs1  == {3}
Concs3  == {1, 3, 5}
Both    == {TRUE, FALSE}
OnlyT   == {TRUE}
OnlyF   == {FALSE}
Allows2 == {"none", "allow-role"}
Regs2   == {"xpkg.upbound.io", "reg.example.org"}
Regs1   == {"xpkg.upbound.io"}

CoreInput(x) ==
  \E f \in FlagSets : \E p \in PollChoices : \E c \in ConcChoices : \E cl \in ClaimChoices : \E k \in KeyChoices :
    x = [fam |-> "core", usages |-> f.usages, ssa |-> f.ssa, ess |-> f.ess, rt |-> f.rt, schema |-> f.schema,
         poll |-> p, conc |-> c, claim |-> cl, keys |-> k, allow |-> "none", reg |-> "xpkg.upbound.io"]

RbacInput(x) ==
  \E a \in AllowChoices : \E r \in RegChoices : \E p \in PollChoices : \E c \in ConcChoices :
    x = [fam |-> "rbac", usages |-> FALSE, ssa |-> FALSE, ess |-> FALSE, rt |-> FALSE, schema |-> FALSE,
         poll |-> p, conc |-> c, claim |-> FALSE, keys |-> FALSE, allow |-> a, reg |-> r]

IsInput(x) == CoreInput(x) \/ RbacInput(x)

NoExp == [controllers |-> {}]
Init == IsInput(input) /\ exp = NoExp /\ done = FALSE
Compute == ~done /\ done' = TRUE /\ exp' = Parts(input) /\ UNCHANGED input
Spec == Init /\ [][Compute]_vars

Emit == PrintT(<<"VEC", ToJson(input)>>)

-----------------------------------------------------------------------------
(* the reference checked at design level *)
FlagsOf(in) == [usages |-> in.usages, ssa |-> in.ssa, ess |-> in.ess, rt |-> in.rt, schema |-> in.schema]
WithFlag(in, n) == [in EXCEPT ![n] = ~in[n]]

\* the fields of Parts a flag is about
About(n) ==
  CASE n = "usages" -> {"controllers"}
    [] n = "ssa"    -> {"syncer", "upgrader"}
    [] n = "ess"    -> {"publishers", "fetchers", "configurators", "propagator", "unpublisher"}
    [] n = "rt"     -> {"starter", "gc", "index", "watched"}
    [] n = "schema" -> {"hookIndex", "hookSchema"}
PartNames == DOMAIN Parts(NoFlag @@ [fam |-> "core", keys |-> FALSE, allow |-> "none"])

RefLocality ==
  (done /\ input.fam = "core") =>
    \A n \in FlagNames :
      LET other == Parts(WithFlag(input, n)) IN
      /\ \A f \in PartNames \ About(n) : exp[f] = other[f]
      /\ \E f \in About(n) : exp[f] # other[f]

IsPrefix(s, t) == Len(s) <= Len(t) /\ \A i \in DOMAIN s : s[i] = t[i]
RefMonotone ==
  (done /\ input.fam = "core") =>
    LET off == Parts([input EXCEPT !.ess = FALSE])
        on  == Parts([input EXCEPT !.ess = TRUE]) IN
    /\ IsPrefix(off.publishers, on.publishers) /\ IsPrefix(off.fetchers, on.fetchers)
    /\ IsPrefix(off.configurators, on.configurators) /\ IsPrefix(off.propagator, on.propagator)
    /\ Parts([input EXCEPT !.usages = FALSE]).controllers \subseteq Parts([input EXCEPT !.usages = TRUE]).controllers
    /\ \A c \in All : Parts([input EXCEPT !.rt = FALSE]).watched[c] \subseteq Parts([input EXCEPT !.rt = TRUE]).watched[c]

RefBaseline ==
  (done /\ input.fam = "core" /\ FlagsOf(input) = NoFlag) =>
    /\ exp.controllers = {"composition", "definition", "offered"}
    /\ exp.publishers = <<TPubAPI>> /\ exp.fetchers = <<TFetchSecret>> /\ exp.configurators = <<TCfgNaming, TCfgAPI>>
    /\ exp.syncer = TSyncCSA /\ exp.upgrader = TUpgNop /\ exp.propagator = <<TPropAPI>> /\ exp.unpublisher = TUnpubNop
    /\ ~exp.starter /\ exp.gc = "nil" /\ exp.index = {} /\ ~exp.hookIndex /\ ~exp.hookSchema

RefNeverBlind ==
  done => \A c \in All :
    /\ Primary(c) \in exp.watched[c]
    /\ Produces(c) \subseteq exp.watched[c]
    /\ (Consults(c, input) = {} /\ Produces(c) = {}) => Polls(c)     \* who watches only itself must poll (usage)

ASSUME RefClientSplit ==
  \A c \in Static : \A d \in Dynamic : ClientsAllowed(c) \cap ClientsAllowed(d) = {}

\* witness: expected to be violated
FlagsIrrelevant == (done /\ input.fam = "core") => exp = Parts([input EXCEPT !.usages = FALSE, !.ssa = FALSE, !.ess = FALSE, !.rt = FALSE, !.schema = FALSE])
=============================================================================
