--------------------------- MODULE MonConnSecrets ---------------------------
(***************************************************************************)
(* Trace monitor for C09.  Every trace line is one observation of the real *)
(* Crossplane code (harness/drivers/connsecrets): e.input = the vector     *)
(* emitted by MCConnSecrets, e.obs = what was supplied to and observed     *)
(* around one call of the real PublishConnection / PropagateConnection /   *)
(* ExtractConnectionDetails - or, for family e2e, around one reconcile of  *)
(* the real XR / claim reconciler (one line per reconcile; leg "skipped"   *)
(* when the reconcile did not reach the publisher / propagator; family     *)
(* e2ept adds an "extract" line per reconcile: the template's configs, the *)
(* composed resource's secret, the details the real P&T composer handed to *)
(* the publisher).  The                                                    *)
(* formulas are the reference semantics of ConnSecrets.tla.  A false       *)
(* formula prints VIOL|<name>|<line>|<scenario>; the monitor never stops   *)
(* early.                                                                  *)
(*                                                                         *)
(* Verdict formulas (C09 text in quotes)                                   *)
(*  Filtered.Body / Filtered.Store / Filtered.WholeSecret                  *)
(*       "contains only keys the XRD allows (all keys when the XRD lists   *)
(*       none) and only values produced by the composition for this XR"    *)
(*  OnlyIfAsked  "it is written only if the XR asks for one"               *)
(*  ExactCopy    "a claim's connection secret is an exact copy of its      *)
(*       bound XR's secret, made only if that secret is controlled by      *)
(*       that XR"                                                          *)
(*  NoRead       "a claim can never use Crossplane to read a secret its XR *)
(*       does not own" (claim secret untouched, error)                     *)
(*  NoRewrite.Write / NoRewrite.Published  "identical data is never        *)
(*       rewritten": no Update/Patch reaches the store, resourceVersion    *)
(*       unchanged / the call answers published = false                    *)
(*  ForeignUntouched  destination controlled by another UID: byte-         *)
(*       identical, no write lands, error (C02 placements on secrets)      *)
(*  ForeignUntouched.UncontrolledOpaque  an uncontrolled secret that is    *)
(*       not of the connection type is not adopted                         *)
(*  OwnerOnly    "reach only their owner's secret": only the owner's own   *)
(*       secret is addressed; same-named secrets elsewhere, the source     *)
(*       secret and the other leg's secret stay byte-identical; a written  *)
(*       secret ends up controlled by the owner                            *)
(*  Surfaces     an error of the publisher / propagator comes out of the   *)
(*       reconciler as a Warning event or a failed reconcile (e2e)         *)
(*  Extract.Keys / Extract.Values / Extract.ErrorEmpty                     *)
(* Information only (INFO lines, never a violation)                        *)
(*  Drift.Publish / Drift.Propagate / Drift.Extract  the real outcome      *)
(*       differs from the reading of the code in ConnSecrets.tla           *)
(*  Info.Retained   the XR's secret keeps a key this publish did not       *)
(*       supply or the filter does not allow (merge patch; see the         *)
(*       interpretation in ConnSecrets.tla)                                *)
(*  Info.NeverAdopted  an uncontrolled connection-type secret with         *)
(*       identical data is left without a controller reference             *)
(*  Info.NoopRewrite  the secret holds a strict superset of what is        *)
(*       published: every publish sends a patch that changes nothing and   *)
(*       answers published = true (not "identical data" in the reading     *)
(*       above, so not a verdict)                                          *)
(***************************************************************************)
EXTENDS ConnSecrets, Json, IOUtils

Trace == ndJsonDeserialize(IOEnv.VERIF_TRACE)
VARIABLE l

\* ---- drift: the model's reading of the code vs. the real observation (direct families only)
InOf(e) == [e.input EXCEPT !.filter = Range(e.input.filter)]
Core(s) == [exists |-> s.exists, ctrl |-> s.ctrl, type |-> s.type, data |-> s.data]
WCore(w) == [verb |-> w.verb, target |-> w.target, applied |-> w.applied, noop |-> w.noop, data |-> w.data]
SameStore(m, o) == /\ m.published = o.published /\ m.err = o.err
                   /\ Core(m.xpost) = Core(o.xpost) /\ Core(m.cpost) = Core(o.cpost)
                   /\ Len(m.writes) = Len(o.writes)
                   /\ \A i \in DOMAIN m.writes : WCore(m.writes[i]) = WCore(o.writes[i])
DriftPublish(e) == e.fam = "publish" => SameStore(Code(InOf(e)), e.obs)
DriftPropagate(e) == e.fam = "propagate" => SameStore(Code(InOf(e)), e.obs)
DriftExtract(e) == (e.fam = "extract" \/ (e.fam = "e2ept" /\ e.obs.leg = "extract")) =>
                     LET m == CodeExtract(InOf(e)) IN m.xerr = e.obs.xerr /\ m.xout = e.obs.xout

Retained(o) == (IsPub(o) /\ ~Untouched(o.xpre, o.xpost)) =>
                 \A k \in Present(o.xpost.data) : k \in Allowed(Range(o.filter), o.details) /\ o.xpost.data[k] = o.details[k]
NeverAdopted(o) == (IsStore(o) /\ Identical(o) /\ DPre(o).ctrl \in {"none", "plain"} /\ DPre(o).type = "conn") => DPost(o).ctrl = Owner(o)

\* a write that reached the store, changed nothing and was answered published = true: the secret holds a strict superset of
\* what is published (keys retained by the merge patch), so current # desired on every reconcile although the patch is a no-op
NoopRewrite(o) == IsStore(o) => \A i \in WritesTo(o, Dst(o)) : ~(o.writes[i].noop /\ o.published)

Surfaces(o) == (IsStore(o) /\ o.err # "") => o.surfaced

\* ---- anti-vacuity: how often each formula's antecedent was true (TLC registers, printed with DONE)
Hit(r, c) == IF c THEN TLCSet(r, TLCGet(r) + 1) ELSE TRUE
HitNames == <<"Filtered.Body", "Filtered.Store", "Filtered.WholeSecret", "OnlyIfAsked", "ExactCopy", "NoRead", "NoRewrite",
              "ForeignUntouched", "ForeignUntouched.UncontrolledOpaque", "OwnerOnly.written", "Surfaces", "Extract.ok",
              "Extract.omitted", "Extract.error", "e2e.publish", "e2e.propagate", "e2e.skipped", "e2ept.extract", "e2ept.publish">>
Hits(e, o) ==
  /\ Hit(1, IsPub(o) /\ WritesTo(o, "xsec") # {})
  /\ Hit(2, IsPub(o) /\ Present(o.xpost.data) # {} /\ ~Untouched(o.xpre, o.xpost))
  /\ Hit(3, IsPub(o) /\ o.fresh /\ Present(o.xpost.data) # {})
  /\ Hit(4, IsStore(o) /\ ~Asked(o))
  /\ Hit(5, IsProp(o) /\ ClaimWritten(o))
  /\ Hit(6, IsProp(o) /\ Asked(o) /\ ~SourceOwned(o))
  /\ Hit(7, IsStore(o) /\ Identical(o))
  /\ Hit(8, IsStore(o) /\ ForeignCtrl(o) /\ ReachesDst(o))
  /\ Hit(9, IsStore(o) /\ UncontrolledOpaque(o) /\ ReachesDst(o))
  /\ Hit(10, IsStore(o) /\ ~Untouched(DPre(o), DPost(o)))
  /\ Hit(11, IsStore(o) /\ o.err # "")
  /\ Hit(12, IsExt(o) /\ ~o.xerr)
  /\ Hit(13, IsExt(o) /\ ~o.xerr /\ ResolvedNames(o.cfgs, o.cdata) # {o.cfgs[j].name : j \in DOMAIN o.cfgs})
  /\ Hit(14, IsExt(o) /\ o.xerr)
  /\ Hit(15, e.fam = "e2e" /\ IsPub(o))
  /\ Hit(16, e.fam = "e2e" /\ IsProp(o))
  /\ Hit(17, e.fam = "e2e" /\ o.leg = "skipped")
  /\ Hit(18, e.fam = "e2ept" /\ IsExt(o))
  /\ Hit(19, e.fam = "e2ept" /\ IsPub(o))
RECURSIVE HitLine(_)
HitLine(r) == IF r > Len(HitNames) THEN "" ELSE "|" \o HitNames[r] \o "=" \o ToString(TLCGet(r)) \o HitLine(r + 1)

Viol(name, i) == PrintT("VIOL|" \o name \o "|" \o ToString(i) \o "|" \o Trace[i].scenario)
Info(name, i) == PrintT("INFO|" \o name \o "|" \o ToString(i) \o "|" \o Trace[i].scenario)
Check(i) ==
  LET e == Trace[i]
      o == e.obs IN
  /\ Hits(e, o)
  /\ (FilteredBody(o) \/ Viol("Filtered.Body", i))
  /\ (FilteredStore(o) \/ Viol("Filtered.Store", i))
  /\ (WholeSecret(o) \/ Viol("Filtered.WholeSecret", i))
  /\ (OnlyIfAsked(o) \/ Viol("OnlyIfAsked", i))
  /\ (ExactCopy(o) \/ Viol("ExactCopy", i))
  /\ (NoRead(o) \/ Viol("NoRead", i))
  /\ (NoRewriteWrite(o) \/ Viol("NoRewrite.Write", i))
  /\ (NoRewritePublished(o) \/ Viol("NoRewrite.Published", i))
  /\ (ForeignUntouched(o) \/ Viol("ForeignUntouched", i))
  /\ (ForeignOpaque(o) \/ Viol("ForeignUntouched.UncontrolledOpaque", i))
  /\ (OwnerOnly(o) \/ Viol("OwnerOnly", i))
  /\ (Surfaces(o) \/ Viol("Surfaces", i))
  /\ (ExtractKeys(o) \/ Viol("Extract.Keys", i))
  /\ (ExtractValues(o) \/ Viol("Extract.Values", i))
  /\ (ExtractErrorEmpty(o) \/ Viol("Extract.ErrorEmpty", i))
  /\ (DriftPublish(e) \/ Info("Drift.Publish", i))
  /\ (DriftPropagate(e) \/ Info("Drift.Propagate", i))
  /\ (DriftExtract(e) \/ Info("Drift.Extract", i))
  /\ (Retained(o) \/ Info("Info.Retained", i))
  /\ (NeverAdopted(o) \/ Info("Info.NeverAdopted", i))
  /\ (NoopRewrite(o) \/ Info("Info.NoopRewrite", i))

Init == l = 0 /\ \A r \in DOMAIN HitNames : TLCSet(r, 0)
Next == /\ l < Len(Trace) /\ l' = l + 1 /\ Check(l')
        /\ (l' < Len(Trace) \/ (PrintT("HITS" \o HitLine(1)) /\ PrintT("DONE|" \o ToString(l'))))
Spec == Init /\ [][Next]_l
=============================================================================
