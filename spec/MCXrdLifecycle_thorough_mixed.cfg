SPECIFICATION Spec
CONSTANTS
  Inits <- InitsSettledBoth
  EnvKinds = {"claimOn", "claimOff", "xrddel", "ver", "crddel"}
  FaultKinds = {"crashAfter"}
  MaxEnv = 3
  MaxFaults = 1
  MaxRecs = 2
  Interleave = TRUE
  MidEnv = TRUE
  WaitEstablished = TRUE
  FixTypeRef = FALSE
  FixWatches = FALSE
VIEW view
ACTION_CONSTRAINT EmitEnd
CHECK_DEADLOCK FALSE
INVARIANTS Safe
PROPERTIES ForeignFrozen XrdSpecKept
