"""C05 - Ready and Synced never overstate the truth, and functions cannot forge them.
Reference: spec/Conditions.tla; vectors: spec/MCConditions.tla; driver: harness/drivers/xrcompose -conds
(real composite.Reconciler with both composers, real claim.Reconciler with both syncers); monitor: spec/MonConditions.tla."""
import json
import os

import vlib

PID = "C05"
FORMULAS = ["ReadyTruth", "ReadyTruth.NewOnError", "SyncedTruth", "SyncedTruth.TrueOnError", "NoForgery", "CustomKept",
            "UnknownOnFatal", "ClaimReady", "ClaimReady.Setup"]


def drive_and_judge(ctx, scs, shards):
    by_id = {s["id"]: s for s in scs}
    binp = ctx.go_build("./drivers/xrcompose")
    prefix, s = ctx.run_sharded(binp, scs, ["-conds", "-chunk", "100000"], shards=shards)
    viols, nlines = ctx.monitor("MonConditions", prefix)
    for formula, line, scid in viols:
        ctx.violation(formula, scid, ctx.replay_file(by_id.get(scid, {"id": scid})), "trace line %d" % line, fingerprint=formula)
    return s, nlines


RIDER_FORMULAS = ["Exit.SyncedTrueNeedsCompose", "Exit.SyncedFalse", "Paused.Condition", "Deleting.Condition",
                  "Deleting.Condition.AfterFinalizerRemoval"]


def rider_lifecycle(ctx):
    """The conditions written by the XR reconciler's early exits (paused, deleting, finalizer / selection / revision /
    configuration failures): module XRLifecycle (check X03).  Synced=True is written only after the Composer returned without
    error (or by the deletion path), every other status write says Synced=False, a deleting XR reports Ready=False."""
    from checks import x03
    sub = ctx.sub("xrlifecycle")
    scs, st, tr = [], 0, 0
    for name, n in ([("quick", 350), ("quick_user", 250)] if ctx.quick else [("quick", 6459), ("quick_user", 7660), ("thorough_f2", 6000)]):
        mc = sub.model_check(x03.MODULE, "%s_%s.cfg" % (x03.MODULE, name), sub="mc_" + name, workers=4, timeout=900)
        scs += [{"id": "%s-%s-%07d" % (PID, name, i), "hist": h} for i, h in sub.sample_lines(mc["emitted_file"], n, mc["emitted"])]
        st += mc["states"]
        tr += mc["transitions"]
    s, n, _ = x03.drive_and_judge(sub, scs, sweep=0, shards=4, counts=False)
    for v in sub.violations:
        if v["formula"] in RIDER_FORMULAS:
            ctx.violations.append(v)
    return dict(states=st, transitions=tr, runs=s["runs"], events=n, formulas=RIDER_FORMULAS)


def run(ctx):
    mc = ctx.model_check("MCConditions", "MCConditions_quick.cfg" if ctx.quick else "MCConditions_thorough.cfg", workers=4, timeout=300)
    scs = [{"id": "%s-%07d" % (PID, i), "hist": h} for i, h in ctx.sample_lines(mc["emitted_file"], 10 ** 9, mc["emitted"])]
    s, nlines = drive_and_judge(ctx, scs, shards=10)
    lc = rider_lifecycle(ctx)
    ctx.cov.update(dict(
        lifecycle_rider=lc,
        states=mc["states"], transitions=mc["transitions"], traces_validated_against_impl=s["runs"], samples=s["samples"][:2],
        vectors_emitted=mc["emitted"], vectors_replayed=s["scenarios"], events=nlines, monitor_formulas=FORMULAS, exhaustive=True,
        checker_cmd="tlc MCConditions (vectors) -> harness/drivers/xrcompose -conds on /repo -> tlc MonConditions",
        rule="every combination of per-resource ready/apply/render outcomes, XR-level ready flag, function conditions (system and custom types, "
             "both targets, last-wins pairs), fatal result, prior conditions; both composers; claim leg: the bound XR's Ready condition x both syncers",
    ))
    ctx.assumptions += ["an erroring reconcile leaves the previous Ready condition in place: the property is read as a statement about what a reconcile newly asserts (DESIGN 3 C05)",
                        "Invalid applies are produced by an API-server-side rejection scripted in simapi; PT readiness is the composed resource's Ready condition",
                        "verdict only from conditions stored by the real reconcilers, judged by MonConditions.tla"]


def replay(ctx, path):
    with open(path) as f:
        sc = json.load(f)
    if str(sc.get("id", "")).startswith(PID + "-quick") or str(sc.get("id", "")).startswith(PID + "-thorough"):      # a scenario of the lifecycle rider
        from checks import x03
        x03.replay(ctx, path)
        ctx.violations = [v for v in ctx.violations if v["formula"] in RIDER_FORMULAS]
        return
    s, nlines = drive_and_judge(ctx, [sc], shards=1)
    ctx.cov.update(dict(states=1, transitions=1, traces_validated_against_impl=s["runs"], samples=[sc], events=nlines))
