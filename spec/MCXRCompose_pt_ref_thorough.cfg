SPECIFICATION Spec
CONSTANTS
  Mode = "PT"
  Names = {"a", "b"}
  MaxObjs = 5
  MaxRecs = 3
  MaxFaults = 2
  MaxEnv = 2
  ForeignAt = "ref"
  RenderFails = FALSE
  CacheMisses = FALSE
  VerBumps = FALSE
  Forges = FALSE
  Legacies = FALSE
  FailKinds = {}
VIEW view
ACTION_CONSTRAINT Emit
CHECK_DEADLOCK FALSE
INVARIANTS NoLeak AtMostOne StepProps GcExact
PROPERTIES NameStable
