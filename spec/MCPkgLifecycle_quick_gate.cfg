SPECIFICATION Spec
CONSTANTS
  InitPkgs <- PkgInstalled
  InitRevs <- RevsOdd
  InitICs <- IcNone
  InitLock <- OnlyFalse
  ICs <- NoICs
  Img <- ImgR1Bad
  MaxMgr = 0
  MaxRev = 2
  MaxFaults = 1
  MaxEnv = 1
  MidEnv = TRUE
  EnvKinds <- EnvGate
  Edits <- NoEdits
  FaultKinds <- FaultsFew
  SeamOuts <- SeamsErr
  FinFirst = TRUE
  FixRemoval = TRUE
  ManualInactive = TRUE
VIEW view
ACTION_CONSTRAINT Emit
CHECK_DEADLOCK FALSE
INVARIANTS StepProps LockBeforeFin RepairedRev RepairedMgr HealthyTruth
