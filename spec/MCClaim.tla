------------------------------- MODULE MCClaim -------------------------------
EXTENDS Claim, Json
Gen2 == <<"x1", "x2">>
Gen3 == <<"x1", "x2", "x3">>
Gen4 == <<"x1", "x2", "x3", "x4">>
StartsAll == {<<"absent", "none">>, <<"absent", "p">>, <<"other", "none">>, <<"other", "p">>, <<"otherdel", "none">>,
              <<"unbound", "none">>, <<"unbound", "p">>, <<"mine", "p">>}
StartsQuick == {<<"absent", "none">>, <<"other", "none">>, <<"other", "p">>, <<"otherdel", "none">>, <<"unbound", "p">>, <<"mine", "p">>}
StartsFresh == {<<"absent", "none">>}
FgBoth == {"fg", "bg"}
FgOff == {"bg"}
KindsBoth == {"error", "crashBefore"}
KindsError == {"error"}
KindsCrash == {"crashBefore"}
\* scenario emission: one line per transition that ends a reconcile
Emit == (recs' > recs) => PrintT(<<"TRACE", ToJson(hist')>>)
=============================================================================
