SPECIFICATION Spec
CONSTANTS
  InitPkgs <- PkgRich
  InitRevs <- RevsNone
  InitICs <- IcMany
  InitLock <- OnlyFalse
  ICs <- IcsT
  Img <- ImgBothOk
  MaxMgr = 2
  MaxRev = 1
  MaxFaults = 0
  MaxEnv = 2
  MidEnv = TRUE
  EnvKinds <- EnvIcSrc
  Edits <- EditsSrc
  FaultKinds <- NoFaults
  SeamOuts <- NoSeams
  FinFirst = TRUE
  FixRemoval = TRUE
  ManualInactive = TRUE
VIEW view
ACTION_CONSTRAINT Emit
CHECK_DEADLOCK FALSE
INVARIANTS DesiredStateDefined StepProps LockBeforeFin RepairedRev RepairedMgr HealthyTruth
