"""Shared machinery of /verif/check: TLC runs (model checking, scenario
emission, trace monitoring), harness builds, known findings, evidence."""
import hashlib
import json
import os
import random
import re
import shutil
import subprocess
import sys
import time

VERIF = os.path.dirname(os.path.abspath(__file__))
SPEC = os.path.join(VERIF, "spec")
HARNESS = os.path.join(VERIF, "harness")
WORK = os.path.join(VERIF, ".work")
GOENV = dict(GOFLAGS="-mod=mod", GOPROXY="off", GOSUMDB="off", GOTOOLCHAIN="local")


class Inconclusive(Exception):
    """Build failure, TLC crash, timeout ...: exit 2, never a violation."""


def log(*a):
    print(*a, flush=True)


class Ctx:
    def __init__(self, pid, tier, seed):
        self.id = pid
        self.tier = tier
        self.seed = seed
        self.t0 = time.time()
        self.work = os.path.join(WORK, pid)
        self.rng = random.Random(seed)
        self.cov = {}          # coverage section of the evidence
        self.assumptions = []
        self.violations = []   # (formula, scenario id, replay path, detail)
        self.known_hits = []   # known findings observed in this run
        self.level = "model_checking"
        shutil.rmtree(self.work, ignore_errors=True)
        os.makedirs(self.work, exist_ok=True)

    @property
    def quick(self):
        return self.tier == "quick"

    def sub(self, name):
        """A child context working in <work>/<name> with its own violation list and coverage
        (used by checks that run another module's machinery as a rider)."""
        import copy
        c = copy.copy(self)
        c.work = os.path.join(self.work, name)
        os.makedirs(c.work, exist_ok=True)
        c.cov, c.assumptions, c.violations, c.known_hits = {}, [], [], []
        c.rng = random.Random(self.seed)
        return c

    # ---------------------------------------------------------------- TLC
    def _specdir(self, sub):
        d = os.path.join(self.work, sub)
        os.makedirs(d, exist_ok=True)
        for f in os.listdir(SPEC):
            if f.endswith(".tla") or f.endswith(".cfg"):
                shutil.copy(os.path.join(SPEC, f), d)
        return d

    def tlc(self, module, cfg, sub="mc", workers=8, timeout=600, env=None, extra=(), heap=None):
        """Runs TLC; returns (returncode, path of the output file)."""
        d = self._specdir(sub)
        out = os.path.join(d, "tlc_%s.out" % cfg.replace(".cfg", ""))
        jtmp = os.path.join(d, "jtmp")          # (TLC leaves a tlc-<n> directory per run in java.io.tmpdir: keep them out of /tmp)
        os.makedirs(jtmp, exist_ok=True)
        cmd = ["java", "-XX:+UseParallelGC", "-Djava.io.tmpdir=" + jtmp]
        cmd.append("-Xmx" + (heap or "8g"))
        cmd += ["-Xss64m", "-cp", "/opt/veriftools/tla/tla2tools.jar:/opt/veriftools/tla/CommunityModules-deps.jar",
                "tlc2.TLC", "-workers", str(workers), "-metadir", os.path.join(d, "meta_" + cfg), "-noGenerateSpecTE",
                "-config", cfg] + list(extra) + [module + ".tla"]
        e = dict(os.environ)
        e.update(env or {})
        t = time.time()
        with open(out, "w") as fo:
            try:
                p = subprocess.run(cmd, cwd=d, stdout=fo, stderr=subprocess.STDOUT, env=e, timeout=timeout)
            except subprocess.TimeoutExpired:
                raise Inconclusive("TLC timeout after %ds: %s %s" % (timeout, module, cfg))
        log("  tlc %s %s: rc=%d %.1fs" % (module, cfg, p.returncode, time.time() - t))
        shutil.rmtree(os.path.join(d, "meta_" + cfg), ignore_errors=True)
        shutil.rmtree(jtmp, ignore_errors=True)
        return p.returncode, out

    def model_check(self, module, cfg, expect_violations=(), **kw):
        """(M) exhaustive check of the design + (G) scenario emission.
        Returns dict(states, transitions, depth, emitted=<count>, emitted_file=<ndjson of the emitted JSON values>, violated=[...])."""
        rc, out = self.tlc(module, cfg, **kw)
        res = dict(states=0, transitions=0, depth=0, emitted=0, violated=[], emitted_file=out + ".emitted.ndjson")
        with open(out) as f, open(res["emitted_file"], "w") as fo:
            for line in f:
                if line.startswith('<<"TRACE", ') or line.startswith('<<"VEC", '):
                    lit = line.strip()
                    lit = lit[lit.index(", ") + 2:-2]
                    try:
                        inner = json.loads(lit)
                        json.loads(inner)
                    except Exception:
                        # two TLC workers printing very long lines at once can interleave them: such a line (and the
                        # orphaned rest of it further down) is dropped - the emitted scenarios are sampled anyway
                        res["garbled"] = res.get("garbled", 0) + 1
                        continue
                    fo.write(inner + "\n")
                    res["emitted"] += 1
                    continue
                m = re.match(r"(\d+) states generated, (\d+) distinct states found", line)
                if m:
                    res["transitions"], res["states"] = int(m.group(1)), int(m.group(2))
                m = re.match(r"The depth of the complete state graph search is (\d+)", line)
                if m:
                    res["depth"] = int(m.group(1))
                m = re.match(r"Error: Invariant (\w+) is violated", line)
                if m:
                    res["violated"].append(m.group(1))
                m = re.match(r"Error: Action property (\w+) is violated", line)
                if m:
                    res["violated"].append(m.group(1))
                if line.startswith("Error: Temporal properties were violated"):
                    res["violated"].append("temporal")
        tail = subprocess.run(["tail", "-c", "3000", out], stdout=subprocess.PIPE, text=True).stdout
        if res["emitted"] > 1000:
            os.remove(out)  # can be gigabytes
            with open(out, "w") as f:
                f.write("(emitted lines moved to %s)\n...\n%s" % (res["emitted_file"], tail))
        if res.get("garbled", 0) > max(5, res["emitted"] // 100):
            raise Inconclusive("%d of %d emitted lines of %s %s are garbled" % (res["garbled"], res["emitted"] + res["garbled"], module, cfg))
        if res["states"] == 0:
            raise Inconclusive("TLC produced no state count for %s %s (see %s)\n%s" % (module, cfg, out, tail))
        if sorted(set(res["violated"])) != sorted(set(expect_violations)):
            raise Inconclusive("model %s %s: violated %s, expected %s (see %s) - the specification "
                               "no longer describes a design with the expected properties" %
                               (module, cfg, res["violated"], list(expect_violations), out))
        if rc not in (0, 12, 13) and not res["violated"]:
            raise Inconclusive("TLC failed rc=%d for %s %s (see %s)\n%s" % (rc, module, cfg, out, tail))
        return res

    def sample_lines(self, path, n, total):
        """Seeded, feature-covering sample of n of the total lines of an NDJSON file: [(1-based line number, parsed JSON)]
        (see sample_lines_stratified; files of more than 60000 lines are first thinned out uniformly)."""
        if total <= n:
            return self.sample_lines_uniform(path, n, total)
        return self.sample_lines_stratified(path, n, total)

    def sample_lines_uniform(self, path, n, total):
        """Seeded uniform sample of n of the total lines of an NDJSON file: [(1-based line number, parsed JSON)]."""
        if total <= n:
            pick = None
        else:
            pick = set(self.rng.sample(range(1, total + 1), n))
        out = []
        with open(path) as f:
            for i, line in enumerate(f, 1):
                if pick is None or i in pick:
                    out.append((i, json.loads(line)))
        return out

    def sample_lines_stratified(self, path, n, total, key=None, cover=3):
        """Seeded sample of n lines that covers features: key(parsed line) is a set of features (default:
        hist_features); scenarios are taken (in seeded random order) while they contain a feature (first pass) or a pair
        of features (second pass) seen fewer than `cover` times so far, then the sample is filled up at random.  Rare kinds of
        scenario are thereby always represented."""
        if total <= n:
            return self.sample_lines_uniform(path, n, total)
        key = key or hist_features
        cap = max(60000, 3 * n)
        keep = None if total <= cap else set(self.rng.sample(range(total), cap))
        feats = {}
        with open(path) as f:
            for i, line in enumerate(f):
                if keep is None or i in keep:
                    feats[i] = sorted(key(json.loads(line)))
        idx = sorted(feats)
        self.rng.shuffle(idx)
        # two passes: first every single feature `cover` times (a rare feature must not depend on where the shuffle put its
        # few scenarios: the pairs alone fill the sample long before the end of the list), then the pairs
        seen, pick, taken = {}, [], set()
        for singles in (True, False):
            for i in idx:
                if len(pick) >= n:
                    break
                if i in taken:
                    continue
                fs = feats[i]
                units = [(a,) for a in fs] + [(a, b) for x, a in enumerate(fs) for b in fs[x + 1:]]
                probe = [(a,) for a in fs] if singles else units
                # an environment step in the middle of a loop over a Go map: more of them (each is a coin toss per run)
                if any(seen.get(u, 0) < (3 * cover if len(u) == 1 and u[0].startswith("envmid:") else cover) for u in probe):
                    pick.append(i)
                    taken.add(i)
                    for u in units:
                        seen[u] = seen.get(u, 0) + 1
        chosen = set(pick)
        for i in idx:
            if len(chosen) >= n:
                break
            chosen.add(i)
        out = []
        with open(path) as f:
            for i, line in enumerate(f):
                if i in chosen:
                    out.append((i + 1, json.loads(line)))
        return out

    def monitor(self, module, trace, cfg=None, timeout=2400, heap="6g", par=6):
        """(T) validates recorded traces with the monitor spec. trace is a file, or
        a prefix of chunk files <trace>.0001 ... Returns (viols=[(formula, line, scenario)], lines consumed)."""
        import concurrent.futures
        cfg = cfg or (module + ".cfg")
        files = [trace] if os.path.exists(trace) else sorted(
            os.path.join(os.path.dirname(trace), f) for f in os.listdir(os.path.dirname(trace))
            if f.startswith(os.path.basename(trace) + "."))
        if not files:
            raise Inconclusive("no trace produced: " + trace)

        def one(ix_f):
            ix, fpath = ix_f
            rc, out = self.tlc(module, cfg, sub="mon%d" % ix, workers=1, timeout=timeout,
                               env={"VERIF_TRACE": fpath}, heap=heap)
            viols, done = [], None
            with open(out) as f:
                txt = f.read()
            for m in re.finditer(r'^"VIOL\|([^|"]+)\|(\d+)\|([^"]*)"$', txt, re.M):
                viols.append((m.group(1), int(m.group(2)), m.group(3)))
            m = re.search(r'^"DONE\|(\d+)"$', txt, re.M)
            if m:
                done = int(m.group(1))
            nlines = sum(1 for _ in open(fpath))
            if done != nlines:
                raise Inconclusive("monitor %s consumed %s of %d trace lines of %s (rc=%d, see %s)\n%s" %
                                   (module, done, nlines, fpath, rc, out, txt[-1500:]))
            return viols, nlines

        allv, total = [], 0
        with concurrent.futures.ThreadPoolExecutor(max_workers=par) as ex:
            for v, n in ex.map(one, enumerate(files)):
                allv += v
                total += n
        return allv, total

    # ------------------------------------------------------------ harness
    def go_build(self, pkg, name=None, tags=None):
        name = name or os.path.basename(pkg)
        bindir = os.path.join(self.work, "bin")
        os.makedirs(bindir, exist_ok=True)
        out = os.path.join(bindir, name)
        e = dict(os.environ)
        e.update(GOENV)
        shutil.copy("/repo/go.sum", os.path.join(HARNESS, "go.sum"))
        cmd = ["go", "build", "-o", out]
        if tags:
            cmd += ["-tags", tags]
        cmd.append(pkg)
        t = time.time()
        p = subprocess.run(cmd, cwd=HARNESS, env=e, stdout=subprocess.PIPE, stderr=subprocess.STDOUT, text=True)
        log("  go build %s: rc=%d %.1fs" % (pkg, p.returncode, time.time() - t))
        if p.returncode != 0:
            raise Inconclusive("harness does not build against /repo:\n" + p.stdout[-4000:])
        return out

    def go_test_overlay(self, repo_pkg, overlay_files, run, env=None, timeout=1800, race=False):
        """Runs an in-package test injected into a /repo package with -overlay
        (nothing is written to /repo). overlay_files: {path inside /repo: source file}."""
        ov = {"Replace": {os.path.join("/repo", k): v for k, v in overlay_files.items()}}
        ovp = os.path.join(self.work, "overlay.json")
        with open(ovp, "w") as f:
            json.dump(ov, f)
        e = dict(os.environ)
        e.update(GOENV)
        e.update(env or {})
        cmd = ["go", "test", "-overlay", ovp, "-count=1", "-vet=off", "-run", run, "-timeout", "%ds" % timeout]
        if race:
            cmd.append("-race")
        cmd.append(repo_pkg)
        t = time.time()
        p = subprocess.run(cmd, cwd="/repo", env=e, stdout=subprocess.PIPE, stderr=subprocess.STDOUT, text=True)
        log("  go test -overlay %s -run %s: rc=%d %.1fs" % (repo_pkg, run, p.returncode, time.time() - t))
        return p.returncode, p.stdout

    def run(self, cmd, timeout=3600, env=None, cwd=None):
        e = dict(os.environ)
        e.update(GOENV)
        e.update(env or {})
        t = time.time()
        try:
            p = subprocess.run(cmd, cwd=cwd or self.work, env=e, stdout=subprocess.PIPE, stderr=subprocess.STDOUT, text=True, timeout=timeout)
        except subprocess.TimeoutExpired:
            raise Inconclusive("timeout: " + " ".join(cmd))
        log("  %s: rc=%d %.1fs" % (os.path.basename(cmd[0]), p.returncode, time.time() - t))
        if p.returncode != 0:
            raise Inconclusive("driver failed rc=%d: %s\n%s" % (p.returncode, " ".join(cmd), p.stdout[-4000:]))
        return p.stdout

    def run_sharded(self, binp, scs, args, shards=6, name="trace", timeout=3600):
        """Runs a driver over the scenarios in parallel shards. Returns (trace prefix, merged summary)."""
        import concurrent.futures
        shards = max(1, min(shards, len(scs)))
        parts = [scs[i::shards] for i in range(shards)]
        prefix = os.path.join(self.work, name + ".ndjson")

        def one(i):
            sp = self.write_scenarios(parts[i], "scenarios_%s_%02d.ndjson" % (name, i))
            summ = os.path.join(self.work, "summary_%s_%02d.json" % (name, i))
            self.run([binp, "-scenarios", sp, "-trace", "%s.s%02d" % (prefix, i), "-summary", summ] + list(args), timeout=timeout)
            with open(summ) as f:
                return json.load(f)

        with concurrent.futures.ThreadPoolExecutor(max_workers=shards) as ex:
            sums = list(ex.map(one, range(shards)))
        return prefix, merge_summaries(sums)

    # ---------------------------------------------------------- scenarios
    def write_scenarios(self, scs, name="scenarios.ndjson"):
        p = os.path.join(self.work, name)
        with open(p, "w") as f:
            for s in scs:
                f.write(json.dumps(s) + "\n")
        return p

    def sample(self, items, n, keep=None):
        """Seeded sample of n items; items for which keep(item) holds are always kept."""
        if len(items) <= n:
            return list(items)
        kept = [x for x in items if keep and keep(x)]
        rest = [x for x in items if not (keep and keep(x))]
        self.rng.shuffle(rest)
        return kept + rest[:max(0, n - len(kept))]

    def replay_file(self, scenario):
        d = os.path.join(self.work, "replay")
        os.makedirs(d, exist_ok=True)
        sid = re.sub(r"[^A-Za-z0-9_.-]", "_", str(scenario.get("id", "scenario")))
        p = os.path.join(d, sid + ".json")
        with open(p, "w") as f:
            json.dump(scenario, f)
        return p

    # ------------------------------------------------------------ verdict
    def violation(self, formula, scenario_id, replay, detail="", fingerprint=None):
        self.violations.append(dict(formula=formula, scenario=scenario_id, replay=replay, detail=detail,
                                    fingerprint=fingerprint or formula))

    def finish(self):
        kf = load_known()
        opened = [k for k in kf if k.get("property") == self.id and k.get("status") == "open"]
        fresh, known = [], {}
        for v in self.violations:
            hit = None
            for k in opened:
                if v["fingerprint"] == k.get("fingerprint") or v["fingerprint"] in k.get("fingerprints", []):
                    hit = k
            if hit:
                known.setdefault(hit["id"], []).append(v)
            else:
                fresh.append(v)
        for k in opened:
            if k["id"] in known:
                log("KNOWN-FINDING: property=%s %s: %s (observed %d times, e.g. scenario %s)" %
                    (self.id, k["id"], k["what"], len(known[k["id"]]), known[k["id"]][0]["scenario"]))
            else:
                log("note: known finding %s of %s was not exercised by this run" % (k["id"], self.id))
        seen = set()
        for v in fresh:
            key = (v["formula"], v["replay"])
            if key in seen:
                continue
            seen.add(key)
            if len(seen) <= 20:
                log("VIOLATION property=%s replay=%s formula=%s scenario=%s %s" %
                    (self.id, v["replay"], v["formula"], v["scenario"], v["detail"]))
        self.cov.setdefault("known_findings_observed", sorted(known.keys()))
        ev = dict(property_id=self.id, tier=self.tier, seed=self.seed, level=self.level, coverage=self.cov,
                  assumptions=self.assumptions, wall_s=round(time.time() - self.t0, 1), violations=len(seen))
        os.makedirs(os.path.join(VERIF, "evidence"), exist_ok=True)
        with open(os.path.join(VERIF, "evidence", self.id + ".json"), "w") as f:
            json.dump(ev, f, indent=1)
        self.prune()
        log("%s %s: %s in %.0fs" % (self.id, self.tier, "VIOLATED" if fresh else "held on everything explored", time.time() - self.t0))
        return 1 if fresh else 0

    def prune(self):
        """Disk space is limited: a thorough tier leaves gigabytes of emitted scenarios, traces and TLC state files behind (all
        twenty in a row filled an 84 GB disk). Once the verdict and the evidence are written only the replay files (small) are
        needed any more; everything else under the work directory that is larger than 256 KB is removed, as are TLC's state
        directories. VERIF_KEEP_WORK=1 keeps everything (debugging)."""
        if os.environ.get("VERIF_KEEP_WORK"):
            return
        for root, dirs, files in os.walk(self.work, topdown=True):
            for d in list(dirs):
                if d in ("states",) or d.startswith("tlc-"):
                    shutil.rmtree(os.path.join(root, d), ignore_errors=True)
                    dirs.remove(d)
            if os.path.basename(root) == "replay":
                continue
            for fn in files:
                fp = os.path.join(root, fn)
                try:
                    if os.path.getsize(fp) > 256 * 1024:
                        os.remove(fp)
                except OSError:
                    pass


def hist_features(h):
    """Features of an emitted scenario, for feature-covering sampling.
    * a history of {t,k,o,f} entries (one call / environment step each): which faults and environment steps occur
      (with the class of their target), what surrounds each environment step, how often (capped at 2) each kind of
      call occurs within one reconcile;
    * a schedule of {p,op,seg,r} entries (one segment of one actor each): which segments with which results occur and
      which pairs of segments of DIFFERENT actors are adjacent (the interleavings);
    * a vector (a record of inputs): every field=value, one level deep - pairs of them give pairwise input coverage."""
    if isinstance(h, dict) and isinstance(h.get("hist"), list):
        h = h["hist"]
    sig = set()
    if isinstance(h, dict):
        for k, v in h.items():
            if isinstance(v, dict):
                for k2, v2 in v.items():
                    if not isinstance(v2, (dict, list)):
                        sig.add("%s.%s=%s" % (k, k2, v2))
            elif isinstance(v, list):
                sig.add("%s#%d" % (k, min(len(v), 3)))
            else:
                sig.add("%s=%s" % (k, v))
        return sig
    block = {}

    def flush():
        for k, c in block.items():
            sig.add("%sx%d" % (k, min(c, 2)))
        block.clear()
    prev_tok, prev_actor = None, None
    for i, e in enumerate(h):
        if not isinstance(e, dict):
            continue
        if "op" in e:       # schedule style
            tok = "%s.%s:%s" % (e.get("op"), e.get("seg", ""), e.get("r", ""))
            actor = e.get("p", e.get("a"))
            sig.add(tok)
            if prev_tok is not None and actor != prev_actor:
                sig.add(prev_tok + ">" + tok)
            prev_tok, prev_actor = tok, actor
            continue
        t, k, f = e.get("t", ""), str(e.get("k", "")), str(e.get("f", ""))
        o = str(e.get("o", ""))
        if t == "call" and o:
            k = k + "." + o.rstrip("0123456789")     # the call's target class: update.xr / update.o (a composed resource)
        if t == "env":
            prev = h[i - 1].get("k", "") if i > 0 else ""
            nxt = h[i + 1].get("k", "") if i + 1 < len(h) else ""
            sig.add("env:%s:%s>%s" % (k, prev, nxt))
            if i > 0 and h[i - 1].get("t") == "call" and i + 1 < len(h) and h[i + 1].get("t") == "call" \
                    and not str(h[i + 1].get("k", "")).startswith("get"):
                # an environment step in the middle of a reconcile: how many distinct objects that reconcile writes
                # (what the code does then may depend on the order in which it meets them - Go map order;
                # added after the seeded change C03-m2 was caught only with some seeds)
                a = i
                while a > 0 and not (h[a].get("t") == "call" and str(h[a].get("k", "")) == "get" and h[a].get("o") in ("xr", "pkg", "claim", "rev", "cm", "R")):
                    a -= 1
                b = i + 1
                while b < len(h) and not (h[b].get("t") == "call" and str(h[b].get("k", "")) == "get" and h[b].get("o") in ("xr", "pkg", "claim", "rev", "cm", "R")):
                    b += 1
                objs = {x.get("o") for x in h[a:b] if x.get("t") == "call" and not str(x.get("k", "")).startswith(("get", "uget", "list"))
                        and x.get("o") not in ("xr", "pkg", "claim", "rev", "cm", "R", "", None)}
                sig.add("envmid:%s:w%d" % (k, min(len(objs), 3)))
            if isinstance(e.get("n"), int):
                # the model says how many items the loop the step lands in still has to visit
                sig.add("envmid:%s:n%d" % (k, min(e["n"], 3)))
        elif t == "call":
            if k in ("get.xr", "get.pkg", "get.claim", "get.rev", "get.cm", "get.R") or \
                    (k.startswith("get") and i > 0 and h[i - 1].get("t") in ("init", "env")):
                flush()    # a reconcile starts
            if f not in ("ok", ""):
                sig.add("%s:%s" % (k, f))
            block[k] = block.get(k, 0) + 1
        elif t == "fault":
            sig.add("fault:%s:%s" % (e.get("at", ""), f))
    flush()
    return sig


def merge_summaries(sums):
    out = {}
    for s in sums:
        for k, v in s.items():
            if v is None:
                continue
            if isinstance(v, bool):
                out[k] = out.get(k, False) or v
            elif isinstance(v, (int, float)):
                out[k] = out.get(k, 0) + v
            elif isinstance(v, dict):
                d = out.setdefault(k, {})
                for kk, vv in v.items():
                    if isinstance(vv, (int, float)):
                        d[kk] = d.get(kk, 0) + vv
                    else:
                        d[kk] = vv
            elif isinstance(v, list):
                out.setdefault(k, [])
                if len(out[k]) < 3:
                    out[k] += v[:3 - len(out[k])]
            else:
                out[k] = v
    return out


def load_known():
    p = os.path.join(VERIF, "known_findings.json")
    if not os.path.exists(p):
        return []
    with open(p) as f:
        return json.load(f).get("findings", [])


def scenario_index(trace_path):
    """scenario id -> (first line, last line) in a concatenated trace."""
    idx = {}
    with open(trace_path) as f:
        for n, line in enumerate(f, 1):
            m = re.search(r'"scenario":"([^"]*)"', line)
            if m:
                s = m.group(1)
                a, _ = idx.get(s, (n, n))
                idx[s] = (a, n)
    return idx
