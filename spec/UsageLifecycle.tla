--------------------------- MODULE UsageLifecycle ---------------------------
(***************************************************************************)
(* X10 - everything the Usage machinery does that C19's module (Usage.tla) *)
(* leaves out.  Subject:                                                   *)
(*   internal/controller/apiextensions/usage/reconciler.go + selector.go   *)
(*   internal/usage/handler.go (the DELETE webhook)                        *)
(*   cluster/webhookconfigurations/usage.yaml (rules, objectSelector,      *)
(*   failurePolicy, sideEffects) and the CEL rules of the Usage type       *)
(*   (apis/apiextensions/v1beta1/usage_types.go) as far as the controller  *)
(*   relies on them.                                                       *)
(* C19 states "an in-use resource cannot be deleted; protection ends       *)
(* exactly when use ends" (Protected, Allowed, LabelFirst, LabelLast,      *)
(* Owned, IndexAgree, UsageAfterUser) for interleaved reconciles; it does  *)
(* not re-create used / using resources, never sets spec.replayDeletion,   *)
(* never lets a webhook call fail and does not look at exits.  This module *)
(* runs reconciles one at a time (the interleaving race is C19's, D11) and *)
(* concentrates on the rest.                                               *)
(*                                                                         *)
(* One action per API call in code order; the reconciler's copy of the     *)
(* Usage (rc.loc), whether it is outdated (rc.stale), its copy of the used *)
(* resource (rc.ug, rc.ustale) are explicit.  Every call may fail as an    *)
(* error value, as a Conflict (writes), as a cache miss (the first Get: the*)
(* only cached read of a single object), as a dead process before or after *)
(* the effect.  The environment acts between and in the middle of          *)
(* reconciles: users create / delete / edit Usages, candidates are         *)
(* relabelled, used / using resources disappear and are re-created under   *)
(* the same name with a new UID, the using resource is deleted (in two     *)
(* steps when it carries a finalizer), the garbage collector collects      *)
(* Usages whose owners are gone, DELETE requests for used resources arrive *)
(* with every propagation policy, as dry-run, and with a failing webhook   *)
(* client.  A replayed deletion (a goroutine of the controller process     *)
(* that sleeps 2 s and then deletes) is a pending request that fires at    *)
(* any later point - or never, when the process dies first.                *)
(*                                                                         *)
(* What the authors evidently intend (checked against code and comments;   *)
(* MonUsageLifecycle.tla judges the real code with these):                 *)
(*                                                                         *)
(*  P1 Selectors (selector.go; "This field will be ignored if ResourceRef  *)
(*     is set").  A selector is resolved only while resourceRef.name is    *)
(*     empty: one List of the kind with matchLabels, the FIRST listed      *)
(*     object that (with matchControllerRef) has the same controller as    *)
(*     the Usage - both must have one - is written to spec.*.resourceRef   *)
(*     by an Update of the Usage; a name once set is never changed by the  *)
(*     controller, whatever happens to labels or to the object; nothing    *)
(*     else of the spec is ever changed.  No candidate: the reconcile      *)
(*     ends with an error and a Warning ResolveSelectors, nothing written. *)
(*     (The List order is the API server's - by name; "first" is what the  *)
(*     loop-and-break states, Select.First.)  Resolution precedes the      *)
(*     deletion branch.  Only cluster-scoped of / by exist in this API     *)
(*     version ("Resource defines a cluster-scoped resource").             *)
(*  P2 Owner reference.  The Usage gets an owner reference to the using    *)
(*     resource (apiVersion, kind, name of spec.by, the uid just read),    *)
(*     not a controller reference (a composed Usage already has one),      *)
(*     exactly when spec.by is set, after the used resource was labelled   *)
(*     and before Ready; the controller adds no other reference and        *)
(*     removes none.  (blockOwnerDeletion: meta.AsOwner of the pinned      *)
(*     runtime leaves it unset; nothing is asserted about it.)             *)
(*  P3 Used resource.  The reconciler writes nothing to the used resource  *)
(*     but the label crossplane.io/in-use, and only on the object spec.of  *)
(*     names; the finalizer is on the Usage before the label is on the     *)
(*     used resource (so a deleted Usage always gets its clean-up).  The   *)
(*     webhook writes nothing but the deletion-attempt annotation.         *)
(*  P4 Replay ("ReplayDeletion will trigger a deletion on the used         *)
(*     resource during the deletion of the usage itself, if it was         *)
(*     attempted to be deleted at least once"; e2e: "deletion of used      *)
(*     resource should be replayed after usage is cleared").  The deletion *)
(*     reconcile, after the label was removed (or left for another Usage)  *)
(*     and before it removes the finalizer, starts one deferred Delete of  *)
(*     the used resource with the recorded propagation policy iff          *)
(*     replayDeletion is true and the copy it read carries the attempt     *)
(*     annotation.  The Delete goes through the API server like any other: *)
(*     it is denied while another Usage names the resource.  NOT promised  *)
(*     (and not asserted): exactly once per Usage - a reconcile whose      *)
(*     finalizer removal failed starts another one next time; survival of  *)
(*     a process restart; a uid precondition on the replayed Delete.       *)
(*  P5 Deletion.  A composed Usage (label crossplane.io/composite) with    *)
(*     spec.by waits while the using resource exists: no write, Normal     *)
(*     WaitingUsingDeleted, requeue after 30 s.  Any other Usage is        *)
(*     released at once (the comment calls the label test an               *)
(*     approximation).  The finalizer goes only in the deletion branch and *)
(*     only after the used resource was read and, when this is the last    *)
(*     Usage naming it, unlabelled.                                        *)
(*  P6 Exits.  There is no Synced condition: an early exit writes no       *)
(*     status at all (Ready=True/Available is the only condition ever      *)
(*     written, by a reconcile in which no call failed).  A failed call    *)
(*     ends the reconcile with the error (requeue) and a Warning event of  *)
(*     the step's reason; a Conflict ends it with Requeue and no error     *)
(*     (WithSilentRequeueOnConflict).  Success: requeue after the poll     *)
(*     interval (exactly; no jitter here).  Usage not found: nothing.      *)
(*     The pause annotation is NOT honoured by this controller (no         *)
(*     meta.IsPaused in reconciler.go): nothing is asserted about it.      *)
(*  P7 Fixed point: a second fault-free reconcile in an unchanged world    *)
(*     changes no object (it still issues the label Update: the            *)
(*     OwnedBy(u.uid) test is a leftover that is never true - a no-op      *)
(*     write at the API server).                                           *)
(*  P8 Repair.  Whatever faults happened, a fault-free reconcile in a      *)
(*     quiet environment ends in what the environment permits: deleting -> *)
(*     finalizer gone (or waiting for the using resource); otherwise       *)
(*     finalizer, details annotation (reason | "<byKind>/<by> uses         *)
(*     <ofKind>/<of>" | "undefined"), label on the used resource, owner    *)
(*     reference with the using resource's CURRENT uid, Ready - or an      *)
(*     error exit because the used / using resource or every candidate is  *)
(*     missing.                                                            *)
(*  P9 Webhook.  Only DELETE is served (anything else: 400).  A List       *)
(*     failure or a failed annotation patch denies (fails closed, 500;     *)
(*     failurePolicy Fail covers an unreachable webhook).  A denial        *)
(*     because of Usages is a 409 whose message counts the Usages naming   *)
(*     the object and cites one of them, and the attempt is recorded with  *)
(*     the request's propagation policy (Background when none).  Without   *)
(*     Usages (stale label) the request is allowed.  The objectSelector    *)
(*     keeps the webhook away from everything unlabelled (Usages, using    *)
(*     resources).  usage.yaml declares sideEffects: None, i.e. promises   *)
(*     the API server that a call - in particular for a dry-run request,   *)
(*     which is therefore sent to it - changes nothing.                    *)
(*                                                                         *)
(* Found by this module on the then unchanged tree (2026-10-04), both      *)
(* repaired in /repo since.  The constants DryRunAware / PanicFree = TRUE  *)
(* (every quick / thorough cfg) describe the code as it is now; FALSE =    *)
(* the code as it was, kept as witness cfgs that violate DryRunSafe /      *)
(* HookNeverPanics.  The monitor formulas are ordinary formulas that must  *)
(* hold now; scenarios/X10/fa-*.json and fb-*.json are their regressions.  *)
(*  D36 (was F-a; FIXED by 1dd9b46; formula DryRun.NoEffect).  The handler *)
(*     ignored request.DryRun: a dry-run DELETE of an in-use resource      *)
(*     (kubectl delete --dry-run=server) patched the deletion-attempt      *)
(*     annotation for real, although usage.yaml says sideEffects: None.    *)
(*     With replayDeletion the resource was then really deleted when its   *)
(*     last Usage went.  Now a dry run skips the patch.                    *)
(*  D35 (was F-b; FIXED by 5b601cd; formulas Webhook.Deny.Panic /          *)
(*     Webhook.Recorded.Panic).  inUseMessage dereferenced                 *)
(*     first.Spec.By.ResourceRef of the first listed Usage; a Usage with   *)
(*     spec.by.resourceSelector not resolved yet (or never: no match) has  *)
(*     none.  The handler panicked; controller-runtime answered 500        *)
(*     "panic: ... [recovered]": still denied, but no in-use message and   *)
(*     the attempt was not recorded (so never replayed).  Now the message  *)
(*     falls through to the reason / the plain form.                       *)
(*     Webhook.Message therefore demands: 409, the count of the Usages     *)
(*     naming the object, one of them cited, and for the cited Usage: its  *)
(*     using resource (kind/name) iff spec.by is RESOLVED; else its reason *)
(*     iff it has one; else neither.  (For a Usage with a resolved or no   *)
(*     spec.by this is what the code always did; the unresolved case is    *)
(*     the one that used to panic and had no defined message.)             *)
(*                                                                         *)
(* Observations (counted in the evidence, not judged):                     *)
(*  O1 the replayed Delete carries no uid precondition: fired after the    *)
(*     resource was re-created under the same name it deletes the new one. *)
(*  O2 a reconcile whose finalizer removal failed has already started its  *)
(*     Delete: it is issued while the Usage still exists (the label is     *)
(*     gone by then, so it is admitted), and the retry starts a second one.*)
(*  O3 Ready=True/Available is never lowered: a Usage whose used resource  *)
(*     disappeared keeps it while every reconcile ends in an error.        *)
(* Not covered: spec.of.apiVersion that does not parse (error exit before  *)
(* any call); a used resource that is itself being deleted (finalizer).    *)
(*                                                                         *)
(* Measured 2026-10-04 on the repaired tree (16 cores, load average 40-70):*)
(* quick 6 cfgs 3.2k / 8.4k / 11.7k / 48k / 13.5k / 14k states, 92k        *)
(* scenarios emitted, 3.3k replayed + 843 sweep runs, 18k reconciles, 113k *)
(* events, 50-80 s; thorough 5 more cfgs 417k / 608k / 298k / 6.6k / 145k  *)
(* states (1.57M in all), 2.7M scenarios emitted, 76k replayed + 12k sweep *)
(* runs, 446k reconciles, 2.7M events, 12.7 min, 5.5 GB of scratch; drift  *)
(* 0 in both.  Model corrections made while binding: none for the call     *)
(* order; the driver first counted the calls of a reconcile that the       *)
(* scenario leaves unfinished as drift, took a cache miss for a fault-free *)
(* reconcile (Quiescent), and lost a deferred Delete when an earlier one   *)
(* was fired in the middle of the reconcile.                               *)
(***************************************************************************)
EXTENDS Integers, Sequences, FiniteSets, TLC

CONSTANTS
  USeq,        \* Usage names in List order, e.g. <<"s1", "s2">>
  Useds,       \* used resource names in List order
  Configs,     \* Usage specs the environment may create: [of, by, comp, replay, rsn]
               \*   of: a used name | "sel" | "selctl";  by: "none" | "b1" | "sel" | "selctl"
  InitSel,     \* used resources that carry the label the selectors match
  InitCtl,     \* used resources controlled by the XR that composes composed Usages
  Policies,    \* propagation policies of delete requests ("none" = not given)
  DryRuns,     \* subset of BOOLEAN: delete requests may be dry-run
  HookFaults,  \* subset of {"none", "list", "patch"}: the webhook's own client fails at that call
  EnvKinds,    \* enabled environment steps
  FaultKinds,  \* subset of {"error", "conflict", "miss", "crashBefore", "crashAfter"}
  MaxCreates, MaxRecs, MaxFaults, MaxEnv, MaxDel,
  MidEnv,      \* TRUE: the environment also acts in the middle of a reconcile
  BFin,        \* TRUE: the using resource carries a finalizer (its deletion takes two steps)
  FinFirst,    \* TRUE = as written; FALSE = witness: AddFinalizer skipped
  DryRunAware, \* TRUE = the code (since 1dd9b46): a dry-run request records nothing; FALSE = as it was (D36), witness
  PanicFree    \* TRUE = the code (since 5b601cd): an unresolved spec.by is not dereferenced; FALSE = as it was (D35), witness

None == "none"
Usages == {USeq[i] : i \in 1..Len(USeq)}
U == {Useds[i] : i \in 1..Len(Useds)}
B == "b1"

VARIABLES
  used,    \* u -> [ex, inc, sel, ctl, lab, ann]: exists, incarnation (uid), selector label, controlled by the XR,
           \*      in-use label, deletion-attempt annotation
  b,       \* the using resource: [st, inc, sel]; st: "live" | "deleting" | "gone"; always controlled by the XR
  us,      \* Usage name -> the stored Usage
  rc,      \* the reconcile in flight
  pend,    \* replayed deletions started and not yet issued: <<[u, pol]>>
  creates, recs, faults, envs, dels,
  bad,     \* ghost: names of violated step properties
  quiet,   \* ghost: neither fault nor environment step since this reconcile started
  clean,   \* ghost: the last reconcile ran to its end fault-free in a quiet environment
  last,    \* ghost: [s, res]: the Usage last reconciled and how that ended
  hist

vars == <<used, b, us, rc, pend, creates, recs, faults, envs, dels, bad, quiet, clean, last, hist>>
view == <<used, b, us, rc, pend, creates, recs, faults, envs, dels, bad, quiet, clean, last>>

NoUsage == [ex |-> FALSE, inc |-> 0, del |-> FALSE, of |-> None, ofm |-> "ref", by |-> None, bym |-> None, comp |-> FALSE,
            replay |-> FALSE, rsn |-> FALSE, fin |-> FALSE, det |-> None, own |-> {}, ready |-> FALSE]
NoUG == [got |-> FALSE, ex |-> FALSE, inc |-> 0, lab |-> FALSE, ann |-> None]
Idle == [s |-> None, pc |-> "idle", loc |-> NoUsage, stale |-> FALSE, ug |-> NoUG, ustale |-> FALSE, bi |-> -1,
         cnd |-> None, ln |-> -1, chg |-> FALSE]

bex == b.st # "gone"
InRec == rc.s # None
Min(S) == CHOOSE x \in S : \A y \in S : x <= y

HC(k, o, f) == [t |-> "call", a |-> rc.s, k |-> k, o |-> o, f |-> f]
HE(k, o) == [t |-> "env", a |-> "env", k |-> k, o |-> o, f |-> ""]
Log(e) == hist' = Append(hist, e)

Init ==
  /\ used = [u \in U |-> [ex |-> TRUE, inc |-> 0, sel |-> u \in InitSel, ctl |-> u \in InitCtl, lab |-> FALSE, ann |-> None]]
  /\ b = [st |-> "live", inc |-> 0, sel |-> TRUE]
  /\ us = [s \in Usages |-> NoUsage]
  /\ rc = Idle /\ pend = <<>>
  /\ creates = 0 /\ recs = 0 /\ faults = 0 /\ envs = 0 /\ dels = 0
  /\ bad = {} /\ quiet = FALSE /\ clean = FALSE /\ last = [s |-> None, res |-> None]
  /\ hist = << [t |-> "init", usages |-> USeq, useds |-> Useds, usel |-> InitSel, uctl |-> InitCtl, bfin |-> BFin] >>

----------------------------------------------------------------------------
(* The webhook (handler.go) behind the objectSelector of usage.yaml        *)

Named(u) == {s \in Usages : us[s].ex /\ us[s].of = u}          \* the field index: empty until spec.of.resourceRef.name is set
FirstNamed(u) == USeq[Min({i \in 1..Len(USeq) : USeq[i] \in Named(u)})]
Unresolved(r) == r.bym \in {"sel", "selctl"} /\ r.by = None     \* spec.by set, spec.by.resourceRef nil
Panics(u) == ~PanicFree /\ Named(u) # {} /\ Unresolved(us[FirstNamed(u)])
Want(p) == IF p = None THEN "Background" ELSE p

\* the decision and the annotation afterwards, for a DELETE of an existing used resource
Decide(u, p, dry, wf) ==
  LET x == used[u] IN
  IF ~x.lab THEN [o |-> "allow", ann |-> x.ann, via |-> "bypass"]
  ELSE IF wf = "list" THEN [o |-> "deny", ann |-> x.ann, via |-> "hookfail"]
  ELSE IF Named(u) = {} THEN [o |-> "allow", ann |-> x.ann, via |-> "webhook"]
  ELSE IF Panics(u) THEN [o |-> "deny", ann |-> x.ann, via |-> "panic"]
  ELSE IF x.ann = Want(p) THEN [o |-> "deny", ann |-> x.ann, via |-> "webhook"]
  ELSE IF wf = "patch" THEN [o |-> "deny", ann |-> x.ann, via |-> "hookfail"]
  ELSE IF dry /\ DryRunAware THEN [o |-> "deny", ann |-> x.ann, via |-> "webhook"]
  ELSE [o |-> "deny", ann |-> Want(p), via |-> "webhook"]

GoneU(x) == [x EXCEPT !.ex = FALSE, !.lab = FALSE, !.ann = None]
AfterDelete(u, p, dry, wf) ==
  LET d == Decide(u, p, dry, wf) IN
  IF d.o = "allow" THEN (IF dry THEN used[u] ELSE GoneU(used[u])) ELSE [used[u] EXCEPT !.ann = d.ann]

----------------------------------------------------------------------------
(* Environment                                                             *)

EnvOK(k) == k \in EnvKinds /\ envs < MaxEnv /\ (MidEnv \/ ~InRec)
EnvDone == /\ envs' = envs + 1 /\ quiet' = FALSE /\ clean' = FALSE
           /\ UNCHANGED <<recs, faults, last>>
\* the Usage / the used resource moved under the reconcile in flight
TouchS(s) == IF rc.s = s THEN [rc EXCEPT !.stale = TRUE] ELSE rc
TouchU(u) == IF InRec /\ rc.ug.got /\ rc.loc.of = u THEN [rc EXCEPT !.ustale = TRUE] ELSE rc

Create(i, c) ==
  LET s == USeq[i] IN
  /\ EnvOK("create") /\ ~us[s].ex /\ rc.s # s /\ creates < MaxCreates /\ (i = 1 \/ us[USeq[1]].inc > 0)
  /\ us' = [us EXCEPT ![s] =
              [ex |-> TRUE, inc |-> us[s].inc + 1, del |-> FALSE,
               of |-> IF c.of \in U THEN c.of ELSE None, ofm |-> IF c.of \in U THEN "ref" ELSE c.of,
               by |-> IF c.by = B THEN B ELSE None, bym |-> IF c.by = B THEN "ref" ELSE c.by, comp |-> c.comp,
               replay |-> c.replay, rsn |-> c.rsn, fin |-> FALSE, det |-> None, own |-> {}, ready |-> FALSE]]
  /\ creates' = creates + 1
  /\ Log([t |-> "env", a |-> "env", k |-> "create", o |-> s, f |-> "", cfg |-> c])
  /\ UNCHANGED <<used, b, rc, pend, dels, bad>> /\ EnvDone

GoneS(r) == IF r.fin THEN [r EXCEPT !.del = TRUE] ELSE [NoUsage EXCEPT !.inc = r.inc]
SEnv(k, s, nr) == /\ EnvOK(k) /\ us[s].ex /\ us' = [us EXCEPT ![s] = nr] /\ rc' = TouchS(s) /\ Log(HE(k, s))
                  /\ UNCHANGED <<used, b, pend, creates, dels, bad>> /\ EnvDone
DelS(s) == ~us[s].del /\ SEnv("delS", s, GoneS(us[s]))
ReplayS(s) == SEnv("replayS", s, [us[s] EXCEPT !.replay = ~@])
ReasonS(s) == us[s].rsn /\ SEnv("reasonS", s, [us[s] EXCEPT !.det = IF @ = "cur" THEN "stale" ELSE @])
TouchEnv(s) == rc.s = s /\ ~rc.stale /\ SEnv("touchS", s, us[s])

UEnv(k, u, nx) == /\ EnvOK(k) /\ used' = [used EXCEPT ![u] = nx] /\ rc' = TouchU(u) /\ Log(HE(k, u))
                  /\ UNCHANGED <<b, us, pend, creates, dels, bad>> /\ EnvDone
RelabelU(u) == used[u].ex /\ UEnv("relabelU", u, [used[u] EXCEPT !.sel = ~@])
\* the used resource disappears (deleted while unprotected, or by force) / comes back under the same name with a new uid
DropU(u) == used[u].ex /\ UEnv("dropU", u, GoneU(used[u]))
MakeU(u) == ~used[u].ex /\ UEnv("makeU", u, [used[u] EXCEPT !.ex = TRUE, !.inc = @ + 1])
RecreateU(u) == used[u].ex /\ UEnv("recreateU", u, [GoneU(used[u]) EXCEPT !.ex = TRUE, !.inc = @ + 1])

BEnv(k, nb) == /\ EnvOK(k) /\ b' = nb /\ Log(HE(k, B))
               /\ UNCHANGED <<used, us, rc, pend, creates, dels, bad>> /\ EnvDone
DelB == b.st = "live" /\ BEnv("delB", [b EXCEPT !.st = IF BFin THEN "deleting" ELSE "gone"])
FinB == b.st = "deleting" /\ BEnv("finB", [b EXCEPT !.st = "gone"])
MakeB == b.st = "gone" /\ BEnv("makeB", [b EXCEPT !.st = "live", !.inc = @ + 1])
RelabelB == bex /\ BEnv("relabelB", [b EXCEPT !.sel = ~@])

\* the garbage collector deletes every object all of whose owners are gone (the XR owns composed Usages and stays)
Orphans == {s \in Usages : us[s].ex /\ ~us[s].del /\ ~us[s].comp /\ us[s].own # {} /\ ~(bex /\ b.inc \in us[s].own)}
KubeGC ==
  /\ EnvOK("gc") /\ Orphans # {}
  /\ us' = [s \in Usages |-> IF s \in Orphans THEN GoneS(us[s]) ELSE us[s]]
  /\ rc' = (IF rc.s \in Orphans THEN [rc EXCEPT !.stale = TRUE] ELSE rc)
  /\ Log(HE("gc", ""))
  /\ UNCHANGED <<used, b, pend, creates, dels, bad>> /\ EnvDone

NoteHook(u, p, dry, wf) ==
  bad' = bad \cup (IF dry /\ AfterDelete(u, p, dry, wf) # used[u] THEN {"DryRunEffect"} ELSE {})
             \cup (IF Decide(u, p, dry, wf).via = "panic" THEN {"HookPanic"} ELSE {})
DeleteRequest(u, p, dry, wf) ==
  /\ "delreq" \in EnvKinds /\ (MidEnv \/ ~InRec) /\ used[u].ex /\ dels < MaxDel /\ dels' = dels + 1
  /\ (wf # "none" => used[u].lab)
  /\ used' = [used EXCEPT ![u] = AfterDelete(u, p, dry, wf)]
  /\ rc' = (IF used'[u] # used[u] THEN TouchU(u) ELSE rc)
  /\ NoteHook(u, p, dry, wf)
  /\ Log([t |-> "env", a |-> "env", k |-> "delreq", o |-> u, f |-> "", pol |-> p, dry |-> dry, wf |-> wf])
  /\ quiet' = FALSE /\ clean' = FALSE
  /\ UNCHANGED <<b, us, pend, creates, recs, faults, envs, last>>

\* a replayed deletion is issued: an ordinary DELETE by the controller's client
\* (not between the start of a deferred Delete and the end of the reconcile that started it: it sleeps 2 s first)
Fire ==
  /\ pend # <<>> /\ (~InRec \/ (MidEnv /\ rc.pc # "dFin"))
  /\ LET r == pend[1] IN
     /\ (IF used[r.u].ex THEN used' = [used EXCEPT ![r.u] = AfterDelete(r.u, r.pol, FALSE, "none")] /\ NoteHook(r.u, r.pol, FALSE, "none")
         ELSE UNCHANGED <<used, bad>>)
     /\ rc' = (IF used'[r.u] # used[r.u] THEN TouchU(r.u) ELSE rc)
     /\ Log(HE("fire", r.u))
  /\ pend' = Tail(pend)
  /\ quiet' = FALSE /\ clean' = FALSE
  /\ UNCHANGED <<b, us, creates, recs, faults, envs, dels, last>>

Env == \/ \E i \in 1..Len(USeq), c \in Configs : Create(i, c)
       \/ \E s \in Usages : DelS(s) \/ ReplayS(s) \/ ReasonS(s) \/ TouchEnv(s)
       \/ \E u \in U : RelabelU(u) \/ DropU(u) \/ MakeU(u) \/ RecreateU(u)
       \/ DelB \/ FinB \/ MakeB \/ RelabelB \/ KubeGC
       \/ \E u \in U, p \in Policies, d \in DryRuns, w \in HookFaults : DeleteRequest(u, p, d, w)
       \/ Fire

----------------------------------------------------------------------------
(* Reconcile plumbing                                                      *)
S == rc.s
Ok(k, o) == Log(HC(k, o, "ok")) /\ UNCHANGED faults
Flt(k, o, f) == f \in FaultKinds /\ faults < MaxFaults /\ faults' = faults + 1 /\ Log(HC(k, o, f)) /\ quiet' = FALSE
Crashy(f) == f \in {"crashBefore", "crashAfter"}
\* the reconcile ends; a dead process takes its pending replays with it
End(res) == /\ rc' = Idle /\ recs' = recs + 1 /\ last' = [s |-> S, res |-> res]
            /\ clean' = (res \in {"ok", "wait", "error"} /\ quiet')
EndQ(res) == quiet' = quiet /\ End(res)
Keep == UNCHANGED <<recs, quiet, clean, last>>
KeepF == UNCHANGED <<recs, clean, last>>
Rest == UNCHANGED <<creates, envs, dels>>
Go(p) == rc' = [rc EXCEPT !.pc = p]

\* what an Update of the Usage / of the used resource meets
WOutS == IF ~us[S].ex THEN "notfound" ELSE IF rc.stale THEN "conflict" ELSE "ok"
WOutU == LET x == used[rc.loc.of] IN
         IF ~x.ex THEN "notfound" ELSE IF rc.ustale \/ x.inc # rc.ug.inc THEN "conflict" ELSE "ok"

\* a read: okpart says where a successful read leads
Read(p, k, o, okpart) ==
  /\ rc.pc = p
  /\ \/ Ok(k, o) /\ okpart /\ UNCHANGED pend
     \/ Flt(k, o, "error") /\ End("error") /\ UNCHANGED pend
     \/ Flt(k, o, "crashBefore") /\ End("crashed") /\ pend' = <<>>
  /\ UNCHANGED <<used, b, us, bad>> /\ Rest

\* a write of the Usage.  nr: the Usage as stored afterwards; cont: the reconcile afterwards (Idle = it ends);
\* nf: how a NotFound ends it ("ok" for RemoveFinalizer, which ignores it)
WriteS(p, k, o, nr, cont, nf) ==
  /\ rc.pc = p
  /\ \/ /\ Ok(k, o) /\ UNCHANGED pend
        /\ (CASE WOutS = "ok" -> /\ us' = [us EXCEPT ![S] = nr]
                                 /\ (IF cont = Idle THEN EndQ("ok") ELSE rc' = cont /\ Keep)
              [] WOutS = "conflict" -> UNCHANGED us /\ EndQ("requeue")
              [] WOutS = "notfound" -> UNCHANGED us /\ EndQ(nf))
     \/ /\ Flt(k, o, "error") /\ End("error") /\ UNCHANGED <<us, pend>>
     \/ /\ Flt(k, o, "conflict") /\ End("requeue") /\ UNCHANGED <<us, pend>>
     \/ /\ Flt(k, o, "crashBefore") /\ End("crashed") /\ UNCHANGED us /\ pend' = <<>>
     \/ /\ Flt(k, o, "crashAfter") /\ End("crashed") /\ pend' = <<>>
        /\ us' = (IF WOutS = "ok" THEN [us EXCEPT ![S] = nr] ELSE us)
  /\ UNCHANGED <<used, b, bad>> /\ Rest
Changed(l) == [rc EXCEPT !.loc = l, !.chg = TRUE]

\* a write of the used resource (the whole object as read: resourceVersion-checked); cont = Idle: the reconcile ends
WriteU(p, k, o, lab, cont, newpend) ==
  LET u == rc.loc.of
      nx == [used[u] EXCEPT !.lab = lab] IN
  /\ rc.pc = p
  /\ \/ /\ Ok(k, o)
        /\ (CASE WOutU = "ok" -> /\ used' = [used EXCEPT ![u] = nx] /\ pend' = newpend
                                 /\ (IF cont = Idle THEN EndQ("ok") ELSE rc' = cont /\ Keep)
              [] WOutU = "conflict" -> UNCHANGED <<used, pend>> /\ EndQ("requeue")
              [] WOutU = "notfound" -> UNCHANGED <<used, pend>> /\ EndQ("error"))
     \/ /\ Flt(k, o, "error") /\ End("error") /\ UNCHANGED <<used, pend>>
     \/ /\ Flt(k, o, "conflict") /\ End("requeue") /\ UNCHANGED <<used, pend>>
     \/ /\ Flt(k, o, "crashBefore") /\ End("crashed") /\ UNCHANGED used /\ pend' = <<>>
     \/ /\ Flt(k, o, "crashAfter") /\ End("crashed") /\ pend' = <<>>
        /\ used' = (IF WOutU = "ok" THEN [used EXCEPT ![u] = nx] ELSE used)
  /\ bad' = bad \cup (IF lab /\ WOutU = "ok" /\ ~used[u].lab /\ ~(us[S].ex /\ us[S].fin) THEN {"LabelWithoutFinalizer"} ELSE {})
  /\ UNCHANGED <<b, us>> /\ Rest

\* ---- where the code goes next, given its copy l of the Usage
AfterResolve(l) == IF l.del THEN (IF l.by # None /\ l.comp THEN "dWait" ELSE "dGetU")
                   ELSE IF ~l.fin /\ FinFirst THEN "cFin" ELSE IF l.det # "cur" THEN "cDet" ELSE "cGetU"
AfterOf(l) == IF Unresolved(l) THEN "rByList" ELSE AfterResolve(l)
AfterGet(l) == IF l.of = None THEN "rOfList" ELSE AfterOf(l)
Finish == IF rc.chg \/ ~rc.loc.ready THEN "cReady" ELSE "idle"

\* ---- 1. Get the Usage (the only cached read of one object)
GetS(s) ==
  /\ ~InRec /\ recs < MaxRecs /\ (us[s].ex \/ us[s].inc > 0)
  /\ ~(us[s].ex /\ us[s].del /\ us[s].replay /\ Len(pend) >= 2)
  /\ LET e(f) == [t |-> "call", a |-> s, k |-> "get", o |-> "usage", f |-> f] IN
     \/ /\ Log(e("ok")) /\ UNCHANGED faults /\ quiet' = TRUE
        /\ (IF ~us[s].ex THEN rc' = Idle /\ recs' = recs + 1 /\ last' = [s |-> s, res |-> "gone"] /\ clean' = TRUE
            ELSE /\ rc' = [Idle EXCEPT !.s = s, !.pc = AfterGet(us[s]), !.loc = us[s]]
                 /\ UNCHANGED <<recs, clean, last>>)
        /\ UNCHANGED pend
     \/ /\ \E f \in {"error", "miss"} : f \in FaultKinds /\ faults < MaxFaults /\ faults' = faults + 1 /\ Log(e(f))
        /\ rc' = Idle /\ recs' = recs + 1 /\ last' = [s |-> s, res |-> "error"] /\ clean' = FALSE /\ quiet' = FALSE /\ UNCHANGED pend
     \/ /\ "crashBefore" \in FaultKinds /\ faults < MaxFaults /\ faults' = faults + 1 /\ Log(e("crashBefore"))
        /\ rc' = Idle /\ recs' = recs + 1 /\ last' = [s |-> s, res |-> "crashed"] /\ clean' = FALSE /\ quiet' = FALSE /\ pend' = <<>>
  /\ UNCHANGED <<used, b, us, bad>> /\ Rest

\* ---- 2. selector resolution (selector.go): List, pick the first match, Update the Usage
OfCands(l) == SelectSeq(Useds, LAMBDA u : used[u].ex /\ used[u].sel /\ (l.ofm = "selctl" => (l.comp /\ used[u].ctl)))
ROfList == Read("rOfList", "list", "used",
                IF OfCands(rc.loc) = <<>> THEN EndQ("error")
                ELSE rc' = [rc EXCEPT !.cnd = OfCands(rc.loc)[1], !.pc = "rOfUpd"] /\ Keep)
ROfUpd == LET l == [rc.loc EXCEPT !.of = rc.cnd] IN
          WriteS("rOfUpd", "update", "resolve-of", [us[S] EXCEPT !.of = rc.cnd], [Changed(l) EXCEPT !.pc = AfterOf(l)], "error")
ByCand(l) == IF bex /\ b.sel /\ (l.bym = "selctl" => l.comp) THEN B ELSE None
RByList == Read("rByList", "list", "using",
                IF ByCand(rc.loc) = None THEN EndQ("error")
                ELSE rc' = [rc EXCEPT !.cnd = B, !.pc = "rByUpd"] /\ Keep)
RByUpd == LET l == [rc.loc EXCEPT !.by = B] IN
          WriteS("rByUpd", "update", "resolve-by", [us[S] EXCEPT !.by = B], [Changed(l) EXCEPT !.pc = AfterResolve(l)], "error")

\* ---- 3. deletion branch
UG(u) == [got |-> TRUE, ex |-> used[u].ex, inc |-> used[u].inc, lab |-> used[u].lab, ann |-> used[u].ann]
\* the deferred Delete: started iff replayDeletion and the copy read carries the attempt annotation
Spawned(l, g) == IF l.replay /\ g.ex /\ g.ann # None THEN Append(pend, [u |-> l.of, pol |-> g.ann]) ELSE pend
DWait == Read("dWait", "get", "using",
              IF bex THEN EndQ("wait")       \* still there: requeue after 30 s
              ELSE Go("dGetU") /\ Keep)
DGetU ==
  /\ rc.pc = "dGetU"
  /\ LET u == rc.loc.of IN
     \/ /\ Ok("get", "used") /\ Keep /\ UNCHANGED pend
        /\ rc' = [rc EXCEPT !.ug = UG(u), !.ustale = FALSE, !.pc = IF used[u].ex THEN "dList" ELSE "dFin"]
     \/ Flt("get", "used", "error") /\ End("error") /\ UNCHANGED pend
     \/ Flt("get", "used", "crashBefore") /\ End("crashed") /\ pend' = <<>>
  /\ UNCHANGED <<used, b, us, bad>> /\ Rest
DList ==
  /\ rc.pc = "dList"
  /\ LET n == Cardinality(Named(rc.loc.of)) IN
     \/ /\ Ok("list", "usages") /\ Keep
        /\ (IF n < 2 THEN rc' = [rc EXCEPT !.ln = n, !.pc = "dUnlabel"] /\ UNCHANGED pend
            ELSE rc' = [rc EXCEPT !.ln = n, !.pc = "dFin"] /\ pend' = Spawned(rc.loc, rc.ug))
     \/ Flt("list", "usages", "error") /\ End("error") /\ UNCHANGED pend
     \/ Flt("list", "usages", "crashBefore") /\ End("crashed") /\ pend' = <<>>
  /\ UNCHANGED <<used, b, us, bad>> /\ Rest
DUnlabel == WriteU("dUnlabel", "update", "unlabel", FALSE, [rc EXCEPT !.pc = "dFin"], Spawned(rc.loc, rc.ug))
DFin == WriteS("dFin", "update", "rmfin", [NoUsage EXCEPT !.inc = us[S].inc], Idle, "ok")

\* ---- 4. normal branch
CFin == LET l == [rc.loc EXCEPT !.fin = TRUE] IN
        WriteS("cFin", "update", "addfin", [us[S] EXCEPT !.fin = TRUE],
               [Changed(l) EXCEPT !.pc = IF l.det # "cur" THEN "cDet" ELSE "cGetU"], "error")
CDet == LET l == [rc.loc EXCEPT !.det = "cur"] IN
        WriteS("cDet", "update", "details", [us[S] EXCEPT !.det = "cur"], [Changed(l) EXCEPT !.pc = "cGetU"], "error")
CGetU == Read("cGetU", "get", "used",
              IF used[rc.loc.of].ex THEN rc' = [rc EXCEPT !.ug = UG(rc.loc.of), !.ustale = FALSE, !.pc = "cLabel"] /\ Keep
              ELSE EndQ("error"))
AfterLabel == IF rc.loc.by # None THEN "cGetB" ELSE Finish
\* always issued: the used resource is never "owned by" the Usage
CLabel == WriteU("cLabel", "update", "label", TRUE, IF AfterLabel = "idle" THEN Idle ELSE [rc EXCEPT !.pc = AfterLabel], pend)
\* owners[0] must be the using resource as read now: a composed Usage (owners[0] = XR) and a Usage whose first
\* reference is to an earlier incarnation re-assert the reference every time (a no-op once it is there)
NeedOwn == rc.loc.comp \/ rc.loc.own = {} \/ Min(rc.loc.own) # b.inc
CGetB == Read("cGetB", "get", "using",
              IF ~bex THEN EndQ("error")
              ELSE IF NeedOwn THEN rc' = [rc EXCEPT !.bi = b.inc, !.pc = "cOwn"] /\ Keep
              ELSE IF Finish = "idle" THEN EndQ("ok")
              ELSE rc' = [rc EXCEPT !.bi = b.inc, !.pc = "cReady"] /\ Keep)
COwn == LET l == [rc.loc EXCEPT !.own = @ \cup {rc.bi}]
            c == rc.chg \/ l # rc.loc
            nxt == IF c \/ ~rc.loc.ready THEN "cReady" ELSE "idle" IN
        WriteS("cOwn", "update", "own", [us[S] EXCEPT !.own = @ \cup {rc.bi}],
               IF nxt = "idle" THEN Idle ELSE [rc EXCEPT !.loc = l, !.chg = c, !.pc = "cReady"], "error")
CReady == WriteS("cReady", "status", "usage", [us[S] EXCEPT !.ready = TRUE], Idle, "error")

Rec == \/ \E s \in Usages : GetS(s)
       \/ ROfList \/ ROfUpd \/ RByList \/ RByUpd \/ DWait \/ DGetU \/ DList \/ DUnlabel \/ DFin
       \/ CFin \/ CDet \/ CGetU \/ CLabel \/ CGetB \/ COwn \/ CReady
Next == Env \/ Rec
Spec == Init /\ [][Next]_vars

----------------------------------------------------------------------------
(* Design-level properties                                                 *)
TypeOK == /\ rc.pc \in {"idle", "rOfList", "rOfUpd", "rByList", "rByUpd", "dWait", "dGetU", "dList", "dUnlabel", "dFin",
                        "cFin", "cDet", "cGetU", "cLabel", "cGetB", "cOwn", "cReady"}
          /\ \A s \in Usages : us[s].del => (us[s].ex /\ us[s].fin)
          /\ Len(pend) <= 3
\* P3 / D36 / D35 as step properties (ghosts recorded at the step)
StepProps == bad = {}
NoLabelWithoutFinalizer == "LabelWithoutFinalizer" \notin bad
DryRunSafe == "DryRunEffect" \notin bad
HookNeverPanics == "HookPanic" \notin bad
\* P3 as a state invariant: while the label may be written the finalizer is in the reconciler's copy
FinBeforeLabel == rc.pc \in {"cGetU", "cLabel", "cGetB", "cOwn", "cReady"} => rc.loc.fin
\* P1: a finalizer is only on a Usage whose selectors are resolved
FinResolved == \A s \in Usages : (us[s].ex /\ us[s].fin) => (us[s].of # None /\ ~Unresolved(us[s]))
\* P2: owner references only to incarnations of the using resource, only with spec.by
OwnOnlyBy == \A s \in Usages : us[s].own # {} => us[s].by # None
\* P4: a pending replay was recorded on the resource (its policy is a recorded policy)
PendSane == \A i \in 1..Len(pend) : pend[i].u \in U /\ pend[i].pol \in {Want(p) : p \in Policies}
\* P8: a reconcile that ran to its end fault-free in a quiet environment leaves what the environment permits
Repaired ==
  (~InRec /\ clean /\ last.s # None /\ us[last.s].ex) =>
     LET r == us[last.s] IN
     IF r.del THEN (last.res = "wait" /\ r.comp /\ r.by # None /\ bex)
     ELSE IF last.res = "ok"
          THEN /\ (FinFirst => r.fin) /\ r.det = "cur" /\ r.of # None /\ used[r.of].ex /\ used[r.of].lab /\ r.ready
               /\ (r.bym # None => (r.by # None /\ bex /\ b.inc \in r.own))
          ELSE \/ r.of = None \/ ~used[r.of].ex \/ Unresolved(r) \/ (r.by # None /\ ~bex)
=============================================================================
