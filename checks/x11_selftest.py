#!/usr/bin/env python3
"""Anti-vacuity self test of the X11 check (run by hand: python3 checks/x11_selftest.py [mutant-name ...]).

1. the witness configurations of the model: the reference with one cell of the type table wrong must violate RefConsistent;
2. sanity mutants of the REAL Setup functions (manager / revision / signature / resolver reconciler.go, pkg.go): the kind of
   copy-and-paste slip three hand-written near-copies invite. Each is applied ONLY through `go build -overlay` on a scratch
   copy under /verif/.work/X11/selftest (nothing is written to /repo), compiles, and must make MonPkgWiring report the
   expected formulas (none of which fires on the unchanged tree);
3. seeded corruption of one recorded field of a real trace: MonPkgWiring must reject exactly that line."""
import json
import os
import subprocess
import sys

sys.path.insert(0, os.path.dirname(os.path.dirname(os.path.abspath(__file__))))
import vlib  # noqa: E402
from checks import x11  # noqa: E402

P = "/repo/internal/controller/pkg/"
MGR, REV, SIG, RES, PKG = P + "manager/reconciler.go", P + "revision/reconciler.go", P + "signature/reconciler.go", P + "resolver/reconciler.go", P + "pkg.go"

MUTANTS = [
    # (name, file, old text, new text, formulas that must fire)
    ("function-manager-lists-provider-revisions", MGR,
     "nrl := func() v1.PackageRevisionList { return &v1.FunctionRevisionList{} }",
     "nrl := func() v1.PackageRevisionList { return &v1.ProviderRevisionList{} }",
     ["Wiring.Manager.Kinds", "Wiring.Manager.Api", "Sym.Manager.Unit"]),
    ("function-revision-gets-provider-linter", REV,
     "\t\tWithLinter(xpkg.NewFunctionLinter()),", "\t\tWithLinter(xpkg.NewProviderLinter()),",
     ["Wiring.Revision.Linter.Meta", "Install.Healthy", "Sym.Revision.Unit"]),
    ("configuration-depmanager-built-for-provider", REV,
     "dag.NewMapDag, v1.ConfigurationGroupVersionKind)", "dag.NewMapDag, v1.ProviderGroupVersionKind)",
     ["Wiring.Revision.DependencyManager.Type", "Install.Lock", "Sym.Revision.Unit"]),
    ("configuration-backend-without-default-registry", REV,
     "WithParserBackend(NewImageBackend(f, WithDefaultRegistry(o.DefaultRegistry))),", "WithParserBackend(NewImageBackend(f)),",
     ["Install.Fetch.Registry", "Wiring.Revision.Fetcher", "Sym.Revision.Install"]),
    ("provider-revisioner-without-default-registry", MGR,
     "\tcs, err := kubernetes.NewForConfig(mgr.GetConfig())\n\tif err != nil {\n\t\treturn errors.Wrap(err, errCreateK8sClient)\n\t}\n"
     "\tf, err := xpkg.NewK8sFetcher(cs, append(o.FetcherOptions, xpkg.WithNamespace(o.Namespace), xpkg.WithServiceAccount(o.ServiceAccount))...)\n"
     "\tif err != nil {\n\t\treturn errors.Wrap(err, errBuildFetcher)\n\t}\n\n\tlog := o.Logger.WithValues(\"controller\", name)\n\topts := []ReconcilerOption{\n"
     "\t\tWithNewPackageFn(np),\n\t\tWithNewPackageRevisionFn(nr),\n\t\tWithNewPackageRevisionListFn(nrl),\n"
     "\t\tWithRevisioner(NewPackageRevisioner(f, WithDefaultRegistry(o.DefaultRegistry))),\n"
     "\t\tWithConfigStore(xpkg.NewImageConfigStore(mgr.GetClient(), o.Namespace)),\n\t\tWithLogger(log),\n"
     "\t\tWithRecorder(event.NewAPIRecorder(mgr.GetEventRecorderFor(name))),\n\t}\n\n\treturn ctrl.NewControllerManagedBy(mgr).\n\t\tNamed(name).\n\t\tFor(&v1.Provider{}).",
     None,  # filled below: the same text with the option dropped
     ["Install.Fetch.Registry", "Wiring.Manager.Fetcher", "Sym.Manager.Install"]),
    ("function-manager-without-imageconfig-watch", MGR,
     "\t\tWatches(&v1beta1.ImageConfig{}, enqueueFunctionsForImageConfig(mgr.GetClient(), log)).\n", "",
     ["Wiring.Manager.Watches.Missing", "Sym.Manager.Watches"]),
    ("configuration-manager-without-silent-requeue", MGR,
     "Complete(ratelimiter.NewReconciler(name, errors.WithSilentRequeueOnConflict(r), o.GlobalRateLimiter))",
     "Complete(ratelimiter.NewReconciler(name, r, o.GlobalRateLimiter))",
     ["Wiring.Manager.SilentRequeue", "Sym.Manager.Stack"]),
    ("resolver-without-rate-limiter", RES,
     "Complete(ratelimiter.NewReconciler(name, errors.WithSilentRequeueOnConflict(NewReconciler(mgr, opts...)), o.GlobalRateLimiter))",
     "Complete(func() reconcile.Reconciler { _ = ratelimiter.NewGlobal; return errors.WithSilentRequeueOnConflict(NewReconciler(mgr, opts...)) }())",
     ["Wiring.Resolver.RateLimiter"]),
    ("function-hooks-wired-under-external", REV,
     "\tif o.PackageRuntime == controller.PackageRuntimeDeployment {\n\t\tro = append(ro, WithRuntimeHooks(NewFunctionHooks(",
     "\tif o.PackageRuntime != controller.PackageRuntimeUnspecified {\n\t\tro = append(ro, WithRuntimeHooks(NewFunctionHooks(",
     ["Install.Runtime", "Install.Image", "Install.Endpoint", "Sym.Revision.Install"]),
    ("function-revision-gets-provider-hooks", REV,
     "WithRuntimeHooks(NewFunctionHooks(mgr.GetClient(), o.DefaultRegistry))", "WithRuntimeHooks(NewProviderHooks(mgr.GetClient(), o.DefaultRegistry))",
     ["Install.Healthy", "Install.Runtime", "Sym.Revision.Install"]),
    ("resolver-never-upgrades", RES,
     "\t\topts = append(opts, WithNewDagFn(internaldag.NewUpgradingMapDag))\n", "",
     ["Wiring.Resolver.Upgrade"]),
    ("resolver-downgrades-without-the-option", RES,
     "\t\tif o.AutomaticDependencyDowngradeEnabled {", "\t\tif o.AutomaticDependencyDowngradeEnabled || o.MaxConcurrentReconciles > 0 {",
     ["Wiring.Resolver.Downgrade"]),
    ("provider-revision-upgrading-dag", REV,
     "NewPackageDependencyManager(mgr.GetClient(), dag.NewMapDag, v1.ProviderGroupVersionKind)",
     "NewPackageDependencyManager(mgr.GetClient(), dag.NewUpgradingMapDag, v1.ProviderGroupVersionKind)",
     ["Wiring.Revision.DependencyManager.Dag", "Sym.Revision.Unit"]),
    ("signature-controllers-behind-the-wrong-flag", PKG,
     "\tif o.Features.Enabled(features.EnableAlphaSignatureVerification) {", "\tif o.Features.Enabled(features.EnableAlphaDependencyVersionUpgrades) {",
     ["Setup.Registered.Missing", "Setup.Registered.Unexpected", "Install.Healthy"]),
    ("function-signature-handler-lists-provider-revisions", SIG,
     "enqueuePackageRevisionsForImageConfig(mgr.GetClient(), log, &v1.FunctionRevisionList{}))",
     "enqueuePackageRevisionsForImageConfig(mgr.GetClient(), log, &v1.ProviderRevisionList{}))",
     ["Wiring.Signature.Enqueue.ImageConfig", "Sym.Signature.Enqueue"]),
    ("provider-runtimeconfig-watch-under-negated-flag", REV,
     "\t\tif o.Features.Enabled(features.EnableBetaDeploymentRuntimeConfigs) {\n\t\t\tcb = cb.Watches(&v1beta1.DeploymentRuntimeConfig{}, &EnqueueRequestForReferencingProviderRevisions{",
     "\t\tif !o.Features.Enabled(features.EnableBetaDeploymentRuntimeConfigs) {\n\t\t\tcb = cb.Watches(&v1beta1.DeploymentRuntimeConfig{}, &EnqueueRequestForReferencingProviderRevisions{",
     ["Wiring.Revision.Watches.Missing", "Wiring.Revision.Watches.Unexpected", "Sym.Revision.Watches"]),
    ("function-controllerconfig-handler-lists-provider-revisions", REV,
     "\t\tWatches(&v1alpha1.ControllerConfig{}, &EnqueueRequestForReferencingFunctionRevisions{\n",
     "\t\tWatches(&v1alpha1.ControllerConfig{}, &EnqueueRequestForReferencingProviderRevisions{\n",
     ["Wiring.Revision.Enqueue.ControllerConfig", "Sym.Revision.Enqueue"]),
    ("function-revision-private-cache", REV,
     "\tro := []ReconcilerOption{\n\t\tWithCache(o.Cache),\n\t\tWithDependencyManager(NewPackageDependencyManager(mgr.GetClient(), dag.NewMapDag, v1.FunctionGroupVersionKind)),",
     "\tro := []ReconcilerOption{\n\t\tWithCache(xpkg.NewNopCache()),\n\t\tWithDependencyManager(NewPackageDependencyManager(mgr.GetClient(), dag.NewMapDag, v1.FunctionGroupVersionKind)),",
     ["Wiring.Revision.Cache", "Install.Cache", "Sym.Revision.Unit"]),
    ("configuration-fetcher-without-namespace", MGR,
     "xpkg.NewK8sFetcher(clientset, append(o.FetcherOptions, xpkg.WithNamespace(o.Namespace), xpkg.WithServiceAccount(o.ServiceAccount))...)",
     "xpkg.NewK8sFetcher(clientset, append(o.FetcherOptions, xpkg.WithServiceAccount(o.ServiceAccount))...)",
     ["Install.Fetch.Identity", "Install.Fetch.PullSecret", "Wiring.Manager.Fetcher", "Sym.Manager.Install"]),
    ("function-establisher-single-threaded", REV,
     "dag.NewMapDag, v1.FunctionGroupVersionKind)),\n\t\tWithEstablisher(NewAPIEstablisher(mgr.GetClient(), o.Namespace, o.MaxConcurrentPackageEstablishers)),",
     "dag.NewMapDag, v1.FunctionGroupVersionKind)),\n\t\tWithEstablisher(NewAPIEstablisher(mgr.GetClient(), o.Namespace, 1)),",
     ["Wiring.Revision.Establisher", "Sym.Revision.Unit"]),
    ("provider-establisher-in-the-default-namespace", REV,
     "dag.NewMapDag, v1.ProviderGroupVersionKind)),\n\t\tWithEstablisher(NewAPIEstablisher(mgr.GetClient(), o.Namespace, o.MaxConcurrentPackageEstablishers)),",
     "dag.NewMapDag, v1.ProviderGroupVersionKind)),\n\t\tWithEstablisher(NewAPIEstablisher(mgr.GetClient(), \"crossplane-system\", o.MaxConcurrentPackageEstablishers)),",
     ["Install.Healthy", "Install.WebhookNamespace", "Wiring.Revision.Api"]),
    ("configuration-signature-without-default-registry", SIG,
     "&v1.ConfigurationRevisionList{}))\n\n\tro := []ReconcilerOption{\n\t\tWithNewPackageRevisionFn(np),\n\t\tWithNamespace(o.Namespace),\n\t\tWithServiceAccount(o.ServiceAccount),\n\t\tWithDefaultRegistry(o.DefaultRegistry),",
     "&v1.ConfigurationRevisionList{}))\n\n\tro := []ReconcilerOption{\n\t\tWithNewPackageRevisionFn(np),\n\t\tWithNamespace(o.Namespace),\n\t\tWithServiceAccount(o.ServiceAccount),",
     ["Wiring.Signature.Identity", "Install.Signature", "Sym.Signature.Unit"]),
    ("resolver-fetcher-without-the-registry-options", RES,
     "xpkg.NewK8sFetcher(cs, append(o.FetcherOptions, xpkg.WithNamespace(o.Namespace), xpkg.WithServiceAccount(o.ServiceAccount))...)",
     "xpkg.NewK8sFetcher(cs, xpkg.WithNamespace(o.Namespace), xpkg.WithServiceAccount(o.ServiceAccount))",
     ["Wiring.Resolver.RegistryOptions"]),
    ("function-manager-named-like-the-provider-manager", MGR,
     "\tname := \"packages/\" + strings.ToLower(v1.FunctionGroupKind)", "\tname := \"packages/\" + strings.ToLower(v1.ProviderGroupKind)",
     ["Setup.UniqueNames", "Wiring.Manager.Name", "Wiring.Manager.RateLimiter"]),
    ("function-revision-controller-for-provider-revisions", REV,
     "\t\tFor(&v1.FunctionRevision{}).", "\t\tFor(&v1.ProviderRevision{}).",
     ["Setup.Registered.Missing", "Setup.Registered.Duplicate", "Install.Healthy"]),
]
for i, m in enumerate(MUTANTS):
    if m[3] is None:
        MUTANTS[i] = (m[0], m[1], m[2], m[2].replace("NewPackageRevisioner(f, WithDefaultRegistry(o.DefaultRegistry))", "NewPackageRevisioner(f)"), m[4])


def build_mutant(ctx, name, path, old, new):
    src = open(path).read()
    if src.count(old) != 1:
        raise SystemExit("mutant %s: anchor text occurs %d times in %s" % (name, src.count(old), path))
    d = os.path.join(ctx.work, "mutants", name)
    os.makedirs(d, exist_ok=True)
    mp = os.path.join(d, os.path.basename(path))
    with open(mp, "w") as f:
        f.write(src.replace(old, new))
    ov = os.path.join(d, "overlay.json")
    with open(ov, "w") as f:
        json.dump({"Replace": {path: mp}}, f)
    out = os.path.join(d, "pkgwiring")
    e = dict(os.environ)
    e.update(vlib.GOENV)
    p = subprocess.run(["go", "build", "-overlay", ov, "-o", out, x11.DRIVER], cwd=vlib.HARNESS, env=e,
                       stdout=subprocess.PIPE, stderr=subprocess.STDOUT, text=True)
    if p.returncode != 0:
        raise SystemExit("mutant %s does not build:\n%s" % (name, p.stdout[-3000:]))
    return out


def judge(ctx, binp, scs, tag):
    sub = ctx.sub("run_" + tag)
    _, _, counts = x11.drive_and_judge(sub, scs, binp=binp)
    return counts, os.path.join(sub.work, "trace.ndjson")


def main():
    only = set(sys.argv[1:])
    ctx = vlib.Ctx("X11/selftest", "quick", 1)
    ok = True
    if not only:
        for name, expect in x11.WITNESS:
            w = ctx.model_check(x11.MODULE, "%s_%s.cfg" % (x11.MODULE, name), expect_violations=expect, sub="wit_" + name, workers=1, timeout=120)
            print("witness %-36s violates %s" % (name, w["violated"]), flush=True)
    _, scs = x11.vectors(ctx, "%s_quick.cfg" % x11.MODULE)
    base, trace = judge(ctx, ctx.go_build(x11.DRIVER), scs, "base")
    print("unchanged tree:", base, flush=True)
    ok &= all(f in x11.FINDINGS for f in base)
    for name, path, old, new, expect in MUTANTS:
        if only and name not in only:
            continue
        got, _ = judge(ctx, build_mutant(ctx, name, path, old, new), scs, name)
        hit = all(got.get(f, 0) > base.get(f, 0) for f in expect)
        ok &= hit
        print("mutant %-58s %s  fired: %s" % (name, "DETECTED" if hit else "MISSED (expected %s)" % expect, got), flush=True)
    if only:
        print("selftest (subset)", "PASSED" if ok else "FAILED")
        return 0 if ok else 1

    # seeded corruption of recorded fields of a real trace
    lines = open(trace).read().splitlines()

    def first(pred):
        for i, ln in enumerate(lines):
            e = json.loads(ln)
            if pred(e):
                return i, e
        return None, None

    def watch(e, k):
        return [w for w in e["o"]["watches"] if w["k"] == k][0]
    corruptions = [
        ("a signature controller registered without the flag", lambda e: e["ev"] == "setup" and not e["input"]["sig"],
         lambda e: e["regs"].append({"fam": "signature", "for": "ProviderRevision", "t": "Provider", "name": "x", "idx": 99}), "Setup.Registered.Unexpected"),
        ("function manager lists provider revisions", lambda e: e["ev"] == "ctl" and e["fam"] == "manager" and e["t"] == "Function",
         lambda e: e["o"]["unit"].update(listKind="ProviderRevisionList"), "Wiring.Manager.Kinds"),
        ("configuration linter accepts a provider meta", lambda e: e["ev"] == "ctl" and e["fam"] == "revision" and e["t"] == "Configuration",
         lambda e: e["o"]["unit"]["lintMeta"][0].update(res="ok"), "Wiring.Revision.Linter.Meta"),
        ("provider linter accepts an XRD", lambda e: e["ev"] == "ctl" and e["fam"] == "revision" and e["t"] == "Provider",
         lambda e: [x.update(res="ok") for x in e["o"]["unit"]["lintObj"] if x["meta"] == "mP" and x["k"] == "XRD"], "Wiring.Revision.Linter.Objects"),
        ("lock entry of a function revision says Provider", lambda e: e["ev"] == "install" and e["t"] == "Function",
         lambda e: e["o"]["lock"].update(kind="Provider"), "Install.Lock"),
        ("ImageConfig event enqueues another type's package", lambda e: e["ev"] == "ctl" and e["fam"] == "manager" and e["t"] == "Configuration",
         lambda e: watch(e, "ImageConfig")["probes"][0].update(names=["provider-a"]), "Wiring.Manager.Enqueue.ImageConfig"),
        ("verification-only ImageConfig wakes the revision controller", lambda e: e["ev"] == "ctl" and e["fam"] == "revision" and e["t"] == "Provider",
         lambda e: [p.update(names=["provider-a-r1"]) for p in watch(e, "ImageConfig")["probes"] if p["p"] == "icVerify"], "Wiring.Revision.Enqueue.ImageConfig"),
        ("hooks under External", lambda e: e["ev"] == "install" and e["t"] == "Provider" and e["input"]["rt"] == "External",
         lambda e: e["o"].update(runtime=["Deployment|%s/REV" % e["input"]["ns"]]), "Install.Runtime"),
        ("image from another registry", lambda e: e["ev"] == "install" and e["t"] == "Function" and e["input"]["rt"] == "Deployment",
         lambda e: e["o"].update(image="index.docker.io/acme/pkg-function:v1.0.0"), "Install.Image"),
        ("conflict surfaces as an error", lambda e: e["ev"] == "ctl" and e["fam"] == "resolver",
         lambda e: e["o"].update(silent="error"), "Wiring.Resolver.SilentRequeue"),
        ("request passes a holding rate limiter", lambda e: e["ev"] == "ctl" and e["fam"] == "signature",
         lambda e: e["o"]["limited"].update(after=0, calls=3), "Wiring.Signature.RateLimiter"),
        ("upgrade without the flag", lambda e: e["ev"] == "ctl" and e["fam"] == "resolver" and not e["input"]["upg"],
         lambda e: e["o"]["upgrade"]["dep"].update(ver="v1.1.0"), "Wiring.Resolver.Upgrade"),
        ("gate open although verification is enabled", lambda e: e["ev"] == "install" and e["input"]["sig"],
         lambda e: e["o"].update(gate="open"), "Install.Gate"),
        ("one copy without the ratelimiter", lambda e: e["ev"] == "sym" and e["fam"] == "sym-revision",
         lambda e: e["copies"][1]["o"].update(wrappers=1), "Sym.Revision.Stack"),
        ("one copy watches one kind less", lambda e: e["ev"] == "sym" and e["fam"] == "sym-manager",
         lambda e: e["copies"][2]["o"]["watches"].pop(), "Sym.Manager.Watches"),
    ]
    for what, pick, mutate, formula in corruptions:
        idx, e = first(pick)
        if idx is None:
            ok = False
            print("corruption %-62s NO CANDIDATE LINE" % what)
            continue
        mutate(e)
        lo = max(0, idx - 5)
        cp = os.path.join(ctx.work, "corrupt.ndjson")
        with open(cp, "w") as f:
            f.write("\n".join(lines[lo:idx] + [json.dumps(e)] + lines[idx + 1:idx + 5]) + "\n")
        viols, _ = ctx.monitor("MonPkgWiring", cp)
        hit = any(f == formula and ln == idx - lo + 1 for f, ln, _ in viols)
        ok &= hit
        print("corruption %-62s line %d: %s" % (what, idx + 1, "REJECTED by " + formula if hit else "NOT NOTICED %s" % viols[:6]), flush=True)
    print("selftest", "PASSED" if ok else "FAILED")
    return 0 if ok else 1


if __name__ == "__main__":
    sys.exit(main())
