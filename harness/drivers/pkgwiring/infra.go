package main

// Stand-ins BELOW the production wiring: an in-process OCI registry behind an http.RoundTripper, a Kubernetes clientset
// that only answers the ServiceAccount / Secret reads of the registry keychain, a recording package cache, a recording
// global rate limiter, a recording work queue, a recording signature validator, and the reflect + unsafe helpers that
// reach unexported fields of objects the production Setup functions built (observation / re-pointing at the
// stand-ins only; nothing is rebuilt by hand).

import (
	"bytes"
	"context"
	"io"
	"net/http"
	"net/http/httptest"
	"reflect"
	"sort"
	"strings"
	"sync"
	"time"
	"unsafe"

	"github.com/google/go-containerregistry/pkg/name"
	"github.com/google/go-containerregistry/pkg/registry"
	corev1 "k8s.io/api/core/v1"
	kerrors "k8s.io/apimachinery/pkg/api/errors"
	metav1 "k8s.io/apimachinery/pkg/apis/meta/v1"
	apimeta "k8s.io/apimachinery/pkg/api/meta"
	kruntime "k8s.io/apimachinery/pkg/runtime"
	"k8s.io/apimachinery/pkg/runtime/schema"
	"k8s.io/client-go/kubernetes"
	typedcorev1 "k8s.io/client-go/kubernetes/typed/core/v1"
	"sigs.k8s.io/controller-runtime/pkg/client"
	"sigs.k8s.io/controller-runtime/pkg/reconcile"

	pkgv1beta1 "github.com/crossplane/crossplane/apis/pkg/v1beta1"
	"github.com/crossplane/crossplane/zzverif/simapi"
)

// ---------------------------------------------------------------- reflection

// unexported returns an addressable view of a struct field whatever its visibility.
func unexported(v reflect.Value, name string) reflect.Value {
	f := v.FieldByName(name)
	if !f.IsValid() {
		panic("no field " + name + " in " + v.Type().String())
	}
	return reflect.NewAt(f.Type(), unsafe.Pointer(f.UnsafeAddr())).Elem()
}

// fieldOf is unexported() that reports absence instead of panicking. v must be an addressable struct value.
func fieldOf(v reflect.Value, name string) (reflect.Value, bool) {
	if v.Kind() != reflect.Struct {
		return reflect.Value{}, false
	}
	f := v.FieldByName(name)
	if !f.IsValid() || !f.CanAddr() {
		return reflect.Value{}, false
	}
	return reflect.NewAt(f.Type(), unsafe.Pointer(f.UnsafeAddr())).Elem(), true
}

// structOf dereferences interfaces and pointers down to an addressable struct.
func structOf(v reflect.Value) (reflect.Value, bool) {
	for v.IsValid() && (v.Kind() == reflect.Interface || v.Kind() == reflect.Ptr) {
		if v.IsNil() {
			return reflect.Value{}, false
		}
		v = v.Elem()
	}
	if !v.IsValid() || v.Kind() != reflect.Struct || !v.CanAddr() {
		return reflect.Value{}, false
	}
	return v, true
}

// strField reads a string field of the struct behind v ("?" when there is none).
func strField(v reflect.Value, name string) string {
	st, ok := structOf(v)
	if !ok {
		return "?"
	}
	f, ok := fieldOf(st, name)
	if !ok || f.Kind() != reflect.String {
		return "?"
	}
	return f.String()
}

func typeName(x any) string {
	if x == nil {
		return "nil"
	}
	return reflect.TypeOf(x).String()
}

func sortedKeys(m map[string]bool) []any {
	ks := make([]string, 0, len(m))
	for k := range m {
		ks = append(ks, k)
	}
	sort.Strings(ks)
	out := make([]any, 0, len(ks))
	for _, k := range ks {
		out = append(out, k)
	}
	return out
}

func strs(ss []string) []any {
	out := make([]any, 0, len(ss))
	for _, s := range ss {
		out = append(out, s)
	}
	return out
}

// ---------------------------------------------------------------- the registry

// regRT serves every registry host from one in-memory registry and records, per actor (the controller whose
// reconcile is running), which hosts were contacted with which User-Agent.
type regRT struct {
	h     http.Handler
	actor func() string
	mu    sync.Mutex
	// per observation window
	by   map[string]*fetchLog
	hits int
}

// fetchLog is what one actor did below its fetcher.
type fetchLog struct {
	hosts, uas, sa, secrets map[string]bool
	hits                    int
}

func newFetchLog() *fetchLog {
	return &fetchLog{hosts: map[string]bool{}, uas: map[string]bool{}, sa: map[string]bool{}, secrets: map[string]bool{}}
}

func newRegRT() *regRT {
	return &regRT{h: registry.New(registry.Logger(nopLogger())), by: map[string]*fetchLog{}, actor: func() string { return "env" }}
}

func (r *regRT) log(actor string) *fetchLog {
	l := r.by[actor]
	if l == nil {
		l = newFetchLog()
		r.by[actor] = l
	}
	return l
}

func (r *regRT) RoundTrip(req *http.Request) (*http.Response, error) {
	a := r.actor()
	r.mu.Lock()
	l := r.log(a)
	l.hosts[req.URL.Host] = true
	l.uas[req.Header.Get("User-Agent")] = true
	l.hits++
	r.hits++
	r.mu.Unlock()
	var body []byte
	if req.Body != nil {
		body, _ = io.ReadAll(req.Body)
		_ = req.Body.Close()
	}
	in := req.Clone(req.Context())
	in.Body = io.NopCloser(bytes.NewReader(body))
	in.RequestURI = req.URL.RequestURI()
	rec := httptest.NewRecorder()
	r.h.ServeHTTP(rec, in)
	resp := rec.Result()
	resp.Request = req
	return resp, nil
}

func (r *regRT) reset() {
	r.mu.Lock()
	r.by, r.hits = map[string]*fetchLog{}, 0
	r.mu.Unlock()
}

// keychain records the ServiceAccount / Secret reads of the registry keychain for the running actor.
func (r *regRT) keychain(kind, id string) {
	a := r.actor()
	r.mu.Lock()
	defer r.mu.Unlock()
	if kind == "sa" {
		r.log(a).sa[id] = true
	} else {
		r.log(a).secrets[id] = true
	}
}

// record projects what the actors whose name starts with prefix did ("" = everybody): hosts contacted, whether
// every request carried the user agent, the number of requests, the keychain's reads.
func (r *regRT) record(prefix, ua string) map[string]any {
	r.mu.Lock()
	defer r.mu.Unlock()
	all := newFetchLog()
	for a, l := range r.by {
		if !strings.HasPrefix(a, prefix) {
			continue
		}
		for k := range l.hosts {
			all.hosts[k] = true
		}
		for k := range l.uas {
			all.uas[k] = true
		}
		for k := range l.sa {
			all.sa[k] = true
		}
		for k := range l.secrets {
			all.secrets[k] = true
		}
		all.hits += l.hits
	}
	uaOK := len(all.uas) > 0
	for u := range all.uas {
		if !strings.Contains(u, ua) {
			uaOK = false
		}
	}
	return map[string]any{"hosts": sortedKeys(all.hosts), "ua": uaOK, "hits": all.hits, "sa": sortedKeys(all.sa), "secrets": sortedKeys(all.secrets)}
}

// ---------------------------------------------------------------- the clientset of the registry keychain

type kubeStub struct {
	kubernetes.Interface
}

func (k *kubeStub) CoreV1() typedcorev1.CoreV1Interface { return &coreStub{} }

type coreStub struct {
	typedcorev1.CoreV1Interface
}

func (c *coreStub) ServiceAccounts(ns string) typedcorev1.ServiceAccountInterface { return &saStub{ns: ns} }
func (c *coreStub) Secrets(ns string) typedcorev1.SecretInterface                 { return &secStub{ns: ns} }

type saStub struct {
	typedcorev1.ServiceAccountInterface
	ns string
}

func (s *saStub) Get(_ context.Context, n string, _ metav1.GetOptions) (*corev1.ServiceAccount, error) {
	theReg.keychain("sa", s.ns+"/"+n)
	return nil, kerrors.NewNotFound(schema.GroupResource{Resource: "serviceaccounts"}, n)
}

type secStub struct {
	typedcorev1.SecretInterface
	ns string
}

func (s *secStub) Get(_ context.Context, n string, _ metav1.GetOptions) (*corev1.Secret, error) {
	theReg.keychain("secret", s.ns+"/"+n)
	return nil, kerrors.NewNotFound(schema.GroupResource{Resource: "secrets"}, n)
}

// ---------------------------------------------------------------- the shared package cache (o.Cache)

type recCache struct {
	mu   sync.Mutex
	data map[string][]byte
	ops  map[string]bool // "has:<id>" "get:<id>" "store:<id>" "delete:<id>"
	n    int             // calls
}

func newRecCache() *recCache { return &recCache{data: map[string][]byte{}, ops: map[string]bool{}} }

func (c *recCache) Has(id string) bool {
	c.mu.Lock()
	defer c.mu.Unlock()
	c.ops["has:"+id] = true
	c.n++
	_, ok := c.data[id]
	return ok
}

func (c *recCache) Get(id string) (io.ReadCloser, error) {
	c.mu.Lock()
	defer c.mu.Unlock()
	c.ops["get:"+id] = true
	c.n++
	return io.NopCloser(bytes.NewReader(c.data[id])), nil
}

func (c *recCache) Store(id string, content io.ReadCloser) error {
	b, err := io.ReadAll(content)
	if err != nil {
		return err
	}
	c.mu.Lock()
	defer c.mu.Unlock()
	c.ops["store:"+id] = true
	c.n++
	c.data[id] = b
	return nil
}

func (c *recCache) Delete(id string) error {
	c.mu.Lock()
	defer c.mu.Unlock()
	c.ops["delete:"+id] = true
	c.n++
	delete(c.data, id)
	return nil
}

func (c *recCache) reset() {
	c.mu.Lock()
	c.data, c.ops, c.n = map[string][]byte{}, map[string]bool{}, 0
	c.mu.Unlock()
}

func (c *recCache) opCount() int {
	c.mu.Lock()
	defer c.mu.Unlock()
	return c.n
}

func (c *recCache) snapshot() []any {
	c.mu.Lock()
	defer c.mu.Unlock()
	return sortedKeys(c.ops)
}

// ---------------------------------------------------------------- the global rate limiter (o.GlobalRateLimiter)

type recLimiter struct {
	mu   sync.Mutex
	hold time.Duration
	keys []string
}

func (l *recLimiter) When(item string) time.Duration {
	l.mu.Lock()
	defer l.mu.Unlock()
	l.keys = append(l.keys, item)
	return l.hold
}
func (l *recLimiter) Forget(string)          {}
func (l *recLimiter) NumRequeues(string) int { return 0 }

func (l *recLimiter) set(d time.Duration) {
	l.mu.Lock()
	l.hold, l.keys = d, nil
	l.mu.Unlock()
}

func (l *recLimiter) seen() []string {
	l.mu.Lock()
	defer l.mu.Unlock()
	return append([]string(nil), l.keys...)
}

// ---------------------------------------------------------------- a work queue that records what a watch handler enqueues

type recQueue struct {
	mu    sync.Mutex
	names map[string]bool
}

func newRecQueue() *recQueue { return &recQueue{names: map[string]bool{}} }

func (q *recQueue) add(r reconcile.Request) {
	q.mu.Lock()
	n := r.Name
	if r.Namespace != "" {
		n = r.Namespace + "/" + r.Name
	}
	q.names[n] = true
	q.mu.Unlock()
}
func (q *recQueue) Add(r reconcile.Request)                       { q.add(r) }
func (q *recQueue) AddAfter(r reconcile.Request, _ time.Duration) { q.add(r) }
func (q *recQueue) AddRateLimited(r reconcile.Request)            { q.add(r) }
func (q *recQueue) Forget(reconcile.Request)                      {}
func (q *recQueue) NumRequeues(reconcile.Request) int             { return 0 }
func (q *recQueue) Len() int                                      { return len(q.names) }
func (q *recQueue) Get() (reconcile.Request, bool)                { return reconcile.Request{}, true }
func (q *recQueue) Done(reconcile.Request)                        {}
func (q *recQueue) ShutDown()                                     {}
func (q *recQueue) ShutDownWithDrain()                            {}
func (q *recQueue) ShuttingDown() bool                            { return false }

// ---------------------------------------------------------------- the signature validator below the signature reconciler

type recValidator struct {
	mu    sync.Mutex
	calls []map[string]any
}

func (v *recValidator) Validate(_ context.Context, ref name.Reference, _ *pkgv1beta1.ImageVerification, secrets ...string) error {
	v.mu.Lock()
	defer v.mu.Unlock()
	sort.Strings(secrets)
	v.calls = append(v.calls, map[string]any{"reg": ref.Context().RegistryStr(), "repo": ref.Context().RepositoryStr(), "id": ref.Identifier(), "secrets": strs(secrets)})
	return nil
}


// ---------------------------------------------------------------- the client a manager hands out

// mclient puts on top of simapi what mgr.GetClient() does and simapi (a live typed client) does not: typed objects
// read through the informer cache carry their TypeMeta (Get and every item of a List); Update / Patch and their
// status variants preserve the caller's TypeMeta (controller-runtime v0.19 client.go; Create does not).
type mclient struct {
	*simapi.Client
}

func setGVK(obj kruntime.Object) {
	if _, isU := obj.(kruntime.Unstructured); isU {
		return
	}
	if gvks, _, err := theScheme.ObjectKinds(obj); err == nil && len(gvks) > 0 {
		obj.GetObjectKind().SetGroupVersionKind(gvks[0])
	}
}

func restoreGVK(obj kruntime.Object, gvk schema.GroupVersionKind) {
	if !gvk.Empty() {
		obj.GetObjectKind().SetGroupVersionKind(gvk)
	}
}

func (m *mclient) Get(ctx context.Context, key client.ObjectKey, obj client.Object, opts ...client.GetOption) error {
	err := m.Client.Get(ctx, key, obj, opts...)
	if err == nil {
		setGVK(obj)
	}
	return err
}

func (m *mclient) List(ctx context.Context, list client.ObjectList, opts ...client.ListOption) error {
	err := m.Client.List(ctx, list, opts...)
	if _, isU := list.(kruntime.Unstructured); err == nil && !isU {
		_ = apimeta.EachListItem(list, func(o kruntime.Object) error { setGVK(o); return nil })
	}
	return err
}

func (m *mclient) Update(ctx context.Context, obj client.Object, opts ...client.UpdateOption) error {
	defer restoreGVK(obj, obj.GetObjectKind().GroupVersionKind())
	return m.Client.Update(ctx, obj, opts...)
}

func (m *mclient) Patch(ctx context.Context, obj client.Object, p client.Patch, opts ...client.PatchOption) error {
	defer restoreGVK(obj, obj.GetObjectKind().GroupVersionKind())
	return m.Client.Patch(ctx, obj, p, opts...)
}

func (m *mclient) Status() client.SubResourceWriter { return &mstatus{w: m.Client.Status()} }

type mstatus struct{ w client.SubResourceWriter }

func (s *mstatus) Create(ctx context.Context, obj, sub client.Object, opts ...client.SubResourceCreateOption) error {
	return s.w.Create(ctx, obj, sub, opts...)
}
func (s *mstatus) Update(ctx context.Context, obj client.Object, opts ...client.SubResourceUpdateOption) error {
	defer restoreGVK(obj, obj.GetObjectKind().GroupVersionKind())
	return s.w.Update(ctx, obj, opts...)
}
func (s *mstatus) Patch(ctx context.Context, obj client.Object, p client.Patch, opts ...client.SubResourcePatchOption) error {
	defer restoreGVK(obj, obj.GetObjectKind().GroupVersionKind())
	return s.w.Patch(ctx, obj, p, opts...)
}
