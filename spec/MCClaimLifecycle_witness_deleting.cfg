SPECIFICATION Spec
CONSTANTS
  Syncer = "CSA"
  Pres <- PresMine
  Cdps <- PolNone
  Xdefs <- PolNone
  Ofins <- OnlyTrue
  Rdys <- RdyT
  Conn = TRUE
  MaxRecs = 2
  MaxFaults = 1
  MaxEnv = 1
  MidEnv = TRUE
  EnvKinds <- EnvDelete
  FaultKinds <- NoFaults
  FinFirst = TRUE
  RvCheck = TRUE
  FixDeleting = FALSE
  FixMiss = FALSE
  FixStale = FALSE
VIEW view
ACTION_CONSTRAINT Emit
CHECK_DEADLOCK FALSE
INVARIANTS DeletingTruth
