SPECIFICATION Spec
CONSTANTS
  Kind = "function"
  Starts <- StartsAll
  Certs <- BoolBoth
  Tmpls <- TmplAll
  Drc0 <- DrcAll
  EnvKinds <- EnvCalm
  Interf <- InterfNone
  MaxEdits = 2
  MaxFaults = 1
  MaxRecs = 2
  MaxNest = 0
  MidEnv = FALSE
  GuardInactive = TRUE
  GuardHealth = TRUE
  OwnDelete = FALSE
  CacheMiss = TRUE
VIEW view
ACTION_CONSTRAINT Emit
CHECK_DEADLOCK FALSE
PROPERTIES InactiveNeverCreates Owned Order HealthTruth
