---------------------------- MODULE MonPkgWiring ----------------------------
(***************************************************************************)
(* Trace monitor for X11.  harness/drivers/pkgwiring calls the REAL        *)
(* internal/controller/pkg.Setup for every option vector and writes, per   *)
(* vector,                                                                 *)
(*   "setup"    what pkg.Setup returned and which controllers it           *)
(*              registered (family = the package of the core reconciler,   *)
(*              for = the kind whose events enqueue the object itself)     *)
(*   "install"  per package type: a package of that type (source without   *)
(*              registry) installed by the registered controllers of that  *)
(*              type, run in rounds through Controller.Do                  *)
(*   "ctl"      per registered controller: watches + what every handler    *)
(*              enqueues for the probe events, the wrappers (held by the   *)
(*              rate limiter; Conflict -> silent requeue), unit probes of  *)
(*              the wired parts, its API calls during the install, the     *)
(*              resolver's three Lock scenarios                            *)
(*   "sym"      per family: the observations of its copies side by side    *)
(* Every formula compares an observation with PkgWiring.tla evaluated on   *)
(* the vector (e.input).  A false formula prints a VIOL line; the monitor  *)
(* never stops early.                                                      *)
(*                                                                         *)
(* Formulas  (<F> in Manager, Revision, Signature, Resolver)               *)
(*  Setup.NoError, Setup.Registered.Missing / .Unexpected / .Duplicate,    *)
(*  Setup.UniqueNames, Setup.For                                           *)
(*  Wiring.<F>.Name .For .Options .RateLimiter .SilentRequeue              *)
(*  Wiring.<F>.Watches.Missing .Watches.Unexpected                         *)
(*  Wiring.<F>.Enqueue.Self .Owner .ImageConfig .ControllerConfig          *)
(*             .RuntimeConfig .Lock                                        *)
(*  Wiring.<F>.ConfigStore                                                 *)
(*  Wiring.Manager.Kinds .Api .Fetcher .RegistryOptions                    *)
(*  Wiring.Revision.Kind .Parser .Linter.Meta .Linter.Objects .Cache       *)
(*             .Features .DependencyManager.Type .DependencyManager.Dag    *)
(*             .Establisher .Identity .Api .Api.RuntimeConfig .Fetcher     *)
(*             .RegistryOptions                                            *)
(*  Wiring.Signature.Kind .Validator .Identity .Api .RegistryOptions       *)
(*  Wiring.Resolver.Install .Upgrade .Downgrade .Fetcher .Registry         *)
(*             .Features .RegistryOptions                                  *)
(*  Install.Healthy .Gate .Revision .Verified .Signature .Lock .Runtime    *)
(*          .Image .Endpoint .Established .WebhookNamespace .Cache         *)
(*          .Fetch.Registry .Fetch.Identity .Fetch.PullSecret              *)
(*          .Fetch.UserAgent                                               *)
(*  Sym.<F>.Stack .Watches .Enqueue .Unit .Install   (F: Manager,          *)
(*          Revision, Signature)                                           *)
(*                                                                         *)
(* Finding of this module on the code as it is (checks/x11.py FINDINGS):   *)
(*  F-a Wiring.Signature.RegistryOptions - the cosign validator the three  *)
(*      signature Setup functions build is not given Options.FetcherOptions*)
(*      (--user-agent, --ca-bundle-path): its registry requests go through *)
(*      go-containerregistry's process-wide default transport              *)
(*      (scenarios/X11/fa-signature-registry-options.json).                *)
(***************************************************************************)
EXTENDS PkgWiring, TLC, Json, IOUtils

Trace == ndJsonDeserialize(IOEnv.VERIF_TRACE)
VARIABLE l

Viol(name, i) == PrintT("VIOL|" \o name \o "|" \o ToString(i) \o "|" \o Trace[i].scenario)

FamName(f) == CASE f = "manager" -> "Manager" [] f = "revision" -> "Revision" [] f = "signature" -> "Signature" [] OTHER -> "Resolver"
Sane(f, t) == f \in Families /\ (IF f = "resolver" THEN t = "Lock" ELSE t \in Types)
Foreign(k, t) == \E u \in Types \ {t} : k \in {PkgKind(u), RevKind(u), RevListKind(u)}

-----------------------------------------------------------------------------
(* setup *)
RegSet(e) == {Ctl(r.fam, r.t) : r \in Range(e.regs)}
CheckSetup(e, i) ==
  LET in == e.input IN
  /\ (e.err = "" \/ Viol("Setup.NoError", i))
  /\ (Registered(in) \subseteq RegSet(e) \/ Viol("Setup.Registered.Missing", i))
  /\ (RegSet(e) \subseteq Registered(in) \/ Viol("Setup.Registered.Unexpected", i))
  /\ (Cardinality(RegSet(e)) = Len(e.regs) \/ Viol("Setup.Registered.Duplicate", i))
  /\ (Cardinality({r.name : r \in Range(e.regs)}) = Len(e.regs) \/ Viol("Setup.UniqueNames", i))
  /\ ((\A r \in Range(e.regs) : Sane(r.fam, r.t) => r.for = ForKind(r.fam, r.t)) \/ Viol("Setup.For", i))

-----------------------------------------------------------------------------
(* one controller *)
WatchKinds(o) == {w.k : w \in Range(o.watches)}
ProbeIds(w) == {x.p : x \in Range(w.probes)}
EnqOK(f, t, o, roles) ==
  \A w \in Range(o.watches) :
    Role(f, t, w.k) \in roles =>
      /\ ProbeIds(w) = ProbesOf(w.k)
      /\ \A x \in Range(w.probes) : Range(x.names) = Enqueued(f, t, w.k, x.p)

Has(seq, x) == x \in Range(seq)

CheckCommon(f, t, o, in, i) ==
  LET N(a) == "Wiring." \o FamName(f) \o "." \o a
      all == MustWatch(f, t, in) \cup MayWatch(f, t, in) IN
  /\ (o.name = CtlName(f, t) \/ Viol(N("Name"), i))
  /\ (o.for = ForKind(f, t) \/ Viol(N("For"), i))
  /\ ((o.conc = in.conc /\ o.recover) \/ Viol(N("Options"), i))
  /\ ((o.limited.after = 7 /\ ~o.limited.err /\ o.limited.calls = 0 /\ o.limited.key = CtlName(f, t)) \/ Viol(N("RateLimiter"), i))
  /\ (o.silent = "requeue" \/ Viol(N("SilentRequeue"), i))
  /\ (MustWatch(f, t, in) \subseteq WatchKinds(o) \/ Viol(N("Watches.Missing"), i))
  /\ ((WatchKinds(o) \subseteq all /\ Cardinality(WatchKinds(o)) = Len(o.watches)) \/ Viol(N("Watches.Unexpected"), i))
  /\ (EnqOK(f, t, o, {"for"}) \/ Viol(N("Enqueue.Self"), i))
  /\ (EnqOK(f, t, o, {"owns"}) \/ Viol(N("Enqueue.Owner"), i))
  /\ (EnqOK(f, t, o, {"imageconfig"}) \/ Viol(N("Enqueue.ImageConfig"), i))
  /\ (EnqOK(f, t, o, {"controllerconfig"}) \/ Viol(N("Enqueue.ControllerConfig"), i))
  /\ (EnqOK(f, t, o, {"runtimeconfig"}) \/ Viol(N("Enqueue.RuntimeConfig"), i))
  /\ (EnqOK(f, t, o, {"lock"}) \/ Viol(N("Enqueue.Lock"), i))
  /\ ((o.unit.store.reads /\ o.unit.store.ns = in.ns) \/ Viol(N("ConfigStore"), i))

\* API objects are recorded as [k, ns, n]; the names the code generated (the revision) and the package's name are REV / PKG
HasObj(seq, k, ns, n) == \E x \in Range(seq) : x.k = k /\ x.ns = ns /\ x.n = n
\* what an actor did below its fetcher: the registry it asked (DefaultRegistry), the identity of its keychain
\* (Namespace / ServiceAccount), the pull secret of the matching ImageConfig
FetchOK(f, in) ==
  /\ Range(f.hosts) = {in.reg} /\ f.hits > 0
  /\ Range(f.sa) = {in.ns \o "/" \o in.sa}
  /\ Range(f.secrets) = {in.ns \o "/ic-secret"}
\* I7: its requests carry the operator's registry options (the User-Agent), its transport the CA bundle
OptionsOK(fam, f, ca) == f.hits > 0 /\ (CarriesRegistryOptions(fam) => (f.ua /\ ca))

CheckManager(t, o, in, i) ==
  LET u == o.unit IN
  /\ ((u.pkgKind = PkgKind(t) /\ u.revKind = RevKind(t) /\ u.listKind = RevListKind(t)) \/ Viol("Wiring.Manager.Kinds", i))
  /\ ((/\ HasObj(o.api.gets, PkgKind(t), "", "PKG")
       /\ Has(o.api.lists, RevKind(t)) /\ Has(o.api.lists, "ImageConfig")
       /\ HasObj(o.api.writes, RevKind(t), "", "REV") /\ HasObj(o.api.writes, PkgKind(t), "", "PKG")
       /\ \A x \in Range(o.api.lists) : x \in {RevKind(t), "ImageConfig"}
       /\ \A x \in Range(o.api.gets) \cup Range(o.api.writes) : x.k \in {PkgKind(t), RevKind(t)})
      \/ Viol("Wiring.Manager.Api", i))
  /\ (FetchOK(o.fetch, in) \/ Viol("Wiring.Manager.Fetcher", i))
  /\ (OptionsOK("manager", o.fetch, u.fetcherCA) \/ Viol("Wiring.Manager.RegistryOptions", i))

MetaSeq(doc) ==
  CASE doc = "none" -> <<>> [] doc = "mP" -> <<"mP">> [] doc = "mC" -> <<"mC">> [] doc = "mF" -> <<"mF">>
    [] doc = "mP+mP" -> <<"mP", "mP">> [] doc = "mP+mC" -> <<"mP", "mC">> [] doc = "mC+mF" -> <<"mC", "mF">> [] OTHER -> <<"mF", "mF">>

CheckRevision(t, o, in, i) ==
  LET u == o.unit
      hooks == Hooks(t, in) # "none" IN
  /\ (u.revKind = RevKind(t) \/ Viol("Wiring.Revision.Kind", i))
  /\ ((/\ Len(u.lintMeta) = 8 /\ Len(u.lintObj) = 15
       /\ \A x \in Range(u.lintMeta) : x.res # "parse"
       /\ \A x \in Range(u.lintObj) : x.res # "parse") \/ Viol("Wiring.Revision.Parser", i))
  /\ ((\A x \in Range(u.lintMeta) : x.res = "parse" \/ x.res = LintMeta(t, MetaSeq(x.doc))) \/ Viol("Wiring.Revision.Linter.Meta", i))
  /\ ((\A x \in Range(u.lintObj) :
         \/ x.res = "parse"
         \/ (x.meta = Type[t].meta /\ LintObj(t, x.k) \in {"any", x.res})
         \/ (x.meta # Type[t].meta /\ x.res = "lint")) \/ Viol("Wiring.Revision.Linter.Objects", i))
  /\ (u.cacheShared \/ Viol("Wiring.Revision.Cache", i))
  /\ (u.featuresShared \/ Viol("Wiring.Revision.Features", i))
  /\ ((u.dep.ran /\ u.dep.entry = LockEntry(t, "dc-r1", "reg.d/acme/dc", "v1.0.0")) \/ Viol("Wiring.Revision.DependencyManager.Type", i))
  /\ ((u.dep.ran /\ u.dep.res = "incompatible" /\ u.dep.invalid = 1 /\ u.dep.found = 1 /\ u.dep.installed = 1
       /\ u.dep.res2 = "incompatible" /\ u.dep.invalid2 = 1) \/ Viol("Wiring.Revision.DependencyManager.Dag", i))
  /\ (u.estLimit = in.est \/ Viol("Wiring.Revision.Establisher", i))
  /\ ((u.ns = in.ns /\ u.sa = in.sa) \/ Viol("Wiring.Revision.Identity", i))
  /\ ((/\ HasObj(o.api.gets, RevKind(t), "", "REV") /\ HasObj(o.api.gets, "Lock", "", "lock")
       /\ HasObj(o.api.writes, "Lock", "", "lock") /\ HasObj(o.api.writes, RevKind(t), "", "REV")
       /\ HasObj(o.api.gets, "ServiceAccount", in.ns, in.sa) <=> hooks
       /\ HasObj(o.api.gets, "Secret", in.ns, "PKG-tls-server") <=> HasRuntime(t)
       /\ \A x \in Range(o.api.gets) \cup Range(o.api.writes) : ~Foreign(x.k, t))
      \/ Viol("Wiring.Revision.Api", i))
  /\ ((HasObj(o.api.gets, "DeploymentRuntimeConfig", "", "default") <=> (hooks /\ in.drc)) \/ Viol("Wiring.Revision.Api.RuntimeConfig", i))
  /\ (FetchOK(o.fetch, in) \/ Viol("Wiring.Revision.Fetcher", i))
  /\ (OptionsOK("revision", o.fetch, u.fetcherCA) \/ Viol("Wiring.Revision.RegistryOptions", i))

CheckSignature(t, o, in, i) ==
  LET u == o.unit IN
  /\ (u.revKind = RevKind(t) \/ Viol("Wiring.Signature.Kind", i))
  /\ ((u.valNS = in.ns /\ u.valSA = in.sa /\ FetchOK(u.cosign, in)) \/ Viol("Wiring.Signature.Validator", i))
  /\ (OptionsOK("signature", u.cosign, ~u.cosign.defaultTransport) \/ Viol("Wiring.Signature.RegistryOptions", i))
  /\ ((u.ns = in.ns /\ u.sa = in.sa /\ u.registry = in.reg) \/ Viol("Wiring.Signature.Identity", i))
  /\ ((/\ HasObj(o.api.gets, RevKind(t), "", "REV") /\ HasObj(o.api.writes, RevKind(t), "", "REV") /\ Has(o.api.lists, "ImageConfig")
       /\ \A x \in Range(o.api.gets) \cup Range(o.api.writes) : x.k = RevKind(t)) \/ Viol("Wiring.Signature.Api", i))

DepAt(s, ver) == ~s.hung /\ s.dep.repo = "acme/dep-b" /\ s.dep.ver = ver /\ Range(s.kinds) = {"Provider"}

CheckResolver(o, in, i) ==
  /\ ((DepAt(o.install, ResolverInstalls) /\ o.install.err = "" /\ o.install.cond = "True:DependencyResolutionSucceeded") \/ Viol("Wiring.Resolver.Install", i))
  /\ (DepAt(o.upgrade, ResolverUpgrades(in)) \/ Viol("Wiring.Resolver.Upgrade", i))
  /\ (DepAt(o.downgrade, ResolverDowngrades(in)) \/ Viol("Wiring.Resolver.Downgrade", i))
  /\ ((FetchOK(o.install.fetch, in) /\ (~in.upg \/ FetchOK(o.upgrade.fetch, in))) \/ Viol("Wiring.Resolver.Fetcher", i))
  /\ (OptionsOK("resolver", o.install.fetch, o.unit.fetcherCA) \/ Viol("Wiring.Resolver.RegistryOptions", i))
  /\ (o.unit.registry = in.reg \/ Viol("Wiring.Resolver.Registry", i))
  /\ (o.unit.featuresShared \/ Viol("Wiring.Resolver.Features", i))

CheckCtl(e, i) ==
  LET f == e.fam
      t == e.t
      o == e.o
      in == e.input IN
  Sane(f, t) =>
    /\ CheckCommon(f, t, o, in, i)
    /\ (CASE f = "manager"   -> CheckManager(t, o, in, i)
          [] f = "revision"  -> CheckRevision(t, o, in, i)
          [] f = "signature" -> CheckSignature(t, o, in, i)
          [] OTHER           -> CheckResolver(o, in, i))

-----------------------------------------------------------------------------
(* installing a package of type t *)
CheckInstall(e, i) ==
  LET t == e.t
      o == e.o
      in == e.input
      r == o.revs[1] IN
  /\ ((o.healthy /\ o.pkgHealthy = "True:HealthyPackageRevision") \/ Viol("Install.Healthy", i))
  /\ (o.gate = Gate(in) \/ Viol("Install.Gate", i))
  /\ ((Len(o.revs) = 1 /\ r.kind = RevKind(t) /\ r.ctrl = PkgKind(t) \o "/" \o PkgName(t) /\ r.image = Repo(t) \o ":v1.0.0"
       /\ r.state = "Active" /\ r.fin /\ r.healthy = "True:HealthyPackageRevision" /\ r.refs = Cardinality(Docs(t)))
      \/ Viol("Install.Revision", i))
  /\ ((Len(o.revs) = 1 /\ r.verified = (IF in.sig THEN "True:SignatureVerificationSucceeded" ELSE "unset")) \/ Viol("Install.Verified", i))
  /\ ((IF in.sig
       THEN Len(o.validated) >= 1 /\ \A v \in Range(o.validated) : v.reg = in.reg /\ v.repo = Repo(t) /\ v.id = "v1.0.0" /\ Has(v.secrets, "ic-secret")
       ELSE o.validated = <<>>) \/ Viol("Install.Signature", i))
  /\ ((o.lock = LockEntry(t, "REV", Repo(t), "v1.0.0") /\ o.lockSize = 1) \/ Viol("Install.Lock", i))
  /\ (Range(o.runtime) = RuntimeObjects(t, in) \/ Viol("Install.Runtime", i))
  /\ (o.image = RuntimeImage(t, in) \/ Viol("Install.Image", i))
  /\ ((Len(o.revs) = 1 /\ r.endpoint = Endpoint(t, in)) \/ Viol("Install.Endpoint", i))
  /\ (Range(o.established) = Established(t) \/ Viol("Install.Established", i))
  /\ (o.whNS = WebhookNamespace(t, in) \/ Viol("Install.WebhookNamespace", i))
  /\ (({"has:REV", "store:REV", "get:REV"} \subseteq Range(o.cache) /\ \A c \in Range(o.cache) : c \in {"has:REV", "store:REV", "get:REV"}) \/ Viol("Install.Cache", i))
  /\ ((Range(o.fetch.hosts) = {in.reg} /\ o.fetch.hits > 0) \/ Viol("Install.Fetch.Registry", i))
  /\ (Range(o.fetch.sa) = {in.ns \o "/" \o in.sa} \/ Viol("Install.Fetch.Identity", i))
  /\ ((Has(o.fetch.secrets, in.ns \o "/ic-secret") /\ \A s \in Range(o.fetch.secrets) : s = in.ns \o "/ic-secret") \/ Viol("Install.Fetch.PullSecret", i))
  /\ (o.fetch.ua \/ Viol("Install.Fetch.UserAgent", i))

-----------------------------------------------------------------------------
(* the copies of one controller side by side *)
AbsWatches(c) ==
  {AbsKind(w.k, c.t) : w \in Range(c.o.watches)}
AbsEnqAll(c, skip) ==
  UNION {{<<AbsKind(w.k, c.t), AbsProbe(x.p, c.t), {AbsName(n, c.t) : n \in Range(x.names)}>> : x \in Range(w.probes)} :
           w \in {w \in Range(c.o.watches) : w.k \notin skip}}
Stack(c) == <<c.o.conc, c.o.recover, c.o.wrappers, c.o.limited.after, c.o.limited.calls, c.o.limited.err, c.o.limited.asked, c.o.silent,
              c.o.limited.key = c.o.name>>
RuntimeOnly == RuntimeKinds \cup {"ControllerConfig", "DeploymentRuntimeConfig"}

AbsStore(c) == <<c.o.unit.store.kind, c.o.unit.store.ns, c.o.unit.store.reads>>
AbsUnit(f, c) ==
  LET u == c.o.unit
      t == c.t IN
  CASE f = "manager" -> <<AbsKind(u.pkgKind, t), AbsKind(u.revKind, t), AbsKind(u.listKind, t), u.revisioner, u.fetcher, u.fetcherCA, AbsStore(c)>>
    [] f = "revision" ->
         <<AbsKind(u.revKind, t), u.backend, u.fetcher, u.fetcherCA, u.est, u.estLimit, u.cacheShared, u.featuresShared, u.ns, u.sa, AbsStore(c),
           u.dep.kind, u.dep.res, u.dep.found, u.dep.installed, u.dep.invalid, u.dep.res2, u.dep.invalid2, u.dep.entry.apiVersion, AbsKind(u.dep.entry.kind, t), u.dep.entry.type,
           \* the linter: own meta accepted, every other meta refused, malformed packages refused
           {<<IF x.doc = Type[t].meta THEN "OWN" ELSE IF x.doc \in MetaDocs THEN "OTHER" ELSE x.doc, x.res>> : x \in Range(u.lintMeta)},
           {x.res : x \in {y \in Range(u.lintObj) : y.meta # Type[t].meta}}>>
    [] OTHER -> <<AbsKind(u.revKind, t), u.validator, u.valNS, u.valSA, u.ns, u.sa, u.registry, AbsStore(c),
                  Range(u.cosign.hosts), Range(u.cosign.sa), Range(u.cosign.secrets), u.cosign.ua, u.cosign.hits > 0, u.cosign.defaultTransport>>

ContentKinds == {KindOfDoc(d) : d \in ObjectDocs}
AbsObjs(seq, t, skip) == {<<AbsKind(x.k, t), x.ns, x.n>> : x \in {y \in Range(seq) : y.k \notin skip}}
AbsApi(c, skip) ==
  <<AbsObjs(c.o.api.gets, c.t, skip), {AbsKind(k, c.t) : k \in Range(c.o.api.lists)}, AbsObjs(c.o.api.writes, c.t, skip)>>
AbsFetch(c) == <<Range(c.o.fetch.hosts), c.o.fetch.ua, Range(c.o.fetch.sa), Range(c.o.fetch.secrets), c.o.fetch.hits > 0>>
\* what the install shows of one copy (the part that does not depend on what the type implies)
AbsInstall(f, c) ==
  LET o == c.ins
      t == c.t IN
  CASE f = "manager" ->
         <<AbsApi(c, {}), AbsFetch(c), Len(o.revs), {<<AbsKind(r.kind, t), r.state>> : r \in Range(o.revs)}>>
    [] f = "revision" ->
         <<AbsApi(c, ContentKinds \cup RuntimeOnly), AbsFetch(c), o.gate, o.lockSize, o.lock.apiVersion, AbsKind(o.lock.kind, t), o.lock.type, o.lock.version,
           Range(o.cache), {<<r.fin, r.healthy>> : r \in Range(o.revs)}>>
    [] OTHER ->
         <<AbsApi(c, {}), {r.verified : r \in Range(o.revs)}, {<<v.reg, v.id, v.secrets>> : v \in Range(o.validated)}>>
\* the runtime side of an install, for the types that run a workload (which certificates a workload needs is
\* implied by its type - a provider also is a client - so Secrets are left out)
AbsInstallRuntime(c) ==
  LET o == c.ins IN
  <<AbsApi(c, ContentKinds \cup {"Secret"}), Cardinality(Range(o.runtime)), o.image # "none", c.o.unit.hooks # "none">>

AllEqual(S) == Cardinality(S) <= 1

CheckSym(e, i) ==
  LET f == IF e.fam = "sym-manager" THEN "manager" ELSE IF e.fam = "sym-revision" THEN "revision" ELSE "signature"
      C == Range(e.copies)
      W == {c \in C : HasRuntime(c.t)}          \* the copies for types that run a workload
      N(a) == "Sym." \o FamName(f) \o "." \o a IN
  /\ (AllEqual({Stack(c) : c \in C}) \/ Viol(N("Stack"), i))
  /\ ((IF f = "revision"
       THEN AllEqual({AbsWatches(c) \ RuntimeOnly : c \in C}) /\ AllEqual({AbsWatches(c) : c \in W})
       ELSE AllEqual({AbsWatches(c) : c \in C})) \/ Viol(N("Watches"), i))
  /\ ((IF f = "revision"
       THEN AllEqual({AbsEnqAll(c, RuntimeOnly) : c \in C}) /\ AllEqual({AbsEnqAll(c, {}) : c \in W})
       ELSE AllEqual({AbsEnqAll(c, {}) : c \in C})) \/ Viol(N("Enqueue"), i))
  /\ (AllEqual({AbsUnit(f, c) : c \in C}) \/ Viol(N("Unit"), i))
  /\ ((AllEqual({AbsInstall(f, c) : c \in C}) /\ (f = "revision" => AllEqual({AbsInstallRuntime(c) : c \in W}))) \/ Viol(N("Install"), i))

-----------------------------------------------------------------------------
Check(i) ==
  LET e == Trace[i] IN
  CASE e.ev = "setup"   -> CheckSetup(e, i)
    [] e.ev = "ctl"     -> CheckCtl(e, i)
    [] e.ev = "install" -> CheckInstall(e, i)
    [] e.ev = "sym"     -> CheckSym(e, i)
    [] OTHER            -> Viol("UnknownRecord", i)

Init == l = 0
Next == /\ l < Len(Trace) /\ l' = l + 1 /\ Check(l')
        /\ (l' < Len(Trace) \/ PrintT("DONE|" \o ToString(l')))
Spec == Init /\ [][Next]_l
=============================================================================
