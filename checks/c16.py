"""C16 - establishing package objects is all-or-nothing and respects the active/inactive role
(+ the C02 placement "package object controlled by another package").
Model: spec/Establisher.tla; driver: harness/drivers/establisher (real revision.Reconciler activate/deactivate
path + real revision.APIEstablisher on simapi); monitor: spec/MonEstablisher.tla."""
import glob
import json
import os

import vlib

PID = "C16"
MON_FORMULAS = ["AllOrNothing.Blocked", "AllOrNothing.ValidatedFirst", "OnlyActiveCreates", "InactivePlain.Step",
                "InactivePlain.Settled", "OneController", "ReleaseKeeps.Step", "ReleaseKeeps.Settled",
                "ReleaseKeeps.NotCollected", "PkgOwner.Write", "PkgOwner.Settled", "ForeignUntouched.Active",
                "ForeignUntouched.Inactive", "ForeignUntouched.Surfaces", "ForeignUntouched.SurfacesReconcile", "Frame"]


def scenarios_from(ctx, mc, prefix, n):
    return [{"id": "%s-%s-%07d" % (PID, prefix, i), "hist": h} for i, h in ctx.sample_lines(mc["emitted_file"], n, mc["emitted"])]


def regression():
    out = []
    for p in sorted(glob.glob(os.path.join(vlib.VERIF, "scenarios", PID, "*.json"))):
        with open(p) as f:
            out.append(json.load(f))
    return out


def drive_and_judge(ctx, scs, sweep=0, par=0, parvariants=3, variants="rotate"):
    by_id = {s["id"]: s for s in scs}
    sp = ctx.write_scenarios(scs)
    binp = ctx.go_build("./drivers/establisher")
    trace = os.path.join(ctx.work, "trace.ndjson")
    summ = os.path.join(ctx.work, "summary.json")
    ctx.run([binp, "-scenarios", sp, "-trace", trace, "-summary", summ, "-sweep", str(sweep), "-par", str(par),
             "-parvariants", str(parvariants), "-variants", variants, "-chunk", "60000", "-seed", str(ctx.seed)])
    with open(summ) as f:
        s = json.load(f)
    viols, nlines = ctx.monitor("MonEstablisher", trace)
    for formula, line, scid in viols:
        parts = scid.split("/")
        base = dict(by_id.get(parts[0], {"id": parts[0]}))
        base["id"] = scid
        for p in parts[1:]:
            if p.startswith("sweep-"):
                _, r, k, o = p.split("-")
                base["sweep"] = {"rec": int(r[1:]), "idx": int(k[1:]), "outcome": o}
                base["extra"] = 1
            elif p.startswith("par-"):
                _, sd, wk = p.split("-")
                base["par"] = {"seed": int(sd[1:]), "workers": int(wk[1:])}
                base["extra"] = 1
            else:
                base["variant"] = p
        ctx.violation(formula, scid, ctx.replay_file(base), "trace line %d" % line, fingerprint=formula)
    return s, nlines


def run(ctx):
    quick = ctx.quick
    cfgs = ["MCEstablisher_quick.cfg", "MCEstablisher_quick3.cfg"] if quick else ["MCEstablisher_thorough.cfg", "MCEstablisher_mid.cfg"]
    scs, states, trans, emitted = [], 0, 0, 0
    consts = {}
    budget = 1600 if quick else 36000
    for i, cfg in enumerate(cfgs):
        mc = ctx.model_check("MCEstablisher", cfg, workers=8 if quick else 16, timeout=300 if quick else 3000)
        scs += scenarios_from(ctx, mc, "m%d" % i, budget // len(cfgs))
        states += mc["states"]
        trans += mc["transitions"]
        emitted += mc["emitted"]
        consts[cfg] = dict(states=mc["states"], transitions=mc["transitions"], depth=mc["depth"], scenarios=mc["emitted"])
    chosen = regression() + scs
    s, nlines = drive_and_judge(ctx, chosen, sweep=6 if quick else 100, par=160 if quick else 3000,
                                parvariants=3 if quick else 4, variants="all")
    ctx.cov.update(dict(
        states=states, transitions=trans, traces_validated_against_impl=s["runs"],
        samples=s["samples"][:2], model_runs=consts, scenarios_emitted=emitted, scenarios_replayed=s["scenarios"],
        reconciles=s["reconciles"], sweep_runs=s["sweep_runs"], parallel_runs=s["par_runs"],
        parallel_choice_points=s["par_choices"], parallel_gate_timeouts=s["par_gate_timeouts"],
        events=nlines, per_action_counts=s["counts"], formula_antecedent_hits=s["hits"],
        drift=dict(unmatched_calls=s["drift"], runs_with_drift=s["drift_runs"], by_abs=s["drift_by_abs"]),
        monitor_formulas=MON_FORMULAS, exhaustive=(emitted == len(scs)),
        checker_cmd="tlc MCEstablisher (M,G) -> harness/drivers/establisher on /repo (T) -> tlc MonEstablisher",
        rule="one scenario per model transition that ends a reconcile (shortest history reaching it); a model 'fail' is "
             "realised as error / conflict / crash-before; sweep = every real call index x 4 outcomes + a fault-free reconcile "
             "of both revisions; parallel = 4 establisher workers, call order and one optional fault drawn from a seed",
    ))
    ctx.assumptions += ["simapi models the API server rules listed in spec/KubeAPI.tla (dry-run, scripted Invalid, <=1 controller)",
                        "the driver adds controller-runtime client semantics simapi lacks: cancelled contexts fail calls, "
                        "Update restores the caller's TypeMeta and Create does not, cached typed reads carry TypeMeta",
                        "'cannot be taken over' is judged on the cluster state when Establish starts; faults injected in the "
                        "establish phase may leave a prefix written (see spec/Establisher.tla)",
                        "which revision is active, and when which revision is reconciled, are environment steps chosen by TLC",
                        "verdict only from traces of the real revision.Reconciler + APIEstablisher judged by MonEstablisher.tla"]


def replay(ctx, path):
    with open(path) as f:
        sc = json.load(f)
    s, nlines = drive_and_judge(ctx, [sc])
    ctx.cov.update(dict(states=1, transitions=1, traces_validated_against_impl=s["runs"], samples=[sc], events=nlines))
