SPECIFICATION Spec
CONSTANTS
  CSeq <- CSeq3
  Shape <- Shape3
  InitC = {"c1", "c2", "c3"}
  Sels = {"none", "x"}
  MaxEdits = 3
  MaxStrips = 1
  MaxFaults = 2
  MaxRecs = 5
  MidEnv = TRUE
  MidFetch = FALSE
  FixLatest = TRUE
VIEW view
CHECK_DEADLOCK FALSE
INVARIANTS OnePerContent CreateFree CurrentHighest
PROPERTIES Faithful Monotone Manual Automatic
