SPECIFICATION Spec
CONSTANTS
  InitRevs <- RevVerdicts
  InitICs <- IcSome
  InitVst <- VstDefault
  InitOk <- OkBoth
  Feats <- OnlyTrue
  Orders <- Fwd
  ICs <- NoICs
  Imgs <- ImgsNone
  MaxSig = 2
  MaxRev = 2
  MaxFaults = 2
  MaxEnv = 0
  MidEnv = TRUE
  EnvKinds <- NoEnv
  FaultKinds <- FaultsAll
  GateOn = TRUE
  GateSkipsInactive = TRUE
  Sticky = TRUE
  VecICs <- NoICs
  VecEvICs <- NoICs
  VecImgs <- NoICs
VIEW view
ACTION_CONSTRAINT Emit
CHECK_DEADLOCK FALSE
INVARIANTS GateSafe RepairedSig VerdictShape RepairedRev InactiveDeactivates
