package main

// Families e2e and e2ept: the same observations, taken around whole reconciles of the real
// XR reconciler (function pipeline whose desired composite carries the
// connection details; the XRD key filter is handed to
// composite.NewAPIFilteredSecretPublisher exactly as definition.Reconciler
// does) and of the real claim reconciler (its default client-side syncer and
// the real APIConnectionPropagator) on one store.
//
// e2ept composes with the real PTComposer instead: one resource template whose
// connectionDetails are the vector's extraction configs, a composed resource
// whose connection secret holds the vector's data. Each XR reconcile yields an
// "extract" record (configs, data, the details the real composer handed to the
// publisher) and a "publish" record (those details, the XR's secret).
//
// The publisher / propagator handed to the reconcilers are the real ones behind
// a pass-through that only records whether they were reached and what they
// returned.

import (
	"context"
	"encoding/json"
	"sort"

	"google.golang.org/protobuf/types/known/structpb"
	corev1 "k8s.io/api/core/v1"
	metav1 "k8s.io/apimachinery/pkg/apis/meta/v1"
	"k8s.io/apimachinery/pkg/apis/meta/v1/unstructured"
	"k8s.io/apimachinery/pkg/runtime"
	"k8s.io/apimachinery/pkg/runtime/schema"
	"k8s.io/apimachinery/pkg/types"
	"k8s.io/utils/ptr"
	"sigs.k8s.io/controller-runtime/pkg/client"
	"sigs.k8s.io/controller-runtime/pkg/reconcile"

	"github.com/crossplane/crossplane-runtime/pkg/event"
	"github.com/crossplane/crossplane-runtime/pkg/reconciler/managed"
	"github.com/crossplane/crossplane-runtime/pkg/resource"

	fnv1 "github.com/crossplane/crossplane/apis/apiextensions/fn/proto/v1"
	v1 "github.com/crossplane/crossplane/apis/apiextensions/v1"
	"github.com/crossplane/crossplane/internal/controller/apiextensions/claim"
	"github.com/crossplane/crossplane/internal/controller/apiextensions/composite"
	"github.com/crossplane/crossplane/zzverif/simapi"
)

const (
	revName  = "rev1"
	compName = "comp1"
)

var (
	claimGVK = schema.GroupVersionKind{Group: "ex.org", Version: "v1", Kind: "Thing"}
	xrGVK    = schema.GroupVersionKind{Group: "ex.org", Version: "v1", Kind: "XThing"}
)

type evt struct {
	typ, reason, msg string
}

type recorder struct{ w *world }

func (r *recorder) Event(_ runtime.Object, e event.Event) {
	r.w.events = append(r.w.events, evt{typ: string(e.Type), reason: string(e.Reason), msg: e.Message})
}
func (r *recorder) WithAnnotations(...string) event.Recorder { return r }

// reached records a call of the real publisher / propagator and its answer.
type reached struct {
	called    bool
	published bool
	err       error
	details   managed.ConnectionDetails // what the composition handed to the publisher
}

type observingPublisher struct {
	inner managed.ConnectionPublisher
	r     *reached
}

func (p observingPublisher) PublishConnection(ctx context.Context, o resource.ConnectionSecretOwner, c managed.ConnectionDetails) (bool, error) {
	ok, err := p.inner.PublishConnection(ctx, o, c)
	*p.r = reached{called: true, published: ok, err: err, details: c}
	return ok, err
}

func (p observingPublisher) UnpublishConnection(ctx context.Context, o resource.ConnectionSecretOwner, c managed.ConnectionDetails) error {
	return p.inner.UnpublishConnection(ctx, o, c)
}

type observingPropagator struct {
	inner claim.ConnectionPropagator
	r     *reached
}

func (p observingPropagator) PropagateConnection(ctx context.Context, to resource.LocalConnectionSecretOwner, from resource.ConnectionSecretOwner) (bool, error) {
	ok, err := p.inner.PropagateConnection(ctx, to, from)
	*p.r = reached{called: true, published: ok, err: err}
	return ok, err
}

func (w *world) surfaced(reason string) bool {
	for _, e := range w.events {
		if e.typ == string(event.TypeWarning) && e.reason == reason {
			return true
		}
	}
	return false
}

// atomsOf projects connection details onto value atoms.
func atomsOf(d managed.ConnectionDetails) map[string]string {
	out := map[string]string{}
	for k, v := range d {
		out[k] = atomOf(v)
	}
	return out
}

const thingSecret = "thing-conn"

var templateSeq int

// template renders the P&T resource template of family e2ept.
func template(cfgs []cfgIn) v1.ComposedTemplate {
	base := map[string]any{"apiVersion": "ex.org/v1", "kind": "ComposedThing",
		"spec": map[string]any{
			"forProvider":                map[string]any{"str": "v1", "num": int64(42), "obj": map[string]any{"a": "b"}},
			"writeConnectionSecretToRef": map[string]any{"name": thingSecret, "namespace": nsX}}}
	raw, _ := json.Marshal(base)
	t := v1.ComposedTemplate{Name: ptr.To("t1"), Base: runtime.RawExtension{Raw: raw}}
	// Every other template is one that was MIGRATED from the time before connection details had a `type`: next to the explicit
	// type and its own source field, each detail still carries the other, now meaningless source fields. The explicit type
	// decides (added after the seeded change C09-m9 - inference from the legacy fields beats the explicit type - was missed).
	templateSeq++
	leftovers := templateSeq%2 == 0
	for _, c := range cfgs {
		x := extractCfg(c)
		tp := v1.ConnectionDetailType(x.Type)
		d := v1.ConnectionDetail{Name: ptr.To(x.Name), Type: &tp,
			FromConnectionSecretKey: x.FromConnectionSecretKey, FromFieldPath: x.FromFieldPath, Value: x.Value}
		if leftovers {
			switch c.Tp {
			case "path":
				d.FromConnectionSecretKey, d.Value = ptr.To("k1"), ptr.To("leftover")
			case "key":
				d.FromFieldPath, d.Value = ptr.To(paths["pstr"]), ptr.To("leftover")
			case "value":
				d.FromConnectionSecretKey, d.FromFieldPath = ptr.To("k1"), ptr.To(paths["pstr"])
			}
		}
		t.ConnectionDetails = append(t.ConnectionDetails, d)
	}
	return t
}

type e2e struct {
	w            *world
	in           *input
	out          []map[string]any
	xrRec, cmRec reconcile.Reconciler
	pubR, propR  reached
	current      map[string]string // what the function returns in this reconcile
	produced     map[[2]string]bool
	fresh        bool
	observed     []string // e2eobs: the composed resources the function was shown in the last reconcile
}

func newE2E(in *input, pt bool) *e2e { return newE2EWith(in, pt, false) }

const (
	ownThing, ownSecret = "own-thing", "own-conn"
	frnThing, frnSecret = "foreign-thing", "foreign-conn"
	foreignVal          = "v9" // the value of every key of the foreign resource's connection secret
)

// composedRef puts a composed resource with its connection secret into the store and returns the reference to it.
func (w *world) composedRef(name, rname, secret string, owner metav1.OwnerReference, data map[string]string) map[string]any {
	u := &unstructured.Unstructured{Object: map[string]any{}}
	u.SetAPIVersion("ex.org/v1")
	u.SetKind("ComposedThing")
	u.SetName(name)
	u.SetAnnotations(map[string]string{"crossplane.io/composition-resource-name": rname})
	u.SetOwnerReferences([]metav1.OwnerReference{owner})
	_ = unstructured.SetNestedMap(u.Object, map[string]any{"name": secret, "namespace": nsX}, "spec", "writeConnectionSecretToRef")
	w.s.Put(u)
	w.s.Put(secretFor(nsX, secret, secIn{Exists: true, Ctrl: "none", Type: "conn", Data: data}))
	return map[string]any{"apiVersion": "ex.org/v1", "kind": "ComposedThing", "name": name}
}

// newE2EWith: obs = family e2eobs. The XR references a composed resource of its own and one that another XR
// controls (both with connection secrets); the function behaves like function-patch-and-transform: it keeps every
// observed composed resource desired and passes the observed connection details on to the XR's.
func newE2EWith(in *input, pt, obs bool) *e2e {
	w := newWorld(in)
	w.s.Namespaced(claimGVK.GroupKind())
	t := &e2e{w: w, in: in, produced: map[[2]string]bool{}, fresh: !in.XSec.Exists}

	xr := &unstructured.Unstructured{Object: map[string]any{}}
	xr.SetGroupVersionKind(xrGVK)
	xr.SetName(xrName)
	xr.SetUID(xrUID)
	xr.SetLabels(map[string]string{"crossplane.io/claim-name": claimName, "crossplane.io/claim-namespace": nsC})
	_ = unstructured.SetNestedField(xr.Object, compName, "spec", "compositionRef", "name")
	_ = unstructured.SetNestedField(xr.Object, revName, "spec", "compositionRevisionRef", "name")
	_ = unstructured.SetNestedField(xr.Object, "Manual", "spec", "compositionUpdatePolicy")
	_ = unstructured.SetNestedMap(xr.Object, map[string]any{"apiVersion": "ex.org/v1", "kind": "Thing", "namespace": nsC, "name": claimName}, "spec", "claimRef")
	if in.XWants {
		_ = unstructured.SetNestedMap(xr.Object, map[string]any{"name": xSecName, "namespace": nsX}, "spec", "writeConnectionSecretToRef")
	}
	if obs {
		w.keys["k1"], w.keys["k2"] = true, true
		frn := map[string]string{}
		for k := range w.keys {
			frn[k] = foreignVal
		}
		_ = unstructured.SetNestedSlice(xr.Object, []any{
			w.composedRef(ownThing, "own", ownSecret, ownerRef("XThing", xrName, xrUID, true), in.CData),
			w.composedRef(frnThing, "frn", frnSecret, ownerRef("XThing", "somebody-else", otherUID, true), frn),
		}, "spec", "resourceRefs")
	}
	w.s.Put(xr)

	cm := &unstructured.Unstructured{Object: map[string]any{}}
	cm.SetGroupVersionKind(claimGVK)
	cm.SetNamespace(nsC)
	cm.SetName(claimName)
	cm.SetUID(claimUID)
	_ = unstructured.SetNestedMap(cm.Object, map[string]any{"apiVersion": "ex.org/v1", "kind": "XThing", "name": xrName}, "spec", "resourceRef")
	if in.CWants {
		_ = unstructured.SetNestedMap(cm.Object, map[string]any{"name": cSecName}, "spec", "writeConnectionSecretToRef")
	}
	w.s.Put(cm)

	rev := &v1.CompositionRevision{ObjectMeta: metav1.ObjectMeta{Name: revName, Labels: map[string]string{v1.LabelCompositionName: compName}}}
	rev.Spec.CompositeTypeRef = v1.TypeReference{APIVersion: "ex.org/v1", Kind: "XThing"}
	rev.Spec.Revision = 1
	if pt {
		mode := v1.CompositionModeResources
		rev.Spec.Mode = &mode
		rev.Spec.Resources = []v1.ComposedTemplate{template(in.Cfgs)}
		// the composed resource's own connection secret, as its provider wrote it
		w.s.Put(secretFor(nsX, thingSecret, secIn{Exists: true, Ctrl: "none", Type: "conn", Data: in.CData}))
	} else {
		mode := v1.CompositionModePipeline
		rev.Spec.Mode = &mode
		rev.Spec.Pipeline = []v1.PipelineStep{{Step: "s1", FunctionRef: v1.FunctionReference{Name: "fn1"}}}
	}
	w.s.Put(rev)

	// the function: desires no composed resources and the connection details of this reconcile
	fn := composite.FunctionRunnerFn(func(_ context.Context, _ string, req *fnv1.RunFunctionRequest) (*fnv1.RunFunctionResponse, error) {
		xrs, _ := structpb.NewStruct(map[string]any{"apiVersion": "ex.org/v1", "kind": "XThing"})
		cd := detailsOf(t.current)
		des := map[string]*fnv1.Resource{}
		if obs {
			names := []string{}
			for n := range req.GetObserved().GetResources() {
				names = append(names, n)
			}
			sort.Strings(names)
			t.observed = names
			for _, n := range names {
				r := req.GetObserved().GetResources()[n]
				body, _ := structpb.NewStruct(map[string]any{"apiVersion": "ex.org/v1", "kind": "ComposedThing"})
				des[n] = &fnv1.Resource{Resource: body}
				for k, v := range r.GetConnectionDetails() {
					if _, set := cd[k]; !set {
						cd[k] = v
					}
				}
			}
		}
		return &fnv1.RunFunctionResponse{Context: req.GetContext(),
			Desired: &fnv1.State{Composite: &fnv1.Resource{Resource: xrs, ConnectionDetails: cd}, Resources: des}}, nil
	})

	filter := in.Filter
	if len(filter) == 0 {
		filter = nil
	}
	rec := &recorder{w: w}
	// the production wiring of definition.Reconciler.CompositeReconcilerOptions
	fetcher := composite.NewSecretConnectionDetailsFetcher(w.c)
	runner := composite.NewFetchingFunctionRunner(fn, composite.NewExistingExtraResourcesFetcher(w.c))
	// the informer cache the observer reads through first; "miss": it has not seen the composed resources yet
	var cached client.Client = w.c
	if obs && in.Foreign == "miss" {
		sib := w.c.Client.Sibling("c09-cache")
		sib.Intercept = func(cl *simapi.Call) simapi.Decision {
			if cl.Verb == "get" && cl.Key.Kind == "ComposedThing" {
				return simapi.CacheMiss
			}
			return simapi.Proceed
		}
		cached = sib
	}
	fc := composite.NewFunctionComposer(w.c, w.c, runner,
		composite.WithComposedResourceObserver(composite.NewExistingComposedResourceObserver(cached, w.c, fetcher)),
		composite.WithCompositeConnectionDetailsFetcher(fetcher))
	ptc := composite.NewPTComposer(w.c, w.c, composite.WithComposedConnectionDetailsFetcher(fetcher))
	t.xrRec = composite.NewReconciler(w.c, w.c, resource.CompositeKind(xrGVK),
		composite.WithConnectionPublishers(observingPublisher{inner: composite.NewAPIFilteredSecretPublisher(w.c, filter), r: &t.pubR}),
		composite.WithCompositionSelector(composite.NewCompositionSelectorChain(composite.NewAPILabelSelectorResolver(w.c))),
		composite.WithComposer(composite.ComposerSelectorFn(func(cm *v1.CompositionMode) composite.Composer {
			if cm != nil && *cm == v1.CompositionModePipeline {
				return fc
			}
			return ptc
		})),
		composite.WithRecorder(rec))
	t.cmRec = claim.NewReconciler(w.c, resource.CompositeClaimKind(claimGVK), resource.CompositeKind(xrGVK),
		claim.WithConnectionPropagator(observingPropagator{inner: claim.NewAPIConnectionPropagator(w.c), r: &t.propR}),
		claim.WithRecorder(rec))
	return t
}

func (t *e2e) producedOut() []any {
	ps := make([][2]string, 0, len(t.produced))
	for p := range t.produced {
		ps = append(ps, p)
	}
	sort.Slice(ps, func(i, j int) bool { return ps[i][0]+"="+ps[i][1] < ps[j][0]+"="+ps[j][1] })
	o := []any{}
	for _, p := range ps {
		o = append(o, map[string]any{"k": p[0], "v": p[1]})
	}
	return o
}

func (t *e2e) produce(details map[string]string) {
	for k, v := range details {
		if v != none {
			t.produced[[2]string{k, v}] = true
		}
	}
}

// step runs one reconcile and records the observation around it. details == nil: take what the publisher was handed.
func (t *e2e) step(leg string, details map[string]string, r *reached, reason string, withExtract bool, run func() error) {
	w := t.w
	w.writes, w.reads, w.events = nil, 0, nil
	*r = reached{}
	pre := w.snap()
	rerr := run()
	post := w.snap()
	l := leg
	if !r.called {
		l = "skipped" // the reconcile did not get as far as publishing / propagating
	}
	if withExtract {
		// the P&T composer's extraction, observed at the publisher's input
		handed := atomsOf(r.details)
		w.see(r.details)
		for _, c := range t.in.Cfgs {
			if c.Name != "" {
				w.keys[c.Name] = true
			}
		}
		x := w.obs("extract", nil, t.in.Filter, t.in.XWants, t.in.CWants, pre, post, false, "")
		x["cfgs"], x["cdata"], x["xout"], x["xerr"] = cfgsOut(t.in.Cfgs), w.strsOut(t.in.CData), w.strsOut(handed), !r.called
		x["writes"], x["surfaced"] = []any{}, !r.called && (w.surfaced("ComposeResources") || rerr != nil)
		t.out = append(t.out, x)
		details = handed
		t.produce(handed)
	}
	if details == nil && !withExtract {
		details = atomsOf(r.details) // e2eobs: what the composition handed to the publisher
		w.see(r.details)
	}
	o := w.obs(l, details, t.in.Filter, t.in.XWants, t.in.CWants, pre, post, r.published, errClass(r.err))
	o["fresh"], o["produced"] = t.fresh && leg == "publish", t.producedOut()
	// an error of the publisher / propagator must come out of the reconciler as a Warning event (or a failed reconcile)
	o["surfaced"] = w.surfaced(reason) || rerr != nil
	t.out = append(t.out, o)
}

func (t *e2e) xrStep(details map[string]string, pt bool) {
	t.current = details
	if !pt {
		t.produce(details)
	}
	t.step("publish", details, &t.pubR, "PublishConnectionSecret", pt, func() error {
		_, err := t.xrRec.Reconcile(context.Background(), reconcile.Request{NamespacedName: types.NamespacedName{Name: xrName}})
		return err
	})
}

func (t *e2e) cmStep() {
	t.step("propagate", nil, &t.propR, "PropagateConnectionSecret", false, func() error {
		_, err := t.cmRec.Reconcile(context.Background(), reconcile.Request{NamespacedName: types.NamespacedName{Namespace: nsC, Name: claimName}})
		return err
	})
}

func runE2E(in *input) []map[string]any {
	t := newE2E(in, false)
	t.xrStep(in.Details, false)
	t.xrStep(in.Details2, false)
	t.xrStep(in.Details2, false)
	t.cmStep()
	t.cmStep()
	// somebody else takes the XR's secret over and changes it: the claim must not follow
	t.w.s.Mutate(xSecKey, func(u *unstructured.Unstructured) {
		u.SetOwnerReferences([]metav1.OwnerReference{ownerRef("XThing", "somebody-else", otherUID, true)})
		s := &corev1.Secret{Data: map[string][]byte{"k1": []byte("v7")}}
		m, _ := runtime.DefaultUnstructuredConverter.ToUnstructured(s)
		u.Object["data"] = m["data"]
	})
	t.cmStep()
	return t.out
}

// runE2EObs: two XR reconciles. What the composition produces for this XR: the function's own details and the
// connection details of the composed resource the XR controls - never those of the resource another XR controls.
func runE2EObs(in *input) []map[string]any {
	t := newE2EWith(in, false, true)
	for _, d := range []map[string]string{in.Details, in.Details2} {
		t.current = d
		t.produce(d)
		t.produce(in.CData)
		t.step("publish", nil, &t.pubR, "PublishConnectionSecret", false, func() error {
			_, err := t.xrRec.Reconcile(context.Background(), reconcile.Request{NamespacedName: types.NamespacedName{Name: xrName}})
			return err
		})
		t.out[len(t.out)-1]["observed"] = strsAny(t.observed)
	}
	return t.out
}

func runE2EPT(in *input) []map[string]any {
	t := newE2E(in, true)
	t.xrStep(nil, true)
	t.xrStep(nil, true)
	return t.out
}

var _ = simapi.Proceed
