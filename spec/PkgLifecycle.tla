---------------------------- MODULE PkgLifecycle ----------------------------
(***************************************************************************)
(* X07 - the life cycle of a package and of its revisions AROUND the cores *)
(* that other modules cover: everything the package manager reconciler     *)
(* (internal/controller/pkg/manager/reconciler.go) and the package         *)
(* revision reconciler (internal/controller/pkg/revision/reconciler.go) do *)
(* before, between and after revision bookkeeping (C14), the content       *)
(* pipeline and its gates (C15), establishing (C16), dependency solving    *)
(* (C17), the Lock on deletion (C08, LockFin.tla) and the runtime hooks    *)
(* (X01).  Both reconcilers run in ONE world: the manager creates /        *)
(* patches the revisions, the revision reconciler reports their health,    *)
(* the manager mirrors it.  Real in the harness: both reconcilers, the     *)
(* ImageConfig store (internal/xpkg/config.go), PackageRevisioner,         *)
(* ImageBackend, parser, Provider linter, PackageDependencyManager (the    *)
(* Lock), APIFinalizer, APIPatchingApplicator.  Recording fakes at the     *)
(* seams: registry fetcher (Head / Fetch), package cache, Establisher,     *)
(* runtime hooks.                                                          *)
(*                                                                         *)
(* One action per API call / seam call in code order.  The reconciler's    *)
(* copy of the object it read (rc.lp / rc.lr), whether that copy is out of *)
(* date (rc.stale; for the manager also the listed revisions: rc.lstale),  *)
(* the step that failed (rc.mode) are explicit.  Every API call may fail   *)
(* as an error value, as a Conflict (writes), as a cache miss (Gets), as a *)
(* dead process before or after the effect; every seam may answer with an  *)
(* error (hooks / establisher also with a Conflict).  The environment acts *)
(* between and in the middle of reconciles: the user pauses / unpauses /   *)
(* edits / deletes the package, pauses / deletes a revision, ImageConfigs  *)
(* come and go, and (when one of the two reconcilers is not part of a      *)
(* configuration) stand-ins for it: the revision's health changes, its     *)
(* desired state / ignoreCrossplaneConstraints is flipped.                 *)
(*                                                                         *)
(* What the code's authors evidently intend (each clause checked against   *)
(* code and comments; MonPkgLifecycle.tla judges the real code with these, *)
(* the model is checked against the design-level ones below):              *)
(*                                                                         *)
(* PACKAGE MANAGER                                                         *)
(*  M1 Paused.  "Reconciliation (including deletion) is paused via the     *)
(*     pause annotation": a reconcile that read a paused package makes one *)
(*     call, a status update Synced=False/ReconcilePaused (+ a Normal      *)
(*     event), and is requeued only if that write fails.  The first        *)
(*     reconcile after the annotation is gone removes ALL conditions       *)
(*     (CleanConditions) with one status write and returns; the next one   *)
(*     runs to the end.  The manager never writes the package's spec or    *)
(*     metadata at all.  NOT promised: that a reconcile which read the     *)
(*     package before it was paused writes no revision (it does).          *)
(*  M2 ImageConfig.  The pull secret handed to the registry (Head) is the  *)
(*     package's own packagePullSecrets followed by - never instead of -   *)
(*     the secret of the selected ImageConfig.  Selected is a config with  *)
(*     registry authentication whose matchImages prefix is a prefix of     *)
(*     spec.package and is the LONGEST such prefix; configs without a pull *)
(*     secret (verification only) are skipped; no match = no extra secret, *)
(*     no error.  Ties (two configs with the same longest prefix) are      *)
(*     broken by list order (first wins, strict >); list order of a cached *)
(*     client is not specified, so only "one of the longest" is asserted.  *)
(*     The secret is NOT copied into the revision: the revision reconciler *)
(*     selects again from the revision's own spec.image (R9).  The event   *)
(*     ImageConfigSelection is recorded only when a revision is new.       *)
(*  M3 Hand-down.  Every reconcile that gets as far as applying the        *)
(*     current revision writes: name = FriendlyID(package, digest), label  *)
(*     pkg.crossplane.io/package, spec.image, packagePullPolicy,           *)
(*     packagePullSecrets, ignoreCrossplaneConstraints,                    *)
(*     skipDependencyResolution, commonLabels (a second Update when the    *)
(*     merge patch could not remove a key), runtimeConfigRef,              *)
(*     controllerConfigRef, a controller reference with                    *)
(*     blockOwnerDeletion.  ONLY the current revision gets them: the other *)
(*     revisions are touched in one field, desiredState -> Inactive, and a *)
(*     revision another owner controls is never written                    *)
(*     (MustBeControllableBy).  revisionHistoryLimit is not handed down    *)
(*     (garbage collection: C14).  desiredState: with policy Automatic or  *)
(*     none the current revision is set Active whatever it was; with       *)
(*     Manual it is left as found, and a revision without a desired state  *)
(*     (a NEW one) is made Inactive (since 5866e3a; before: "", F-c).      *)
(*     Optional fields the user REMOVES from the package (pull secrets,    *)
(*     controllerConfigRef) are removed from the current revision by the   *)
(*     follow-up Update (since 5d1ffe1; before: never, F-a).               *)
(*  M4 Status.  status.currentRevision / currentIdentifier are written     *)
(*     only by the last status update of a reconcile whose Apply went      *)
(*     through; Installed = True/Active iff the current revision is Active *)
(*     after the Apply, else False/Inactive; Healthy mirrors the Healthy   *)
(*     condition of the current revision AS LISTED in this reconcile       *)
(*     (True -> True; False -> False with the revision's message; Unknown, *)
(*     absent or revision new -> Unknown).  So Healthy=True on the package *)
(*     implies that the current revision said so when this reconcile       *)
(*     listed it.  (The comment "the package health will match the health  *)
(*     of the old revision until the next reconcile" is outdated: a new    *)
(*     revision makes the package Unknown at once.)                        *)
(*  M5 Exits.  ImageConfig list fails -> Installed=False/Unpacking with    *)
(*     the error (best effort), Warning ImageConfigSelection, error.       *)
(*     Head fails -> Installed=False/Unpacking "cannot unpack package",    *)
(*     Warning UnpackPackage, error.  No digest -> "Waiting for unpack",   *)
(*     Requeue.  List / Apply / Update of a revision fails -> Warning      *)
(*     (ListRevision / TransitionRevision / InstallPackageRevision), error,*)
(*     NO status write; a Conflict there -> silent Requeue.  Success ->    *)
(*     RequeueAfter 1 minute iff packagePullPolicy is Always, else none.   *)
(*  M6 Fixed point: a second reconcile in an unchanged world writes        *)
(*     nothing.                                                            *)
(* REVISION RECONCILER                                                     *)
(*  R1 Paused: as M1 (pause is checked BEFORE deletion: a paused revision  *)
(*     that is being deleted keeps its finalizer).                         *)
(*  R2 Deletion.  A reconcile that read a deleting revision calls, in this *)
(*     order, cache.Delete(name), RemoveSelf (Lock), RemoveFinalizer; it   *)
(*     writes no status, calls no hook / establisher (the runtime is NOT   *)
(*     torn down: "the owned Deployment ... will be garbage collected"),   *)
(*     and the finalizer goes only after the two others succeeded in the   *)
(*     same reconcile.  A Lock that the cache does not know yet counts as  *)
(*     "nothing to remove" (observation O1: then the entry outlives the    *)
(*     revision; monitor formula Rev.Deleting.LockFirst.CacheMiss).        *)
(*  R3 Finalizer first: nothing with an effect outside the revision object *)
(*     (Lock write, cache store, release, hooks, establish) happens before *)
(*     the revision carries the finalizer.                                 *)
(*  R4 Order.  Inactive: RemoveSelf -> ReleaseObjects -> Deactivate hook   *)
(*     -> (status Healthy and return, if status.objectRefs is not empty).  *)
(*     Then for everybody: cache / fetch -> parse -> lint -> Update        *)
(*     (labels / annotations of the package meta are ADDED) -> version     *)
(*     gate -> Resolve (only if skipDependencyResolution = false; a nil    *)
(*     value skips; an Inactive revision returns at once) -> Pre hook ->   *)
(*     Establish(control = desiredState is Active) -> Post hook -> status. *)
(*     status.objectRefs is written by the status update that follows a    *)
(*     successful Establish (also when the Post hook then fails).          *)
(*  R5 Exits.  Healthy=False/UnhealthyPackageRevision with the step's      *)
(*     message + a Warning event of the step's reason + error for: pull    *)
(*     secret config, manifest builder options (DeploymentRuntimeConfig /  *)
(*     ControllerConfig / ServiceAccount missing), fetch, parse, lint,     *)
(*     metadata update, version gate (this one: NO requeue, no error),     *)
(*     Pre, Establish, Post.  Healthy=Unknown for Resolve.  Event only, no *)
(*     condition: AddFinalizer, deactivation (RemoveSelf / Release /       *)
(*     Deactivate hook), unreadable cache entry, the deletion steps.  A    *)
(*     Conflict at any of them: silent Requeue, no event, no condition.    *)
(*     Healthy=True is written only after Post succeeded (or, Inactive     *)
(*     with object references, after the Deactivate hook succeeded).  The  *)
(*     revision reconciler never polls (RequeueAfter is always 0).         *)
(*  R6 Repair: whatever faults happened, fault-free reconciles of the      *)
(*     manager and of every revision reach a fixed point in which: paused  *)
(*     objects are marked paused and otherwise untouched; a deleting       *)
(*     revision is gone, with its cache entry and its Lock entry; the      *)
(*     current revision exists, carries what the package says, is Active   *)
(*     (policy not Manual) and Healthy unless its image / runtime config   *)
(*     forbid it; the other revisions are Inactive, Healthy, not in the    *)
(*     Lock; the package mirrors the current revision's health.            *)
(*                                                                         *)
(* Found on the tree as it was (2026-10-04).  F-a and F-c have been        *)
(* repaired in /repo since (5d1ffe1, 5866e3a): model and monitor describe  *)
(* the repaired code, the formulas stay, the model constants FixRemoval /  *)
(* ManualInactive = FALSE are the code as it was (witness cfgs).  F-b, F-d *)
(* and O1 are known findings (D29, D31, D32).                              *)
(*  F-a (D28, fixed).  The manager hands values down with a JSON merge patch  *)
(*     of the whole desired revision (APIPatchingApplicator).  Optional    *)
(*     fields are omitempty: when the user REMOVES spec.packagePullSecrets *)
(*     or spec.controllerConfigRef from the package, the patch has no such *)
(*     key and the revision keeps the old value for ever (the revision     *)
(*     reconciler keeps pulling with the removed secret / configuring the  *)
(*     runtime with the removed ControllerConfig).  The authors know the   *)
(*     problem: for commonLabels they added "Handle changes in labels" (a  *)
(*     second, full Update).  Monitor formulas Mgr.HandDown.PullSecrets.   *)
(*     Removed, Mgr.HandDown.ControllerConfigRef.Removed, Settled.HandDown.*)
(*     Removed; model: FixRemoval = FALSE is the code as it was (witness   *)
(*     cfg: RemovalHandedDown is violated).                                *)
(*     Fields with a CRD default (pull policy, ignore, skip,               *)
(*     runtimeConfigRef) cannot be removed by the user and are not         *)
(*     affected.                                                           *)
(*  F-b (genuine, low).  For a package whose current revision is not       *)
(*     Active (policy Manual) every manager reconcile sets Installed =     *)
(*     True/Active in memory and then False/Inactive: the condition's      *)
(*     lastTransitionTime is stamped anew although nothing transitioned,   *)
(*     so every reconcile (after the clock moved on) rewrites the          *)
(*     package's status - the manager has no fixed point, the timestamp    *)
(*     says "last reconcile", and each write wakes the controller again.   *)
(*     Formulas Mgr.Quiescent.InactivePackage, Settled.Stable.Inactive-    *)
(*     Package (the driver lets time pass between reconciles by moving     *)
(*     every lastTransitionTime into the past).                            *)
(*  F-c (D30, fixed).  Policy Manual: the manager creates the revision with   *)
(*     spec.desiredState "" (the zero value; the unit test's reason says   *)
(*     "We should be inactive").  For the revision reconciler "" is        *)
(*     neither: it is not deactivated, Establish gets control = false, but *)
(*     Resolve runs and puts it into the Lock; the manager never           *)
(*     deactivates it (it only looks for Active).  After the source        *)
(*     changed, old and new revision are both "" and both in the Lock:     *)
(*     Resolve of either fails for ever ("cannot initialize dependency     *)
(*     graph": duplicate node), both stay Healthy=Unknown - even once the  *)
(*     user activates the new one, until he also sets the old one          *)
(*     Inactive by hand.  Formulas Mgr.Activate.Manual, Mgr.Activate.     *)
(*     Defined, Settled.Rev.Health.UndefinedState; model: ManualInactive = *)
(*     FALSE (witness cfg: DesiredStateDefined is violated).               *)
(*  F-d (genuine, low; transient).  Resolve is not idempotent while the    *)
(*     previous revision is still in the Lock (upgrade, the new revision   *)
(*     is reconciled before the old one): the first reconcile of the new   *)
(*     revision adds it to the Lock and reports Healthy=True; every        *)
(*     further reconcile - nothing changed - finds two revisions of one    *)
(*     package in the Lock, fails (duplicate node) and flips the revision  *)
(*     to Healthy=Unknown / ResolveDependencies warning, until the old     *)
(*     revision's reconcile removed itself.  Formula Rev.Quiescent.Two-    *)
(*     RevisionsInLock; in the model: GetLock, `dup`.                      *)
(*  O1 see R2 (formulas Rev.Deleting.LockFirst.CacheMiss, Settled.Gone.    *)
(*     LockEntry; witness cfg lockmiss).                                   *)
(* Not part of this module (and why): packagePullPolicy Never (another     *)
(* revision name and cache key), revisionHistoryLimit (C14), signature     *)
(* verification (C15), status.permissionRequests (set by the real Provider *)
(* Pre hook: X01), resolvedPackage / appliedImageConfigRefs (not in this   *)
(* version of the API), the order of a cached List (ties between configs). *)
(* Measured (2026-10-04): quick cfgs 17k / 13k / 21k / 2k / 18k states,    *)
(* thorough 927k / 264k / 261k / 41k (+ two-fault cfgs 1k / 8k); drift 0.  *)
(* Model corrections made while binding: Resolve fails on a duplicate in   *)
(* the Lock (found by replay: the model said ok); HealthyTruth first       *)
(* judged early exits (paused) too.                                        *)
(***************************************************************************)
EXTENDS Integers, Sequences, FiniteSets, TLC

CONSTANTS
  InitPkgs,    \* choices for the initial package (records, see NoPkg for the fields)
  InitRevs,    \* choices for the revisions that exist initially (functions Revs -> record)
  InitICs,     \* choices for the ImageConfigs that exist initially (sets)
  InitLock,    \* choices (BOOLEANs): the Lock object exists initially
  ICs,         \* ImageConfigs the environment may add / delete
  Img,         \* revision -> its image is compatible with the running Crossplane
  MaxMgr, MaxRev,   \* bounds on the reconciles of the manager / the revision reconciler
  MaxFaults, MaxEnv,
  MidEnv,      \* TRUE: the environment also acts in the middle of a reconcile
  EnvKinds,    \* enabled environment steps
  Edits,       \* the edits of the package's spec the user may make: records [f, v]
  FaultKinds,  \* enabled fault kinds at API calls: subset of {"error", "conflict", "miss", "crashBefore", "crashAfter"}
  SeamOuts,    \* what a seam may answer besides ok: subset of {"error", "conflict", "empty", "miss"}
  FinFirst,    \* TRUE = the code as written; FALSE = witness: AddFinalizer is skipped
  FixRemoval,  \* TRUE = the code as repaired by 5d1ffe1 (the follow-up Update also removes pull secrets / the
               \*        ControllerConfig reference the package no longer has); FALSE = before (witness for F-a)
  ManualInactive \* TRUE = the code as repaired by 5866e3a (policy Manual: a revision without desired state is made
               \*        Inactive); FALSE = before: desiredState "" (witness for F-c)

None == "none"
Revs == {"r1", "r2"}
RevSeq == <<"r1", "r2">>
RevOf(s) == IF s = "s1" THEN "r1" ELSE "r2"
SrcOf(r) == IF r = "r1" THEN "s1" ELSE "s2"

VARIABLES
  pkg,     \* the package in the store
  revs,    \* revision -> the revision in the store
  lock,    \* the Lock: [ex, ents]
  cache,   \* revisions that have a cache entry
  ics,     \* ImageConfigs that exist
  rc,      \* the reconcile in flight
  nm, nr, faults, envs,
  bad,     \* ghost: names of violated step properties
  quiet,   \* ghost: neither fault nor environment step since this reconcile started
  last,    \* ghost: how the last reconcile ended: [a, t, ok, kind]
  hist

vars == <<pkg, revs, lock, cache, ics, rc, nm, nr, faults, envs, bad, quiet, last, hist>>
view == <<pkg, revs, lock, cache, ics, rc, nm, nr, faults, envs, bad, quiet, last>>

NoPkg == [ex |-> FALSE, paused |-> FALSE, src |-> None, pull |-> None, ign |-> FALSE, skip |-> FALSE, lab |-> None, sec |-> None,
          rtc |-> None, ccr |-> None, pol |-> None, pcond |-> FALSE, healthy |-> None, inst |-> None, curRev |-> None, curId |-> None]
NoRev == [ex |-> FALSE, del |-> FALSE, paused |-> FALSE, fin |-> FALSE, ofin |-> FALSE, ctrl |-> None, des |-> None, pull |-> None,
          ign |-> FALSE, skip |-> FALSE, lab |-> None, sec |-> None, rtc |-> None, ccr |-> None, refs |-> FALSE, healthy |-> None,
          pcond |-> FALSE, meta |-> FALSE]
Idle == [a |-> "idle", t |-> None, pc |-> "idle", lp |-> NoPkg, lr |-> NoRev, stale |-> FALSE, lst |-> [r \in Revs |-> NoRev],
         lstale |-> {}, cur |-> None, todo |-> <<>>, mode |-> "", ctx |-> "", ph |-> ""]
NoLast == [a |-> None, t |-> None, ok |-> FALSE, kind |-> ""]
\* sentinels for "the reconcile ends here" / "no such branch" where an rc value is expected
END == [Idle EXCEPT !.pc = "END"]
NO == [Idle EXCEPT !.pc = "NO"]

H(t, k, o, f) == [t |-> t, k |-> k, o |-> o, f |-> f]
Log(e) == hist' = Append(hist, e)

Init ==
  /\ pkg \in InitPkgs /\ revs \in InitRevs /\ ics \in InitICs
  /\ \E l \in InitLock : lock = [ex |-> l \/ \E r \in Revs : revs[r].ex /\ revs[r].fin /\ revs[r].des = "Active" /\ ~revs[r].skip,
                                 ents |-> {r \in Revs : revs[r].ex /\ revs[r].fin /\ revs[r].des = "Active" /\ ~revs[r].skip /\ revs[r].healthy = "True"}]
  /\ cache = {r \in Revs : revs[r].ex /\ revs[r].fin /\ revs[r].healthy # None}
  /\ rc = Idle /\ nm = 0 /\ nr = 0 /\ faults = 0 /\ envs = 0 /\ bad = {} /\ quiet = FALSE /\ last = NoLast
  /\ hist = << [t |-> "init", pkg |-> pkg,
                revs |-> [r \in Revs |-> [ex |-> revs[r].ex, ctrl |-> revs[r].ctrl, des |-> revs[r].des, fin |-> revs[r].fin, ofin |-> revs[r].ofin,
                                          paused |-> revs[r].paused, pull |-> revs[r].pull, ign |-> revs[r].ign, skip |-> revs[r].skip,
                                          lab |-> revs[r].lab, sec |-> revs[r].sec, rtc |-> revs[r].rtc, ccr |-> revs[r].ccr, refs |-> revs[r].refs,
                                          healthy |-> revs[r].healthy, cached |-> r \in cache, locked |-> r \in lock.ents]],
                ics |-> ics, img |-> Img, lockex |-> lock.ex] >>

----------------------------------------------------------------------------
(* Environment                                                             *)
InRec == rc.a # "idle"
EnvOK(k) == k \in EnvKinds /\ envs < MaxEnv /\ (MidEnv \/ ~InRec)
EnvDone == /\ envs' = envs + 1 /\ quiet' = FALSE /\ last' = NoLast
           /\ UNCHANGED <<nm, nr, faults, bad>>
\* the package's resourceVersion moved
PkgMoved == rc' = (IF rc.a = "mgr" THEN [rc EXCEPT !.stale = TRUE] ELSE rc)
\* a revision's resourceVersion moved
RevMoved(S) == rc' = (IF rc.a = "rev" /\ rc.t \in S THEN [rc EXCEPT !.stale = TRUE]
                      ELSE IF rc.a = "mgr" THEN [rc EXCEPT !.lstale = @ \cup S] ELSE rc)
PkgEnv(k, o, f, np) == /\ EnvOK(k) /\ pkg.ex /\ (InRec => rc.a = "mgr") /\ pkg' = np /\ Log(H("env", k, o, f)) /\ PkgMoved
                       /\ UNCHANGED <<revs, lock, cache, ics>> /\ EnvDone
Pause == ~pkg.paused /\ PkgEnv("pause", "", "", [pkg EXCEPT !.paused = TRUE])
Unpause == pkg.paused /\ PkgEnv("unpause", "", "", [pkg EXCEPT !.paused = FALSE])
TouchPkg == rc.a = "mgr" /\ ~rc.stale /\ PkgEnv("touch", "pkg", "", pkg)
SetField(p, f, v) ==
  CASE f = "src" -> [p EXCEPT !.src = v] [] f = "pull" -> [p EXCEPT !.pull = v] [] f = "ign" -> [p EXCEPT !.ign = (v = "true")]
    [] f = "skip" -> [p EXCEPT !.skip = (v = "true")] [] f = "lab" -> [p EXCEPT !.lab = v] [] f = "sec" -> [p EXCEPT !.sec = v]
    [] f = "rtc" -> [p EXCEPT !.rtc = v] [] f = "ccr" -> [p EXCEPT !.ccr = v] [] f = "pol" -> [p EXCEPT !.pol = v]
Edit == \E e \in Edits : SetField(pkg, e.f, e.v) # pkg /\ PkgEnv("edit", e.f, e.v, SetField(pkg, e.f, e.v))
\* background deletion of the package: the garbage collector deletes what it controlled
Collected(r) == IF revs[r].ex /\ revs[r].ctrl = "pkg" THEN (IF revs[r].fin \/ revs[r].ofin THEN [revs[r] EXCEPT !.del = TRUE] ELSE NoRev) ELSE revs[r]
DelPkg == /\ EnvOK("delpkg") /\ pkg.ex /\ (rc.a = "mgr" => rc.pc = "mstatus" /\ rc.mode = "final")
          /\ pkg' = NoPkg /\ revs' = [r \in Revs |-> Collected(r)] /\ Log(H("env", "delpkg", "", ""))
          /\ RevMoved({r \in Revs : Collected(r) # revs[r]})
          /\ UNCHANGED <<lock, cache, ics>> /\ EnvDone
IcEnv == \E c \in ICs : /\ (InRec => rc.pc \in {"mlistic", "rlistic"})
                        /\ (IF c \in ics THEN EnvOK("delic") /\ ics' = ics \ {c} /\ Log(H("env", "delic", c, ""))
                            ELSE EnvOK("addic") /\ ics' = ics \cup {c} /\ Log(H("env", "addic", c, "")))
                        /\ UNCHANGED <<pkg, revs, lock, cache, rc>> /\ EnvDone
RevEnv(k, r, f, nv) == /\ EnvOK(k) /\ revs[r].ex /\ (rc.a = "rev" => rc.t = r) /\ revs' = [revs EXCEPT ![r] = nv] /\ Log(H("env", k, r, f)) /\ RevMoved({r})
                       /\ UNCHANGED <<pkg, lock, cache, ics>> /\ EnvDone
PauseRev == \E r \in Revs : ~revs[r].paused /\ RevEnv("pauserev", r, "", [revs[r] EXCEPT !.paused = TRUE])
UnpauseRev == \E r \in Revs : revs[r].paused /\ RevEnv("unpauserev", r, "", [revs[r] EXCEPT !.paused = FALSE])
DelRev == \E r \in Revs : ~revs[r].del /\ rc.a # "mgr"
                          /\ RevEnv("delrev", r, "", IF revs[r].fin \/ revs[r].ofin THEN [revs[r] EXCEPT !.del = TRUE] ELSE NoRev)
TouchRev == \E r \in Revs : rc.a = "rev" /\ rc.t = r /\ ~rc.stale /\ RevEnv("touch", r, "", revs[r])
\* stand-ins for the reconciler that is not part of a configuration
Deact == \E r \in Revs : revs[r].des = "Active" /\ RevEnv("deact", r, "", [revs[r] EXCEPT !.des = "Inactive"])
Act == \E r \in Revs : revs[r].des = "Inactive" /\ RevEnv("act", r, "", [revs[r] EXCEPT !.des = "Active"])
RevIgn == \E r \in Revs : ~revs[r].ign /\ RevEnv("revign", r, "true", [revs[r] EXCEPT !.ign = TRUE])
Health == \E r \in Revs, v \in {"True", "False", "Unknown"} : revs[r].healthy # v /\ RevEnv("health", r, v, [revs[r] EXCEPT !.healthy = v])
DropRefs == \E r \in Revs : revs[r].refs /\ RevEnv("droprefs", r, "", [revs[r] EXCEPT !.refs = FALSE, !.healthy = None, !.pcond = FALSE])
Env == Pause \/ Unpause \/ TouchPkg \/ Edit \/ DelPkg \/ IcEnv \/ PauseRev \/ UnpauseRev \/ DelRev \/ TouchRev \/ Deact \/ Act \/ RevIgn
       \/ Health \/ DropRefs

----------------------------------------------------------------------------
(* Reconcile plumbing                                                      *)
CanFault(f) == f \in FaultKinds /\ faults < MaxFaults
CanSeam(f) == f \in SeamOuts /\ faults < MaxFaults
Ok(k, o) == Log(H("call", k, o, "ok")) /\ UNCHANGED faults
Flt(k, o, f) == CanFault(f) /\ faults' = faults + 1 /\ Log(H("call", k, o, f)) /\ quiet' = FALSE
SFlt(k, o, f) == CanSeam(f) /\ faults' = faults + 1 /\ Log(H("call", k, o, f)) /\ quiet' = FALSE
Keep == UNCHANGED <<nm, nr, quiet, last>>
KeepF == UNCHANGED <<nm, nr, last>>          \* with Flt / SFlt (which clear quiet)
Stay == UNCHANGED <<nm, nr, last>>
\* the reconcile ends; kind says how: "done" ran to its natural end, "exit" an early exit, "" aborted
Ended(kind) == /\ rc' = Idle
               /\ (IF rc.a = "mgr" THEN nm' = nm + 1 /\ UNCHANGED nr ELSE nr' = nr + 1 /\ UNCHANGED nm)
               /\ last' = [a |-> rc.a, t |-> rc.t, ok |-> quiet' /\ kind # "", kind |-> kind]
World == UNCHANGED <<ics, envs>>
Go(p) == rc' = [rc EXCEPT !.pc = p]
GoM(p, m) == rc' = [rc EXCEPT !.pc = p, !.mode = m]

\* a generic read step: ok goes on with `next` (an rc value), an error value ends in `onerr` (an rc value or "end"),
\* a dead process ends the reconcile
ReadStep(p, k, o, next, onerr, missto) ==
  /\ rc.pc = p
  /\ \/ Ok(k, o) /\ Keep /\ rc' = next
     \/ Flt(k, o, "error") /\ (IF onerr.pc = "END" THEN Ended("") ELSE rc' = onerr /\ KeepF)
     \/ missto.pc # "NO" /\ Flt(k, o, "miss") /\ (IF missto.pc = "END" THEN Ended("") ELSE rc' = missto /\ KeepF)
     \/ Flt(k, o, "crashBefore") /\ Ended("")
  /\ UNCHANGED <<pkg, revs, lock, cache, bad>> /\ World

----------------------------------------------------------------------------
(* The package manager                                                     *)
Mgr == rc.a = "mgr"
MGet ==
  /\ rc.a = "idle" /\ nm < MaxMgr
  /\ \/ /\ Ok("get", "pkg") /\ quiet' = TRUE
        /\ (IF ~pkg.ex THEN rc' = Idle /\ nm' = nm + 1 /\ UNCHANGED nr /\ last' = [a |-> "mgr", t |-> None, ok |-> TRUE, kind |-> "gone"]
            ELSE /\ UNCHANGED <<nm, nr, last>>
                 /\ rc' = [Idle EXCEPT !.a = "mgr", !.lp = pkg,
                                       !.pc = IF pkg.paused \/ pkg.pcond THEN "mstatus" ELSE "mlist",
                                       !.mode = IF pkg.paused THEN "paused" ELSE IF pkg.pcond THEN "clean" ELSE ""])
     \/ /\ \E f \in {"error", "miss", "crashBefore"} : Flt("get", "pkg", f)
        /\ rc' = Idle /\ nm' = nm + 1 /\ UNCHANGED nr /\ last' = NoLast
  /\ UNCHANGED <<pkg, revs, lock, cache, bad>> /\ World

\* what a status write of the manager makes of the package
Mirror(h) == IF h \in {"True", "False"} THEN h ELSE "Unknown"
MStatusOf(m) ==
  CASE m = "paused" -> [pkg EXCEPT !.pcond = TRUE]
    [] m = "clean" -> [pkg EXCEPT !.pcond = FALSE, !.healthy = None, !.inst = None]
    [] m \in {"icerr", "unpack", "waiting"} -> [pkg EXCEPT !.inst = "Unpacking"]
    [] m = "final" -> [pkg EXCEPT !.curRev = rc.cur, !.curId = rc.lp.src,
                                  !.inst = IF revs[rc.cur].ex /\ revs[rc.cur].des = "Active" THEN "Active" ELSE "Inactive",
                                  !.healthy = Mirror(rc.lst[rc.cur].healthy)]
MWOut == IF ~pkg.ex THEN "notfound" ELSE IF rc.stale THEN "conflict" ELSE "ok"
MEndKind == IF rc.mode = "final" THEN "done" ELSE "exit"
MStatus ==
  /\ Mgr /\ rc.pc = "mstatus"
  /\ \/ /\ Ok("status", "pkg") /\ quiet' = quiet
        /\ (IF MWOut = "ok" THEN pkg' = MStatusOf(rc.mode) /\ Ended(MEndKind) ELSE UNCHANGED pkg /\ Ended(""))
     \/ /\ \E f \in {"error", "conflict", "crashBefore"} : Flt("status", "pkg", f)
        /\ UNCHANGED pkg /\ Ended("")
     \/ /\ Flt("status", "pkg", "crashAfter") /\ Ended("")
        /\ (IF MWOut = "ok" THEN pkg' = MStatusOf(rc.mode) ELSE UNCHANGED pkg)
  /\ UNCHANGED <<revs, lock, cache, bad>> /\ World

MList == Mgr /\ ReadStep("mlist", "list", "rev", [rc EXCEPT !.pc = "mlistic", !.lst = revs, !.lstale = {}], END, NO)
\* the Revisioner: IfNotPresent and the identifier unchanged -> the recorded revision, no registry access
Known == rc.lp.pull = "IfNotPresent" /\ rc.lp.curId = rc.lp.src /\ rc.lp.curRev # None
\* the deactivation loop visits the listed revisions in list order
Todo(c) == SelectSeq(RevSeq, LAMBDA r : r # c /\ rc.lst[r].ex /\ rc.lst[r].des = "Active")
AfterCur(c) == LET td == Todo(c) IN
               IF td # <<>> THEN [rc EXCEPT !.pc = "maget", !.cur = c, !.todo = td, !.ph = "deact"]
               ELSE [rc EXCEPT !.pc = "maget", !.cur = c, !.todo = <<c>>, !.ph = "cur"]
MListIC == Mgr /\ ReadStep("mlistic", "list", "ic",
                           IF Known THEN AfterCur(rc.lp.curRev) ELSE [rc EXCEPT !.pc = "mhead"],
                           [rc EXCEPT !.pc = "mstatus", !.mode = "icerr"], NO)
MHead ==
  /\ Mgr /\ rc.pc = "mhead"
  /\ LET s == rc.lp.src IN
     \/ Ok("head", s) /\ Keep /\ rc' = AfterCur(RevOf(s))
     \/ SFlt("head", s, "error") /\ KeepF /\ GoM("mstatus", "unpack")
     \/ SFlt("head", s, "empty") /\ KeepF /\ GoM("mstatus", "waiting")
  /\ UNCHANGED <<pkg, revs, lock, cache, bad>> /\ World

\* Apply = Get + (Create | merge patch); MustBeControllableBy the package
Tgt == rc.todo[1]
MAGet ==
  /\ Mgr /\ rc.pc = "maget"
  /\ LET r == Tgt IN
     \/ /\ Ok("aget", r) /\ Keep
        /\ (IF ~revs[r].ex THEN Go("mcreate")
            ELSE IF revs[r].ctrl = "foreign" THEN Ended("")       \* "existing object is not controlled by UID"
            ELSE Go("mpatch"))
     \/ Flt("aget", r, "error") /\ Ended("")
     \/ Flt("aget", r, "miss") /\ KeepF /\ Go("mcreate")
     \/ Flt("aget", r, "crashBefore") /\ Ended("")
  /\ UNCHANGED <<pkg, revs, lock, cache, bad>> /\ World
LabMerge(o, n) == IF n = None THEN o ELSE IF n = "x" THEN "x" ELSE IF o \in {"x", "xy"} THEN "xy" ELSE "y"
\* (a JSON merge patch leaves alone what it omits)
OptMerge(o, n) == IF n = None THEN o ELSE n
WantDes(old) == IF rc.lp.pol # "Manual" THEN "Active" ELSE IF old = "empty" /\ ManualInactive THEN "Inactive" ELSE old
HandDown(old, des) == [old EXCEPT !.ex = TRUE, !.ctrl = "pkg", !.des = des, !.pull = rc.lp.pull, !.ign = rc.lp.ign, !.skip = rc.lp.skip,
                                  !.rtc = rc.lp.rtc, !.lab = LabMerge(@, rc.lp.lab), !.sec = OptMerge(@, rc.lp.sec), !.ccr = OptMerge(@, rc.lp.ccr)]
\* after the Apply of the current revision: what the merge patch could not bring in line is Updated (commonLabels;
\* since 5d1ffe1 also pull secrets / a ControllerConfig reference that the package no longer has)
Leftover(nv) == FixRemoval /\ ((nv.sec # None /\ rc.lp.sec = None) \/ (nv.ccr # None /\ rc.lp.ccr = None))
AfterApply(nv) == IF nv.lab # rc.lp.lab \/ Leftover(nv) THEN [rc EXCEPT !.pc = "mupdlab"] ELSE [rc EXCEPT !.pc = "mstatus", !.mode = "final"]
NextDeact == IF Len(rc.todo) > 1 THEN [rc EXCEPT !.todo = Tail(@)] ELSE [rc EXCEPT !.todo = <<rc.cur>>, !.ph = "cur"]
MPatch ==
  /\ Mgr /\ rc.pc = "mpatch"
  /\ LET r == Tgt
         listed == rc.lst[r].ex
         nv == IF rc.ph = "deact" THEN [revs[r] EXCEPT !.des = "Inactive"] ELSE HandDown(revs[r], WantDes(IF listed THEN rc.lst[r].des ELSE revs[r].des))
         out == IF ~revs[r].ex THEN "notfound" ELSE IF listed /\ r \in rc.lstale THEN "conflict" ELSE "ok"
         next == IF rc.ph = "deact" THEN [NextDeact EXCEPT !.pc = "maget"] ELSE AfterApply(nv) IN
     \/ /\ Ok("patch", r)
        /\ (IF out = "ok" THEN revs' = [revs EXCEPT ![r] = nv] /\ rc' = next /\ Keep
            ELSE UNCHANGED revs /\ quiet' = quiet /\ Ended(""))
     \/ /\ \E f \in {"error", "conflict", "crashBefore"} : Flt("patch", r, f)
        /\ UNCHANGED revs /\ Ended("")
     \/ /\ Flt("patch", r, "crashAfter") /\ Ended("")
        /\ (IF out = "ok" THEN revs' = [revs EXCEPT ![r] = nv] ELSE UNCHANGED revs)
  /\ UNCHANGED <<pkg, lock, cache, bad>> /\ World
MCreate ==
  /\ Mgr /\ rc.pc = "mcreate"
  /\ LET r == Tgt
         nv == HandDown(NoRev, WantDes("empty")) IN
     \/ /\ Ok("create", r) /\ quiet' = quiet
        /\ (IF revs[r].ex THEN UNCHANGED revs /\ Ended("")                  \* AlreadyExists
            ELSE revs' = [revs EXCEPT ![r] = nv] /\ rc' = AfterApply(nv) /\ UNCHANGED <<nm, nr, last>>)
     \/ /\ \E f \in {"error", "conflict", "crashBefore"} : Flt("create", r, f)
        /\ UNCHANGED revs /\ Ended("")
     \/ /\ Flt("create", r, "crashAfter") /\ Ended("")
        /\ (IF revs[r].ex THEN UNCHANGED revs ELSE revs' = [revs EXCEPT ![r] = nv])
  /\ UNCHANGED <<pkg, lock, cache, bad>> /\ World
\* "Handle changes in labels": Update of the copy the Apply returned
MUpdLab ==
  /\ Mgr /\ rc.pc = "mupdlab"
  /\ LET r == rc.cur
         nv == IF FixRemoval THEN [revs[r] EXCEPT !.lab = rc.lp.lab, !.sec = rc.lp.sec, !.ccr = IF rc.lp.ccr = None THEN None ELSE @]
               ELSE [revs[r] EXCEPT !.lab = rc.lp.lab]
         out == IF ~revs[r].ex THEN "notfound" ELSE IF r \in rc.lstale THEN "conflict" ELSE "ok" IN
     \/ /\ Ok("update", r)
        /\ (IF out = "ok" THEN revs' = [revs EXCEPT ![r] = nv] /\ GoM("mstatus", "final") /\ Keep
            ELSE UNCHANGED revs /\ quiet' = quiet /\ Ended(""))
     \/ /\ \E f \in {"error", "conflict", "crashBefore"} : Flt("update", r, f)
        /\ UNCHANGED revs /\ Ended("")
     \/ /\ Flt("update", r, "crashAfter") /\ Ended("")
        /\ (IF out = "ok" THEN revs' = [revs EXCEPT ![r] = nv] ELSE UNCHANGED revs)
  /\ UNCHANGED <<pkg, lock, cache, bad>> /\ World
MgrRec == MGet \/ MStatus \/ MList \/ MListIC \/ MHead \/ MAGet \/ MPatch \/ MCreate \/ MUpdLab

----------------------------------------------------------------------------
(* The revision reconciler                                                 *)
Rev == rc.a = "rev"
T == rc.t
Me == revs[rc.t]
RGet ==
  /\ rc.a = "idle" /\ nr < MaxRev
  /\ \E r \in Revs :
       /\ revs[r].ex
       /\ \/ /\ Ok("get", r) /\ quiet' = TRUE /\ UNCHANGED <<nm, nr, last>>
             /\ LET l == revs[r]
                    b == [Idle EXCEPT !.a = "rev", !.t = r, !.lr = l] IN
                rc' = (IF l.paused THEN [b EXCEPT !.pc = "rstatus", !.mode = "paused"]
                       ELSE IF l.del THEN [b EXCEPT !.pc = "cachedel"]
                       ELSE IF l.pcond THEN [b EXCEPT !.pc = "rstatus", !.mode = "clean"]
                       ELSE IF ~l.fin /\ FinFirst THEN [b EXCEPT !.pc = "addfin"]
                       ELSE [b EXCEPT !.pc = "rlistic"])
          \/ /\ \E f \in {"error", "miss", "crashBefore"} : Flt("get", r, f)
             /\ rc' = Idle /\ nr' = nr + 1 /\ UNCHANGED nm /\ last' = NoLast
  /\ UNCHANGED <<pkg, revs, lock, cache, bad>> /\ World

\* a write to the revision is refused when it is gone (NotFound) or its resourceVersion moved (Conflict)
RWOut == IF ~Me.ex THEN "notfound" ELSE IF rc.stale THEN "conflict" ELSE "ok"
HealthOf(m) == CASE m \in {"", "inactive"} -> "True" [] m = "resolve" -> "Unknown" [] OTHER -> "False"
RStatusOf(m) ==
  CASE m = "paused" -> [Me EXCEPT !.pcond = TRUE]
    [] m = "clean" -> [Me EXCEPT !.pcond = FALSE, !.healthy = None]
    [] m = "" -> [Me EXCEPT !.healthy = "True", !.refs = TRUE]
    [] m = "post" -> [Me EXCEPT !.healthy = "False", !.refs = TRUE]
    [] OTHER -> [Me EXCEPT !.healthy = HealthOf(m)]
REndKind == IF rc.mode \in {"", "inactive"} THEN "done" ELSE "exit"
RStatus ==
  /\ Rev /\ rc.pc = "rstatus"
  /\ \/ /\ Ok("status", T) /\ quiet' = quiet
        /\ (IF RWOut = "ok" THEN revs' = [revs EXCEPT ![T] = RStatusOf(rc.mode)] /\ Ended(REndKind) ELSE UNCHANGED revs /\ Ended(""))
     \/ /\ \E f \in {"error", "conflict", "crashBefore"} : Flt("status", T, f)
        /\ UNCHANGED revs /\ Ended("")
     \/ /\ Flt("status", T, "crashAfter") /\ Ended("")
        /\ (IF RWOut = "ok" THEN revs' = [revs EXCEPT ![T] = RStatusOf(rc.mode)] ELSE UNCHANGED revs)
  /\ UNCHANGED <<pkg, lock, cache, bad>> /\ World
ToStatus(m) == rc' = [rc EXCEPT !.pc = "rstatus", !.mode = m]

\* ---- a seam: ok goes on, an error value goes to `onerr` ("end" = event only), a Conflict ends silently
Seam(p, k, outs, next, onerr) ==
  /\ Rev /\ rc.pc = p
  /\ \/ Ok(k, T) /\ Keep /\ rc' = next
     \/ "error" \in outs /\ SFlt(k, T, "error") /\ (IF onerr = "end" THEN Ended("") ELSE ToStatus(onerr) /\ KeepF)
     \/ "conflict" \in outs /\ SFlt(k, T, "conflict") /\ Ended("")
  /\ UNCHANGED <<pkg, revs, lock>> /\ World

\* ---- deletion: cache entry, Lock entry, finalizer
CacheDel == /\ Seam("cachedel", "cachedel", {"error"}, [rc EXCEPT !.pc = "getlock", !.ctx = "del"], "end")
            /\ cache' = (IF rc'.pc = "getlock" THEN cache \ {T} ELSE cache) /\ UNCHANGED bad
\* RemoveSelf / Resolve: Get the Lock, (Create it), Update it.  ctx: "del" | "inact" | "res"
AfterLock == CASE rc.ctx = "del" -> [rc EXCEPT !.pc = IF rc.lr.fin THEN "rmfin" ELSE "idle"]
               [] rc.ctx = "inact" -> [rc EXCEPT !.pc = "release"]
               [] rc.ctx = "res" -> [rc EXCEPT !.pc = "pre"]
\* what an error of a Lock call leads to
LockErr == IF rc.ctx = "res" THEN [rc EXCEPT !.pc = "rstatus", !.mode = "resolve"] ELSE END
LockGone == IF rc.ctx = "res" THEN [rc EXCEPT !.pc = "mklock"] ELSE AfterLock   \* "If lock does not exist then we don't need to remove self"
GetLock ==
  /\ Rev /\ rc.pc = "getlock"
  /\ LET want == IF rc.ctx = "res" THEN T \notin lock.ents ELSE T \in lock.ents
         \* Resolve builds a graph of the Lock's packages: two revisions of one package in it (the old one has not removed
         \* itself yet) are a duplicate node, "cannot initialize dependency graph"
         dup == rc.ctx = "res" /\ Cardinality(lock.ents) >= 2
         next == IF ~lock.ex THEN LockGone ELSE IF dup THEN LockErr ELSE IF want THEN [rc EXCEPT !.pc = "updlock"] ELSE AfterLock IN
     \/ /\ Ok("get", "lock") /\ quiet' = quiet
        /\ (IF next.pc = "idle" THEN Ended("done") ELSE rc' = next /\ Stay)
     \/ /\ Flt("get", "lock", "error") /\ (IF LockErr.pc = "END" THEN Ended("") ELSE rc' = LockErr /\ KeepF)
     \/ /\ lock.ex /\ Flt("get", "lock", "miss")
        /\ (IF LockGone.pc = "idle" THEN Ended("") ELSE rc' = LockGone /\ KeepF)
     \/ /\ Flt("get", "lock", "crashBefore") /\ Ended("")
  /\ bad' = bad \cup (IF rc.ctx = "res" /\ ~Me.fin /\ Me.ex THEN {"FinalizerFirst"} ELSE {})
  /\ UNCHANGED <<pkg, revs, lock, cache>> /\ World
MkLock ==
  /\ Rev /\ rc.pc = "mklock"
  /\ \/ /\ Ok("create", "lock") /\ quiet' = quiet
        /\ (IF lock.ex THEN UNCHANGED lock /\ rc' = LockErr /\ UNCHANGED <<nm, nr, last>>       \* AlreadyExists (ctx is "res" here)
            ELSE lock' = [ex |-> TRUE, ents |-> {}] /\ Go("updlock") /\ UNCHANGED <<nm, nr, last>>)
     \/ /\ Flt("create", "lock", "error") /\ UNCHANGED lock /\ rc' = LockErr /\ KeepF
     \/ /\ \E f \in {"conflict", "crashBefore"} : Flt("create", "lock", f)
        /\ UNCHANGED lock /\ Ended("")
     \/ /\ Flt("create", "lock", "crashAfter") /\ Ended("")
        /\ (IF lock.ex THEN UNCHANGED lock ELSE lock' = [ex |-> TRUE, ents |-> {}])
  /\ UNCHANGED <<pkg, revs, cache, bad>> /\ World
UpdLock ==
  /\ Rev /\ rc.pc = "updlock"
  /\ LET nl == [lock EXCEPT !.ents = IF rc.ctx = "res" THEN @ \cup {T} ELSE @ \ {T}] IN
     \/ /\ Ok("update", "lock") /\ quiet' = quiet /\ lock' = nl
        /\ (IF AfterLock.pc = "idle" THEN Ended("done") ELSE rc' = AfterLock /\ Stay)
     \/ /\ Flt("update", "lock", "error") /\ UNCHANGED lock /\ (IF LockErr.pc = "END" THEN Ended("") ELSE rc' = LockErr /\ KeepF)
     \/ /\ \E f \in {"conflict", "crashBefore"} : Flt("update", "lock", f)
        /\ UNCHANGED lock /\ Ended("")
     \/ /\ Flt("update", "lock", "crashAfter") /\ Ended("") /\ lock' = nl
  /\ UNCHANGED <<pkg, revs, cache, bad>> /\ World
\* an Update of the revision's metadata: AddFinalizer, RemoveFinalizer, the labels of the package meta
Gone(x) == IF x.ofin THEN [x EXCEPT !.fin = FALSE] ELSE NoRev
RevWrite(p, k, nv, next, onerr, ignoreNF) ==
  /\ Rev /\ rc.pc = p
  /\ \/ /\ Ok(k, T)
        /\ quiet' = quiet
        /\ (CASE RWOut = "ok" -> /\ revs' = [revs EXCEPT ![T] = nv]
                                 /\ (IF next.pc = "END" THEN Ended("done") ELSE rc' = next /\ Stay)
              [] RWOut = "notfound" -> /\ UNCHANGED revs
                                       /\ (IF ignoreNF THEN Ended("done") ELSE IF onerr = "end" THEN Ended("") ELSE ToStatus(onerr) /\ Stay)
              [] RWOut = "conflict" -> UNCHANGED revs /\ Ended(""))
     \/ /\ Flt(k, T, "error") /\ UNCHANGED revs /\ (IF onerr = "end" THEN Ended("") ELSE ToStatus(onerr) /\ KeepF)
     \/ /\ \E f \in {"conflict", "crashBefore"} : Flt(k, T, f)
        /\ UNCHANGED revs /\ Ended("")
     \/ /\ Flt(k, T, "crashAfter") /\ Ended("")
        /\ (IF RWOut = "ok" THEN revs' = [revs EXCEPT ![T] = nv] ELSE UNCHANGED revs)
  /\ UNCHANGED <<pkg, lock, cache>> /\ World
RmFin == /\ RevWrite("rmfin", "rmfin", Gone(Me), END, "end", TRUE)
         /\ bad' = bad \cup (IF revs'[T] # revs[T] /\ T \in cache THEN {"CacheLeft"} ELSE {})
                       \cup (IF revs'[T] # revs[T] /\ T \in lock.ents THEN {"LockLeft"} ELSE {})
AddFin == RevWrite("addfin", "addfin", [Me EXCEPT !.fin = TRUE], [rc EXCEPT !.pc = "rlistic", !.lr.fin = TRUE], "end", FALSE) /\ UNCHANGED bad

\* ---- the pull secret config, the manifest builder options
RListIC == Rev /\ ReadStep("rlistic", "list", "ic", [rc EXCEPT !.pc = "getdrc"], [rc EXCEPT !.pc = "rstatus", !.mode = "listic"], NO)
OptErr == [rc EXCEPT !.pc = "rstatus", !.mode = "options"]
GetDrc ==
  /\ Rev /\ rc.pc = "getdrc"
  /\ \/ Ok("get", "drc") /\ Keep /\ rc' = (IF rc.lr.rtc = "default" THEN [rc EXCEPT !.pc = IF rc.lr.ccr # None THEN "getcc" ELSE "getsa"] ELSE OptErr)
     \/ (\E f \in {"error", "miss"} : Flt("get", "drc", f)) /\ rc' = OptErr /\ KeepF
     \/ Flt("get", "drc", "crashBefore") /\ Ended("")
  /\ UNCHANGED <<pkg, revs, lock, cache, bad>> /\ World
GetCc == Rev /\ ReadStep("getcc", "get", "cc", [rc EXCEPT !.pc = "getsa"], OptErr, OptErr)
AfterOpts == IF rc.lr.des = "Inactive" THEN [rc EXCEPT !.pc = "getlock", !.ctx = "inact"] ELSE [rc EXCEPT !.pc = "cache"]
GetSa == Rev /\ ReadStep("getsa", "get", "sa", AfterOpts, OptErr, OptErr)

\* ---- an Inactive revision: RemoveSelf (above), ReleaseObjects, the Deactivate hook
Release == Seam("release", "release", {"error", "conflict"}, [rc EXCEPT !.pc = "deactivate"], "end") /\ UNCHANGED <<cache, bad>>
Deactivate == Seam("deactivate", "deactivate", {"error", "conflict"},
                   IF rc.lr.refs THEN [rc EXCEPT !.pc = "rstatus", !.mode = "inactive"] ELSE [rc EXCEPT !.pc = "cache"], "end")
              /\ UNCHANGED <<cache, bad>>

\* ---- content: cache (hit, or absent -> fetch and store), parse, lint
NoteEffect == bad' = bad \cup (IF Me.ex /\ ~Me.fin THEN {"FinalizerFirst"} ELSE {})
Cache ==
  /\ Rev /\ rc.pc = "cache"
  /\ \/ Ok("cache", T) /\ Keep /\ Go(IF T \in cache THEN "parse" ELSE "fetch")
     \/ T \in cache /\ SFlt("cache", T, "miss") /\ KeepF /\ Go("fetch")
     \/ T \in cache /\ SFlt("cache", T, "error") /\ Ended("")
  /\ cache' = (IF rc'.a = "idle" THEN cache \ {T} ELSE cache)          \* an unreadable entry is removed
  /\ UNCHANGED <<pkg, revs, lock, bad>> /\ World
Fetch == /\ Seam("fetch", "fetch", {"error"}, [rc EXCEPT !.pc = "parse"], "fetch")
         /\ cache' = (IF rc'.pc = "parse" THEN cache \cup {T} ELSE cache)
         /\ (IF rc'.pc = "parse" THEN NoteEffect ELSE UNCHANGED bad)
Parse == Seam("parse", "parse", {"error"}, [rc EXCEPT !.pc = "lint"], "parse") /\ UNCHANGED <<cache, bad>>
Lint == Seam("lint", "lint", {"error"}, [rc EXCEPT !.pc = "meta"], "lint") /\ UNCHANGED <<cache, bad>>
\* ---- labels and annotations of the package meta, the version gate, the dependencies
AfterMeta == IF ~Img[T] /\ ~rc.lr.ign THEN [rc EXCEPT !.pc = "rstatus", !.mode = "incompat"]
             ELSE IF ~rc.lr.skip /\ rc.lr.des # "Inactive" THEN [rc EXCEPT !.pc = "getlock", !.ctx = "res"]
             ELSE [rc EXCEPT !.pc = "pre"]
Meta == RevWrite("meta", "meta", [Me EXCEPT !.meta = TRUE], AfterMeta, "meta", FALSE) /\ UNCHANGED bad
\* ---- hooks and establisher
Pre == Seam("pre", "pre", {"error", "conflict"}, [rc EXCEPT !.pc = "establish"], "pre") /\ UNCHANGED cache /\ NoteEffect
Establish == Seam("establish", "establish", {"error", "conflict"}, [rc EXCEPT !.pc = "post"], "establish") /\ UNCHANGED cache /\ NoteEffect
Post == Seam("post", "post", {"error", "conflict"}, [rc EXCEPT !.pc = "rstatus", !.mode = ""], "post") /\ UNCHANGED cache /\ NoteEffect

RevRec == RGet \/ RStatus \/ CacheDel \/ GetLock \/ MkLock \/ UpdLock \/ RmFin \/ AddFin \/ RListIC \/ GetDrc \/ GetCc \/ GetSa
          \/ Release \/ Deactivate \/ Cache \/ Fetch \/ Parse \/ Lint \/ Meta \/ Pre \/ Establish \/ Post
Next == Env \/ MgrRec \/ RevRec
Spec == Init /\ [][Next]_vars

----------------------------------------------------------------------------
(* Design-level properties                                                 *)
\* step properties recorded where the step happens: R3 and the order of R2 (the Lock entry that a cache miss leaves
\* behind, O1, is named separately)
StepProps == bad \ {"LockLeft"} = {}
LockBeforeFin == "LockLeft" \notin bad
\* R6 for one revision: a reconcile that ran to its natural end, fault-free, in a quiet environment
RepairedRev ==
  (rc.a = "idle" /\ last.a = "rev" /\ last.ok /\ last.kind = "done" /\ revs[last.t].ex) =>
     LET x == revs[last.t] IN
     IF x.paused \/ x.pcond THEN TRUE
     ELSE IF x.del THEN ~x.fin
     ELSE /\ (FinFirst => x.fin)
          /\ x.healthy = "True"
          /\ (x.des = "Inactive" => last.t \notin lock.ents)
          /\ (x.des # "Inactive" => x.refs /\ x.meta /\ last.t \in cache /\ (~x.skip => last.t \in lock.ents))
\* M3/M4 for the manager
RepairedMgr ==
  (rc.a = "idle" /\ last.a = "mgr" /\ last.ok /\ last.kind = "done" /\ pkg.ex) =>
     LET c == pkg.curRev IN
     /\ c = RevOf(pkg.src) /\ pkg.curId = pkg.src /\ revs[c].ex /\ revs[c].ctrl = "pkg"
     /\ revs[c].pull = pkg.pull /\ revs[c].ign = pkg.ign /\ revs[c].skip = pkg.skip /\ revs[c].rtc = pkg.rtc /\ revs[c].lab = pkg.lab
     /\ (pkg.sec # None => revs[c].sec = pkg.sec) /\ (pkg.ccr # None => revs[c].ccr = pkg.ccr)
     /\ (pkg.pol # "Manual" => revs[c].des = "Active")
     /\ pkg.inst = (IF revs[c].des = "Active" THEN "Active" ELSE "Inactive")
     /\ pkg.healthy = Mirror(revs[c].healthy)
     /\ \A r \in Revs \ {c} : revs[r].ex /\ revs[r].ctrl # "foreign" => revs[r].des # "Active"
\* F-a: what the merge patch cannot do (violated by the code before 5d1ffe1: witness cfg with FixRemoval = FALSE)
RemovalHandedDown ==
  (rc.a = "idle" /\ last.a = "mgr" /\ last.ok /\ last.kind = "done" /\ pkg.ex) =>
     (revs[pkg.curRev].sec = pkg.sec /\ revs[pkg.curRev].ccr = pkg.ccr)
\* F-c: no revision is left without a desired state (violated by the code before 5866e3a: witness cfg with
\* ManualInactive = FALSE; start configurations with such a revision excepted)
DesiredStateDefined == \A r \in Revs : revs[r].ex => revs[r].des \in {"Active", "Inactive"}
\* M4: Healthy=True on the package only if the current revision says so (when nothing moved since)
HealthyTruth ==
  (rc.a = "idle" /\ last.a = "mgr" /\ last.ok /\ last.kind = "done" /\ pkg.ex /\ pkg.healthy = "True") => revs[pkg.curRev].healthy = "True"
=============================================================================
