SPECIFICATION Spec
CONSTANTS
  Fns <- FaOnly
  Callers <- C2
  MaxCalls = 2
  MaxGC = 1
  MaxEnv = 2
  MaxConn = 5
  MaxFaults = 1
  EnvOps <- EnvAll
  EnvEps <- Eps12
  InitEps <- InitE1
  Orders <- Both
  Codes <- OkInternal
  FaultKinds <- FaultErr
  Recheck = TRUE
  VerifyTarget = TRUE
  CloseStale = TRUE
  FixPkg = FALSE
VIEW view
ACTION_CONSTRAINT Emit
CHECK_DEADLOCK FALSE
INVARIANTS NoLeak PoolOpen OneOpen StepProps
