---------------------------- MODULE RenderParity ----------------------------
(***************************************************************************)
(* X04 - `crossplane render` shows what the controller would do.           *)
(*                                                                         *)
(* Subject: cmd/crank/render.Render (the client-side re-implementation of  *)
(* the function pipeline loop, with render.FilteringFetcher,               *)
(* render.SetComposedResourceMetadata and render.RuntimeFunctionRunner /   *)
(* the "Development" runtime) versus the controller path                   *)
(* composite.Reconciler -> composite.FunctionComposer.Compose (with        *)
(* ExistingExtraResourcesFetcher, RenderComposedResourceMetadata,          *)
(* updateXRConditions, handleCommonCompositionResult).                     *)
(*                                                                         *)
(* What the authors of render evidently intend (cmd.go Help: "This command *)
(* shows you what composed resources Crossplane would create ... It also   *)
(* prints any changes that would be made to the status of the XR ... it    *)
(* runs the Composition Function pipeline specified by the Composition     *)
(* locally"; render.go copies the loop of Compose line by line, copies the *)
(* "Unready resources: ..." Ready condition of updateXRConditions and the  *)
(* system-condition filter of handleCommonCompositionResult):              *)
(*                                                                         *)
(*  P1 same pipeline: for the same XR, Composition, function behaviour,    *)
(*     observed composed resources and extra resources, render calls the   *)
(*     same functions in the same order, for the same number of rounds,    *)
(*     each request carrying the same desired state, context, extra        *)
(*     resources, input and credentials as the controller's request        *)
(*     (Parity.Calls), and the same observed XR / composed resources       *)
(*     (Parity.Observed; documented difference: no connection details -    *)
(*     "We don't support passing in observed connection details").         *)
(*  P2 same outcome: both fail or both succeed, for the same reason        *)
(*     (Parity.Outcome); on success the rendered composed resources are    *)
(*     the ones the controller applies (Parity.Composed), under the same   *)
(*     names where a name is known (Parity.ComposedNames; documented       *)
(*     difference: new resources only get metadata.generateName), with the *)
(*     same derived labels and controller reference (Parity.ComposedMeta;  *)
(*     documented differences: no uid, "doesn't handle nested XRs", claim  *)
(*     labels only when there is a claim - empty label values are ignored);*)
(*     the XR's desired status (Parity.XRStatus), its custom conditions    *)
(*     (Parity.XRConditions; documented difference: claims not supported,  *)
(*     so no claimConditionTypes), its Ready condition (Parity.XRReady,    *)
(*     Parity.XRReadyExplicit) and the non-fatal results in pipeline order *)
(*     (Parity.Results; render shows step, severity, message only).        *)
(*  P3 the contract of Render itself, stated as in Pipeline.tla as one     *)
(*     formula per hop of the data flow, on the requests the functions     *)
(*     really received from render: Render.Order, Render.ThreadDesired,    *)
(*     Render.ThreadContext (the context starts with the --context-*       *)
(*     values, "Load user-supplied context"), Render.ObservedOnce/Content, *)
(*     Render.RoundsExtra/Context/Rerun/Stop/Bound, Render.OwnInput,       *)
(*     Render.OwnCreds; "Results of fatal severity stop the Composition    *)
(*     process": Render.FatalStops, Render.Unstable, Render.Outcome;       *)
(*     Render.Final (exactly the last step's desired resources appear,     *)
(*     each carrying its composition-resource-name), Render.Sorted ("Sort  *)
(*     the resource names to ensure a deterministic ordering"),            *)
(*     Render.Owner, Render.Labels (SetComposedResourceMetadata),          *)
(*     Render.KeepsObservedName ("we want to maintain its name and         *)
(*     namespace"), Render.XRIdentity ("can only return the desired status *)
(*     of the XR, so we inject these back": apiVersion, kind, name, status *)
(*     and nothing else), Render.XRStatus, Render.XRConditions ("Do not    *)
(*     let users update system conditions", last one of a type wins),      *)
(*     Render.ReadyFromResources, Render.Results, Render.ContextOut,       *)
(*     Render.Deterministic (two runs, byte-identical output),             *)
(*     Render.InputsUntouched; and the whole run against the reference     *)
(*     interpreter: Reference.Calls, Reference.Outcome.                    *)
(*                                                                         *)
(* Method (vector module, as C04): functions are deterministic PROGRAMS    *)
(* from the family of Pipeline.tla extended with readiness (rdy: the       *)
(* resources a program writes are READY_TRUE; xrdy: the desired composite  *)
(* is explicitly ready / unready), a result of unspecified severity and a  *)
(* condition of a system type.  A vector is                                *)
(*   in = [steps, extras, existing, ctx0, claim]                           *)
(* (pipeline x Extra objects x observed composed resources x initial       *)
(* context x whether the XR has a claim).  RInterp(in) is the run the      *)
(* contract promises; the formulas are predicates on ANY recorded run.     *)
(*                                                                         *)
(* Interpretations                                                         *)
(*  * the controller cannot be given an initial context, so the Parity.*   *)
(*    formulas are judged for vectors with ctx0 = "none"; the Render.* and *)
(*    Reference.* formulas for every vector.                               *)
(*  * Ready: the controller's rule (updateXRConditions) is the intended    *)
(*    one; Parity.XRReady covers pipelines whose last desired composite    *)
(*    carries no explicit readiness, Parity.XRReadyExplicit those that do  *)
(*    (named separately so that a finding about one does not hide the      *)
(*    other).  Render.ReadyFromResources is render's own stated rule.      *)
(*  * results: the controller turns an unspecified severity into a warning *)
(*    ("assuming warning"); render prints SEVERITY_UNSPECIFIED.  The two   *)
(*    are taken as equal.                                                  *)
(*  * nothing is asserted about render's output when it returns an error   *)
(*    except that it is the zero Outputs; nothing about Synced, events of  *)
(*    the claim, connection details.                                       *)
(***************************************************************************)
EXTENDS Pipeline

-----------------------------------------------------------------------------
(* the program family: Pipeline's, with readiness *)
RP(p, name, rdy, xrdy) == [p EXCEPT !.name = name] @@ [rdy |-> rdy, xrdy |-> xrdy]

RPass    == RP(ProgPass,    "pass",    FALSE, "none")
RAddA    == RP(ProgAddA,    "addA",    TRUE,  "none")
RAddB    == RP(ProgAddB,    "addB",    FALSE, "none")
RDropA   == RP(ProgDropA,   "dropA",   FALSE, "none")
RRenAC   == RP(ProgRenAC,   "renAC",   FALSE, "none")
RMutate  == RP(ProgMutate,  "mutate",  FALSE, "none")
RClear   == RP(ProgClear,   "clear",   FALSE, "none")
RChase   == RP(ProgChase,   "chase",   TRUE,  "none")
RGrow    == RP(ProgGrow,    "grow",    FALSE, "none")
RCount2  == RP(ProgCount2,  "count2",  FALSE, "none")
RCount4  == RP(ProgCount4,  "count4",  FALSE, "none")
RNever   == RP(ProgNever,   "never",   FALSE, "none")
RRelabel == RP(ProgRelabel, "relabel", TRUE,  "none")
RFatal   == RP(ProgFatal,   "fatal",   FALSE, "none")
\* every resource unready, the composite explicitly ready / every resource ready, the composite explicitly unready
RMutT    == RP(P("mutT", "mutate", "-", "own",  "none", 0, "none",    "xr", "own",    "True",  "claim", FALSE), "mutT", FALSE, "true")
RMutF    == RP(P("mutF", "mutate", "-", "keep", "name", 0, "warning", "xr", "none",   "True",  "xr",    TRUE),  "mutF", TRUE,  "false")
\* a result of unspecified severity and a condition of a system type (Ready = False)
RSys     == RP(P("sys",  "add",    "b", "keep", "none", 0, "unspec",  "xr", "system", "False", "xr",    FALSE), "sys",  TRUE,  "none")

RAllProgs == {RPass, RAddA, RAddB, RDropA, RRenAC, RMutate, RClear, RChase, RGrow, RCount2, RCount4, RNever, RRelabel,
              RFatal, RMutT, RMutF, RSys}

SystemTypes == {"Ready", "Synced", "Healthy"}        \* xpv1.IsSystemConditionType

\* the context render is given (--context-values); the controller's always starts empty
C0(in) == CASE in.ctx0 = "k" -> {[k |-> "k", v |-> "v0"]}
            [] in.ctx0 = "n" -> {[k |-> "n", v |-> "1"]}        \* the counter of the count programs, already at 1
            [] OTHER         -> {}

Names(d) == {x.n : x \in d}

-----------------------------------------------------------------------------
(* program semantics: Pipeline's Run, plus readiness, plus the two extra result / condition kinds *)
RdyOp(p, rq) ==
  CASE p.des = "add"     -> (rq.rdy \ {p.dn}) \cup (IF p.rdy THEN {p.dn} ELSE {})
    [] p.des = "drop"    -> rq.rdy \ {p.dn}
    [] p.des = "dropall" -> {}
    [] p.des = "rename"  -> (IF p.dn \in Names(rq.des)
                             THEN (rq.rdy \ {p.dn, "c"}) \cup (IF p.dn \in rq.rdy THEN {"c"} ELSE {})
                             ELSE rq.rdy)
    [] p.des = "mutate"  -> (IF p.rdy THEN Names(rq.des) ELSE {})
    [] OTHER             -> rq.rdy
XrdyOp(p, rq) == CASE p.des = "mutate" -> p.xrdy [] p.des = "dropall" -> "none" [] OTHER -> rq.xrdy
RResOp(p, m) == IF p.res = "unspec" THEN <<Res(m, "unspec", p.rt)>> ELSE ResOp(p, m)
RCondOp(p, m) ==
  IF p.cond = "system" THEN <<[type |-> "Ready", status |-> p.cs, reason |-> "R-" \o m, target |-> p.ct]>> ELSE CondOp(p, m)

RRun(p, m, rq) ==
  [des |-> DesOp(p, m, rq.des), dxr |-> DxrOp(p, m, rq.dxr), ctx |-> CtxOp(p, m, rq), reqs |-> ReqOp(p, rq),
   results |-> RResOp(p, m), conds |-> RCondOp(p, m), rdy |-> RdyOp(p, rq), xrdy |-> XrdyOp(p, rq)]

\* the desired state that is threaded from step to step
S0 == [des |-> {}, rdy |-> {}, dxr |-> "none", xrdy |-> "none"]
StateOf(x) == [des |-> x.des, rdy |-> x.rdy, dxr |-> x.dxr, xrdy |-> x.xrdy]

\* what both implementations must hand to every function as observed state (connection details aside)
RObs(in) == [xr |-> "xr1", res |-> {[n |-> x, name |-> x \o "-obj"] : x \in Range(in.existing)}]

-----------------------------------------------------------------------------
(* the reference interpreter *)
RCall(in, i, r, s, c, e) ==
  [step |-> i, round |-> r, prog |-> in.steps[i].name, input |-> Marker(i), des |-> s.des, rdy |-> s.rdy, dxr |-> s.dxr,
   xrdy |-> s.xrdy, ctx |-> c, extra |-> e, creds |-> Creds(in.steps[i], Marker(i))]

RECURSIVE RRounds(_, _, _, _, _, _, _)
RRounds(in, i, r, s, c, e, prev) ==
  LET cl  == RCall(in, i, r, s, c, e)
      rsp == RRun(in.steps[i], Marker(i), cl)
  IN IF IsFatal(rsp) THEN [calls |-> <<cl>>, rsp |-> rsp, st |-> "fatal"]
     ELSE IF rsp.reqs = prev THEN [calls |-> <<cl>>, rsp |-> rsp, st |-> "ok"]
     ELSE IF r = MaxIter THEN [calls |-> <<cl>>, rsp |-> rsp, st |-> "unstable"]
     ELSE LET rest == RRounds(in, i, r + 1, s, rsp.ctx, Fetch(rsp.reqs, Objs(in)), rsp.reqs)
          IN [rest EXCEPT !.calls = <<cl>> \o @]

RECURSIVE RSteps(_, _, _, _)
RSteps(in, i, s, c) ==
  IF i > Len(in.steps) THEN [calls |-> <<>>, st |-> "ok", rsps |-> <<>>]
  ELSE LET x == RRounds(in, i, 0, s, c, {}, {})
       IN IF x.st # "ok" THEN [calls |-> x.calls, st |-> x.st, rsps |-> <<x.rsp>>]
          ELSE LET rest == RSteps(in, i + 1, StateOf(x.rsp), x.rsp.ctx)
               IN [calls |-> x.calls \o rest.calls, st |-> rest.st, rsps |-> <<x.rsp>> \o rest.rsps]

\* results / conditions as render shows them
ResultsOf(rsp, step) ==
  LET rs == Surfaced(rsp.results)
  IN [i \in DOMAIN rs |-> [step |-> step, sev |-> rs[i].sev, tok |-> rs[i].tok]]
UserConds(cs) == SelectSeq(cs, LAMBDA c : c.type \notin SystemTypes)

\* the Ready condition: render's stated rule, and the controller's (updateXRConditions)
Available == [status |-> "True", reason |-> "Available", kind |-> "none", unready |-> {}]
ReadyFromResources(des, rdy) ==
  LET un == Names(des) \ rdy
  IN IF un = {} THEN Available ELSE [status |-> "False", reason |-> "Creating", kind |-> "unready", unready |-> un]
ReadyIntended(des, rdy, xrdy) ==
  LET base == ReadyFromResources(des, rdy)
  IN CASE xrdy = "true"  -> Available
       [] xrdy = "false" -> (IF base.status = "True"
                             THEN [status |-> "False", reason |-> "Creating", kind |-> "explicit", unready |-> {}]
                             ELSE base)
       [] OTHER          -> base

\* the run the contract promises, started with context c0
RInterpFrom(in, c0) ==
  LET t    == RSteps(in, 1, S0, c0)
      k    == Len(t.rsps)
      last == t.rsps[k]
      ok   == t.st = "ok"
  IN [in |-> in, calls |-> t.calls, st |-> t.st, err |-> ~ok,
      errKind |-> IF ok THEN "none" ELSE t.st,
      errTok |-> IF t.st = "fatal" THEN FatalTok(last) ELSE "none",
      errStep |-> IF ok THEN "none" ELSE Marker(k),
      composed |-> IF ok THEN last.des ELSE {},
      rdy |-> IF ok THEN last.rdy ELSE {},
      xrm |-> IF ok THEN last.dxr ELSE "none",
      xrdy |-> IF ok THEN last.xrdy ELSE "none",
      results |-> IF ok THEN FlattenSeq([i \in 1..k |-> ResultsOf(t.rsps[i], Marker(i))]) ELSE <<>>,
      conds |-> IF ok THEN LastWins(UserConds(FlattenSeq([i \in 1..k |-> t.rsps[i].conds]))) ELSE {},
      ctxOut |-> IF ok THEN last.ctx ELSE {}]
RInterp(in) == RInterpFrom(in, C0(in))

-----------------------------------------------------------------------------
(* A recorded run of render:                                                 *)
(*   r = [in, calls, err, errKind, errTok, errStep, nilOut, composed, xr,    *)
(*        results, ctxOut, same, untouched]                                  *)
(* calls[j] = RCall fields + obs = [xr, res: {[n, name]}] + digest           *)
(* composed = SEQUENCE (output order) of [n, v, name, gen, labels: set of [k, v], owners: seq of    *)
(*            [apiVersion, kind, name, controller, block]]                   *)
(* xr = [apiVersion, kind, name, keys, metaKeys, marker, ready, conds]       *)
(* The formulas are relational: the response a call produced is recomputed   *)
(* from the request that was actually received.                              *)
RN(r) == Len(r.calls)
RNSteps(r) == Len(r.in.steps)
RRsp(r, j) == LET c == r.calls[j] IN RRun(ProgFor(r.in, c.prog), c.input, c)
RSameStep(r, i, j) == i \in DOMAIN r.calls /\ j \in DOMAIN r.calls /\ r.calls[i].step = r.calls[j].step
RPrevReqs(r, j) == IF r.calls[j].round > 0 /\ RSameStep(r, j - 1, j) THEN RRsp(r, j - 1).reqs ELSE {}
RStable(r, j) == RRsp(r, j).reqs = RPrevReqs(r, j)
RDone(r, j) == IsFatal(RRsp(r, j)) \/ RStable(r, j)
RIsLastOfStep(r, j) == j = RN(r) \/ r.calls[j + 1].step # r.calls[j].step
RStepCalls(r, i) == {j \in DOMAIN r.calls : r.calls[j].step = i}
RStepRsp(r, i) == RRsp(r, MaxOf(RStepCalls(r, i)))
REndsFatal(r) == RN(r) >= 1 /\ IsFatal(RRsp(r, RN(r)))
REndsUnstable(r) == RN(r) >= 1 /\ ~RDone(r, RN(r)) /\ r.calls[RN(r)].round >= MaxIter
REndsOk(r) == RN(r) >= 1 /\ RDone(r, RN(r)) /\ ~IsFatal(RRsp(r, RN(r))) /\ r.calls[RN(r)].step = RNSteps(r)
RLastStep(r) == r.calls[RN(r)].step
RCalledSteps(r) == {r.calls[j].step : j \in DOMAIN r.calls}

\* -- Order: steps in pipeline order, every step unless the run stops
RenderOrder(r) ==
  /\ RN(r) >= 1 /\ r.calls[1].step = 1 /\ r.calls[1].round = 0
  /\ \A j \in 1..(RN(r) - 1) :
       LET a == r.calls[j]
           b == r.calls[j + 1] IN
       \/ b.step = a.step /\ b.round = a.round + 1
       \/ b.step = a.step + 1 /\ b.round = 0 /\ b.step <= RNSteps(r)
  /\ (RDone(r, RN(r)) /\ ~IsFatal(RRsp(r, RN(r)))) => RLastStep(r) = RNSteps(r)

\* -- Threading: every request of step i carries the desired state returned by step i-1 (empty for the first), its
\*    first request the context returned by step i-1 (the user-supplied context for the first)
RenderThreadDesired(r) ==
  \A j \in DOMAIN r.calls :
    LET c == r.calls[j] IN
    IF c.step = 1 THEN StateOf(c) = S0
    ELSE RStepCalls(r, c.step - 1) # {} /\ StateOf(c) = StateOf(RStepRsp(r, c.step - 1))
RenderThreadContext(r) ==
  \A j \in DOMAIN r.calls :
    LET c == r.calls[j] IN
    c.round = 0 =>
      (IF c.step = 1 THEN c.ctx = C0(r.in)
       ELSE RStepCalls(r, c.step - 1) # {} /\ c.ctx = RStepRsp(r, c.step - 1).ctx)

\* -- Observed: built once, the XR and the observed composed resources that were supplied
RenderObservedOnce(r) == \A i, j \in DOMAIN r.calls : r.calls[i].digest = r.calls[j].digest
RenderObservedContent(r) == \A j \in DOMAIN r.calls : r.calls[j].obs = RObs(r.in)

\* -- Rounds (the requirements loop; the fetcher is render's own)
RenderRoundsExtra(r) ==
  \A j \in DOMAIN r.calls :
    LET c == r.calls[j] IN
    IF c.round = 0 THEN c.extra = {}
    ELSE RSameStep(r, j - 1, j) /\ c.extra = Fetch(RRsp(r, j - 1).reqs, Objs(r.in))
RenderRoundsContext(r) ==
  \A j \in DOMAIN r.calls :
    r.calls[j].round > 0 => (RSameStep(r, j - 1, j) /\ r.calls[j].ctx = RRsp(r, j - 1).ctx)
RenderRoundsRerun(r) ==
  \A j \in DOMAIN r.calls :
    (~RDone(r, j) /\ r.calls[j].round < MaxIter) => (~RIsLastOfStep(r, j) /\ r.calls[j + 1].round = r.calls[j].round + 1)
RenderRoundsStop(r) == \A j \in DOMAIN r.calls : RDone(r, j) => RIsLastOfStep(r, j)
RenderRoundsBound(r) == \A j \in DOMAIN r.calls : r.calls[j].round <= MaxIter

\* -- OwnInput / OwnCreds
RenderOwnInput(r) ==
  \A j \in DOMAIN r.calls :
    LET c == r.calls[j] IN
    c.step \in DOMAIN r.in.steps /\ c.input = Marker(c.step) /\ c.prog = r.in.steps[c.step].name
RenderOwnCreds(r) ==
  \A j \in DOMAIN r.calls :
    LET c == r.calls[j] IN
    c.step \in DOMAIN r.in.steps => c.creds = Creds(r.in.steps[c.step], Marker(c.step))

\* -- errors: a fatal result stops the pipeline and yields an error naming the step and the message; requirements
\*    that never stabilise are an error; an error leaves no output
RenderFatalStops(r) ==
  /\ \A j \in 1..(RN(r) - 1) : ~IsFatal(RRsp(r, j))
  /\ REndsFatal(r) => (/\ r.err /\ r.errKind = "fatal" /\ r.errTok = FatalTok(RRsp(r, RN(r)))
                       /\ r.errStep = Marker(RLastStep(r)) /\ r.nilOut)
RenderUnstable(r) == REndsUnstable(r) => (r.err /\ r.errKind = "unstable" /\ r.errStep = Marker(RLastStep(r)) /\ r.nilOut)
RenderOutcome(r) == r.err <=> (RN(r) = 0 \/ REndsFatal(r) \/ REndsUnstable(r))

\* -- the rendered composed resources
CNames(r) == {r.composed[i].n : i \in DOMAIN r.composed}
RenderFinal(r) ==       \* exactly the last step's desired resources, each once, each carrying its composition-resource-name
  REndsOk(r) =>
    /\ {[n |-> r.composed[i].n, v |-> r.composed[i].v] : i \in DOMAIN r.composed} = RRsp(r, RN(r)).des
    /\ Cardinality(CNames(r)) = Len(r.composed)
    /\ "none" \notin CNames(r)
NameOrder == <<"a", "b", "c", "z">>
Rank(n) == IF \E i \in DOMAIN NameOrder : NameOrder[i] = n THEN CHOOSE i \in DOMAIN NameOrder : NameOrder[i] = n ELSE 0
RenderSorted(r) == \A i \in 1..(Len(r.composed) - 1) : Rank(r.composed[i].n) < Rank(r.composed[i + 1].n)
XROwner == [apiVersion |-> "ex.org/v1", kind |-> "XThing", name |-> "xr1", controller |-> TRUE, block |-> TRUE]
RenderOwner(r) == \A i \in DOMAIN r.composed : r.composed[i].owners = <<XROwner>>
\* labels derived from the XR (empty values are as good as absent)
XRLabels(in) ==
  {[k |-> "crossplane.io/composite", v |-> "xr1"]} \cup
  (IF in.claim THEN {[k |-> "crossplane.io/claim-name", v |-> "claim1"], [k |-> "crossplane.io/claim-namespace", v |-> "ns"]} ELSE {})
NonEmpty(ls) == {x \in ls : x.v # ""}
RenderLabels(r) == \A i \in DOMAIN r.composed : NonEmpty(r.composed[i].labels) = XRLabels(r.in)
RenderKeepsObservedName(r) ==
  \A i \in DOMAIN r.composed :
    LET x == r.composed[i] IN
    IF x.n \in Range(r.in.existing) THEN x.name = x.n \o "-obj"
    ELSE x.name = "" /\ x.gen = "xr1-"

\* -- the rendered XR
RenderXRIdentity(r) ==
  REndsOk(r) =>
    /\ r.xr.apiVersion = "ex.org/v1" /\ r.xr.kind = "XThing" /\ r.xr.name = "xr1"
    /\ r.xr.keys \subseteq {"apiVersion", "kind", "metadata", "status"}
    /\ r.xr.metaKeys = {"name"}
RenderXRStatus(r) == REndsOk(r) => r.xr.marker = RRsp(r, RN(r)).dxr
RStepSeq(r) == [i \in 1..(IF RCalledSteps(r) = {} THEN 0 ELSE MaxOf(RCalledSteps(r))) |-> i]
RExpConds(r) == FlattenSeq([i \in DOMAIN RStepSeq(r) |-> IF RStepCalls(r, i) = {} THEN <<>> ELSE RStepRsp(r, i).conds])
RExpResults(r) ==
  FlattenSeq([i \in DOMAIN RStepSeq(r) |-> IF RStepCalls(r, i) = {} THEN <<>> ELSE ResultsOf(RStepRsp(r, i), Marker(i))])
RenderXRConditions(r) == REndsOk(r) => r.xr.conds = LastWins(UserConds(RExpConds(r)))
RenderReadyFromResources(r) ==
  (REndsOk(r) /\ RRsp(r, RN(r)).xrdy = "none") =>
    r.xr.ready = ReadyFromResources(RRsp(r, RN(r)).des, RRsp(r, RN(r)).rdy)
RenderResults(r) == REndsOk(r) => r.results = RExpResults(r)
RenderContextOut(r) == REndsOk(r) => r.ctxOut = RRsp(r, RN(r)).ctx
RenderDeterministic(r) == r.same
RenderInputsUntouched(r) == r.untouched

\* -- the whole run against the reference
RCore(c) == [step |-> c.step, round |-> c.round, prog |-> c.prog, input |-> c.input, des |-> c.des, rdy |-> c.rdy,
             dxr |-> c.dxr, xrdy |-> c.xrdy, ctx |-> c.ctx, extra |-> c.extra, creds |-> c.creds]
ReferenceCalls(r) == LET e == RInterp(r.in) IN
                     /\ RN(r) = Len(e.calls)
                     /\ \A j \in DOMAIN r.calls : RCore(r.calls[j]) = e.calls[j]
ReferenceOutcome(r) ==
  LET e == RInterp(r.in) IN
  /\ r.err = e.err /\ r.errKind = e.errKind /\ r.errTok = e.errTok /\ r.errStep = e.errStep
  /\ {[n |-> r.composed[i].n, v |-> r.composed[i].v] : i \in DOMAIN r.composed} = e.composed
  /\ r.xr.marker = e.xrm /\ r.xr.conds = e.conds /\ r.results = e.results /\ r.ctxOut = e.ctxOut

RenderFormulas(r) ==
  /\ RenderOrder(r) /\ RenderThreadDesired(r) /\ RenderThreadContext(r) /\ RenderObservedOnce(r) /\ RenderObservedContent(r)
  /\ RenderRoundsExtra(r) /\ RenderRoundsContext(r) /\ RenderRoundsRerun(r) /\ RenderRoundsStop(r) /\ RenderRoundsBound(r)
  /\ RenderOwnInput(r) /\ RenderOwnCreds(r) /\ RenderFatalStops(r) /\ RenderUnstable(r) /\ RenderOutcome(r)
  /\ RenderFinal(r) /\ RenderSorted(r) /\ RenderOwner(r) /\ RenderLabels(r) /\ RenderKeepsObservedName(r)
  /\ RenderXRIdentity(r) /\ RenderXRStatus(r) /\ RenderXRConditions(r) /\ RenderReadyFromResources(r) /\ RenderResults(r)
  /\ RenderContextOut(r) /\ RenderDeterministic(r) /\ RenderInputsUntouched(r)
  /\ ReferenceCalls(r) /\ ReferenceOutcome(r)

-----------------------------------------------------------------------------
(* Parity: the recorded run r of render against the recorded run c of the     *)
(* controller for the same vector:                                            *)
(*   c = [calls, err, errKind, errTok, errStep, applied, xrm, ready, conds,   *)
(*        events]                                                             *)
(* applied = set of [n, v, name, gen, genPrefix, labels, owners] (the composed resources the XR controls afterwards) *)
(* events = CompositionResult.Events as seq of [type, tok, step]              *)
PJudged(r) == r.in.ctx0 = "none"
BothOk(r, c) == ~r.err /\ ~c.err
ParityCalls(r, c) ==
  PJudged(r) => (/\ Len(r.calls) = Len(c.calls)
                /\ \A j \in DOMAIN r.calls : j \in DOMAIN c.calls /\ RCore(r.calls[j]) = RCore(c.calls[j]))
ParityObserved(r, c) ==       \* the same XR and the same observed composed resources (connection details aside)
  PJudged(r) => \A j \in DOMAIN r.calls : j \in DOMAIN c.calls => r.calls[j].obs = c.calls[j].obs
ParityOutcome(r, c) ==
  PJudged(r) => (r.err = c.err /\ r.errKind = c.errKind /\ r.errTok = c.errTok /\ r.errStep = c.errStep)
ParityComposed(r, c) ==
  (PJudged(r) /\ BothOk(r, c)) =>
    {[n |-> r.composed[i].n, v |-> r.composed[i].v] : i \in DOMAIN r.composed} = {[n |-> a.n, v |-> a.v] : a \in c.applied}
Twin(c, n) == CHOOSE a \in c.applied : a.n = n
ParityComposedNames(r, c) ==
  (PJudged(r) /\ BothOk(r, c)) =>
    \A i \in DOMAIN r.composed :
      LET x == r.composed[i] IN
      (\E a \in c.applied : a.n = x.n) =>
        (IF x.name # "" THEN Twin(c, x.n).name = x.name
         ELSE Twin(c, x.n).gen = x.gen /\ Twin(c, x.n).genPrefix)
ParityComposedMeta(r, c) ==
  (PJudged(r) /\ BothOk(r, c)) =>
    \A i \in DOMAIN r.composed :
      LET x == r.composed[i] IN
      (\E a \in c.applied : a.n = x.n) =>
        (NonEmpty(x.labels) = NonEmpty(Twin(c, x.n).labels) /\ x.owners = Twin(c, x.n).owners)
ParityXRStatus(r, c) == (PJudged(r) /\ BothOk(r, c)) => r.xr.marker = c.xrm
ParityXRConditions(r, c) == (PJudged(r) /\ BothOk(r, c)) => r.xr.conds = c.conds
ExplicitReadiness(r) == RN(r) >= 1 /\ RRsp(r, RN(r)).xrdy # "none"
ParityXRReady(r, c) == (PJudged(r) /\ BothOk(r, c) /\ ~ExplicitReadiness(r)) => r.xr.ready = c.ready
ParityXRReadyExplicit(r, c) == (PJudged(r) /\ BothOk(r, c) /\ ExplicitReadiness(r)) => r.xr.ready = c.ready
SevClass(s) == IF s = "normal" THEN "Normal" ELSE "Warning"
ParityResults(r, c) ==
  (PJudged(r) /\ BothOk(r, c)) =>
    [i \in DOMAIN r.results |-> [type |-> SevClass(r.results[i].sev), tok |-> r.results[i].tok, step |-> r.results[i].step]]
      = c.events

ParityFormulas(r, c) ==
  /\ ParityCalls(r, c) /\ ParityObserved(r, c) /\ ParityOutcome(r, c) /\ ParityComposed(r, c) /\ ParityComposedNames(r, c)
  /\ ParityComposedMeta(r, c) /\ ParityXRStatus(r, c) /\ ParityXRConditions(r, c) /\ ParityXRReady(r, c)
  /\ ParityXRReadyExplicit(r, c) /\ ParityResults(r, c)

-----------------------------------------------------------------------------
(* the ideal recorded runs (what a correct render / controller would leave in  *)
(* the trace): used by MCRenderParity to check the formulas against the        *)
(* reference at design level                                                   *)
SortedNames(S) == SelectSeq(NameOrder, LAMBDA n : n \in S)
IdealCalls(in, e) == [j \in DOMAIN e.calls |-> e.calls[j] @@ [obs |-> RObs(in), digest |-> "ref"]]
IdealRender(in) ==
  LET e  == RInterp(in)
      ns == SortedNames(Names(e.composed))
  IN [in |-> in, calls |-> IdealCalls(in, e), err |-> e.err, errKind |-> e.errKind, errTok |-> e.errTok, errStep |-> e.errStep,
      nilOut |-> e.err,
      composed |-> [i \in DOMAIN ns |->
                      [n |-> ns[i], v |-> (CHOOSE x \in e.composed : x.n = ns[i]).v,
                       name |-> IF ns[i] \in Range(in.existing) THEN ns[i] \o "-obj" ELSE "",
                       gen |-> "xr1-", labels |-> XRLabels(in), owners |-> <<XROwner>>]],
      xr |-> IF e.err
             THEN [apiVersion |-> "", kind |-> "", name |-> "", keys |-> {}, metaKeys |-> {}, marker |-> "none",
                   ready |-> [status |-> "none", reason |-> "none", kind |-> "none", unready |-> {}], conds |-> {}]
             ELSE [apiVersion |-> "ex.org/v1", kind |-> "XThing", name |-> "xr1", keys |-> {"apiVersion", "kind", "metadata", "status"},
                   metaKeys |-> {"name"}, marker |-> e.xrm, ready |-> ReadyIntended(e.composed, e.rdy, e.xrdy), conds |-> e.conds],
      results |-> e.results, ctxOut |-> e.ctxOut, same |-> TRUE, untouched |-> TRUE]
IdealController(in) ==
  LET e == RInterpFrom(in, {})
  IN [calls |-> IdealCalls(in, e), err |-> e.err, errKind |-> e.errKind, errTok |-> e.errTok, errStep |-> e.errStep,
      applied |-> {[n |-> x.n, v |-> x.v, name |-> IF x.n \in Range(in.existing) THEN x.n \o "-obj" ELSE "xr1-gen",
                    gen |-> "xr1-", genPrefix |-> x.n \notin Range(in.existing),
                    labels |-> XRLabels(in) \cup (IF in.claim THEN {} ELSE {[k |-> "crossplane.io/claim-name", v |-> ""]}),
                    owners |-> <<XROwner>>] : x \in e.composed},
      xrm |-> e.xrm, ready |-> ReadyIntended(e.composed, e.rdy, e.xrdy), conds |-> e.conds,
      events |-> [i \in DOMAIN e.results |-> [type |-> SevClass(e.results[i].sev), tok |-> e.results[i].tok, step |-> e.results[i].step]]]
=============================================================================
