"""C08 - teardown happens in dependency order; nothing is orphaned with a dead controller.
Model: spec/Teardown.tla (definition, offered, claim, composite reconcilers + environment, one action per call
whose timing matters); driver: harness/drivers/teardown (the real reconcilers, one goroutine each, paused before
those calls); monitor: spec/MonTeardown.tla."""
import glob
import json
import os

import vlib

PID = "C08"
FORMULAS = ["LockBeforeFin", "CrdAfterAll.Instances", "CrdAfterAll.Instances.RecreatedAfterList", "CrdAfterAll.Running", "StopAfterGone.Instances",
            "StopAfterGone.Instances.RecreatedAfterList", "XrdFinalizer", "ClaimAfterXR", "NoDeadlock", "UsageAfterUser"]
QUICK = [("quick", 2200), ("quick_fg", 1300), ("quick_faults", 1300), ("quick_tp", 1300)]
THOROUGH = [("quick", 98249), ("quick_fg", 101046), ("quick_faults", 60000), ("quick_tp", 60000), ("thorough", 120000), ("thorough_fg", 60000)]


def regression():
    out = []
    for p in sorted(glob.glob(os.path.join(vlib.VERIF, "scenarios", PID, "*.json"))):
        with open(p) as f:
            out.append(json.load(f))
    return out


def drive_and_judge(ctx, scs, shards):
    by_id = {s["id"]: s for s in scs}
    binp = ctx.go_build("./drivers/teardown")
    prefix, s = ctx.run_sharded(binp, scs, ["-chunk", "120000"], shards=shards)
    if s.get("hung"):
        raise vlib.Inconclusive("%d schedules hung in the teardown driver" % s["hung"])
    viols, nlines = ctx.monitor("MonTeardown", prefix)
    for formula, line, scid in viols:
        ctx.violation(formula, scid, ctx.replay_file(by_id.get(scid, {"id": scid})), "trace line %d" % line, fingerprint=formula)
    return s, nlines


def lockfin(ctx):
    """the package clause: a deleted revision leaves the Lock before it is finalized (spec/LockFin.tla)"""
    sub = ctx.sub("lockfin")
    mc = sub.model_check("MCLockFin", "MCLockFin.cfg", workers=2, timeout=120)
    scs = [{"id": "%s-lockfin-%03d" % (PID, i), "hist": h, "rider": "lockfin"} for i, h in sub.sample_lines(mc["emitted_file"], 10 ** 6, mc["emitted"])]
    binp = sub.go_build("./drivers/teardown")
    trace = os.path.join(sub.work, "trace.ndjson")
    summ = os.path.join(sub.work, "summary.json")
    sub.run([binp, "-lockfin", "-scenarios", sub.write_scenarios(scs), "-trace", trace, "-summary", summ])
    viols, n = sub.monitor("MonLockFin", trace)
    by_id = {s["id"]: s for s in scs}
    for formula, line, scid in viols:
        ctx.violation(formula, scid, ctx.replay_file(by_id.get(scid.split("/")[0], {"id": scid, "rider": "lockfin"})), "trace line %d" % line, fingerprint=formula)
    with open(summ) as f:
        s = json.load(f)
    return dict(states=mc["states"], transitions=mc["transitions"], scenarios=len(scs), runs=s["runs"], events=n, drift=s["drift"])


def usage_rider(ctx):
    """the composed-Usage clause: a composed Usage lets go of the used resource only after its using resource is gone
    (spec/Usage.tla, formula UsageAfterUser of MonUsage.tla; the Usage module is C19's)"""
    from checks import c19
    sub = ctx.sub("usage")
    s = c19.run_composed(sub, n=1500 if ctx.quick else 10 ** 7)
    for v in sub.violations:
        if v["formula"] == "UsageAfterUser":
            ctx.violations.append(v)
    cov = dict(sub.cov)
    cov.pop("samples", None)
    return cov


def run(ctx):
    plan = QUICK if ctx.quick else THOROUGH
    scs, states, trans, emitted, consts = [], 0, 0, 0, {}
    for name, n in plan:
        cfg = "MCTeardown_%s.cfg" % name
        mc = ctx.model_check("MCTeardown", cfg, sub="mc_" + name, workers=8 if ctx.quick else 16, timeout=300 if ctx.quick else 3300, heap="12g")
        scs += [{"id": "%s-%s-%07d" % (PID, name, i), "hist": h} for i, h in ctx.sample_lines(mc["emitted_file"], n, mc["emitted"])]
        states += mc["states"]
        trans += mc["transitions"]
        emitted += mc["emitted"]
        consts[cfg] = dict(states=mc["states"], transitions=mc["transitions"], depth=mc["depth"], schedules=mc["emitted"])
    # the model of the code as written violates the ordering (known finding D9): the design-level witness
    w = ctx.model_check("MCTeardown", "MCTeardown_witness.cfg", sub="mc_witness", workers=4, timeout=300, expect_violations=["Ordered"])
    consts["MCTeardown_witness.cfg"] = dict(violates=["Ordered"], states_to_violation=w["states"])
    chosen = regression() + scs
    lf = lockfin(ctx)
    ur = usage_rider(ctx)
    s, nlines = drive_and_judge(ctx, chosen, shards=8 if ctx.quick else 14)
    ctx.cov.update(dict(
        states=states + lf["states"] + ur.get("states", 0), transitions=trans + lf["transitions"] + ur.get("transitions", 0),
        traces_validated_against_impl=s["runs"] + lf["runs"] + ur.get("traces_validated_against_impl", 0),
        samples=s["samples"][:2], model_runs=consts, lockfin_rider=lf, usage_rider=ur,
        schedules_emitted=emitted, schedules_replayed=s["scenarios"], steps=s["steps"], events=nlines, per_action_counts=s["counts"],
        drift=dict(steps_out_of_sync=s["drift"], runs_with_drift=s["drift_runs"]), monitor_formulas=FORMULAS, exhaustive=(emitted == len(scs)),
        checker_cmd="tlc MCTeardown (M,G) -> harness/drivers/teardown on /repo (T) -> tlc MonTeardown",
        rule="one schedule per model transition that ends a reconcile of any actor: interleavings of the real definition, offered, claim and XR "
             "reconcilers at call granularity with user deletions, Kubernetes CRD-instance cleanup and foreground GC steps, third-party finalizer "
             "removals and API errors at the modelled calls",
        riders="the package clause (LockBeforeFin) by spec/LockFin.tla; the composed-Usage clause (UsageAfterUser) by the Usage module (spec/Usage.tla, C19's)",
    ))
    ctx.assumptions += ["a Create that carries a resourceVersion is refused (API server rule) - this is what keeps a claim reconcile that read the XR from re-creating it",
                        "third parties rewriting owner references of the CRDs are outside the quantifier",
                        "verdict only from traces of the real reconcilers judged by MonTeardown.tla"]


def replay(ctx, path):
    with open(path) as f:
        sc = json.load(f)
    if str(sc.get("id", "")).startswith("C19"):     # a scenario of the Usage rider
        from checks import c19
        c19.replay(ctx, path)
        ctx.violations = [v for v in ctx.violations if v["formula"] == "UsageAfterUser"]
        return
    if sc.get("rider") == "lockfin":
        binp = ctx.go_build("./drivers/teardown")
        trace = os.path.join(ctx.work, "trace.ndjson")
        ctx.run([binp, "-lockfin", "-scenarios", ctx.write_scenarios([sc]), "-trace", trace, "-summary", os.path.join(ctx.work, "summary.json")])
        viols, n = ctx.monitor("MonLockFin", trace)
        for formula, line, scid in viols:
            ctx.violation(formula, scid, path, "trace line %d" % line, fingerprint=formula)
        ctx.cov.update(dict(states=1, transitions=1, traces_validated_against_impl=1, samples=[sc], events=n))
        return
    s, nlines = drive_and_judge(ctx, [sc], shards=1)
    ctx.cov.update(dict(states=1, transitions=1, traces_validated_against_impl=s["runs"], samples=[sc], events=nlines))
