"""C11 - CRDs derived from an XRD are the XRD's schema plus intact Crossplane machinery.
Reference formulas + design model: spec/XCRD.tla; input enumeration: spec/MCXCRD.tla; driver:
harness/drivers/xcrd (real xcrd.ForCompositeResource / ForCompositeResourceClaim,
CompositeResourceDefinition.ValidateUpdate, the XRD admission handler on simapi); monitor: spec/MonXCRD.tla."""
import glob
import json
import os

import vlib

PID = "C11"
KINDS = ["xr", "claim"]
PER_KIND = ["Rendered", "Identity", "Versions.Carried", "Versions.OneStorage", "Versions.StorageIsReferenceable",
            "Versions.StatusSubresource", "Scope", "Owner", "Author.Props", "Author.Required", "Author.Rules",
            "Author.NameLimit", "Machinery.Present", "Machinery.Standard", "Machinery.Default"]
IMMUTABLE = ["Immutable.Group", "Immutable.Kind", "Immutable.Plural", "Immutable.ClaimKind", "Immutable.ClaimPlural"]
MON_FORMULAS = (["%s.%s" % (f, k) for f in PER_KIND for k in KINDS]
                + ["Collide.NoCRD", "Collide.Admission.Create", "Collide.Admission.Update", "Admission.Terminating.Same"]
                + IMMUTABLE + [f + ".Admission" for f in IMMUTABLE])
MODEL_INVARIANTS = ["DInputOK", "DRendered", "DVersions", "DScope", "DOwner", "DAuthor", "DMachinery", "DCollide", "DImmutable"]


def regression():
    out = []
    for p in sorted(glob.glob(os.path.join(vlib.VERIF, "scenarios", PID, "*.json"))):
        with open(p) as f:
            out.append(json.load(f))
    return out


def load_scenarios(ctx, emitted_file):
    """One scenario per emitted vector. The per-vector seed (order of required lists, whether an entirely
    empty spec/status schema is written as {} or left out) is stored so that a replay is exact."""
    scs = regression()
    with open(emitted_file) as f:
        for i, line in enumerate(f, 1):
            scs.append({"id": "%s-%07d" % (PID, i), "seed": ctx.seed * 1000003 + i, "input": json.loads(line)})
    return scs


def drive_and_judge(ctx, scs, shards):
    by_id = {s["id"]: s for s in scs}
    # VERIF_C11_DRIVER: a driver built with `go build -overlay` from a sanity mutant (checks/c11_selftest.py); never set otherwise
    binp = os.environ.get("VERIF_C11_DRIVER") or ctx.go_build("./drivers/xcrd")
    prefix, s = ctx.run_sharded(binp, scs, ["-chunk", "6000"], shards=shards)
    viols, nlines = ctx.monitor("MonXCRD", prefix, par=6, heap="4g")
    # strict conformance with the design model (never a verdict): DRIFT lines of the monitor runs
    drift = []
    for out in glob.glob(os.path.join(ctx.work, "mon*", "tlc_MonXCRD.out")):
        with open(out) as f:
            drift += [ln.strip().strip('"').split("|")[2] for ln in f if ln.startswith('"DRIFT|')]
    if drift:
        vlib.log("DRIFT: %d vectors where the real output differs from the design model of spec/XCRD.tla (e.g. %s); "
                 "not a violation - update the model" % (len(drift), drift[0]))
    s["drift"] = dict(vectors=len(drift), examples=drift[:3])
    for formula, line, scid in viols:
        ctx.violation(formula, scid, ctx.replay_file(by_id.get(scid, {"id": scid})), "trace line %d" % line, fingerprint=formula)
    return s, nlines


def rider_lifecycle(ctx):
    """The derived CRDs as the live definition / offered reconcilers apply them (module XrdLifecycle, check X02): across XRD
    edits, version changes and delete + re-create under the same name on ONE long-lived reconciler, every CRD write carries
    the rendering of the XRD the reconcile read and a controller reference to the current XRD (formulas Faithful.*,
    AfterReconcile.Crd of MonXrdLifecycle.tla)."""
    from checks import x02
    sub = ctx.sub("xrdlifecycle")
    scs, st, tr = [], 0, 0
    for name, n in [("quick_recreate", 400 if ctx.quick else 6000), ("quick_ver", 300 if ctx.quick else 10 ** 7)]:
        mc = sub.model_check("MCXrdLifecycle", "MCXrdLifecycle_%s.cfg" % name, sub="mc_" + name, workers=4, timeout=900)
        scs += [{"id": "%s-%s-%07d" % (PID, name, i), "hist": h} for i, h in sub.sample_lines_stratified(mc["emitted_file"], n, mc["emitted"], key=x02.feats)]
        st += mc["states"]
        tr += mc["transitions"]
    s, n = x02.drive_and_judge(sub, scs, shards=4, binp=x02.build(sub))
    for v in sub.violations:
        if v["formula"].startswith("Faithful") or v["formula"].startswith("AfterReconcile.Crd"):
            ctx.violations.append(v)
    return dict(states=st, transitions=tr, runs=s["runs"], events=n, formulas=["Faithful.Write", "Faithful.OwnCrd", "Faithful.XrdSpecKept", "AfterReconcile.Crd"])


def run(ctx):
    cfg = "MCXCRD_quick.cfg" if ctx.quick else "MCXCRD_thorough.cfg"
    # -seed: family "mix" draws its random points of the full product with TLC's RandomSubset
    # workers=1: deterministic emission order (vector ids and per-vector seeds are reproducible)
    mc = ctx.model_check("MCXCRD", cfg, workers=1, timeout=300 if ctx.quick else 3000,
                         extra=["-seed", str(ctx.seed)])
    scs = load_scenarios(ctx, mc["emitted_file"])
    s, nlines = drive_and_judge(ctx, scs, 8)
    lc = rider_lifecycle(ctx)
    ctx.cov.update(dict(
        lifecycle_rider=lc,
        states=mc["states"], transitions=mc["transitions"], traces_validated_against_impl=s["vectors"],
        samples=(s.get("samples") or [])[:2], model_cfg=cfg, vectors_emitted=mc["emitted"], vectors_replayed=s["vectors"],
        per_family=s["families"], outcome_counts=s["outcomes"], antecedent_counts=s["antecedents"],
        observations=s["observations"], machinery_tables=s["machinery_tables"], events=nlines, drift=s["drift"],
        monitor_formulas=MON_FORMULAS, model_invariants=MODEL_INVARIANTS, exhaustive=(s["vectors"] == len(scs)),
        checker_cmd="tlc MCXCRD -seed VERIF_SEED (M,G: enumerates the abstract XRDs / (old,new) pairs, checks the design model of "
                    "crd.go against every reference formula) -> harness/drivers/xcrd on /repo (T) -> tlc MonXCRD",
        rule="every enumerated vector is materialised as real v1.CompositeResourceDefinition objects and fed to the real "
             "xcrd.ForCompositeResource, xcrd.ForCompositeResourceClaim, ValidateUpdate and the XRD admission webhook; the "
             "returned CRDs are projected back to the abstract maps and judged by MonXCRD.tla",
    ))
    ctx.assumptions += [
        "schemas are abstracted to tags: one distinguishable OpenAPI schema per (version, part, property, tag); fidelity below the "
        "property level (nested oneOf, CEL, defaults inside a property) is observed as exact equality of the whole property schema",
        "'standard schema' of a machinery field = what the real code emits for a reference XRD with an empty author schema and no "
        "default policies (oracle choice); the documented default injection is allowed / required (I5)",
        "asserted for the spec and status schemas (properties, required, x-kubernetes-validations, oneOf) and metadata.name "
        "maxLength; root-level rules and spec/status-level x-kubernetes-preserve-unknown-fields are input dimensions only (I1, I3)",
        "immutability: only 'changed => rejected' is asserted (I7); claim-name collisions: same-field comparison (I6); every "
        "version has a schema (I8)",
        "the domain is a union of families, each exhaustive in one group of dimensions x a context pool, plus seeded random points "
        "of the full product (spec/MCXCRD.tla)",
        "the admission handler runs against simapi (dry-run create/update; no CRD validation by the API server)",
        "verdict only from outputs of the real code judged by MonXCRD.tla",
    ]


def replay(ctx, path):
    with open(path) as f:
        sc = json.load(f)
    if isinstance(sc.get("hist"), list):      # a schedule of the lifecycle rider
        from checks import x02
        x02.replay(ctx, path)
        ctx.violations = [v for v in ctx.violations if v["formula"].startswith("Faithful") or v["formula"].startswith("AfterReconcile.Crd")]
        return
    s, nlines = drive_and_judge(ctx, [sc], 1)
    ctx.cov.update(dict(states=1, transitions=1, traces_validated_against_impl=s["vectors"], samples=(s.get("samples") or [sc])[:1],
                        events=nlines, outcome_counts=s["outcomes"], drift=s["drift"]))
