"""C18 - the RBAC manager grants a provider no permission beyond what is allowed.
Reference semantics: spec/RBAC.tla (Kubernetes' Den / Covers, what C18 allows);
vectors: spec/MCRBAC.tla; driver: harness/drivers/rbac (real validator, Expand,
renderers, roles / binding / definition reconcilers on simapi); judge: spec/MonRBAC.tla."""
import glob
import json
import os
import re

import vlib

PID = "C18"
MON_FORMULAS = ["Sound", "Sound.ResourceNameStar", "AllOrNone", "SystemRole", "SystemRole.Render",
                "Family.NotMember", "Family.Missed", "Binding.RoleRef", "Binding.Subjects",
                "XrdRoles", "XrdRoles.NoMore"]
INFO_FORMULAS = ["Completeness", "Drift.Granted", "Drift.Expand", "Drift.SystemRole"]
MAX_REPLAY_FILES_PER_FORMULA = 10


def regression():
    out = []
    for p in sorted(glob.glob(os.path.join(vlib.VERIF, "scenarios", PID, "*.json"))):
        with open(p) as f:
            out.append(json.load(f))
    return out


def info_lines(ctx):
    """INFO|<name>|<line>|<scenario> lines of the monitor runs (information, never a verdict)."""
    counts, examples = {}, {}
    for out in glob.glob(os.path.join(ctx.work, "mon*", "tlc_MonRBAC.out")):
        with open(out) as f:
            for m in re.finditer(r'^"INFO\|([^|"]+)\|(\d+)\|([^"]*)"$', f.read(), re.M):
                counts[m.group(1)] = counts.get(m.group(1), 0) + 1
                examples.setdefault(m.group(1), m.group(3))
    return counts, examples


def drive_and_judge(ctx, scs):
    by_id = {s["id"]: s for s in scs}
    sp = ctx.write_scenarios(scs)
    binp = ctx.go_build("./drivers/rbac")
    trace = os.path.join(ctx.work, "trace.ndjson")
    summ = os.path.join(ctx.work, "summary.json")
    chunk = max(500, len(scs) // 12 + 1)
    ctx.run([binp, "-scenarios", sp, "-trace", trace, "-summary", summ, "-chunk", str(chunk), "-seed", str(ctx.seed)])
    with open(summ) as f:
        s = json.load(f)
    viols, nlines = ctx.monitor("MonRBAC", trace)
    files, per_formula = {}, {}
    for formula, line, scid in sorted(viols, key=lambda v: (v[0], not v[2].startswith("C18-reg"), v[2])):
        per_formula[formula] = per_formula.get(formula, 0) + 1
        if per_formula[formula] <= MAX_REPLAY_FILES_PER_FORMULA:
            files[(formula, per_formula[formula])] = ctx.replay_file(by_id.get(scid, {"id": scid}))
            rp = files[(formula, per_formula[formula])]
        else:
            rp = files[(formula, 1)]  # more of the same formula: point at the first scenario
        ctx.violation(formula, scid, rp, "trace line %d" % line, fingerprint=formula)
    info, examples = info_lines(ctx)
    return s, nlines, per_formula, info, examples


def run(ctx):
    quick = ctx.quick
    cfg = "MCRBAC_quick.cfg" if quick else "MCRBAC_thorough.cfg"
    mc = ctx.model_check("MCRBAC", cfg, workers=8 if quick else 16, timeout=120 if quick else 1200)
    # (M) the design as read admits exactly the literal-"*"-resource-name cell: the strict formula must fail in the model
    d12 = ctx.model_check("MCRBAC", "MCRBAC_d12.cfg", sub="mc_d12", workers=1, timeout=120,
                          expect_violations=("DesignSoundStrict",))
    budget = 60000 if quick else 400000
    scs = [{"id": "%s-%07d" % (PID, i), "input": v} for i, v in ctx.sample_lines(mc["emitted_file"], budget, mc["emitted"])]
    chosen = regression() + scs
    s, nlines, per_formula, info, examples = drive_and_judge(ctx, chosen)
    samples = []
    for ev in s["samples"][:3]:
        samples.append({"scenario": ev["scenario"], "input": ev["input"],
                        "out": {k: ev["out"][k] for k in ("err", "rejected", "recErr", "writes", "roles")}})
    ctx.cov.update(dict(
        states=mc["states"] + d12["states"], transitions=mc["transitions"] + d12["transitions"],
        traces_validated_against_impl=s["runs"], samples=samples,
        model_runs={cfg: dict(states=mc["states"], transitions=mc["transitions"], vectors=mc["emitted"]),
                    "MCRBAC_d12.cfg": dict(states=d12["states"], violated=d12["violated"])},
        vectors_emitted=mc["emitted"], vectors_replayed=len(scs), regression_scenarios=len(chosen) - len(scs),
        vectors_by_family=s["by_family"], antecedent_hits=s["counts"], events=nlines,
        monitor_formulas=MON_FORMULAS, violations_by_formula=per_formula,
        information=dict(counts=info, examples=examples, formulas=INFO_FORMULAS),
        drift=dict(granted=info.get("Drift.Granted", 0), expand=info.get("Drift.Expand", 0), system_role=info.get("Drift.SystemRole", 0)),
        exhaustive=(mc["emitted"] == len(scs)),
        checker_cmd="tlc MCRBAC (M,G: vectors) -> harness/drivers/rbac on /repo (T) -> tlc MonRBAC",
        rule="every emitted input vector is run through the real validator / renderers / reconcilers; one trace record per vector",
    ))
    ctx.assumptions += [
        "Kubernetes semantics (RuleAllows, Covers) are transcribed into spec/RBAC.tla from the upstream sources; resource-string and URL-prefix structure is tabulated for the bounded universe",
        "the allow-list ClusterRole satisfies API-server validation (a rule is either a resource rule or a non-resource-URL rule); requests are arbitrary",
        "C18 does not restrict verbs on a provider's own resources: SystemRole allows every verb there",
        "package references are rendered from (registry, organisation, form) facts chosen by the model; simapi stands in for the API server",
        "verdict only from outcomes of the real code judged by MonRBAC.tla; Completeness and Drift.* are information",
    ]


def replay(ctx, path):
    with open(path) as f:
        sc = json.load(f)
    s, nlines, per_formula, info, examples = drive_and_judge(ctx, [sc])
    ctx.cov.update(dict(states=1, transitions=1, traces_validated_against_impl=s["runs"], samples=[sc], events=nlines,
                        violations_by_formula=per_formula, information=dict(counts=info)))
