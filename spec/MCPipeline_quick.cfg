SPECIFICATION Spec
CONSTANTS
  Progs12 <- AllProgs
  Progs3 <- SomeProgs
  MaxSteps = 3
  ExtraSets <- Ex4
  ExistingSets <- Old2
  GrpcExtras <- Ex1
  GrpcMaxSteps = 2
  Grpc3Progs <- CtxProgs
  Ops <- RouteOps
  MaxOps = 4
ACTION_CONSTRAINT Emit
CHECK_DEADLOCK FALSE
INVARIANTS RefPipeline RefSelf RefBounds RefRouting
