----------------------------- MODULE CoreWiring -----------------------------
(***************************************************************************)
(* X12 - the reference of the PRODUCTION WIRING of Crossplane's core        *)
(* controllers: what the Setup functions of internal/controller/            *)
(* apiextensions and internal/controller/rbac, the options functions of the *)
(* two XRD controllers (definition.Reconciler.CompositeReconcilerOptions,   *)
(* the claim options in offered.Reconciler.Reconcile) and the three         *)
(* admission-webhook Setup functions must put together, for every vector of *)
(* feature flags and options.                                               *)
(*                                                                          *)
(* The operators are derived from what each controller is FOR (its package  *)
(* comments, the comments in the Setup / options functions and the design   *)
(* documents under /repo/design), not from the statement order of the code: *)
(*                                                                          *)
(*  R1 A controller must be told about every change it can only react to by *)
(*     being told: a change of the object it reconciles (Primary), of what  *)
(*     it creates and has to repair (Produces), and of what it consults     *)
(*     without polling (Consults).  Controllers that read objects they      *)
(*     cannot watch (the usage controller: used / using resources of any    *)
(*     kind; the XR controller: composed resources of kinds unknown when it *)
(*     starts) poll instead: the poll interval must reach them.             *)
(*  R2 design/one-pager-rate-limiting.md: "All reconciles are subject to    *)
(*     the global rate limiter"; a Conflict is an expected race with        *)
(*     another writer and is retried silently (crossplane-runtime           *)
(*     errors.WithSilentRequeueOnConflict), any other error must surface so *)
(*     that the work queue backs off.  Back-off 1s..60s, except the XR      *)
(*     controller: 1s..30s ("we don't want to back off as far as 60         *)
(*     seconds", definition/reconciler.go).                                 *)
(*  R3 definition/reconciler.go, offered/reconciler.go: "This client should *)
(*     only be used by this XRD controller, not the XR controllers it       *)
(*     manages. XR controllers should use the engine's client. This ensures *)
(*     XR controllers will use a client backed by the same cache used to    *)
(*     power their watches."  cmd/crossplane/core: the uncached client is   *)
(*     "for use when the composite controller does not find an Unstructured *)
(*     resource that it expects to find in the cache".  So: statically      *)
(*     registered controllers, their watch handlers and the webhooks use    *)
(*     the manager's client only; the XR controller uses the engine's       *)
(*     cached client, and the uncached one only to re-read a composed       *)
(*     resource the cache did not have; the claim controller uses the       *)
(*     cached client only; nobody writes through the uncached client.       *)
(*  R4 Feature flags (internal/features): a feature's components are wired  *)
(*     exactly when its flag is on, and a flag changes nothing else:        *)
(*       EnableBetaUsages             the usage controller exists           *)
(*       EnableBetaClaimSSA           claim syncer + managed fields upgrader*)
(*       EnableAlphaExternalSecretStores  XR publishers / fetchers /        *)
(*                                    configurators, claim propagator /     *)
(*                                    unpublisher (+ their TLS config)      *)
(*       EnableAlphaRealtimeCompositions  XR watch starter, watch garbage   *)
(*                                    collector, field index, composed      *)
(*                                    resource watches                      *)
(*       EnableBetaCompositionWebhookSchemaValidation  CRD index + schema   *)
(*                                    validation in the Composition webhook *)
(*  R5 design/design-doc-rbac-manager.md + rbac/controller/options.go: the  *)
(*     allow-list ClusterRole decides which permission requests are granted *)
(*     (none without it); provider families (design-doc-smaller-providers)  *)
(*     share their CRDs within one registry + org, where DefaultRegistry    *)
(*     "must match the package manager's DefaultRegistry in order for the   *)
(*     RBAC manager to be able to determine whether two packages are part   *)
(*     of the same registry and org" - independently of the allow list.     *)
(*  R6 Logger, event recorder, poll interval, concurrency, global rate      *)
(*     limiter given in Options reach every reconciler that has the option  *)
(*     (and, through the XRD controllers, the controllers they start).      *)
(*                                                                          *)
(* Interpretations (also in the report):                                    *)
(*  I1 update events: a watch predicate is evaluated on the NEW object      *)
(*     (crossplane-runtime resource.NewPredicates); the requests of the old *)
(*     and the new object are both enqueued.  An XRD that STOPS offering a  *)
(*     claim is therefore not handed to the offered controller (known,      *)
(*     module XrdLifecycle P7) - stated as is.                              *)
(*  I2 the XR controller's CompositionRevision watch is FOR "XRs that will  *)
(*     use a newly created CompositionRevision" (revisions are immutable):  *)
(*     exact on create, nothing beyond that set on other events; likewise   *)
(*     the composed-resource watch (realtime) is exact on update.           *)
(*  I3 the family watch of the rbac roles controller selects by the family  *)
(*     label only (the org filter is applied by the reconcile).             *)
(*  I4 which API client is used is judged on names of clients, which of two *)
(*     implementations on Go type names (the driver reports, never maps).   *)
(*                                                                          *)
(* Findings of this module (both in rbac/provider/roles.Setup, branch       *)
(* AllowClusterRole == "", both repaired in /repo; the formulas stay         *)
(* ordinary formulas, scenarios/X12/X12-reg-rbac-no-allow-list.json is the   *)
(* regression vector):                                                       *)
(*  D38 (F-a, fixed 95e3026) no family watch without an allow list          *)
(*      - Wiring.RbacRoles.Enqueue.ProviderRevision                          *)
(*  D39 (F-b, fixed fde63af) DefaultRegistry not handed to the OrgDiffer    *)
(*      without an allow list - Wiring.RbacRoles.OrgRegistry                 *)
(*                                                                          *)
(* Observations reported, not judged:                                       *)
(*  O1 the composition selectors of an XR controller record their events    *)
(*     through the XRD controller's bare recorder: unlike every other event *)
(*     of that XR controller they carry no "controller" annotation.         *)
(*  O2 cluster/webhookconfigurations/usage.yaml declares sideEffects: None, *)
(*     while the handler annotates the used resource on a refused,          *)
(*     non-dry-run DELETE (NoneOnDryRun would describe it; that a dry run   *)
(*     is not recorded was repaired as D36, 1dd9b46).                       *)
(* Not covered: what cmd/crossplane/core does around Setup (it needs a      *)
(* cluster): the engine's construction, ESSOptions only with the flag, the  *)
(* usage webhook being registered only with EnableBetaUsages.               *)
(*                                                                          *)
(* The probe world (the driver stores the same objects, and reports the     *)
(* part the handlers list with every record):                               *)
(*   XRD xthings.ex.org (XThing / ThingClaim), Compositions c1 (Resources), *)
(*   c2 (Pipeline, function fn1); XRs xr1 (c1, composes cd1), xr2 (c2,      *)
(*   cd2), xr-a (c9, cd-a cd-ab), xr-b (c9, Manual, cd-ab), xr-c (c8),      *)
(*   xr-d (no composition); xr3 (selects c1 by label), xr4 (neither         *)
(*   reference nor selector: the XRD's default composition c1); xr1 writes  *)
(*   a connection secret, cd1 has one with the keys a and b;                *)
(*   Usage u1 of Thing cd-used; claim ns1/cm1;                              *)
(*   ProviderRevisions p1 p2 p6 (family f; p6 in another registry), p3      *)
(*   (family g), p4 p5 (no family); p1 p5 request a permission of the allow *)
(*   list, p3 one outside; ClusterRole allow-role.                          *)
(***************************************************************************)
EXTENDS Integers, Sequences, FiniteSets

Range(s) == {s[i] : i \in DOMAIN s}

-----------------------------------------------------------------------------
(* kinds and Go type names (I4) *)
XRD  == "CompositeResourceDefinition"
CRD  == "CustomResourceDefinition"
COMP == "Composition"
REV  == "CompositionRevision"
PR   == "ProviderRevision"
CR   == "ClusterRole"
CRB  == "ClusterRoleBinding"
DEP  == "Deployment"
USG  == "Usage"
XRK  == "XThing"
CMK  == "ThingClaim"
CDK  == "Thing"

TPT          == "*composite.PTComposer"
TFN          == "*composite.FunctionComposer"
TPubAPI      == "*composite.APIFilteredSecretPublisher"
TPubStore    == "*composite.SecretStoreConnectionPublisher"
TFetchSecret == "*composite.SecretConnectionDetailsFetcher"
TFetchStore  == "*connection.DetailsManager"
TCfgNaming   == "*composite.APINamingConfigurator"
TCfgAPI      == "*composite.APIConfigurator"
TCfgStore    == "*composite.SecretStoreConnectionDetailsConfigurator"
TSelEnforced == "*composite.EnforcedCompositionSelector"
TSelDefault  == "*composite.APIDefaultCompositionSelector"
TSelLabel    == "*composite.APILabelSelectorResolver"
TObserver    == "*composite.ExistingComposedResourceObserver"
TFnRunner    == "*composite.FetchingFunctionRunner"
TExtra       == "*composite.ExistingExtraResourcesFetcher"
TNopStarter  == "*composite.NopWatchStarter"
TGc          == "*watch.GarbageCollector"
TSyncSSA     == "*claim.ServerSideCompositeSyncer"
TSyncCSA     == "*claim.ClientSideCompositeSyncer"
TUpgPatch    == "*claim.PatchingManagedFieldsUpgrader"
TUpgNop      == "*claim.NopManagedFieldsUpgrader"
TPropAPI     == "*claim.APIConnectionPropagator"
TUnpubNop    == "*claim.NopConnectionUnpublisher"
TUnpubStore  == "*claim.SecretStoreConnectionUnpublisher"
TFinalizer   == "*resource.APIFinalizer"

-----------------------------------------------------------------------------
(* R4: which controllers exist *)
CoreControllers(in) == {"composition", "definition", "offered"} \cup (IF in.usages THEN {"usage"} ELSE {})
RbacControllers     == {"rbacdef", "binding", "roles"}
Controllers(in)     == IF in.fam = "core" THEN CoreControllers(in) ELSE RbacControllers
Static              == {"composition", "definition", "offered", "usage"} \cup RbacControllers
Dynamic             == {"xr", "claim"}
All                 == Static \cup Dynamic

(* R1: what a controller has to be told about *)
Primary(c) ==
  CASE c = "composition" -> COMP
    [] c \in {"definition", "offered", "rbacdef"} -> XRD
    [] c = "usage" -> USG
    [] c \in {"binding", "roles"} -> PR
    [] c = "xr" -> XRK
    [] c = "claim" -> CMK

Produces(c) ==
  CASE c = "composition" -> {REV}           \* one revision per version of the Composition's spec
    [] c \in {"definition", "offered"} -> {CRD}   \* the CRD of the XR / of the claim
    [] c \in {"rbacdef", "roles"} -> {CR}
    [] c = "binding" -> {CRB}
    [] OTHER -> {}

Consults(c, in) ==
  CASE c = "binding" -> {DEP}               \* the service account of the provider's Deployment is the subject
    [] c = "roles" -> {PR} \cup (IF in.allow # "none" THEN {CR} ELSE {})   \* family members; the allow list
    [] c = "xr" -> {REV} \cup (IF in.rt THEN {CDK} ELSE {})   \* new revisions; composed resources (realtime)
    [] c = "claim" -> {XRK}                 \* the XR the claim is bound to
    [] OTHER -> {}

WatchedKinds(c, in) == {Primary(c)} \cup Produces(c) \cup Consults(c, in)

\* as the engine names a watch: kind/watch type
EngineWatchName(k) ==
  CASE k = XRK -> XRK \o "/CompositeResource"
    [] k = REV -> REV \o "/CompositionRevision"
    [] k = CMK -> CMK \o "/Claim"
    [] k = CDK -> CDK \o "/ComposedResource"

(* R1: which of them need the poll interval *)
Polls(c) == c \in {"usage", "xr", "claim"}

-----------------------------------------------------------------------------
(* R1: the requests a change must lead to.  a: the attributes of the changed *)
(* object (see the driver's attrs), w: the listed part of the world.        *)
Key(a)  == IF a.ns = "none" THEN a.name ELSE a.ns \o "/" \o a.name
Self(a) == {Key(a)}
OwnerOf(a, kind, ctrlOnly) ==
  IF a.ownKind = kind /\ (ctrlOnly => a.ownCtrl) THEN {a.ownName} ELSE {}

FamilyOthers(w, a) ==
  IF a.pfam = "none" THEN {} ELSE {p.n : p \in {q \in Range(w.prs) : q.fam = a.pfam /\ q.n # a.name}}
Requesters(w) == {p.n : p \in {q \in Range(w.prs) : q.reqs}}
AutomaticUsers(w, comp) ==
  IF comp = "none" THEN {} ELSE {x.n : x \in {y \in Range(w.xrs) : ~y.manual /\ y.comp = comp}}
Composers(w, name) == {x.n : x \in {y \in Range(w.xrs) : name \in Range(y.refs)}}

\* the filter a watch applies to the object's state (I1)
Relevant(c, k, a) ==
  CASE c = "definition" /\ k = CRD -> a.cat = "composite"
    [] c = "offered" /\ k = XRD   -> a.offers
    [] c = "offered" /\ k = CRD   -> a.cat = "claim"
    [] OTHER -> TRUE

Names(c, in, w, k, a) ==
  CASE c = "composition" /\ k = COMP -> Self(a)
    [] c = "composition" /\ k = REV  -> OwnerOf(a, COMP, TRUE)
    [] c \in {"definition", "offered", "rbacdef"} /\ k = XRD -> Self(a)
    [] c \in {"definition", "offered"} /\ k = CRD -> OwnerOf(a, XRD, TRUE)
    [] c = "usage" /\ k = USG -> Self(a)
    [] c = "rbacdef" /\ k = CR -> OwnerOf(a, XRD, TRUE)
    [] c = "binding" /\ k = PR  -> Self(a)
    [] c = "binding" /\ k = CRB -> OwnerOf(a, PR, TRUE)
    [] c = "binding" /\ k = DEP -> OwnerOf(a, PR, FALSE)      \* the package manager owns, but does not control, it
    [] c = "roles" /\ k = PR -> Self(a) \cup FamilyOthers(w, a)
    [] c = "roles" /\ k = CR -> OwnerOf(a, PR, TRUE)
                                \cup (IF in.allow # "none" /\ a.name = in.allow THEN Requesters(w) ELSE {})
    [] c = "xr" /\ k = XRK -> Self(a)
    [] c = "xr" /\ k = REV -> AutomaticUsers(w, a.comp)
    [] c = "xr" /\ k = CDK -> IF in.rt THEN Composers(w, a.name) ELSE {}
    [] c = "claim" /\ k = CMK -> Self(a)
    [] c = "claim" /\ k = XRK -> IF a.claimNs = "none" THEN {} ELSE {a.claimNs \o "/" \o a.claimName}
    [] OTHER -> {}

Enqueued(c, in, w, p) ==
  IF ~Relevant(c, p.k, p.n) THEN {}
  ELSE IF p.ev = "update" THEN Names(c, in, w, p.k, p.o) \cup Names(c, in, w, p.k, p.n)
  ELSE Names(c, in, w, p.k, p.n)

\* I2: events on which the set is exact (on the others nothing beyond it may be enqueued)
Exact(c, k, ev) ==
  CASE c = "xr" /\ k = REV -> ev = "create"
    [] c = "xr" /\ k = CDK -> ev = "update"
    [] OTHER -> TRUE

EnqueueOK(c, in, w, p) ==
  LET got == Range(p.enq)
      want == Enqueued(c, in, w, p) IN
  IF Exact(c, p.k, p.ev) THEN got = want ELSE got \subseteq want

-----------------------------------------------------------------------------
(* R2: the stack around every reconciler *)
HoldSeconds == 7      \* what the driver's global rate limiter answers during the limiter probe
Limited(o)      == o.lim.after = HoldSeconds /\ o.lim.calls = 0 /\ o.lim.asked >= 1 /\ ~o.lim.err
LimiterKeyOK(o) == o.lim.key = o.name
Silent(o)       == o.conflict = "requeue"
Surfaces(o)     == o.plain = "error"
BackoffOf(c)    == IF c = "xr" THEN [first |-> 1000, cap |-> 30000] ELSE [first |-> 1000, cap |-> 60000]
BackoffOK(c, o) == o.rl.first = BackoffOf(c).first /\ o.rl.cap = BackoffOf(c).cap
\* controllers exempt from the global rate limiter / the silent requeue: none (a reason would be written here)
NoLimiterWhy == {}
NoSilentWhy  == {}

(* R3: clients *)
ClientsAllowed(c) ==
  CASE c \in Static -> {"mgr"}
    [] c = "xr"     -> {"cached", "uncached", "xfn"}   \* xfn: the function runner's own reader (cmd/crossplane/core)
    [] c = "claim"  -> {"cached"}
ClientsRequired(c) == IF c \in Static THEN {"mgr"} ELSE {"cached"}

\* one reconcile of the XR controller (run r of the driver): reads of the composed kind and all calls
UncachedOnlyRereads(r) ==
  /\ \A i \in DOMAIN r.reads : r.reads[i].c = "uncached" =>
        \E j \in DOMAIN r.reads : j < i /\ r.reads[j].c = "cached" /\ r.reads[j].n = r.reads[i].n /\ ~r.reads[j].found
  /\ \A x \in Range(r.calls) : x.c = "uncached" => (x.v = "get" /\ x.k = CDK /\ ~x.w)
MissIsReread(r) ==
  r.miss => \E i \in DOMAIN r.reads : r.reads[i].c = "uncached" /\ r.reads[i].found
NoMissNoUncached(r) == ~r.miss => \A x \in Range(r.calls) : x.c # "uncached"
WritesCached(r)     == \A x \in Range(r.calls) : x.w => x.c = "cached"
XfnReadsFunctions(r) == \A x \in Range(r.calls) : x.c = "xfn" => (~x.w /\ x.k \in {"FunctionRevision", "Function"})

-----------------------------------------------------------------------------
(* R4: the make-up of the XR controller *)
XRPublishers(in)    == IF in.ess THEN <<TPubAPI, TPubStore>> ELSE <<TPubAPI>>
XRFetchers(in)      == IF in.ess THEN <<TFetchSecret, TFetchStore>> ELSE <<TFetchSecret>>
XRConfigurators(in) == IF in.ess THEN <<TCfgNaming, TCfgAPI, TCfgStore>> ELSE <<TCfgNaming, TCfgAPI>>
\* an enforced composition beats the XRD's default, which beats the XR's own selector
XRSelectors         == <<TSelEnforced, TSelDefault, TSelLabel>>
XRComposer(mode)    == IF mode = "Pipeline" THEN TFN ELSE TPT     \* Resources is the default mode
XRPubFilter(in)     == IF in.keys THEN <<"a">> ELSE <<>>
\* ... behaviourally: the composed resource of xr1 offers the keys a and b; an XRD that lists connectionSecretKeys = [a]
\* lets only that key into the XR's connection secret
XRSecretKeys(in)    == IF in.keys THEN {"a"} ELSE {"a", "b"}
XRGc(in)            == IF in.rt THEN TGc ELSE "nil"
XRIndex(in)         == IF in.rt THEN {"engine:" \o XRK \o ":compositeResourcesRefs"} ELSE {}
XRName              == "composite/xthings.ex.org"
ClaimName           == "claim/xthings.ex.org"

(* R4: the make-up of the claim controller *)
ClaimSyncer(in)      == IF in.ssa THEN TSyncSSA ELSE TSyncCSA
ClaimUpgrader(in)    == IF in.ssa THEN TUpgPatch ELSE TUpgNop
ClaimPropagator(in)  == IF in.ess THEN <<TPropAPI, TFetchStore>> ELSE <<TPropAPI>>
ClaimUnpublisher(in) == IF in.ess THEN TUnpubStore ELSE TUnpubNop

(* the TLS configuration of the external secret store plugins reaches every store client, and only with the flag *)
TlsOK(in, tls) == Range(tls) = (IF in.ess THEN {"same"} ELSE {})

(* the reference as one value (what MCCoreWiring checks and compares between neighbouring flag vectors) *)
Parts(in) ==
  [ controllers   |-> Controllers(in),
    watched       |-> [c \in All |-> WatchedKinds(c, in)],
    publishers    |-> XRPublishers(in),
    fetchers      |-> XRFetchers(in),
    configurators |-> XRConfigurators(in),
    selectors     |-> XRSelectors,
    starter       |-> in.rt,
    gc            |-> XRGc(in),
    index         |-> XRIndex(in),
    syncer        |-> ClaimSyncer(in),
    upgrader      |-> ClaimUpgrader(in),
    propagator    |-> ClaimPropagator(in),
    unpublisher   |-> ClaimUnpublisher(in),
    hookIndex     |-> in.schema,
    hookSchema    |-> in.schema ]

-----------------------------------------------------------------------------
(* webhooks *)
PathXRD  == "/validate-apiextensions-crossplane-io-v1-compositeresourcedefinition"
PathComp == "/validate-apiextensions-crossplane-io-v1-composition"
PathUsg  == "/validate-no-usages"
HookPath(h) == CASE h = "xrd" -> PathXRD [] h = "composition" -> PathComp [] h = "usage" -> PathUsg
HookIndexes(h, in) ==
  CASE h = "composition" -> IF in.schema THEN <<"mgr:" \o CRD \o ":crd.kind.group">> ELSE <<>>
    [] h = "usage" -> <<"mgr:" \o USG \o ":inuse.apiversion.kind.name">>
    [] OTHER -> <<>>
Req(o, id) == CHOOSE q \in Range(o.reqs) : q.id = id
HasReq(o, id) == \E q \in Range(o.reqs) : q.id = id

-----------------------------------------------------------------------------
(* R5: rbac roles *)
Granted(in, g) == g.req = "none" \/ (g.req = "allowed" /\ in.allow # "none")
Grant(o, pr) == CHOOSE g \in Range(o.extra.grants) : g.pr = pr
=============================================================================
