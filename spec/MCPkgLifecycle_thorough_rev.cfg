SPECIFICATION Spec
CONSTANTS
  InitPkgs <- PkgInstalled
  InitRevs <- RevsThoroughRev
  InitICs <- IcSome
  InitLock <- Bools
  ICs <- IcsQ
  Img <- ImgBothOk
  MaxMgr = 0
  MaxRev = 3
  MaxFaults = 1
  MaxEnv = 2
  MidEnv = TRUE
  EnvKinds <- EnvRev
  Edits <- NoEdits
  FaultKinds <- FaultsAll
  SeamOuts <- SeamsAll
  FinFirst = TRUE
  FixRemoval = TRUE
  ManualInactive = TRUE
VIEW view
ACTION_CONSTRAINT Emit
CHECK_DEADLOCK FALSE
INVARIANTS StepProps RepairedRev RepairedMgr HealthyTruth
