package main

// System scenarios, run purely through the captured top-level reconcilers, and the assembly of the trace records.

import (
	"fmt"
	"sort"
	"strings"

	"github.com/google/go-containerregistry/pkg/name"
	corev1 "k8s.io/api/core/v1"
	metav1 "k8s.io/apimachinery/pkg/apis/meta/v1"
	"k8s.io/apimachinery/pkg/apis/meta/v1/unstructured"
	"k8s.io/utils/ptr"

	xpv1 "github.com/crossplane/crossplane-runtime/apis/common/v1"

	pkgv1beta1 "github.com/crossplane/crossplane/apis/pkg/v1beta1"
	"github.com/crossplane/crossplane/zzverif/simapi"
)

func (w *world) find(fam, t string) []*ctl {
	var out []*ctl
	for _, c := range w.ctls {
		if c.fam == fam && c.t == t {
			out = append(out, c)
		}
	}
	return out
}

// ---------------------------------------------------------------- install a package of type t

const maxRounds = 6

// install creates a package of type t (source without a registry) and runs the controllers registered for that
// type - every controller of family manager / signature / revision whose For kind belongs to t - in rounds until
// the package reports Healthy or maxRounds is reached. The environment's part: an ImageConfig with a pull secret
// and one with a verification policy for the source, the Deployment becoming available.
func (w *world) install(t string) map[string]any {
	w.wipe()
	lt := lower(t)
	pkgName := "pkg-" + lt
	source := "acme/pkg-" + lt + ":v1.0.0"
	w.seedNamespace(pkgName)
	w.s.Put(imageConfig("ic-pull", []string{"acme/", w.in.Reg + "/acme/"}, "ic-secret", false))
	w.s.Put(imageConfig("ic-verify", []string{"acme/"}, "", true))
	w.s.Put(newPkg(t, pkgName, source))

	mgrs, revs, sigs := w.find("manager", t), w.find("revision", t), w.find("signature", t)
	gate := "unknown"
	rounds := 0
	firstErr := map[string]string{}
	note := func(actor string, r recResult) {
		if r.err != nil && firstErr[actor] == "" {
			firstErr[actor] = errText(r.err)
		}
		if r.hung {
			firstErr[actor] = "hung"
		}
	}
	revNames := func() []string {
		var out []string
		for _, tt := range types3 {
			for _, u := range w.s.All(gk(tt + "Revision")) {
				if u.GetLabels()["pkg.crossplane.io/package"] == pkgName {
					out = append(out, tt+"Revision/"+u.GetName())
				}
			}
		}
		sort.Strings(out)
		return out
	}
	healthy := func() bool {
		return strings.HasPrefix(condOf(w.s.Peek(simapi.Key{Group: "pkg.crossplane.io", Kind: t, Name: pkgName}), "Healthy"), "True")
	}
	for rounds < maxRounds && !healthy() {
		rounds++
		for _, c := range mgrs {
			note("manager", c.reconcile(w, fmt.Sprintf("manager:%d", c.idx), pkgName))
		}
		for _, kn := range revNames() {
			kind, n, _ := strings.Cut(kn, "/")
			for _, c := range revs {
				if c.forKind != kind {
					continue
				}
				before, hits := w.cache.opCount(), theReg.hits
				note("revision", c.reconcile(w, fmt.Sprintf("revision:%d", c.idx), n))
				if gate == "unknown" {
					// the first reconcile of the revision: did it go for the content, or wait at the gate
					u := w.s.Peek(simapi.Key{Group: "pkg.crossplane.io", Kind: kind, Name: n})
					waiting := strings.HasSuffix(condOf(u, "Healthy"), ":AwaitingSignatureVerification")
					switch {
					case w.cache.opCount() == before && theReg.hits == hits && waiting:
						gate = "closed"
					case w.cache.opCount() > before || theReg.hits > hits:
						gate = "open"
					default:
						gate = "stuck"
					}
				}
			}
			for _, c := range sigs {
				if c.forKind == kind {
					note("signature", c.reconcile(w, fmt.Sprintf("signature:%d", c.idx), n))
				}
			}
		}
		// the kubelet: Deployments become available
		for _, d := range w.s.All(gk("Deployment")) {
			w.s.Mutate(simapi.KeyOf(d), func(u *unstructured.Unstructured) {
				_ = unstructured.SetNestedSlice(u.Object, []any{map[string]any{"type": "Available", "status": "True", "reason": "MinimumReplicasAvailable",
					"lastTransitionTime": "2024-01-01T00:00:00Z"}}, "status", "conditions")
			})
		}
	}

	// ---- what is there now
	out := map[string]any{"t": t, "rounds": rounds, "gate": gate, "healthy": healthy(),
		"pkgHealthy": condOf(w.s.Peek(simapi.Key{Group: "pkg.crossplane.io", Kind: t, Name: pkgName}), "Healthy"),
		"errs":       map[string]any{"manager": firstErr["manager"], "signature": firstErr["signature"], "revision": firstErr["revision"]}}
	revRecs := []any{}
	revName := ""
	for _, kn := range revNames() {
		kind, n, _ := strings.Cut(kn, "/")
		u := w.s.Peek(simapi.Key{Group: "pkg.crossplane.io", Kind: kind, Name: n})
		ctrl := "none"
		for _, or := range u.GetOwnerReferences() {
			if or.Controller != nil && *or.Controller {
				ctrl = or.Kind + "/" + or.Name
			}
		}
		img, _, _ := unstructured.NestedString(u.Object, "spec", "image")
		st, _, _ := unstructured.NestedString(u.Object, "spec", "desiredState")
		ep, _, _ := unstructured.NestedString(u.Object, "status", "endpoint")
		if ep == "" {
			ep = "none"
		}
		refs, _, _ := unstructured.NestedSlice(u.Object, "status", "objectRefs")
		revRecs = append(revRecs, map[string]any{"kind": kind, "ctrl": ctrl, "image": img, "state": st, "healthy": condOf(u, "Healthy"), "verified": condOf(u, "Verified"),
			"fin": len(u.GetFinalizers()) > 0, "endpoint": ep, "refs": len(refs)})
		revName = n
	}
	out["revs"] = revRecs
	out["lock"] = w.lockEntry(revName, "REV")
	lockAll := 0
	if u := w.s.Peek(simapi.Key{Group: "pkg.crossplane.io", Kind: "Lock", Name: "lock"}); u != nil {
		pk, _ := u.Object["packages"].([]any)
		lockAll = len(pk)
	}
	out["lockSize"] = lockAll

	alias := func(s string) string {
		if revName != "" {
			s = strings.ReplaceAll(s, revName, "REV")
		}
		return strings.ReplaceAll(s, pkgName, "PKG")
	}
	// runtime objects that exist now, whoever made them (the seeded ServiceAccount and Secrets are not listed)
	rtObjs := map[string]bool{}
	image, whNS := "none", "none"
	for _, k := range []string{"Deployment", "Service", "ServiceAccount"} {
		for _, u := range w.s.All(gk(k)) {
			if k == "ServiceAccount" && u.GetName() == w.in.Sa {
				continue
			}
			rtObjs[k+"|"+u.GetNamespace()+"/"+alias(u.GetName())] = true
			if k == "Deployment" {
				cs, _, _ := unstructured.NestedSlice(u.Object, "spec", "template", "spec", "containers")
				if len(cs) > 0 {
					if m, ok := cs[0].(map[string]any); ok {
						image = fmt.Sprint(m["image"])
					}
				}
			}
		}
	}
	out["runtime"], out["image"] = sortedKeys(rtObjs), image
	est := map[string]bool{}
	for _, k := range []string{"CustomResourceDefinition", "CompositeResourceDefinition", "Composition", "ValidatingWebhookConfiguration", "MutatingWebhookConfiguration"} {
		for _, u := range w.s.All(gk(k)) {
			ctrl := "none"
			for _, or := range u.GetOwnerReferences() {
				if or.Controller != nil && *or.Controller {
					ctrl = or.Kind
				}
			}
			est[k+"|"+ctrl] = true
			if k == "ValidatingWebhookConfiguration" {
				whs, _, _ := unstructured.NestedSlice(u.Object, "webhooks")
				if len(whs) > 0 {
					if m, ok := whs[0].(map[string]any); ok {
						if ns, ok, _ := unstructured.NestedString(m, "clientConfig", "service", "namespace"); ok {
							whNS = ns
						}
					}
				}
			}
		}
	}
	out["established"], out["whNS"] = sortedKeys(est), whNS
	cacheOps := []any{}
	for _, o := range w.cache.snapshot() {
		cacheOps = append(cacheOps, alias(o.(string)))
	}
	out["fetch"] = theReg.record("", userAgent)
	out["cache"] = cacheOps
	vcalls := []any{}
	for _, c := range w.val.calls {
		vcalls = append(vcalls, c)
	}
	out["validated"] = vcalls
	api := map[string]any{}
	w.mu.Lock()
	for a, l := range w.api {
		if strings.HasPrefix(a, "manager:") || strings.HasPrefix(a, "revision:") || strings.HasPrefix(a, "signature:") {
			api[a] = l.record(alias)
		}
	}
	w.mu.Unlock()
	out["apiByActor"] = api
	fetch := map[string]any{}
	for a := range api {
		fetch[a] = theReg.record(a, userAgent)
	}
	out["fetchByActor"] = fetch
	return out
}

// ---------------------------------------------------------------- the resolver on three Locks

func parsePkgRef(s string) map[string]any {
	out := map[string]any{"raw": s, "reg": "none", "repo": "none", "ver": "none"}
	ref, err := name.ParseReference(s, name.WithDefaultRegistry(""))
	if err != nil {
		return out
	}
	out["reg"], out["repo"], out["ver"] = ref.Context().RegistryStr(), ref.Context().RepositoryStr(), ref.Identifier()
	return out
}

// lockScenario: a Lock whose only member depends on acme/dep-b (no registry in the identifier) with the given
// constraint; installed = the version of the dependency's package (and Lock entry) already there, "" = missing.
func (w *world) lockScenario(c *ctl, what, constraint, installed string) map[string]any {
	w.wipe()
	w.seedNamespace()
	w.s.Put(imageConfig("ic-pull", []string{"acme/", w.in.Reg + "/acme/"}, "ic-secret", false))
	v := "pkg.crossplane.io/v1"
	pkgs := []pkgv1beta1.LockPackage{{Name: "pa-r1", APIVersion: &v, Kind: ptr.To("Configuration"), Source: "acme/pkg-a", Version: "v1.0.0",
		Dependencies: []pkgv1beta1.Dependency{{Package: depRepo, APIVersion: &v, Kind: ptr.To("Provider"), Constraints: constraint}}}}
	if installed != "" {
		pkgs = append(pkgs, pkgv1beta1.LockPackage{Name: "dep-b-r1", APIVersion: &v, Kind: ptr.To("Provider"), Source: depRepo, Version: installed, Dependencies: []pkgv1beta1.Dependency{}})
		w.s.Put(newPkg("Provider", "acme-dep-b", depRepo+":"+installed))
	}
	w.s.Put(&pkgv1beta1.Lock{ObjectMeta: metav1.ObjectMeta{Name: "lock", Finalizers: []string{"lock.pkg.crossplane.io"}}, Packages: pkgs})
	actor := "resolver:" + what
	r := c.reconcile(w, actor, "lock")
	out := map[string]any{"err": errText(r.err), "hung": r.hung}
	dep := map[string]any{"raw": "none", "reg": "none", "repo": "none", "ver": "none"}
	kinds := map[string]bool{}
	for _, t := range types3 {
		for _, u := range w.s.All(gk(t)) {
			kinds[t] = true
			if p, ok, _ := unstructured.NestedString(u.Object, "spec", "package"); ok && t == "Provider" {
				dep = parsePkgRef(p)
			}
		}
	}
	out["dep"], out["kinds"] = dep, sortedKeys(kinds)
	out["fetch"] = theReg.record(actor, userAgent)
	out["cond"] = condOf(w.s.Peek(simapi.Key{Group: "pkg.crossplane.io", Kind: "Lock", Name: "lock"}), "Resolved")
	return out
}

// ---------------------------------------------------------------- one vector

func (c *ctl) ident() map[string]any {
	return map[string]any{"fam": c.fam, "for": c.forKind, "t": c.t, "name": c.name, "idx": c.idx}
}

func runVector(in vec, sum *summary) []map[string]any {
	w := newWorld(in)
	w.setup()
	regs := []any{}
	for _, c := range w.ctls {
		regs = append(regs, c.ident())
		sum.Controllers[c.fam+"/"+c.t]++
	}
	recs := []map[string]any{{"ev": "setup", "fam": "setup", "err": w.setupErr, "regs": regs}}
	if w.setupErr != "" {
		sum.Outcomes["setup-error"]++
	}

	// ---- per-controller probes on the probe world
	w.wipe()
	w.seedNamespace()
	w.seedProbeWorld()
	for _, c := range w.ctls {
		o := c.obs
		o["name"], o["for"], o["conc"], o["recover"], o["wrappers"], o["core"] = c.name, c.forKind, c.conc, c.recoverP, c.wrappers, c.coreType
		o["watches"] = w.watchRecords(c)
		if c.fam == "unknown" {
			continue
		}
		switch c.fam {
		case "manager":
			o["unit"] = w.managerUnit(c)
		case "revision":
			o["unit"] = w.revisionUnit(c)
		case "signature":
			o["unit"] = w.signatureUnit(c)
		case "resolver":
			o["unit"] = w.resolverUnit(c)
		}
		o["limited"] = w.limiterProbe(c)
		o["silent"] = w.conflictProbe(c)
	}

	// ---- system scenarios
	installs := map[string]map[string]any{}
	for _, t := range types3 {
		installs[t] = w.install(t)
		if installs[t]["healthy"].(bool) {
			sum.Outcomes["install-healthy"]++
		} else {
			sum.Outcomes["install-not-healthy"]++
		}
	}
	for _, c := range w.find("resolver", "Lock") {
		c.obs["install"] = w.lockScenario(c, "install", ">=v1.0.0", "")
		c.obs["upgrade"] = w.lockScenario(c, "upgrade", ">=v1.1.0", "v1.0.0")
		c.obs["downgrade"] = w.lockScenario(c, "downgrade", "<v1.0.0", "v1.0.0")
	}
	noAPI := newAPILog().record(func(s string) string { return s })
	noFetch := newRegRT().record("", userAgent)
	for _, c := range w.ctls {
		if c.fam == "manager" || c.fam == "revision" || c.fam == "signature" {
			api, fetch := noAPI, noFetch
			if ins, ok := installs[c.t]; ok {
				actor := fmt.Sprintf("%s:%d", c.fam, c.idx)
				if a, ok := ins["apiByActor"].(map[string]any)[actor]; ok {
					api = a.(map[string]any)
					fetch = ins["fetchByActor"].(map[string]any)[actor].(map[string]any)
				}
			}
			c.obs["api"], c.obs["fetch"] = api, fetch
		}
	}
	for _, t := range types3 {
		ins := installs[t]
		delete(ins, "apiByActor")
		delete(ins, "fetchByActor")
		recs = append(recs, map[string]any{"ev": "install", "fam": "install", "t": t, "o": ins})
	}
	for _, c := range w.ctls {
		recs = append(recs, map[string]any{"ev": "ctl", "fam": c.fam, "t": c.t, "o": c.obs})
	}
	// ---- the copies of one controller side by side
	for _, fam := range []string{"manager", "revision", "signature"} {
		copies := []any{}
		for _, t := range types3 {
			for _, c := range w.find(fam, t) {
				copies = append(copies, map[string]any{"t": t, "o": c.obs, "ins": installs[t]})
			}
		}
		if len(copies) > 0 {
			recs = append(recs, map[string]any{"ev": "sym", "fam": "sym-" + fam, "copies": copies})
		}
	}
	return recs
}

var _ = corev1.Secret{}
var _ = xpv1.Condition{}
