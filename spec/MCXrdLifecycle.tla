--------------------------- MODULE MCXrdLifecycle ---------------------------
EXTENDS XrdLifecycle, Json
I(st, cl, cx) == [state |-> st, claim |-> cl, crdx |-> cx]
InitsFresh == {I("fresh", TRUE, "none")}
InitsFreshBoth == {I("fresh", TRUE, "none"), I("fresh", FALSE, "none")}
InitsCreated == {I("created", TRUE, "none")}
InitsSettled == {I("settled", TRUE, "none")}
InitsSettledBoth == {I("settled", TRUE, "none"), I("settled", FALSE, "none")}
InitsForeign == {I("fresh", FALSE, "foreign"), I("fresh", FALSE, "free"), I("settled", FALSE, "none")}
InitsMixed == {I("fresh", TRUE, "none"), I("created", TRUE, "none"), I("settled", TRUE, "none")}
\* one schedule per transition that ends a reconcile (or kills the process)
EmitEnd == (\E a \in A : pc[a] # "idle" /\ pc'[a] = "idle") => PrintT(<<"TRACE", ToJson(hist')>>)
=============================================================================
