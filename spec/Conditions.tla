----------------------------- MODULE Conditions -----------------------------
(***************************************************************************)
(* C05 - Ready and Synced never overstate the truth, and functions cannot  *)
(* forge them.  Vector module: TLC enumerates what a reconcile is given    *)
(* (per-resource readiness, apply and render outcomes, the XR-level ready  *)
(* flag, conditions sent by functions, a fatal result, the conditions the  *)
(* XR had before); the real composite.Reconciler with the real composers   *)
(* produces the conditions; the formulas below judge them (MonConditions). *)
(* For the claim leg the environment chooses the bound XR's Ready          *)
(* condition (and changes it between claim reconciles).                    *)
(*                                                                         *)
(* Interpretation (DESIGN 3 C05): on an erroring reconcile the code leaves *)
(* the previous Ready condition in place and writes Synced=False; the      *)
(* property is read as a statement about what a reconcile newly asserts.   *)
(***************************************************************************)
EXTENDS Integers, Sequences, FiniteSets, TLC

Names == {"a", "b"}
SystemTypes == {"Ready", "Synced", "Healthy"}

\* ---- reference: what may be reported, given the input v of an XR reconcile
AllReady(v) == \A n \in Names : v.ready[n] /\ v.apply[n] = "ok" /\ v.render[n] = "ok"
AllReadyFn(v) == \A n \in Names : v.ready[n]            \* pipeline: the function's word counts, whatever the apply outcome
AllSynced(v) == \A n \in Names : v.apply[n] = "ok" /\ v.render[n] = "ok"
MayBeReady(v) == IF v.mode = "Pipeline"
                 THEN v.xr = "true" \/ (v.xr # "false" /\ AllReadyFn(v))
                 ELSE AllReady(v)
SentTypes(v) == {v.conds[i].type : i \in DOMAIN v.conds}
LastSent(v, t) == LET idx == {i \in DOMAIN v.conds : v.conds[i].type = t} IN
                  v.conds[CHOOSE i \in idx : \A j \in idx : j <= i].status

\* ---- formulas over (input v, observed conditions o, conditions before p)
\* o and p are records: ready, synced, custom (status strings or "none"), readyReason, syncedReason, claimTypes
ReadyTruth(v, o) == (v.err = "none" /\ o.ready = "True") => MayBeReady(v)
ReadyNotNewOnError(v, o, p) == (v.err # "none" /\ o.ready = "True") => p.ready = "True"
SyncedTruth(v, o) == o.synced = "True" => (v.err = "none" /\ AllSynced(v))
SyncedFalseOnError(v, o) == v.err # "none" => o.synced = "False"
\* system conditions carry the reconciler's own reasons, never a function's
NoForgery(v, o) == /\ o.readyReason \in {"none", "Available", "Creating", "Unavailable", "Deleting"}
                   /\ o.syncedReason \in {"none", "ReconcileSuccess", "ReconcileError", "ReconcilePaused"}
\* a custom condition a function sent is reported as sent (the last one wins)
CustomKept(v, o) == (v.err = "none" /\ "Custom1" \in SentTypes(v)) => o.custom = LastSent(v, "Custom1")
\* a custom condition that existed before and was not re-asserted because of the fatal error becomes Unknown
UnknownOnFatal(v, o, p) == (v.err # "none" /\ p.custom # "none" /\ "Custom1" \notin SentTypes(v)) => o.custom = "Unknown"
\* a claim is reported Ready=True only by a reconcile that observed its bound XR Ready=True
ClaimReady(v, o) == o.ready = "True" => v.xrReady = "True"
=============================================================================
