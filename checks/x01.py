"""X01 - the package-revision runtime (an extension beyond the 20 listed properties): how an active Provider /
Function revision gets its Service, TLS Secrets, ServiceAccount and Deployment, how an inactive one loses its
Deployment, how two revisions of one package hand the runtime over, how a DeploymentRuntimeConfig is applied and
how revision health follows the Deployment.
Model: spec/Runtime.tla (the intended properties I1..I8 are listed in its header); driver: harness/drivers/runtime
(real revision.Reconciler + real ProviderHooks / FunctionHooks / RuntimeManifestBuilder / TLS generator on simapi);
monitor: spec/MonRuntime.tla."""
import concurrent.futures
import glob
import json
import os

import vlib

PID = "X01"
MON_FORMULAS = ["InactiveNeverCreates", "Deactivate.Removes", "HandOver.KillsActive", "Owned.Controller", "Owned.Namespace",
                "Owned.Generator", "Order.Prereqs", "Order.Certs", "HealthTruth", "HealthTruth.ReportedAfterOk", "Endpoint",
                "Mandatory.Selector", "Mandatory.PodLabels", "Mandatory.RuntimeFirst", "Mandatory.Image", "Mandatory.Ports",
                "Mandatory.Env", "Mandatory.Volumes", "Mandatory.Name", "Defaults.Replicas", "Defaults.ServiceAccount",
                "Defaults.PullPolicy", "Defaults.Security", "Defaults.Scrape", "UserKept", "ServiceMatches", "Service.Selector",
                "Service.Ports", "Service.Name", "ServiceAccount.PullSecrets", "ServiceAccount.KeepsPullSecrets", "PermissionRequests", "Settled.Converges", "Settled.AtMostOne",
                "Settled.Leftover", "Settled.Leftover.Renamed", "Settled.ActiveRuns", "Settled.Health", "Settled.Prereqs"]

# (cfg, share of the replay budget)
QUICK = [("MCRuntime_quick.cfg", 0.40), ("MCRuntime_quick_mid.cfg", 0.35), ("MCRuntime_quick_fn.cfg", 0.25)]
THOROUGH = [("MCRuntime_thorough.cfg", 0.40), ("MCRuntime_thorough_mid.cfg", 0.35), ("MCRuntime_thorough_fn.cfg", 0.25)]
# design-level witnesses: with the guard switched off the model must violate the property
WITNESS = [("MCRuntime_witness_inactive.cfg", ["InactiveNeverCreates"]),     # Pre / Post without the "Inactive: return" guard
           ("MCRuntime_witness_health.cfg", ["HealthTruth"]),                 # Post without the Available check
           ("MCRuntime_witness_handover.cfg", ["HandOverSafe"]),              # the code as written: Deactivate deletes by name
           ("MCRuntime_fixed.cfg", [])]                                       # candidate repair: delete only what the revision controls


def regression():
    out = []
    for p in sorted(glob.glob(os.path.join(vlib.VERIF, "scenarios", PID, "*.json"))):
        with open(p) as f:
            out.append(json.load(f))
    return out


def no_certs(sc):
    return sc["hist"][0].get("certs") is False


def pick(ctx, mc, prefix, n, max_nocerts):
    """Feature-covering sample; scenarios that make the real TLS generator create RSA keys (~0.15 s each) are capped."""
    out, nc = [], 0
    for i, h in ctx.sample_lines(mc["emitted_file"], n, mc["emitted"]):
        sc = {"id": "%s-%s-%07d" % (PID, prefix, i), "hist": h, "first": ctx.rng.choice(["r1", "r2"])}
        if no_certs(sc):
            nc += 1
            if nc > max_nocerts:
                continue
        out.append(sc)
    return out


def drive_and_judge(ctx, scs, shards=6, binp=None):
    by_id = {s["id"]: s for s in scs}
    binp = binp or ctx.go_build("./drivers/runtime")
    prefix, s = ctx.run_sharded(binp, scs, ["-chunk", "40000"], shards=shards)
    viols, nlines = ctx.monitor("MonRuntime", prefix, par=8)
    for formula, line, scid in viols:
        parts = scid.split("/")
        base = dict(by_id.get(parts[0], {"id": parts[0]}))
        base["id"] = scid
        base.pop("sweepme", None)
        for p in parts[1:]:
            if p.startswith("sweep-"):
                _, r, k, o = p.split("-")
                base["sweep"] = {"rec": int(r[1:]), "idx": int(k[1:]), "outcome": o}
        ctx.violation(formula, scid, ctx.replay_file(base), "trace line %d" % line, fingerprint=formula)
    return s, nlines


def run(ctx):
    quick = ctx.quick
    budget = 1100 if quick else 16000
    scs, states, trans, emitted, consts = [], 0, 0, 0, {}
    cfgs = QUICK if quick else THOROUGH
    # the model runs are independent: run them side by side (each in its own directory), sample afterwards in a fixed order
    with concurrent.futures.ThreadPoolExecutor(max_workers=len(cfgs) + len(WITNESS)) as ex:
        main = [ex.submit(ctx.model_check, "MCRuntime", cfg, sub="mc%d" % i, workers=4 if quick else 6, timeout=300 if quick else 2400)
                for i, (cfg, _) in enumerate(cfgs)]
        wit = [ex.submit(ctx.model_check, "MCRuntime", cfg, sub="mcw%d" % i, expect_violations=expect, workers=1, timeout=300)
               for i, (cfg, expect) in enumerate(WITNESS)]
        main = [f.result() for f in main]
        wit = [f.result() for f in wit]
    for i, ((cfg, share), mc) in enumerate(zip(cfgs, main)):
        scs += pick(ctx, mc, "m%d" % i, int(budget * share), 6 if quick else 150)
        states += mc["states"]
        trans += mc["transitions"]
        emitted += mc["emitted"]
        consts[cfg] = dict(states=mc["states"], transitions=mc["transitions"], depth=mc["depth"], scenarios=mc["emitted"])
    for (cfg, expect), mc in zip(WITNESS, wit):
        consts[cfg] = dict(states=mc["states"], violated=mc["violated"])
    # sweeps over every real call index x 4 outcomes: per model run the longest fault-free histories of two reconciles
    # without a nested reconcile (they do not generate keys: "certs" start)
    def sweepable(s):
        h = s["hist"]
        return (not no_certs(s) and all(e.get("f") in ("ok", "", None) for e in h) and not any(e.get("k") == "nest" for e in h)
                and sum(1 for e in h if e.get("k") == "get" and str(e.get("o", "")).startswith("rev-")) == 2)
    per = 1 if quick else 10
    for i in range(len(cfgs)):
        cands = sorted((s for s in scs if s["id"].split("-")[1] == "m%d" % i and sweepable(s)), key=lambda s: -len(s["hist"]))
        for s in cands[:per]:
            s["sweepme"] = True
    scs.sort(key=lambda s: not s.get("sweepme", False))      # spread them over the shards
    chosen = regression() + scs
    s, nlines = drive_and_judge(ctx, chosen, shards=6 if quick else 10)
    ctx.cov.update(dict(
        states=states, transitions=trans, traces_validated_against_impl=s["runs"],
        samples=s["samples"][:2], model_runs=consts, scenarios_emitted=emitted, scenarios_replayed=s["scenarios"],
        reconciles=s["reconciles"], sweep_runs=s["sweep_runs"], events=nlines, reads_not_traced=s.get("reads", 0),
        per_action_counts={k: v for k, v in s["counts"].items() if not k.startswith(("hit:", "obs:"))},
        formula_antecedent_hits={k[4:]: v for k, v in s["counts"].items() if k.startswith("hit:")},
        drift=dict(unmatched_calls=s["drift"], runs_with_drift=s["drift_runs"], by_abs=s.get("drift_by_abs", {})),
        observations={k: v for k, v in s["counts"].items() if k.startswith("obs:")},
        monitor_formulas=MON_FORMULAS, exhaustive=False,
        checker_cmd="tlc MCRuntime (M,G) -> harness/drivers/runtime on /repo (T) -> tlc MonRuntime",
        rule="one scenario per model transition that ends a top-level reconcile (shortest history reaching it); every failure kind "
             "(error value, Conflict, crash before, crash after) is a distinct model outcome and is replayed as such; after the "
             "history the driver lets fault-free reconciles settle (woken up as the controller's watches would) and the monitor "
             "judges the fixpoint; sweep = every real call index x 4 outcomes on selected scenarios",
    ))
    ctx.assumptions += [
        "simapi models the API server rules of spec/KubeAPI.tla; the driver adds that a Deployment's selector is immutable",
        "the package manager never makes two revisions Active (C14) and always sets the TLS secret names",
        "package content comes from a fake cache through the real parser / linter; dependency manager and establisher are stand-ins (C16, C17)",
        "objects controlled by a stranger are adopted / deleted by the hooks (no MustBeControllableBy): not promised by the code, counted as observations",
        "verdict only from traces of the real revision.Reconciler + runtime hooks judged by MonRuntime.tla"]


def replay(ctx, path):
    with open(path) as f:
        sc = json.load(f)
    s, nlines = drive_and_judge(ctx, [sc], shards=1)
    ctx.cov.update(dict(states=1, transitions=1, traces_validated_against_impl=s["runs"], samples=[sc], events=nlines))
