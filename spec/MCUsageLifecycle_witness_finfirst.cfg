SPECIFICATION Spec
CONSTANTS
  USeq <- S1
  Useds <- U1
  Configs <- CfgPlain
  InitSel <- NoSet
  InitCtl <- NoSet
  Policies <- Pol1
  DryRuns <- OnlyFalse
  HookFaults <- HookOk
  EnvKinds <- EnvUsage
  FaultKinds <- NoSet
  MaxCreates = 1
  MaxRecs = 2
  MaxFaults = 0
  MaxEnv = 1
  MaxDel = 0
  MidEnv = FALSE
  BFin = FALSE
  FinFirst = FALSE
  DryRunAware = FALSE
  PanicFree = FALSE
VIEW view

CHECK_DEADLOCK FALSE
INVARIANTS FinBeforeLabel
