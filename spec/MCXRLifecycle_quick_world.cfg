SPECIFICATION Spec
CONSTANTS
  Comps <- Comps2
  Attr <- AttrAll
  InitComps <- InitNoRev
  InitRefs <- NoneOnly
  InitSels <- SelsBoth
  InitDefs <- NoneOnly
  InitEnfs <- NoneOnly
  InitUser <- OnlyFalse
  InitOFin <- OnlyFalse
  MaxRecs = 3
  MaxFaults = 1
  MaxEnv = 2
  MidEnv = TRUE
  EnvKinds <- EnvWorld
  FaultKinds <- FaultsFew
  ComposeOuts <- OutsOk
  FinFirst = TRUE
  RvCheck = TRUE
VIEW view
ACTION_CONSTRAINT Emit
CHECK_DEADLOCK FALSE
INVARIANTS StepProps Repaired FinBeforeCompose
