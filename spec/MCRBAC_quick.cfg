SPECIFICATION Spec
CONSTANTS
  Fams = {"val1", "valx", "val2", "fam", "prov", "bind", "xrd"}
  G1 = {"g1", "", "*"}
  R1 = {"r1", "r1/status", "*", "*/status"}
  N1 = {"n1", "*"}
  V1 = {"get", "*"}
  U1 = {"/a", "/a/b", "/a/*", "*"}
  GX = {"g1", "*"}
  RX = {"r1", "*"}
  NX = {"n1", "*"}
  VX = {"get", "*"}
  UX = {"/a", "*"}
  G2 = {"g1"}
  R2 = {"r1", "*"}
  N2 = {"n1", "*"}
  V2 = {"get", "*"}
  U2 = {}
  MemLabels = {"fa", "fb"}
  MemSrcTags = {"same", "implicit", "org", "orgpfx", "reg", "bad"}
  SelfSrcTags = {"same", "implicit", "bad"}
ACTION_CONSTRAINT Emit
CHECK_DEADLOCK FALSE
INVARIANTS RefConsistent DesignSound DesignSystemRole
