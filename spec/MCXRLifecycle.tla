---------------------------- MODULE MCXRLifecycle ----------------------------
EXTENDS XRLifecycle, Json
\* scenario emission: one line per transition that ends a reconcile (shortest history reaching it)
Emit == (rc.pc # "idle" /\ rc'.pc = "idle") => PrintT(<<"TRACE", ToJson(hist')>>)

\* the universe of Compositions and their fixed properties:
\*   c1  compatible, valid, writes connection secrets to a namespace
\*   c2  compatible, valid, no connection secret namespace
\*   cv  same kind, OTHER VERSION of the XR's apiVersion (not compatible), valid
\*   ci  compatible, but its revision does not validate (Resources mode without resources)
AllComps == {"c1", "c2", "cv", "ci"}
AttrAll == [c \in AllComps |-> [compat |-> c # "cv", valid |-> c # "ci", wns |-> c \in {"c1", "cv"}]]
Comps2 == {"c1", "cv"}
Comps3 == {"c1", "c2", "cv"}
Comps4 == AllComps
Comps2i == {"c1", "ci"}
\* every Composition exists, carries the label "prod" and has a revision - except that c2 starts labelled "dev"
InitAll == [c \in AllComps |-> [ex |-> TRUE, lab |-> IF c = "c2" THEN "dev" ELSE "prod", rev |-> TRUE]]
\* ... or nothing exists yet (Compositions arrive later)
InitNone == [c \in AllComps |-> [ex |-> FALSE, lab |-> "prod", rev |-> FALSE]]
\* ... or c1 exists without a revision yet
InitNoRev == [c \in AllComps |-> [ex |-> c \in {"c1", "cv"}, lab |-> "prod", rev |-> c = "cv"]]

NoneOnly == {"none"}
RefsNoneC1 == {"none", "c1"}
RefsAll == {"none", "c1", "cv"}
RefsAll4 == {"none", "c1", "cv", "ci"}
RefsNoneCi == {"none", "c1", "ci"}
SelsBoth == {"none", "prod"}
DefsQ == {"none", "c1"}
DefsT == {"none", "c1", "cv"}
EnfsQ == {"none", "c1"}
EnfsT == {"none", "c2", "cv"}
Bools == {FALSE, TRUE}
OnlyFalse == {FALSE}
OnlyTrue == {TRUE}
EnvXR == {"pause", "unpause", "touch", "delete"}
EnvWorld == {"addcomp", "addcomp-norev", "delcomp", "relabel", "mkrev", "default", "enforce"}
EnvAll == EnvXR \cup EnvWorld
EnvSel == {"delcomp", "relabel", "default", "enforce", "delete"}
FaultsAll == {"error", "conflict", "miss", "crashBefore", "crashAfter"}
NoFaults == {}
NoEnv == {}
FaultsFew == {"error", "crashAfter"}
FaultsVal == {"error", "conflict"}
OutsAll == {"ok", "unready", "error", "conflict"}
OutsOk == {"ok"}
=============================================================================
