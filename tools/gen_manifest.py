#!/usr/bin/env python3
"""Regenerates /verif/MANIFEST.json from the table below (one entry per claimed property)."""
import json
import os

V = os.path.dirname(os.path.dirname(os.path.abspath(__file__)))
TECH = "TLA+ model checking (TLC) + TLC-generated behaviours replayed on the real code + TLC trace validation of the recorded executions"
BASE_NOTE = ("Trusted: TLC, harness/simapi (API-server semantics incl. real structured-merge-diff), the projection in the driver. "
             "The verdict comes only from traces of the real code judged by the TLA+ monitor; the model makes the exploration exhaustive within its bounds. ")

CHECKS = {
 "C01": ("spec/XRCompose.tla models the XR reconcile with both composers, one action per API call, faults/crashes at every call, desired-set changes, user deletions, foreign-controller placements. "
         "Every reconcile-ending transition is replayed on the real composite.Reconciler (+3 fault-free reconciles) and a fault sweep covers every real call index; "
         "TLC judges NoLeak, AtMostOne, NameStable on every recorded state/step and Quiescent at steady state.",
         "Bounds quick: 2 names, 4 ids, 3 reconciles, 1 fault, 2 env steps (sampled); thorough: 3 names, 5 ids, 4 reconciles, 2 faults, 3 env steps.", "DESIGN.md 3 C01"),
 "C03": ("Same module as C01; the environment also chooses how and at which step the pipeline fails (function error, fatal result, requirements that never stabilise) and changes the desired set; "
         "TLC judges FailSafe (no composed write, references untouched after an observation/pipeline failure), NeverDeleteDesired and GcExact (deleted = referenced, controllable, no longer desired) on the real traces.",
         "Two-step scripted pipeline (step 1 over-approximates, the last step decides); bounds as C01.", "DESIGN.md 3 C03"),
 "C14": ("TLC exhaustively explores PkgManager.tla (package manager reconcile, one action per API call, faults/crashes at every call, user edits, registry changes); every reconcile-ending transition becomes a scenario replayed on the real manager.Reconciler; "
         "TLC judges OneActive, GcSafe, AfterReconcile, ActivateLast, NameFunction on every recorded state of the real executions.",
         "Bounds: 3 digests, 2 tags, <=4 edits, <=2 faults, <=5 reconciles; quick samples 3000 of the emitted scenarios + real-call-index fault sweep.", "DESIGN.md 3 C14"),
}


def entry(pid):
    text, note, ref = CHECKS[pid]
    return {"property_id": pid, "quick_cmd": "./check %s --tier quick" % pid, "thorough_cmd": "./check %s --tier thorough" % pid,
            "evidence_file": "evidence/%s.json" % pid, "replay_cmd_template": "./check %s --replay {path}" % pid, "engine": "tla-trace",
            "level_claimed": {"category": "model_checking", "text": text, "design_ref": ref},
            "level_note": BASE_NOTE + note, "technique": TECH}


def main():
    p = os.path.join(V, "MANIFEST.json")
    m = json.load(open(p))
    m["checks"] = [entry(k) for k in sorted(CHECKS)]
    m["engines"] = [{"name": "tla-trace", "path": "check", "serves_properties": sorted(CHECKS),
                     "kind_free_text": "TLC model checking of spec/*.tla, replay of TLC-generated behaviours on the real code over harness/simapi, TLC trace validation of the recorded executions (spec/Mon*.tla)"}]
    na = {x["property_id"]: x for x in m.get("not_applicable", [])}
    m["not_applicable"] = [na.get(k, {"property_id": k, "reason": "check under construction in this session (see DESIGN.md section 7)"})
                           for k in ["C%02d" % i for i in range(1, 21)] if k not in CHECKS]
    json.dump(m, open(p, "w"), indent=1)
    print("claimed:", sorted(CHECKS))


if __name__ == "__main__":
    main()
