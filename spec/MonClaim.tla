------------------------------ MODULE MonClaim ------------------------------
(***************************************************************************)
(* Trace monitor for Claim: evaluates the C06 formulas on every recorded   *)
(* state / step of executions of the real claim reconciler with the real   *)
(* client-side / server-side syncers.  Every event carries the whole       *)
(* projected state (post.claim = the stored claim, post.xrs = the existing *)
(* XRs with the claim each is bound to), so the search is linear.  A       *)
(* violated formula prints a VIOL line; the monitor never stops early.     *)
(*                                                                         *)
(*  OneXR            at most one XR whose claimRef names this claim        *)
(*  RefFirst.Create  an XR that appears in a step of the claim's reconcile *)
(*                   is named by the claim's last durable spec.resourceRef *)
(*  RefFirst.Bind    an existing XR whose claimRef becomes this claim in a *)
(*                   step of the claim's reconcile is named likewise       *)
(*  RefFirst.Stable  a durably recorded reference is never replaced by      *)
(*                   another name (a retry reuses the name)                *)
(*  NoHijack.Write   no applied write / delete by the claim's reconcile    *)
(*                   addresses an XR whose claimRef named another claim    *)
(*  NoHijack.Frozen  every XR bound to another claim is byte-identical     *)
(*                   (same resourceVersion) after each step of the claim's *)
(*                   reconcile                                             *)
(***************************************************************************)
EXTENDS Integers, Sequences, FiniteSets, TLC, Json, IOUtils

Trace == ndJsonDeserialize(IOEnv.VERIF_TRACE)
VARIABLE l
Range(s) == {s[i] : i \in DOMAIN s}

XRs(e) == Range(e.post.xrs)
Ids(e) == {x.id : x \in XRs(e)}
Mine(e) == {x.id : x \in {y \in XRs(e) : y.cref = "this"}}
Others(e) == {x \in XRs(e) : x.cref = "other"}
\* the claim's last durable reference: the stored claim's, or the one it had when it was removed
NamesIt(e, id) == IF e.post.claim.exists THEN e.post.claim.ref = id ELSE e.post.claim.lastRef = id
ByClaim(e) == e.ev = "call" /\ e.actor = "claim"

\* ---- state formula (every recorded state)
OneXR(e) == Cardinality({i \in DOMAIN e.post.xrs : e.post.xrs[i].cref = "this"}) <= 1

\* ---- step formulas (p = previous event of the same run, e = this event)
RefFirstCreate(p, e) == ByClaim(e) => \A id \in Ids(e) \ Ids(p) : NamesIt(e, id)
RefFirstBind(p, e) == ByClaim(e) => \A id \in (Mine(e) \ Mine(p)) \cap Ids(p) : NamesIt(e, id)
\* a retry reuses the recorded name: once the claim durably names an XR, a step of its reconcile never makes it name another
\* (added after the seeded change C06-m1 was missed: a syncer that generated a fresh name when the referenced XR was not found)
RefStable(p, e) == (ByClaim(e) /\ p.post.claim.exists /\ e.post.claim.exists /\ p.post.claim.ref # "none") => e.post.claim.ref = p.post.claim.ref
NoHijackWrite(e) == (ByClaim(e) /\ e.write /\ e.applied /\ e.target # "none") => e.preRef # "other"
NoHijackFrozen(p, e) == ByClaim(e) => \A y \in Others(p) : \E x \in XRs(e) : x.id = y.id /\ x.rv = y.rv /\ x.uid = y.uid /\ x.cref = "other" /\ x.del = y.del

Viol(name, i) == PrintT("VIOL|" \o name \o "|" \o ToString(i) \o "|" \o Trace[i].scenario)
Check(i) ==
  LET e == Trace[i] IN
  /\ (OneXR(e) \/ Viol("OneXR", i))
  /\ (NoHijackWrite(e) \/ Viol("NoHijack.Write", i))
  /\ (e.ev = "reset" \/ i = 1 \/
        LET p == Trace[i - 1] IN
        /\ (RefFirstCreate(p, e) \/ Viol("RefFirst.Create", i))
        /\ (RefFirstBind(p, e) \/ Viol("RefFirst.Bind", i))
        /\ (RefStable(p, e) \/ Viol("RefFirst.Stable", i))
        /\ (NoHijackFrozen(p, e) \/ Viol("NoHijack.Frozen", i)))

Init == l = 0
Next == /\ l < Len(Trace) /\ l' = l + 1 /\ Check(l')
        /\ (l' < Len(Trace) \/ PrintT("DONE|" \o ToString(l')))
Spec == Init /\ [][Next]_l
=============================================================================
