package main

// The admission webhooks: the three real SetupWebhookWithManager functions on the fake manager's webhook server, what
// each registers (paths, field indexes), and a small set of AdmissionReview requests sent to every registered handler
// over HTTP. The ValidatingWebhookConfigurations shipped in cluster/webhookconfigurations are read alongside (which
// paths / operations the API server will send).

import (
	"bytes"
	"encoding/json"
	"net/http"
	"net/http/httptest"
	"os"
	"path/filepath"
	"sort"
	"strings"

	admissionv1 "k8s.io/api/admission/v1"
	admregv1 "k8s.io/api/admissionregistration/v1"
	extv1 "k8s.io/apiextensions-apiserver/pkg/apis/apiextensions/v1"
	metav1 "k8s.io/apimachinery/pkg/apis/meta/v1"
	kruntime "k8s.io/apimachinery/pkg/runtime"
	"k8s.io/utils/ptr"
	"sigs.k8s.io/yaml"

	xpcontroller "github.com/crossplane/crossplane-runtime/pkg/controller"

	v1 "github.com/crossplane/crossplane/apis/apiextensions/v1"
	"github.com/crossplane/crossplane/internal/usage"
	comphook "github.com/crossplane/crossplane/internal/validation/apiextensions/v1/composition"
	xrdhook "github.com/crossplane/crossplane/internal/validation/apiextensions/v1/xrd"
)

const webhookConfigDir = "/repo/cluster/webhookconfigurations"

type admitReq struct {
	id, op, kind, group, resource, name string
	obj, old                            any
}

func (w *world) admit(path string, r admitReq) map[string]any {
	out := map[string]any{"id": r.id, "op": r.op, "kind": r.kind, "o": "ok", "allowed": false, "code": 0, "nwarn": 0, "calls": []any{}}
	h := w.wh.hooks[path]
	if h == nil {
		out["o"] = "unserved"
		return out
	}
	phase := "hook:" + path + ":" + r.id
	w.at(phase)
	defer w.at("env")
	msg := guard(func() {
		rq := &admissionv1.AdmissionRequest{UID: "req", Kind: metav1.GroupVersionKind{Group: r.group, Version: "v1", Kind: r.kind},
			Resource: metav1.GroupVersionResource{Group: r.group, Version: "v1", Resource: r.resource}, Name: r.name, Operation: admissionv1.Operation(r.op)}
		if r.obj != nil {
			b, _ := json.Marshal(r.obj)
			rq.Object = kruntime.RawExtension{Raw: b}
		}
		if r.old != nil {
			b, _ := json.Marshal(r.old)
			rq.OldObject = kruntime.RawExtension{Raw: b}
		}
		if r.op == "DELETE" {
			rq.Options = kruntime.RawExtension{Raw: []byte(`{"kind":"DeleteOptions","apiVersion":"meta.k8s.io/v1"}`)}
		}
		review := admissionv1.AdmissionReview{TypeMeta: metav1.TypeMeta{Kind: "AdmissionReview", APIVersion: "admission.k8s.io/v1"}, Request: rq}
		body, _ := json.Marshal(review)
		req := httptest.NewRequest(http.MethodPost, path, bytes.NewReader(body))
		req.Header.Set("Content-Type", "application/json")
		rr := httptest.NewRecorder()
		h.ServeHTTP(rr, req)
		resp := admissionv1.AdmissionReview{}
		if err := json.Unmarshal(rr.Body.Bytes(), &resp); err != nil || resp.Response == nil {
			out["o"] = "undecodable"
			return
		}
		out["allowed"] = resp.Response.Allowed
		out["nwarn"] = len(resp.Response.Warnings)
		if res := resp.Response.Result; res != nil {
			out["code"] = int(res.Code)
		}
	})
	if msg != "" {
		out["o"] = "panic"
	}
	out["calls"] = w.callRows(phase)
	return out
}

func newXRD(name, group, kind, plural string) *v1.CompositeResourceDefinition {
	d := &v1.CompositeResourceDefinition{TypeMeta: metav1.TypeMeta{APIVersion: "apiextensions.crossplane.io/v1", Kind: kXRD}, ObjectMeta: metav1.ObjectMeta{Name: name}}
	d.Spec.Group = group
	d.Spec.Names = extv1.CustomResourceDefinitionNames{Kind: kind, Plural: plural}
	d.Spec.Versions = []v1.CompositeResourceDefinitionVersion{{Name: "v1", Served: true, Referenceable: true,
		Schema: &v1.CompositeResourceValidation{OpenAPIV3Schema: kruntime.RawExtension{Raw: []byte(`{"type":"object","properties":{"spec":{"type":"object","properties":{"size":{"type":"string"}}}}}`)}}}}
	return d
}

func newComp(name string, from string, dupNames bool, mode string) *v1.Composition {
	c := &v1.Composition{TypeMeta: metav1.TypeMeta{APIVersion: "apiextensions.crossplane.io/v1", Kind: kComp}, ObjectMeta: metav1.ObjectMeta{Name: name}}
	if mode != "" {
		c.Annotations = map[string]string{v1.SchemaAwareCompositionValidationModeAnnotation: mode}
	}
	c.Spec.CompositeTypeRef = v1.TypeReference{APIVersion: "ex.org/v1", Kind: "XThing"}
	c.Spec.Mode = ptr.To(v1.CompositionModeResources)
	t := v1.ComposedTemplate{Name: ptr.To("a"), Base: thingBase()}
	t.Patches = []v1.Patch{{Type: v1.PatchTypeFromCompositeFieldPath, FromFieldPath: ptr.To(from), ToFieldPath: ptr.To("spec.param")}}
	c.Spec.Resources = []v1.ComposedTemplate{t}
	if dupNames {
		c.Spec.Resources = append(c.Spec.Resources, t)
	}
	return c
}

func (w *world) seedHookWorld() {
	// the CRD of the composed kind, with a schema (the CRD of the XR kind is the one the definition controller applied)
	crd := &extv1.CustomResourceDefinition{ObjectMeta: metav1.ObjectMeta{Name: "things.ex.org"}}
	crd.Spec.Group = "ex.org"
	crd.Spec.Scope = extv1.ClusterScoped
	crd.Spec.Names = extv1.CustomResourceDefinitionNames{Kind: "Thing", Plural: "things", Singular: "thing", ListKind: "ThingList"}
	crd.Spec.Versions = []extv1.CustomResourceDefinitionVersion{{Name: "v1", Served: true, Storage: true, Schema: &extv1.CustomResourceValidation{
		OpenAPIV3Schema: &extv1.JSONSchemaProps{Type: "object", Properties: map[string]extv1.JSONSchemaProps{
			"apiVersion": {Type: "string"}, "kind": {Type: "string"}, "metadata": {Type: "object"},
			"spec": {Type: "object", Properties: map[string]extv1.JSONSchemaProps{"param": {Type: "string"}}}}}}}}
	w.s.Put(crd)
	// make sure the Thing "cd-used" carries the label the API server selects the usage webhook by
	t := uobj("Thing", "", "cd-free")
	w.s.Put(t)
}

func (w *world) hookRecords() []map[string]any {
	w.seedHookWorld()
	opts := w.options()
	recs := []map[string]any{}
	registered := map[string]bool{}
	answers := []any{}
	type setup struct {
		id string
		fn func() error
	}
	for _, s := range []setup{
		{"xrd", func() error { return xrdhook.SetupWebhookWithManager(w.mgr, opts) }},
		{"composition", func() error { return comphook.SetupWebhookWithManager(w.mgr, opts) }},
		{"usage", func() error { return usage.SetupWebhookWithManager(w.mgr, opts) }},
	} {
		before, ibefore := len(w.wh.order), len(w.indexesNow())
		w.at("hooksetup:" + s.id)
		errS := ""
		if msg := guard(func() {
			if err := s.fn(); err != nil {
				errS = "error: " + err.Error()
			}
		}); msg != "" {
			errS = "panic: " + msg
		}
		w.at("env")
		paths := append([]string(nil), w.wh.order[before:]...)
		for _, p := range paths {
			registered[p] = true
		}
		o := map[string]any{"err": errS, "paths": strs(paths), "indexes": strs(w.indexesNow()[ibefore:]), "reqs": []any{}, "held": []any{}}
		reqs := []any{}
		for _, p := range paths {
			switch s.id {
			case "xrd":
				good := newXRD("xwidgets.ex.org", "ex.org", "XWidget", "xwidgets")
				moved := newXRD("xwidgets.ex.org", "other.org", "XWidget", "xwidgets")
				for _, r := range []admitReq{
					{id: "createGood", op: "CREATE", obj: good},
					{id: "updateGood", op: "UPDATE", obj: good, old: good},
					{id: "updateGroup", op: "UPDATE", obj: moved, old: good},
					{id: "deleteGood", op: "DELETE", old: good},
				} {
					r.kind, r.group, r.resource, r.name = kXRD, "apiextensions.crossplane.io", "compositeresourcedefinitions", "xwidgets.ex.org"
					reqs = append(reqs, w.admit(p, r))
				}
			case "composition":
				good, badSchema, badLogic := newComp("cw-good", "spec.size", false, "strict"), newComp("cw-schema", "spec.nosuchfield", false, "strict"), newComp("cw-logic", "spec.size", true, "strict")
				badWarn := newComp("cw-schema-warn", "spec.nosuchfield", false, "")
				for _, r := range []admitReq{
					{id: "createGood", op: "CREATE", obj: good},
					{id: "createBadSchema", op: "CREATE", obj: badSchema},
					{id: "updateBadSchema", op: "UPDATE", obj: badSchema, old: good},
					{id: "createBadSchemaWarn", op: "CREATE", obj: badWarn},
					{id: "createBadLogic", op: "CREATE", obj: badLogic},
					{id: "deleteBadSchema", op: "DELETE", old: badSchema},
				} {
					r.kind, r.group, r.resource, r.name = kComp, "apiextensions.crossplane.io", "compositions", "cw"
					reqs = append(reqs, w.admit(p, r))
				}
			case "usage":
				used, free := w.s.Peek(thingKey("cd-used")), w.s.Peek(thingKey("cd-free"))
				for _, r := range []admitReq{
					{id: "deleteUsed", op: "DELETE", old: used},
					{id: "deleteFree", op: "DELETE", old: free},
					{id: "createUsed", op: "CREATE", obj: used},
					{id: "updateUsed", op: "UPDATE", obj: used, old: used},
				} {
					r.kind, r.group, r.resource, r.name = "Thing", "ex.org", "things", "cd"
					reqs = append(reqs, w.admit(p, r))
				}
			}
		}
		o["reqs"] = reqs
		for _, p := range paths {
			for _, q := range reqs {
				m := q.(map[string]any)
				answers = append(answers, map[string]any{"path": p, "op": m["op"], "code": m["code"], "allowed": m["allowed"], "o": m["o"]})
			}
		}
		o["logctl"] = w.seenLogs("hook:", "hooksetup:"+s.id)
		recs = append(recs, map[string]any{"t": "hook", "ctl": s.id, "o": o})
	}
	recs = append(recs, map[string]any{"t": "hookcfg", "ctl": "none", "o": map[string]any{"served": sortedSet(registered), "cfg": readWebhookConfigs(), "answers": answers}})
	return recs
}

// readWebhookConfigs projects the ValidatingWebhookConfigurations shipped with Crossplane.
func readWebhookConfigs() []any {
	out := []any{}
	files, _ := filepath.Glob(filepath.Join(webhookConfigDir, "*.yaml"))
	sort.Strings(files)
	for _, f := range files {
		b, err := os.ReadFile(f)
		if err != nil {
			continue
		}
		for _, doc := range strings.Split(string(b), "\n---") {
			cfg := &admregv1.ValidatingWebhookConfiguration{}
			if err := yaml.Unmarshal([]byte(doc), cfg); err != nil || cfg.Kind != "ValidatingWebhookConfiguration" {
				continue
			}
			for _, h := range cfg.Webhooks {
				p := "none"
				if h.ClientConfig.Service != nil && h.ClientConfig.Service.Path != nil {
					p = *h.ClientConfig.Service.Path
				}
				ops, res := map[string]bool{}, map[string]bool{}
				for _, r := range h.Rules {
					for _, o := range r.Operations {
						ops[string(o)] = true
					}
					for _, x := range r.Resources {
						res[x] = true
					}
				}
				out = append(out, map[string]any{"file": filepath.Base(f), "name": h.Name, "path": p, "ops": sortedSet(ops), "resources": sortedSet(res), "selector": h.ObjectSelector != nil && len(h.ObjectSelector.MatchLabels) > 0})
			}
		}
	}
	return out
}

var _ = xpcontroller.Options{}
