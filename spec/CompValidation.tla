--------------------------- MODULE CompValidation ---------------------------
(***************************************************************************)
(* X05 - the schema-aware Composition validator.                           *)
(*                                                                         *)
(* Subject                                                                 *)
(*   pkg/validation/apiextensions/v1/composition  (validator.go, patches.go,*)
(*   schema.go, readinessChecks.go, connectionDetails.go) - the library,   *)
(*   internal/validation/apiextensions/v1/composition/handler.go - the     *)
(*   admission webhook (modes strict / loose / warn from the annotation    *)
(*   crossplane.io/composition-schema-aware-validation-mode),              *)
(*   apis/apiextensions/v1 Composition.Validate() - the schema-less part,  *)
(* judged against the RUNTIME that later renders the Composition:          *)
(*   internal/controller/apiextensions/composite  composition_patches.go   *)
(*   (Apply), composition_transforms.go (Resolve), ready.go (IsReady),     *)
(*   connection.go (ExtractConnectionDetails).                             *)
(*                                                                         *)
(* This is a *vector* module (like Patches.tla, C10) and its static        *)
(* counterpart: it holds TWO type systems over one small universe,         *)
(*   (1) the DYNAMIC type flow of the runtime: which Go type a value of a  *)
(*       declared JSON-schema type has after decoding (integer -> int64,   *)
(*       number -> int64 or float64, ...), and what every transform does   *)
(*       to every Go type - a result type, a type error, or "depends on    *)
(*       the value" (Step / Run), transcribed from composition_transforms  *)
(*       .go;                                                              *)
(*   (2) the STATIC typing the validator performs on the schema types      *)
(*       (ValPath / ValChain / ValAccepts), transcribed from patches.go    *)
(*       and pkg/validation/internal/schema;                               *)
(* and the properties relate them.  MCCompValidation enumerates the        *)
(* vectors and checks at design level (M) where (2) is sound for (1);      *)
(* the driver runs every vector through the REAL validator (library and    *)
(* webhook) and the REAL runtime on schema-conforming sample values;       *)
(* MonCompValidation judges the recorded real outcomes.                    *)
(*                                                                         *)
(* Properties the authors evidently intend (verified against code and      *)
(* comments; the formulas are in MonCompValidation.tla)                    *)
(*  SOUNDNESS  "validatePatchesWithSchemas validates the patches of a      *)
(*    composition against the resources schemas"; IsValidInputForTransform *)
(*    "validates the supplied Transform type, taking into consideration    *)
(*    also the input type": a patch the validator accepts in strict mode   *)
(*    does not fail at render time with a TYPE error (math on a non-number,*)
(*    map / match on a non-string, join on a non-array, an unsupported     *)
(*    conversion) for a source value of the declared schema type.  Value   *)
(*    errors (convert "a" to int64, a key missing from a map transform, a  *)
(*    regexp without match, a Required path that is absent) are not type   *)
(*    errors.  Where the validator declares that it cannot know a type     *)
(*    (x-kubernetes-preserve-unknown-fields, additionalProperties: true,   *)
(*    no schema, the output of map / match: "we don't have a way to know   *)
(*    the output type for some transforms") nothing is promised.           *)
(*  PATHS  "validateFieldPath validates the given fieldPath is valid for   *)
(*    the given schema": fromFieldPath against the XR schema for From-     *)
(*    Composite patches and against the composed resource's schema for     *)
(*    ToComposite patches (toFieldPath the other way round), combine       *)
(*    variables like fromFieldPath; undeclared fields, a field of a        *)
(*    scalar, an index into a non-array, an index >= maxItems are errors;  *)
(*    metadata.name/namespace/uid/generateName/labels/annotations are      *)
(*    always known; preserved / additional properties are accepted with    *)
(*    unknown type.                                                        *)
(*  MODES  (composition_webhooks.go) strict: "errors will be returned in   *)
(*    case of errors during schema-aware validation or for missing         *)
(*    resources' CRDs"; loose: "no errors will be returned in case of      *)
(*    missing referenced resources" (handler: "just move them to warnings  *)
(*    and skip any further validation"); warn (the default): "only         *)
(*    warnings will be returned ... both for missing CRDs or any schema    *)
(*    related error"; the schema-less validation always runs first and     *)
(*    rejects in every mode; an error other than NotFound while looking    *)
(*    up CRDs is returned in every mode; an unknown annotation value is an *)
(*    error; without the feature flag only the schema-less part runs.      *)
(*  READINESS / CONNECTION DETAILS  the field path exists in the composed  *)
(*    resource's schema; MatchString needs a string, MatchInteger an       *)
(*    integer, MatchTrue / MatchFalse a boolean field.                     *)
(*  TOTAL, DETERMINISTIC  no panic and the same verdict on every           *)
(*    Composition the API types can express, on a long-lived validator.    *)
(* Dropped / informational (the documentation is silent)                   *)
(*  COMPLETE  (a patch whose result can never have the destination's type  *)
(*    is rejected) and PRECISE (a patch that is fine at run time is        *)
(*    accepted) are reported as INFORMATION, never as violations.          *)
(*  - required vs optional schema fields: the validator never looks at     *)
(*    `required`; only the run-time policy does (checked by C10).          *)
(*  - FromEnvironment patches do not exist in apiextensions/v1 at the      *)
(*    pinned commit.                                                       *)
(*  - NewValidator(WithoutLogicalValidation()) on a logically invalid      *)
(*    Composition may panic (nil transform configuration): the webhook     *)
(*    always runs the logical validation first; information only.          *)
(***************************************************************************)
EXTENDS Integers, Sequences, FiniteSets, TLC

Range(s) == {s[k] : k \in DOMAIN s}

\* ------------------------------------------------------------ field menu
\* The three kinds (XR XThing; composed Thing = resource r1; composed Other = resource r2) share one universe of field
\* shapes, plus one field each that only that kind declares; the driver builds the CRD schemas
\* (harness/drivers/compvalidation: specProps) and conforming objects.  key -> path:
\*   str spec.str:string  int spec.int:integer  num spec.num:number  bool spec.bool:boolean
\*   obj spec.obj:{k:string}  objk spec.obj.k  arr spec.arr:[string]  arr0 spec.arr[0]  aobjv spec.aobj[0].v
\*   wild spec.aobj[*].v  amax1 spec.amax[1] (maxItems 2)  amax2 spec.amax[2]
\*   map spec.map:{additionalProperties string}  mapk spec.map[some.key]  mapany spec.mapany:{additionalProperties true}
\*   mapanyk spec.mapany.k  free spec.free:{type object, x-kubernetes-preserve-unknown-fields}  freek spec.free.k.j
\*   ios spec.ios:{x-kubernetes-int-or-string}  xonly spec.xonly (XR only)  conly spec.conly (composed Thing only)
\*   oonly spec.oonly (composed Other only: the second resource of a Composition is of another kind)
\*   nope spec.nope  strx spec.str.x  str0 spec.str[0]  obj0 spec.obj[0]  arrx spec.arr.x  objnope spec.obj.nope
\*   mname metadata.name  mlabel metadata.labels[app]  mann metadata.annotations[a.b/c]  mbogus metadata.bogus
\*   status status.phase:string  bad "spec["  empty ""
Sides == {"xr", "cd", "ot"}      \* XR XThing, composed Thing (resource r1), composed Other (resource r2)
Variants == {"typed", "noschema", "preserve", "twoversions", "otherversion"}
PlainTypes == {"string", "integer", "number", "boolean", "object", "array"}
MetaKeys == {"mname", "mlabel", "mann", "mbogus"}
InvalidKeys == {"nope", "strx", "str0", "obj0", "arrx", "objnope", "amax2", "mbogus"}
AllKeys == {"str", "int", "num", "bool", "obj", "objk", "arr", "arr0", "aobjv", "wild", "amax1", "amax2", "map", "mapk", "mapany", "mapanyk",
            "free", "freek", "ios", "xonly", "conly", "oonly", "nope", "strx", "str0", "obj0", "arrx", "objnope", "mname", "mlabel", "mann", "mbogus",
            "status", "bad", "empty"}

\* what the typed schema of a side says about a key:
\*   a plain JSON type | ios (int-or-string) | wild (a wildcard path: legal as a destination at run time) |
\*   unknown (accepted, no declared type) | invalid (not allowed by the schema) | parse (not a field path) | empty
TypedClass(side, key) ==
  CASE key \in {"str", "objk", "arr0", "aobjv", "mapk", "mname", "mlabel", "mann", "status"} -> "string"
    [] key \in {"int", "amax1"} -> "integer"
    [] key = "num" -> "number"
    [] key = "bool" -> "boolean"
    [] key \in {"obj", "map", "mapany", "free"} -> "object"
    [] key = "arr" -> "array"
    [] key = "ios" -> "ios"
    [] key = "wild" -> "wild"
    [] key \in {"mapanyk", "freek"} -> "unknown"
    [] key = "xonly" -> (IF side = "xr" THEN "string" ELSE "invalid")
    [] key = "conly" -> (IF side = "cd" THEN "string" ELSE "invalid")
    [] key = "oonly" -> (IF side = "ot" THEN "string" ELSE "invalid")
    [] key \in InvalidKeys -> "invalid"
    [] key = "bad" -> "parse"
    [] key = "empty" -> "empty"
    [] OTHER -> "nokey"

\* schema variants: typed = the schema above under v1; twoversions = the same under v1 next to a different v2 (looked up
\* by version name); without a usable schema (noschema, preserve = preserve-unknown-fields at the root, otherversion = the
\* CRD has typed versions v2 and v3 but not the v1 the Composition refers to) every path outside metadata is accepted with
\* unknown type; metadata.* is always known (defaultMetadataSchema)
ClassAt(side, variant, key) ==
  IF key \in {"bad", "empty"} \/ key \in MetaKeys \/ variant \in {"typed", "twoversions"} THEN TypedClass(side, key) ELSE "unknown"

\* ---------------------------------------------------------- patch types
FieldTypes == {"FromCompositeFieldPath", "ToCompositeFieldPath", "default"}      \* default = type unset = FromComposite
CombineTypes == {"CombineFromComposite", "CombineToComposite"}
ToXR(pt) == pt \in {"ToCompositeFieldPath", "CombineToComposite"}
\* the composed side is the kind of the resource the patch belongs to (in.res: r1 = Thing, r2 = Other)
CdSide(in) == IF in.res = "r2" THEN "ot" ELSE "cd"
SrcSide(in) == IF ToXR(in.ptype) THEN CdSide(in) ELSE "xr"
DstSide(in) == IF ToXR(in.ptype) THEN "xr" ELSE CdSide(in)
SrcVariant(in) == IF ToXR(in.ptype) THEN in.cds ELSE in.xrs
DstVariant(in) == IF ToXR(in.ptype) THEN in.xrs ELSE in.cds
IsCombine(in) == in.ptype \in CombineTypes
\* "Leave empty if you'd like to propagate to the same path as fromFieldPath"
ToKey(in) == IF in.to = "unset" THEN in.from ELSE in.to
SrcClass(in, key) == ClassAt(SrcSide(in), SrcVariant(in), key)
DstClass(in) == ClassAt(DstSide(in), DstVariant(in), ToKey(in))
\* ... but the validator does not default: it looks at patch.GetToFieldPath(), "" when unset, which validateFieldPath accepts
\* with unknown type
ValDstClass(in) == IF in.to = "unset" THEN "empty" ELSE DstClass(in)
SrcKeys(in) == IF IsCombine(in) THEN Range(in.vars) ELSE {in.from}
\* schema-less validation (Patch.Validate): what makes a patch of the vector domain logically invalid
LogicallyValid(in) ==
  IF IsCombine(in) THEN in.cstrat # "none" /\ in.to # "unset" ELSE in.from # "unset"

\* ------------------------------------------------------------ transforms
\* name -> v1.Transform in the driver (mkTransform).  math.mul Multiply 2; math.min ClampMin 1; math.max ClampMax 5;
\* map / match / match.in (fallbackTo Input); str.fmt Format "p-%v"; str.upper/lower/tojson/b64e/b64d/sha/adler string
\* Convert; str.trimp/trims TrimPrefix/Suffix; str.regexp; str.join Join; cv.<toType>[.<format>] convert.
MathT == {"math.mul", "math.min", "math.max"}
MapT == {"map", "match", "match.in"}
StrAnyT == {"str.fmt", "str.tojson", "str.sha", "str.adler"}                     \* validator: "any input type is valid"
StrStrT == {"str.upper", "str.lower", "str.b64e", "str.b64d", "str.trimp", "str.trims", "str.regexp"}
JoinT == {"str.join"}
CvT == {"cv.string", "cv.int", "cv.int64", "cv.float64", "cv.bool", "cv.float64.q", "cv.object.j", "cv.array.j", "cv.object", "cv.array", "cv.string.j"}
Transforms == MathT \cup MapT \cup StrAnyT \cup StrStrT \cup JoinT \cup CvT
\* convert: toType as a Go type name, and the format
CvTo(t) == CASE t \in {"cv.string", "cv.string.j"} -> "string" [] t \in {"cv.int", "cv.int64"} -> "int64" [] t \in {"cv.float64", "cv.float64.q"} -> "float64"
             [] t = "cv.bool" -> "bool" [] t \in {"cv.object", "cv.object.j"} -> "map" [] t \in {"cv.array", "cv.array.j"} -> "slice" [] OTHER -> "none"
CvFmt(t) == CASE t = "cv.float64.q" -> "quantity" [] t \in {"cv.object.j", "cv.array.j", "cv.string.j"} -> "json" [] OTHER -> "none"
\* the conversions table of composition_transforms.go (from, to, format), map = object, slice = array
ConvTable == {<<"string", "int64", "none">>, <<"string", "bool", "none">>, <<"string", "float64", "none">>, <<"string", "float64", "quantity">>,
              <<"int64", "string", "none">>, <<"int64", "bool", "none">>, <<"int64", "float64", "none">>,
              <<"bool", "string", "none">>, <<"bool", "int64", "none">>, <<"bool", "float64", "none">>,
              <<"float64", "string", "none">>, <<"float64", "int64", "none">>, <<"float64", "bool", "none">>,
              <<"string", "map", "json">>, <<"string", "slice", "json">>}

\* ------------------------------------- (1) the dynamic type flow (runtime)
\* Go types of decoded JSON: string, int64, float64, bool, map (map[string]any), slice ([]any); any = not known
GoTypes == {"string", "int64", "float64", "bool", "map", "slice", "any"}
\* a value of a declared schema type is decoded into one of these Go types ("integral JSON numbers are int64")
GoSet(class) ==
  CASE class = "string" -> {"string"} [] class = "integer" -> {"int64"} [] class = "number" -> {"int64", "float64"} [] class = "boolean" -> {"bool"}
    [] class = "object" -> {"map"} [] class = "array" -> {"slice"} [] class = "ios" -> {"string", "int64"} [] OTHER -> {"any"}
\* Go type of a sample value from the JSON kind the driver records
GoOfKind(k) == CASE k = "string" -> "string" [] k = "integer" -> "int64" [] k = "number" -> "float64" [] k = "boolean" -> "bool"
                 [] k = "object" -> "map" [] k = "array" -> "slice" [] OTHER -> "any"
\* JSON kinds a Go value can have when the API server sees it (a float64 may be whole: 3.0 is written 3)
KindsOfGo(g) == CASE g = "string" -> {"string"} [] g = "int64" -> {"integer"} [] g = "float64" -> {"number", "integer"} [] g = "bool" -> {"boolean"}
                  [] g = "map" -> {"object"} [] g = "slice" -> {"array"} [] OTHER -> {"string", "integer", "number", "boolean", "object", "array", "null"}
\* can the transform fail with a type error at all
Fallible(t) == t \in MathT \cup MapT \cup JoinT \cup CvT
\* one transform on one Go type: the set of possible result types; TYPEERR = fails for every value of that type
Step(t, g) ==
  IF g = "any" THEN (IF t \in StrAnyT \cup StrStrT \cup JoinT THEN {"string"} ELSE IF t \in CvT THEN {CvTo(t)} ELSE IF t \in MathT THEN {"int64", "float64"} ELSE {"any"})
  ELSE CASE t = "math.mul" -> (IF g \in {"int64", "float64"} THEN {g} ELSE {"TYPEERR"})               \* "If the input is a float, the result will be a float64, otherwise it will be an int64"
         [] t \in {"math.min", "math.max"} -> (IF g = "int64" THEN {"int64"} ELSE IF g = "float64" THEN {"float64", "int64"} ELSE {"TYPEERR"})   \* "either the input or the clamp value, preserving their original types"
         [] t \in MapT -> (IF g = "string" THEN {"any"} ELSE {"TYPEERR"})
         [] t \in StrAnyT \cup StrStrT -> {"string"}                                                   \* fmt.Sprintf("%v", input): any input
         [] t \in JoinT -> (IF g = "slice" THEN {"string"} ELSE {"TYPEERR"})
         [] t \in CvT -> (IF g \in {"map", "slice"} THEN {"TYPEERR"}                                    \* ResolveConvert: "%T" of a map / slice is not a TransformIOType
                         ELSE IF CvTo(t) = g THEN {g}                                                   \* "a no-op conversion if the input and output types are the same"
                         ELSE IF <<g, CvTo(t), CvFmt(t)>> \in ConvTable THEN {CvTo(t)} ELSE {"TYPEERR"})
         [] OTHER -> {"any"}
\* a chain on a set of Go types: outs = types that can come out, failed = some transform type-fails on some type that
\* reaches it, unsure = a fallible transform is fed a value of unknown type
RECURSIVE Run(_, _)
Run(ch, G) ==
  IF ch = <<>> THEN [outs |-> G, failed |-> FALSE, unsure |-> FALSE]
  ELSE LET res == UNION {Step(ch[1], g) : g \in G}
           next == res \ {"TYPEERR"}
           r == IF next = {} THEN [outs |-> {}, failed |-> TRUE, unsure |-> FALSE] ELSE Run(Tail(ch), next)
       IN [outs |-> r.outs, failed |-> ("TYPEERR" \in res) \/ r.failed, unsure |-> ("any" \in G /\ Fallible(ch[1])) \/ r.unsure]
\* the Go types that reach position k of the chain
RECURSIVE Reach(_, _, _)
Reach(ch, G, k) == IF k = 1 THEN G ELSE Reach(Tail(ch), (UNION {Step(ch[1], g) : g \in G}) \ {"TYPEERR"}, k - 1)
\* the validator stops typing a chain at the first map / match ("no need to validate the rest of the transforms as a nil output
\* without error means we don't have a way to know the output type"): nothing is promised for what comes after one
Blind(ch) == \E k \in DOMAIN ch : k < Len(ch) /\ ch[k] \in MapT
\* for a source value of Go type g: always = every value fails with a type error, never = no value does, some = depends
TypeErr(ch, g) == LET r == Run(ch, {g}) IN IF r.outs = {} THEN "always" ELSE IF ~r.failed /\ ~r.unsure THEN "never" ELSE "some"
\* the first Go type of a patch: a Combine always yields a string (fmt.Sprintf)
StartSet(in) == IF IsCombine(in) THEN {"string"} ELSE GoSet(SrcClass(in, in.from))
\* cells in which the static typing was or is wrong about the dynamic type (named so that each can be a known finding):
\*  ConvertObjectInput  a convert transform receives an object or an array: the validator saw "object -> object" (a no-op)
\*                      or typed an array as an object, the runtime rejects every map / slice ("invalid input type").
\*                      REPAIRED in /repo (67466d9, FixConvertObject): the cell is sound now, the name stays so that the
\*                      formula Sound.ConvertObjectInput fires again should the guard be lost
\*  ConvertFormatOnInteger  a convert to float64 with a format (quantity) receives an int64 although the validator typed the
\*                      input float64 (an integral value of a number field, the result of math on an integer, a clamp value):
\*                      the validator sees a no-op, the runtime finds no int64 -> float64 conversion with that format.
\*                      OPEN (known finding D23)
Cell(ch, g) ==
  IF \E k \in DOMAIN ch : ch[k] \in CvT /\ Reach(ch, {g}, k) \cap {"map", "slice"} # {} THEN "ConvertObjectInput"
  ELSE IF \E k \in DOMAIN ch : ch[k] \in CvT /\ CvFmt(ch[k]) # "none" /\ CvTo(ch[k]) = "float64" /\ "int64" \in Reach(ch, {g}, k) THEN "ConvertFormatOnInteger"
  ELSE "Applies"

\* does a value of JSON kind k satisfy a destination of that class
DstType(class) == IF class = "wild" THEN "string" ELSE class
KindFits(k, class) ==
  LET d == DstType(class) IN
  CASE d = "number" -> k \in {"number", "integer"}
    [] d = "ios" -> k \in {"string", "integer"}
    [] d \in PlainTypes -> k = d
    [] OTHER -> TRUE

\* ----------------------------------- (2) the static typing (validator)
\* validateFieldPath: an error, or the KnownJSONType of the path ("" = accepted but not defined)
ValPathErr(class) == class \in {"invalid", "parse", "ios", "wild", "nokey"}        \* int-or-string: "unsupported type"; "*" is looked up as a field of the array
ValPathType(class) == IF class \in PlainTypes THEN class ELSE ""
\* FromKnownJSONType (an array is typed as an object)
ValIO(json) == CASE json = "string" -> "string" [] json = "boolean" -> "bool" [] json = "integer" -> "int64" [] json = "number" -> "float64"
                 [] json = "object" -> "map" [] json = "array" -> "map" [] OTHER -> ""
\* FromTransformIOType
ValJson(io) == CASE io = "string" -> "string" [] io = "bool" -> "boolean" [] io = "int64" -> "integer" [] io = "float64" -> "number"
                 [] io = "map" -> "object" [] io = "slice" -> "array" [] OTHER -> ""
\* the repair 67466d9 ("convert transform does not support %s input"): a convert transform whose static input type is
\* object or array is rejected before GetConversionFunc is asked.  FALSE = the validator as it was before the repair
\* (MCCompValidation_witness_convobj.cfg overrides it to show that this guard is what makes DesignSound hold).
FixConvertObject == TRUE
\* IsValidInputForTransform (not consulted when the input type is unknown)
ValInputOK(t, io) ==
  CASE t \in MathT -> io \in {"int64", "float64"}
    [] t \in MapT -> io = "string"
    [] t \in StrAnyT -> TRUE
    [] t \in StrStrT -> io = "string"
    [] t \in JoinT -> io = "slice"
    [] t \in CvT -> /\ ~(FixConvertObject /\ io \in {"map", "slice"})
                    /\ (CvTo(t) = io \/ <<io, CvTo(t), CvFmt(t)>> \in ConvTable)       \* GetConversionFunc
    [] OTHER -> FALSE
\* Transform.GetOutputType: math is always float64, map / match are unknown ("stop"), string transforms give a string
ValOut(t) == CASE t \in MathT -> "float64" [] t \in MapT -> "stop" [] t \in CvT -> CvTo(t) [] OTHER -> "string"
\* validateTransformsChainIOTypes
RECURSIVE ValChain(_, _)
ValChain(ch, io) ==
  IF ch = <<>> THEN [ok |-> TRUE, out |-> io]
  ELSE IF io # "" /\ ~ValInputOK(ch[1], io) THEN [ok |-> FALSE, out |-> ""]
  ELSE IF ValOut(ch[1]) = "stop" THEN [ok |-> TRUE, out |-> ""]
  ELSE ValChain(Tail(ch), ValOut(ch[1]))
Equivalent(a, b) == a = b \/ (a = "integer" /\ b = "number")
\* validateIOTypesWithTransforms
ValTypesOK(ch, fromT, toT) ==
  IF ch = <<>> /\ (fromT = "" \/ toT = "" \/ fromT = toT) THEN TRUE
  ELSE LET r == ValChain(ch, ValIO(fromT)) IN r.ok /\ (r.out = "" \/ toT = "" \/ Equivalent(ValJson(r.out), toT))
\* the whole patch (schema-aware part; the patch is logically valid)
ValAccepts(in) ==
  /\ ~ValPathErr(ValDstClass(in))
  /\ \A k \in SrcKeys(in) : ~ValPathErr(SrcClass(in, k))
  /\ (IsCombine(in) => in.cstrat = "string")
  /\ ValTypesOK(in.chain, IF IsCombine(in) THEN "string" ELSE ValPathType(SrcClass(in, in.from)), ValPathType(ValDstClass(in)))

\* ------------------------------------------------ design-level statement
\* The static typing is sound for the dynamic type flow: what it accepts cannot fail with a type error for any Go type a
\* value of the declared source type can have - except in the named cells.
DesignSoundFor(in, known) ==
  (LogicallyValid(in) /\ ValAccepts(in) /\ ~Blind(in.chain)) =>
     \A g \in StartSet(in) \ {"any"} : Run(in.chain, {g}).failed => Cell(in.chain, g) \in known

\* -------------------------------------- readiness checks / connection details
ReadyTypes == {"None", "NonEmpty", "MatchString", "MatchInteger", "MatchTrue", "MatchFalse", "MatchCondition"}
\* getReadinessCheckExpectedType ("" = any)
ReadyWants(rtype) == CASE rtype = "MatchString" -> "string" [] rtype = "MatchInteger" -> "integer" [] rtype \in {"MatchTrue", "MatchFalse"} -> "boolean" [] OTHER -> ""
PlainOrUnknown(class) == class \in PlainTypes \cup {"unknown"}
=============================================================================
