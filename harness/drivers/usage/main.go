// Driver for spec/Usage.tla: replays TLC behaviours against the real Usage
// reconciler (internal/controller/apiextensions/usage, with its real selector
// resolver) and the real DELETE webhook (internal/usage), both running on one
// simapi store:
//
//   - usage.SetupWebhookWithManager is called with a fake manager whose field
//     indexer is simapi, so the real index function is what simapi evaluates
//     for the MatchingFields Lists of the webhook and of the reconciler, and
//     the real admission handler (reached through its http.Handler, with an
//     AdmissionReview body) is what simapi's DELETE path consults;
//   - whether the webhook is consulted at all is decided by the rules and the
//     objectSelector read at run time from cluster/webhookconfigurations/usage.yaml;
//   - every Usage has its own reconciler goroutine and simapi client; each call
//     is a scheduler gate (Client.Intercept blocks until the schedule names
//     that actor), so the interleavings TLC enumerates are replayed
//     deterministically;
//   - a composed Usage is re-applied by the real composite.PTComposer.Compose (which passes the Usage controller's
//     RespectOwnerRefs to its applicator);
//   - after every call / environment step one trace event is written carrying
//     the projected state and, for every used resource, the admission decision
//     a DELETE in each served version with each propagation policy would get in
//     that state ("probes": the real handler with writes captured instead of
//     applied).  Delete requests that are part of the schedule go through the
//     store and take effect.
//
// No property is judged here: spec/MonUsage.tla does that on the trace.
package main

import (
	"bytes"
	"context"
	"encoding/json"
	"flag"
	"fmt"
	"net/http"
	"net/http/httptest"
	"os"
	"runtime/pprof"
	"sort"
	"strconv"
	"strings"
	"sync/atomic"
	"time"

	"github.com/go-logr/logr"
	admissionv1 "k8s.io/api/admission/v1"
	admregv1 "k8s.io/api/admissionregistration/v1"
	corev1 "k8s.io/api/core/v1"
	kerrors "k8s.io/apimachinery/pkg/api/errors"
	metav1 "k8s.io/apimachinery/pkg/apis/meta/v1"
	"k8s.io/apimachinery/pkg/apis/meta/v1/unstructured"
	"k8s.io/apimachinery/pkg/labels"
	"k8s.io/apimachinery/pkg/runtime"
	"k8s.io/apimachinery/pkg/runtime/schema"
	"k8s.io/apimachinery/pkg/types"
	"k8s.io/utils/ptr"
	"sigs.k8s.io/controller-runtime/pkg/client"
	"sigs.k8s.io/controller-runtime/pkg/healthz"
	ctrllog "sigs.k8s.io/controller-runtime/pkg/log"
	"sigs.k8s.io/controller-runtime/pkg/reconcile"
	"sigs.k8s.io/yaml"

	xpcontroller "github.com/crossplane/crossplane-runtime/pkg/controller"
	"github.com/crossplane/crossplane-runtime/pkg/logging"
	ucomposite "github.com/crossplane/crossplane-runtime/pkg/resource/unstructured/composite"

	apiextv1 "github.com/crossplane/crossplane/apis/apiextensions/v1"
	"github.com/crossplane/crossplane/apis/apiextensions/v1beta1"
	"github.com/crossplane/crossplane/internal/controller/apiextensions/composite"
	usagectl "github.com/crossplane/crossplane/internal/controller/apiextensions/usage"
	usagehook "github.com/crossplane/crossplane/internal/usage"
	"github.com/crossplane/crossplane/zzverif/fakes"
	"github.com/crossplane/crossplane/zzverif/replay"
	"github.com/crossplane/crossplane/zzverif/scen"
	"github.com/crossplane/crossplane/zzverif/simapi"
	"github.com/crossplane/crossplane/zzverif/trace"
)

const (
	grp       = "example.org"
	decoyGrp  = "other.example.org"
	usedKind  = "Thing"
	usingKind = "Consumer"
	xrKind    = "XParent"
	xrName    = "xr"
	bName     = "b1"
	decoyID   = "x1" // abstract id of the decoy: a Thing named like the first used resource, in another group
	selKey    = "pick"
	selVal    = "me"

	// projection only (both are unexported constants of the reconciler package)
	usageFinalizer    = "usage.apiextensions.crossplane.io"
	detailsAnnotation = "crossplane.io/usage-details"
	composedLabel     = "crossplane.io/composite"
)

var allPolicies = []string{"none", "Background", "Foreground", "Orphan"}

// ---- the webhook server the manager hands to SetupWebhookWithManager

type whServer struct{ hooks map[string]http.Handler }

func (s *whServer) NeedLeaderElection() bool { return false }
func (s *whServer) Register(path string, hook http.Handler) {
	if _, dup := s.hooks[path]; dup {
		panic("webhook registered twice on " + path)
	}
	s.hooks[path] = hook
}
func (s *whServer) Start(context.Context) error     { return nil }
func (s *whServer) StartedChecker() healthz.Checker { return func(*http.Request) error { return nil } }
func (s *whServer) WebhookMux() *http.ServeMux      { return http.NewServeMux() }

// ---- the field indexer: simapi's, recording the functions registered on it

type recIndexer struct {
	inner client.FieldIndexer
	fns   map[string]client.IndexerFunc
}

func (r *recIndexer) IndexField(ctx context.Context, obj client.Object, field string, fn client.IndexerFunc) error {
	r.fns[field] = fn
	return r.inner.IndexField(ctx, obj, field, fn)
}

// ---- the webhook's client: simapi, except that while probing a write is captured instead of applied

type hookClient struct {
	client.Client
	probing bool
	patched *unstructured.Unstructured
}

func (h *hookClient) Patch(ctx context.Context, obj client.Object, p client.Patch, opts ...client.PatchOption) error {
	if h.probing {
		if u, ok := obj.(*unstructured.Unstructured); ok {
			h.patched = u.DeepCopy()
		} else {
			h.patched = &unstructured.Unstructured{}
		}
		return nil
	}
	return h.Client.Patch(ctx, obj, p, opts...)
}

// ---- a reconciler's client: simapi, recording what a List of Usages returned

type listRec struct {
	client.Client
	a *actor
}

func (l *listRec) List(ctx context.Context, list client.ObjectList, opts ...client.ListOption) error {
	l.a.pendingList = nil
	err := l.Client.List(ctx, list, opts...)
	if e := l.a.pendingList; e != nil {
		l.a.pendingList = nil
		names := []any{}
		if ul, ok := list.(*v1beta1.UsageList); ok && err == nil {
			for i := range ul.Items {
				names = append(names, ul.Items[i].GetName())
			}
		}
		l.a.w.emitCall(l.a, e, "list:usages", names)
	}
	return err
}

// ---- actors and the world

type gateMsg struct {
	done  bool
	abs   string
	write bool
	idx   int
}

type actor struct {
	w       *world
	name    string // Usage name
	c       *simapi.Client
	rec     reconcile.Reconciler
	recNo   int
	running bool
	free    bool // not gated: runs to the end of its reconcile
	at      chan gateMsg
	release chan simapi.Decision
	pend    *gateMsg
	curAbs  string
	branch  string
	inject  string

	pendingList *simapi.Event
	copy        *unstructured.Unstructured // the Usage as this reconciler last read or wrote it
}

type sweep struct {
	actor    string
	rec, idx int
	d        simapi.Decision
}

type world struct {
	s      *simapi.Server
	sch    *runtime.Scheme
	tw     *trace.Writer
	scenID string
	n      int

	usages   []string
	useds    []string
	versions []string
	cfgs     map[string]map[string]any

	actors  map[string]*actor // by Usage name
	byActor map[string]*actor // by simapi actor name

	hook    *hookClient
	whs     *whServer
	whcfg   *admregv1.ValidatingWebhookConfiguration
	idx     *recIndexer
	user    *simapi.Client
	xrc     *simapi.Client
	reqVer  string
	lastVia string

	allProbes bool // probe every propagation policy in every state (else one per version, rotating)
	rot       int
	lastSig   string
	lastPost  map[string]any

	xrUID, bUID types.UID

	variant simapi.Decision
	sw      *sweep
	count   bool // count drift (not in sweep runs)
	drift   int
	driftBy map[string]int
	hung    bool
	sum     *summary
}

func usedKey(name string) simapi.Key { return simapi.Key{Group: grp, Kind: usedKind, Name: name} }
func usageKey(name string) simapi.Key {
	return simapi.Key{Group: v1beta1.Group, Kind: v1beta1.UsageKind, Name: name}
}

var (
	bKey  = simapi.Key{Group: grp, Kind: usingKind, Name: bName}
	xrKey = simapi.Key{Group: grp, Kind: xrKind, Name: xrName}
	ctx   = context.Background()
)

func (w *world) decoyKey() simapi.Key {
	return simapi.Key{Group: decoyGrp, Kind: usedKind, Name: w.useds[0]}
}

func obj(apiVersion, kind, name string) *unstructured.Unstructured {
	u := &unstructured.Unstructured{Object: map[string]any{}}
	u.SetAPIVersion(apiVersion)
	u.SetKind(kind)
	u.SetName(name)
	return u
}

func strList(v any) []string {
	var out []string
	if l, ok := v.([]any); ok {
		for _, x := range l {
			out = append(out, x.(string))
		}
	}
	sort.Strings(out)
	return out
}

func has(l []string, s string) bool {
	for _, x := range l {
		if x == s {
			return true
		}
	}
	return false
}

func loadWebhookConfig(path string) (*admregv1.ValidatingWebhookConfiguration, error) {
	b, err := os.ReadFile(path)
	if err != nil {
		return nil, err
	}
	cfg := &admregv1.ValidatingWebhookConfiguration{}
	if err := yaml.UnmarshalStrict(b, cfg); err != nil {
		return nil, err
	}
	if len(cfg.Webhooks) == 0 {
		return nil, fmt.Errorf("%s declares no webhook", path)
	}
	return cfg, nil
}

func newWorld(tw *trace.Writer, id string, init map[string]any, whcfg *admregv1.ValidatingWebhookConfiguration, sum *summary) *world {
	sch := runtime.NewScheme()
	_ = v1beta1.AddToScheme(sch)
	s := simapi.NewServer(sch)
	w := &world{s: s, sch: sch, tw: tw, scenID: id, cfgs: map[string]map[string]any{}, actors: map[string]*actor{}, byActor: map[string]*actor{},
		whcfg: whcfg, driftBy: map[string]int{}, sum: sum, variant: simapi.FailError}
	w.usages = strList(init["usages"])
	for _, u := range init["useds"].([]any) { // List order
		w.useds = append(w.useds, u.(string))
	}
	w.versions = strList(init["versions"])
	usel, uctl := strList(init["usel"]), strList(init["uctl"])

	// the objects the Usages talk about
	xro := obj(grp+"/v1", xrKind, xrName)
	xro.SetLabels(map[string]string{composedLabel: xrName})
	xr := s.Put(xro)
	w.xrUID = xr.GetUID()
	ctrl := []metav1.OwnerReference{{APIVersion: grp + "/v1", Kind: xrKind, Name: xrName, UID: w.xrUID, Controller: ptr.To(true), BlockOwnerDeletion: ptr.To(true)}}
	b := obj(grp+"/v1", usingKind, bName)
	b.SetLabels(map[string]string{selKey: selVal})
	b.SetOwnerReferences(ctrl)
	if bfin, _ := init["bfin"].(bool); bfin {
		b.SetFinalizers([]string{"example.org/hold"}) // its deletion takes two steps: deletionTimestamp, then gone
	}
	w.bUID = s.Put(b).GetUID()
	for _, name := range w.useds {
		u := obj(grp+"/v1", usedKind, name)
		if has(usel, name) {
			u.SetLabels(map[string]string{selKey: selVal})
		}
		if has(uctl, name) {
			u.SetOwnerReferences(ctrl)
		}
		s.Put(u)
	}
	// a resource of the same kind and name in another group that carries a stale in-use marker: no Usage ever names it
	d := obj(decoyGrp+"/v1", usedKind, w.useds[0])
	if sel := whcfg.Webhooks[0].ObjectSelector; sel != nil {
		d.SetLabels(sel.MatchLabels)
	}
	s.Put(d)

	// the real webhook, set up the way cmd/crossplane does
	w.hook = &hookClient{Client: simapi.NewClient(s, "webhook")}
	w.whs = &whServer{hooks: map[string]http.Handler{}}
	w.idx = &recIndexer{inner: simapi.NewClient(s, "indexer"), fns: map[string]client.IndexerFunc{}}
	mgr := &fakes.Manager{Client: w.hook, Sch: sch, Indexer: w.idx, Webhook: w.whs}
	if err := usagehook.SetupWebhookWithManager(mgr, xpcontroller.Options{Logger: logging.NewNopLogger()}); err != nil {
		panic(err)
	}
	s.DeleteAdmission = func(o *unstructured.Unstructured, opts *client.DeleteOptions) error {
		ver := w.reqVer
		if ver == "" || o.GroupVersionKind().Kind != usedKind {
			ver = o.GroupVersionKind().Version
		}
		pol := "none"
		if opts != nil && opts.PropagationPolicy != nil {
			pol = string(*opts.PropagationPolicy)
		}
		allowed, via, _, msg := w.admit(o, ver, pol, false)
		w.lastVia = via
		if !allowed {
			return kerrors.NewConflict(schema.GroupResource{Group: o.GroupVersionKind().Group, Resource: o.GetKind()}, o.GetName(), fmt.Errorf("admission webhook denied the request: %s", msg))
		}
		return nil
	}
	w.user = simapi.NewClient(s, "user")
	w.xrc = simapi.NewClient(s, "xr")

	// one reconciler (goroutine, client) per Usage
	for _, name := range w.usages {
		a := &actor{w: w, name: name, at: make(chan gateMsg), release: make(chan simapi.Decision), branch: "none"}
		a.c = simapi.NewClient(s, "usage-"+name)
		a.c.Intercept = a.intercept
		a.rec = usagectl.NewReconciler(&fakes.Manager{Client: &listRec{Client: a.c, a: a}, Sch: sch}, usagectl.WithPollInterval(time.Minute))
		w.actors[name] = a
		w.byActor[a.c.Actor] = a
	}
	s.OnEvent = w.onEvent
	return w
}

// ---- DELETE admission: rules + objectSelector from the YAML, then the registered handler over its HTTP interface

func ruleMatches(r admregv1.RuleWithOperations, gvk schema.GroupVersionKind) bool {
	in := func(l []string, vs ...string) bool {
		for _, x := range l {
			for _, v := range vs {
				if x == v {
					return true
				}
			}
		}
		return false
	}
	ops := make([]string, len(r.Operations))
	for i, o := range r.Operations {
		ops[i] = string(o)
	}
	return in(ops, "*", "DELETE") && in(r.APIGroups, "*", gvk.Group) && in(r.APIVersions, "*", gvk.Version) &&
		in(r.Resources, "*", "*/*", strings.ToLower(gvk.Kind)+"s")
}

// admit says whether a DELETE of o, presented in version ver with the given propagation policy, is admitted, whether the
// webhook was consulted, and which deletion-attempt annotation the used resource carries afterwards. With probe set the
// webhook's write is captured and not applied.
func (w *world) admit(o *unstructured.Unstructured, ver, pol string, probe bool) (allowed bool, via, ann, msg string) {
	o = o.DeepCopy()
	gvk := o.GroupVersionKind()
	gvk.Version = ver
	o.SetGroupVersionKind(gvk)
	ann = annOf(o)
	allowed, via = true, "bypass"
	for _, wh := range w.whcfg.Webhooks {
		match := false
		for _, r := range wh.Rules {
			match = match || ruleMatches(r, gvk)
		}
		if !match {
			continue
		}
		if wh.ObjectSelector != nil {
			sel, err := metav1.LabelSelectorAsSelector(wh.ObjectSelector)
			if err != nil {
				panic(err)
			}
			if !sel.Matches(labels.Set(o.GetLabels())) {
				continue
			}
		}
		via = "webhook"
		path := ""
		if wh.ClientConfig.Service != nil && wh.ClientConfig.Service.Path != nil {
			path = *wh.ClientConfig.Service.Path
		}
		h := w.whs.hooks[path]
		if h == nil {
			// nothing serves the configured path: failurePolicy decides
			if wh.FailurePolicy == nil || *wh.FailurePolicy == admregv1.Fail {
				return false, "nohandler", ann, "no handler registered on " + path
			}
			continue
		}
		raw, _ := json.Marshal(o.Object)
		do := metav1.DeleteOptions{TypeMeta: metav1.TypeMeta{Kind: "DeleteOptions", APIVersion: "meta.k8s.io/v1"}}
		if pol != "none" {
			p := metav1.DeletionPropagation(pol)
			do.PropagationPolicy = &p
		}
		rawOpts, _ := json.Marshal(do)
		review := admissionv1.AdmissionReview{
			TypeMeta: metav1.TypeMeta{Kind: "AdmissionReview", APIVersion: "admission.k8s.io/v1"},
			Request: &admissionv1.AdmissionRequest{
				UID:       "req",
				Kind:      metav1.GroupVersionKind{Group: gvk.Group, Version: gvk.Version, Kind: gvk.Kind},
				Resource:  metav1.GroupVersionResource{Group: gvk.Group, Version: gvk.Version, Resource: strings.ToLower(gvk.Kind) + "s"},
				Name:      collectionName(o.GetName()),
				Operation: admissionv1.Delete,
				OldObject: runtime.RawExtension{Raw: raw},
				Options:   runtime.RawExtension{Raw: rawOpts},
			},
		}
		body, _ := json.Marshal(review)
		req := httptest.NewRequest(http.MethodPost, path, bytes.NewReader(body))
		req.Header.Set("Content-Type", "application/json")
		rr := httptest.NewRecorder()
		w.hook.probing, w.hook.patched = probe, nil
		h.ServeHTTP(rr, req)
		w.hook.probing = false
		resp := admissionv1.AdmissionReview{}
		if err := json.Unmarshal(rr.Body.Bytes(), &resp); err != nil || resp.Response == nil {
			return false, via, ann, "undecodable webhook response"
		}
		if probe && w.hook.patched != nil {
			ann = annOf(w.hook.patched)
		}
		if !probe {
			if cur := w.s.Peek(simapi.KeyOf(o)); cur != nil {
				ann = annOf(cur)
			}
		}
		if !resp.Response.Allowed {
			if resp.Response.Result != nil {
				msg = string(resp.Response.Result.Reason) + resp.Response.Result.Message
			}
			return false, via, ann, msg
		}
	}
	return allowed, via, ann, ""
}

func annOf(o *unstructured.Unstructured) string {
	if v, ok := o.GetAnnotations()[usagehook.AnnotationKeyDeletionAttempt]; ok {
		return v
	}
	return "none"
}

// labelled: the object matches the objectSelector of the webhook configuration
func (w *world) labelled(o *unstructured.Unstructured) bool {
	sel, err := metav1.LabelSelectorAsSelector(w.whcfg.Webhooks[0].ObjectSelector)
	if err != nil {
		panic(err)
	}
	return !sel.Empty() && sel.Matches(labels.Set(o.GetLabels()))
}

// ---- projection

func verOf(apiVersion string) string {
	gv, _ := schema.ParseGroupVersion(apiVersion)
	return gv.Version
}

func (w *world) projectUsed(id string, k simapi.Key) map[string]any {
	out := map[string]any{"id": id, "ex": false, "label": false, "ann": "none", "rv": 0, "sv": "none", "keys": []any{}, "probes": []any{}}
	o := w.s.Peek(k)
	if o == nil {
		return out
	}
	rv, _ := strconv.Atoi(o.GetResourceVersion())
	out["ex"], out["label"], out["ann"], out["rv"], out["sv"] = true, w.labelled(o), annOf(o), rv, o.GroupVersionKind().Version
	keys, probes := []any{}, []any{}
	for vi, v := range w.versions {
		c := o.DeepCopy()
		c.SetAPIVersion(k.Group + "/" + v)
		keys = append(keys, map[string]any{"v": v, "key": usagehook.IndexValueForObject(c)})
		pols := allPolicies
		if !w.allProbes || id == decoyID {
			// one propagation policy per version and state, rotating over the states of the run
			pols = []string{allPolicies[(w.rot+vi)%len(allPolicies)]}
		}
		for _, p := range pols {
			allowed, via, ann, _ := w.admit(o, v, p, true)
			dec := "deny"
			if allowed {
				dec = "allow"
			}
			probes = append(probes, map[string]any{"v": v, "p": p, "o": dec, "via": via, "ann": ann})
			w.sum.Probes++
		}
	}
	out["keys"], out["probes"] = keys, probes
	return out
}

func (w *world) ownerName(uid types.UID) string {
	switch uid {
	case w.xrUID:
		return xrName
	case w.bUID:
		return bName
	}
	return "other"
}

func (w *world) projectUsage(name string) map[string]any {
	out := map[string]any{"id": name, "ex": false, "ready": false, "del": false, "fin": false, "det": false, "owners": []any{},
		"of": "none", "by": "none", "ver": "none", "comp": false, "idx": []any{}}
	o := w.s.Peek(usageKey(name))
	if o == nil {
		return out
	}
	u := &v1beta1.Usage{}
	if err := runtime.DefaultUnstructuredConverter.FromUnstructured(o.Object, u); err != nil {
		panic(err)
	}
	out["ex"] = true
	out["ready"] = u.Status.GetCondition("Ready").Status == corev1.ConditionTrue
	out["del"] = u.GetDeletionTimestamp() != nil
	out["fin"] = has(u.GetFinalizers(), usageFinalizer)
	_, out["det"] = u.GetAnnotations()[detailsAnnotation]
	owners := []string{}
	for _, or := range u.GetOwnerReferences() {
		owners = append(owners, w.ownerName(or.UID))
	}
	sort.Strings(owners)
	ol := []any{}
	for _, x := range owners {
		ol = append(ol, x)
	}
	out["owners"] = ol
	if r := u.Spec.Of.ResourceRef; r != nil && r.Name != "" {
		out["of"] = r.Name
	}
	if u.Spec.By != nil && u.Spec.By.ResourceRef != nil && u.Spec.By.ResourceRef.Name != "" {
		out["by"] = u.Spec.By.ResourceRef.Name
	}
	out["ver"] = verOf(u.Spec.Of.APIVersion)
	out["comp"] = u.GetLabels()[composedLabel] != ""
	idx := []any{}
	if fn := w.idx.fns[usagehook.InUseIndexKey]; fn != nil {
		for _, v := range fn(u) {
			idx = append(idx, v)
		}
	}
	out["idx"] = idx
	return out
}

// post is the projection of the store: a function of the stored objects only, so it is recomputed only when one changed.
func (w *world) post() map[string]any {
	var sb strings.Builder
	w.s.Read(func(keys []simapi.Key, objs map[simapi.Key]*unstructured.Unstructured) {
		for _, k := range keys {
			sb.WriteString(k.Kind)
			sb.WriteString(k.Name)
			sb.WriteString(objs[k].GetResourceVersion())
			sb.WriteByte(';')
		}
	})
	if sig := sb.String(); sig == w.lastSig && w.lastPost != nil {
		return w.lastPost
	} else {
		w.lastSig = sig
	}
	w.rot++
	used := []any{}
	for _, name := range w.useds {
		used = append(used, w.projectUsed(name, usedKey(name)))
	}
	used = append(used, w.projectUsed(decoyID, w.decoyKey()))
	us := []any{}
	for _, name := range w.usages {
		us = append(us, w.projectUsage(name))
	}
	b := w.s.Peek(bKey)
	w.lastPost = map[string]any{"used": used, "us": us, "bex": b != nil, "bdel": b != nil && b.GetDeletionTimestamp() != nil}
	return w.lastPost
}

// hits counts, for the evidence file only, how often the antecedents of the monitor's formulas were exercised.
func (w *world) hits(prev, cur map[string]any, ev string, m map[string]any) {
	h := w.sum.Hits
	live := map[string]bool{}
	for _, x := range cur["us"].([]any) {
		s := x.(map[string]any)
		if s["ex"].(bool) && s["ready"].(bool) && !s["del"].(bool) {
			live[s["of"].(string)] = true
			if s["by"].(string) != "none" {
				h["Owned: ready Usage by a resource"]++
			}
		}
	}
	for _, x := range cur["used"].([]any) {
		u := x.(map[string]any)
		if u["ex"].(bool) && live[u["id"].(string)] {
			h["Protected: state with a live Usage of an existing used resource"]++
		}
	}
	if ev == "delreq" {
		h["delreq "+m["outcome"].(string)+" via "+m["req"].(map[string]any)["via"].(string)]++
	}
	if prev == nil || ev == "reset" {
		return
	}
	pu := map[string]map[string]any{}
	for _, x := range prev["us"].([]any) {
		s := x.(map[string]any)
		pu[s["id"].(string)] = s
	}
	for _, x := range cur["us"].([]any) {
		s := x.(map[string]any)
		p := pu[s["id"].(string)]
		if s["ex"].(bool) && s["ready"].(bool) && !(p["ex"].(bool) && p["ready"].(bool)) {
			h["LabelFirst: Usage became ready"]++
		}
		if p["ex"].(bool) && p["fin"].(bool) && p["comp"].(bool) && p["by"].(string) != "none" && !(s["ex"].(bool) && s["fin"].(bool)) {
			st := "gone"
			if prev["bex"].(bool) {
				st = "live"
				if prev["bdel"].(bool) {
					st = "deleting"
				}
			}
			h["UsageAfterUser: composed Usage lost its finalizer, using resource "+st]++
		}
	}
	if ev == "end" && m["branch"] == "delete" {
		if s := pu[m["actor"].(string)]; s != nil && s["ex"].(bool) && s["comp"].(bool) && s["by"].(string) != "none" {
			st := "gone"
			if prev["bex"].(bool) {
				st = "live"
				if prev["bdel"].(bool) {
					st = "deleting"
				}
			}
			inj, _ := m["injected"].(string)
			if inj != "" {
				inj = " (fault " + inj + ")"
			}
			h["UsageAfterUser: deletion reconcile of a composed Usage ended, using resource "+st+inj]++
		}
	}
	pl := map[string]bool{}
	for _, x := range prev["used"].([]any) {
		u := x.(map[string]any)
		pl[u["id"].(string)] = u["ex"].(bool) && u["label"].(bool)
	}
	for _, x := range cur["used"].([]any) {
		u := x.(map[string]any)
		if pl[u["id"].(string)] && u["ex"].(bool) && !u["label"].(bool) {
			h["LabelLast: marker removed"]++
		}
	}
}

func (w *world) emit(ev string, m map[string]any) {
	w.n++
	prev := w.lastPost
	cur := w.post()
	w.hits(prev, cur, ev, m)
	base := map[string]any{"ev": ev, "scenario": w.scenID, "n": w.n, "actor": "env", "rec": 0, "idx": 0, "verb": "", "kind": "", "name": "none",
		"abs": "", "outcome": "", "injected": "", "applied": false, "noop": false, "branch": "none", "listed": []any{}, "result": "",
		"req": map[string]any{"u": "none", "v": "", "p": "", "o": "", "via": ""}, "post": cur}
	for k, v := range m {
		base[k] = v
	}
	w.tw.Emit(base)
}

// ---- classification of the real calls into the model's alphabet

func nested(o *unstructured.Unstructured, fields ...string) string {
	if o == nil {
		return ""
	}
	v, _, _ := unstructured.NestedString(o.Object, fields...)
	return v
}

func (w *world) classify(cl *simapi.Call) string {
	verb := cl.Verb
	if cl.Sub != "" {
		verb += "-" + cl.Sub
	}
	switch {
	case cl.Key.Kind == v1beta1.UsageKind && cl.Key.Group == v1beta1.Group:
		switch {
		case cl.Verb == "list":
			return "list:usages"
		case cl.Verb == "update" && cl.Sub == "" && cl.Obj != nil:
			// what this write changes relative to the reconciler's own copy of the Usage
			cur := &unstructured.Unstructured{Object: map[string]any{}}
			if a := w.byActor[cl.Actor]; a != nil && a.copy != nil {
				cur = a.copy
			}
			nf, cf := has(cl.Obj.GetFinalizers(), usageFinalizer), has(cur.GetFinalizers(), usageFinalizer)
			switch {
			case nf && !cf:
				return "update:addfin"
			case !nf && cf:
				return "update:rmfin"
			case nested(cl.Obj, "spec", "of", "resourceRef", "name") != nested(cur, "spec", "of", "resourceRef", "name"):
				return "update:resolve-of"
			case nested(cl.Obj, "spec", "by", "resourceRef", "name") != nested(cur, "spec", "by", "resourceRef", "name"):
				return "update:resolve-by"
			case cl.Obj.GetAnnotations()[detailsAnnotation] != cur.GetAnnotations()[detailsAnnotation]:
				return "update:details"
			}
			return "update:own"
		}
		return verb + ":usage"
	case cl.Key.Kind == usedKind && cl.Key.Group == grp:
		if cl.Verb == "update" && cl.Obj != nil {
			if w.labelled(cl.Obj) {
				return "update:label"
			}
			return "update:unlabel"
		}
		return verb + ":used"
	case cl.Key.Kind == usingKind && cl.Key.Group == grp:
		return verb + ":using"
	}
	return "other:" + cl.Key.Kind
}

func kindOf(e *simapi.Event) string {
	switch {
	case e.Kind == v1beta1.UsageKind:
		return "usage"
	case e.Kind == usedKind && e.Group == grp:
		return "used"
	case e.Kind == usingKind:
		return "using"
	}
	return "other"
}

func (a *actor) intercept(cl *simapi.Call) simapi.Decision {
	a.curAbs = a.w.classify(cl)
	m := gateMsg{abs: a.curAbs, write: cl.Write, idx: cl.Idx}
	if a.free {
		return a.w.sweepOr(a, &m, simapi.Proceed)
	}
	a.at <- m
	return <-a.release
}

func (w *world) sweepOr(a *actor, m *gateMsg, d simapi.Decision) simapi.Decision {
	if sw := w.sw; sw != nil && d == simapi.Proceed && sw.actor == a.name && sw.rec == a.recNo && sw.idx == m.idx {
		d = sw.d
		if d == simapi.FailConflict && !m.write {
			d = simapi.FailError
		}
		a.inject = d.String()
	}
	return d
}

func (w *world) onEvent(e *simapi.Event) {
	a := w.byActor[e.Actor]
	if a == nil {
		return // webhook, probes, environment
	}
	if e.Outcome == "dropped" && e.Injected == "" {
		return // the actor is dead: the call never reached the store
	}
	if a.curAbs == "list:usages" && e.Outcome == "ok" && e.Injected == "" {
		a.pendingList = e // emitted by the List wrapper, which sees what was returned
		return
	}
	w.emitCall(a, e, a.curAbs, []any{})
}

func (w *world) emitCall(a *actor, e *simapi.Event, abs string, listed []any) {
	if e.Kind == v1beta1.UsageKind && e.Outcome == "ok" {
		switch {
		case e.Verb == "get":
			a.copy = w.s.Peek(usageKey(a.name))
		case e.PostObj != nil:
			a.copy = e.PostObj
		}
	}
	if abs == "get:usage" && e.Outcome == "ok" {
		a.branch = "normal"
		if o := w.s.Peek(usageKey(a.name)); o != nil && o.GetDeletionTimestamp() != nil {
			a.branch = "delete"
		}
	}
	verb := e.Verb
	if e.Sub != "" {
		verb += "-" + e.Sub
	}
	w.emit("call", map[string]any{"actor": a.name, "rec": a.recNo, "idx": e.Idx, "verb": verb, "kind": kindOf(e), "name": e.Name, "abs": abs,
		"outcome": e.Outcome, "injected": e.Injected, "applied": e.Applied && !e.DryRun, "noop": e.Noop, "branch": a.branch, "listed": listed})
}

// ---- environment steps

func (w *world) usageFor(name string, cfg map[string]any) *v1beta1.Usage {
	of, _ := cfg["of"].(string)
	ver, _ := cfg["ver"].(string)
	by, _ := cfg["by"].(string)
	comp, _ := cfg["comp"].(bool)
	res := func(kind, apiVersion, how string) v1beta1.Resource {
		r := v1beta1.Resource{APIVersion: apiVersion, Kind: kind}
		switch how {
		case "sel":
			r.ResourceSelector = &v1beta1.ResourceSelector{MatchLabels: map[string]string{selKey: selVal}}
		case "selctl":
			r.ResourceSelector = &v1beta1.ResourceSelector{MatchLabels: map[string]string{selKey: selVal}, MatchControllerRef: ptr.To(true)}
		default:
			r.ResourceRef = &v1beta1.ResourceRef{Name: how}
		}
		return r
	}
	u := &v1beta1.Usage{ObjectMeta: metav1.ObjectMeta{Name: name}}
	u.Spec.Of = res(usedKind, grp+"/"+ver, of)
	if by == "none" {
		u.Spec.Reason = ptr.To("in use")
	} else {
		r := res(usingKind, grp+"/v1", by)
		u.Spec.By = &r
	}
	if comp {
		// what the P&T composer put on it when it created it (it generates names; here the Usage keeps its scenario name)
		u.SetLabels(map[string]string{composedLabel: xrName})
		u.SetAnnotations(map[string]string{"crossplane.io/composition-resource-name": "usage-" + name})
		u.SetOwnerReferences([]metav1.OwnerReference{{APIVersion: grp + "/v1", Kind: xrKind, Name: xrName, UID: w.xrUID, Controller: ptr.To(true), BlockOwnerDeletion: ptr.To(true)}})
	}
	return u
}

func (w *world) env(e replay.Entry) {
	switch e.K {
	case "create":
		cfg, _ := e.Raw["cfg"].(map[string]any)
		w.cfgs[e.O] = cfg
		w.s.Put(w.usageFor(e.O, cfg))
	case "delS":
		w.s.MarkDeleted(usageKey(e.O))
	case "delB":
		w.s.MarkDeleted(bKey)
	case "finB":
		w.s.Mutate(bKey, func(u *unstructured.Unstructured) {
			if u.GetDeletionTimestamp() != nil {
				u.SetFinalizers(nil)
			}
		})
	case "gc":
		w.s.GCStep()
	case "recompose":
		err := w.compose(e.O)
		res := "ok"
		if err != nil {
			res = "error"
		}
		w.emit("env", map[string]any{"verb": e.K, "name": e.O, "abs": "env:" + e.K, "result": res})
		return
	case "delreq":
		ver, _ := e.Raw["ver"].(string)
		pol, _ := e.Raw["pol"].(string)
		w.deleteRequest(e.O, ver, pol)
		return
	default:
		panic("unknown env step " + e.K)
	}
	w.emit("env", map[string]any{"verb": e.K, "name": e.O, "abs": "env:" + e.K})
}

// compose runs the real P&T composer (composite.PTComposer.Compose) for the XR with a CompositionRevision whose only
// resource template is the Usage the XR already references: the composer renders the template and re-applies it with the
// apply options composition_pt.go passes, among them the Usage controller's RespectOwnerRefs.
func (w *world) compose(name string) error {
	tu := w.usageFor(name, w.cfgs[name])
	spec, err := json.Marshal(tu.Spec)
	if err != nil {
		return err
	}
	base := fmt.Sprintf(`{"apiVersion":%q,"kind":%q,"metadata":{"name":%q},"spec":%s}`, v1beta1.SchemeGroupVersion.String(), v1beta1.UsageKind, name, spec)
	rev := &apiextv1.CompositionRevision{}
	rev.Spec.Resources = []apiextv1.ComposedTemplate{{Name: ptr.To("usage-" + name), Base: runtime.RawExtension{Raw: []byte(base)}}}
	xr := ucomposite.New(ucomposite.WithGroupVersionKind(schema.GroupVersionKind{Group: grp, Version: "v1", Kind: xrKind}))
	if err := w.xrc.Get(ctx, types.NamespacedName{Name: xrName}, xr); err != nil {
		return err
	}
	xr.SetResourceReferences([]corev1.ObjectReference{{APIVersion: v1beta1.SchemeGroupVersion.String(), Kind: v1beta1.UsageKind, Name: name}})
	res, err := composite.NewPTComposer(w.xrc, w.xrc).Compose(ctx, xr, composite.CompositionRequest{Revision: rev})
	if err == nil && len(res.Events) > 0 {
		// rendering problems are reported as events, not as an error
		err = fmt.Errorf("%s", res.Events[0].Event.Message)
	}
	return err
}

// deleteRequest is a user's DELETE of a used resource through the API server.
func (w *world) deleteRequest(name, ver, pol string) {
	o := obj(grp+"/"+ver, usedKind, name)
	var opts []client.DeleteOption
	if pol != "none" {
		opts = append(opts, client.PropagationPolicy(metav1.DeletionPropagation(pol)))
	}
	w.reqVer, w.lastVia = ver, "none"
	err := w.user.Delete(ctx, o, opts...)
	w.reqVer = ""
	out := "deny"
	switch {
	case err == nil:
		out = "allow"
		// a foreground deletion of a resource without dependents completes at once
		w.s.Mutate(usedKey(name), func(u *unstructured.Unstructured) {
			if u.GetDeletionTimestamp() != nil {
				fs := []string{}
				for _, f := range u.GetFinalizers() {
					if f != metav1.FinalizerDeleteDependents {
						fs = append(fs, f)
					}
				}
				u.SetFinalizers(fs)
			}
		})
	case kerrors.IsNotFound(err):
		out = "notfound"
	}
	w.emit("delreq", map[string]any{"verb": "delete", "kind": "used", "name": name, "abs": "env:delreq", "outcome": out,
		"req": map[string]any{"u": name, "v": ver, "p": pol, "o": out, "via": w.lastVia}})
}

// ---- scheduling

func (w *world) wait(a *actor) {
	select {
	case m := <-a.at:
		if m.done {
			a.running, a.pend = false, nil
		} else {
			a.pend = &m
		}
	case <-time.After(60 * time.Second):
		w.hung = true
		a.running, a.pend = false, nil
		fmt.Fprintf(os.Stderr, "scenario %s: reconcile of %s neither reached a gate nor finished within 20s\n", w.scenID, a.name)
	}
}

func (w *world) start(a *actor, free bool) {
	a.recNo++
	a.c.BeginReconcile()
	a.running, a.free, a.branch, a.inject, a.pend = true, free, "none", "", nil
	w.sum.Reconciles++
	w.emit("start", map[string]any{"actor": a.name, "rec": a.recNo})
	go func() {
		res, err := a.rec.Reconcile(ctx, reconcile.Request{NamespacedName: types.NamespacedName{Name: a.name}})
		result := "ok"
		switch {
		case a.c.Dead():
			result = "crashed"
		case err != nil:
			result = "error"
		case res.Requeue:
			result = "requeue"
		}
		w.emit("end", map[string]any{"actor": a.name, "rec": a.recNo, "result": result, "injected": a.inject, "branch": a.branch})
		a.at <- gateMsg{done: true}
	}()
	w.wait(a)
}

// step lets the actor perform its pending call with decision d and waits until it is parked again or done.
func (w *world) step(a *actor, d simapi.Decision) {
	d = w.sweepOr(a, a.pend, d)
	a.release <- d
	w.wait(a)
}

func (w *world) finish(a *actor) {
	for a.running && !w.hung {
		w.step(a, simapi.Proceed)
	}
}

func (w *world) decide(a *actor, e replay.Entry) simapi.Decision {
	d := simapi.Proceed
	switch e.F {
	case "fail":
		d = w.variant
		if d == simapi.FailConflict && !a.pend.write {
			d = simapi.FailError
		}
	case "crashAfter":
		d = simapi.CrashAfter
	}
	if d != simapi.Proceed {
		a.inject = d.String()
	}
	return d
}

func (w *world) note(k string) {
	if w.count {
		w.drift++
		w.driftBy[k]++
	}
}

func (w *world) play(hist []replay.Entry, extra int) {
	for _, e := range hist {
		if w.hung {
			return
		}
		if e.T == "env" {
			w.env(e)
			continue
		}
		if e.T != "call" {
			continue
		}
		name, _ := e.Raw["a"].(string)
		a := w.actors[name]
		if a == nil {
			panic("schedule names unknown actor " + name)
		}
		abs := e.Abs()
		if abs == "get:usage" {
			if a.running {
				w.note("late:" + a.pend.abs) // the model thinks this reconcile is over
				w.finish(a)
			}
			if w.s.Peek(usageKey(name)) == nil {
				w.note("-" + abs)
				continue
			}
			w.start(a, false)
		}
		if !a.running {
			w.note("-" + abs)
			continue
		}
		for tries := 0; a.running && a.pend.abs != abs && tries < 6; tries++ {
			w.note("+" + a.pend.abs)
			w.step(a, simapi.Proceed)
		}
		if !a.running || a.pend.abs != abs {
			w.note("-" + abs)
			continue
		}
		w.step(a, w.decide(a, e))
	}
	// reconciles still paused run to their end
	for _, name := range w.usages {
		if a := w.actors[name]; a.running {
			w.finish(a)
		}
	}
	// fault-free reconciles of every Usage that exists
	for i := 0; i < extra; i++ {
		for _, name := range w.usages {
			if w.s.Peek(usageKey(name)) != nil && !w.hung {
				a := w.actors[name]
				w.start(a, true)
				w.finish(a)
			}
		}
	}
}

type summary struct {
	Scenarios  int            `json:"scenarios"`
	Runs       int            `json:"runs"`
	Reconciles int            `json:"reconciles"`
	Events     int            `json:"events"`
	Probes     int            `json:"probes"`
	Drift      int            `json:"drift"`
	DriftRuns  int            `json:"drift_runs"`
	SweepRuns  int            `json:"sweep_runs"`
	Hung       int            `json:"hung"`
	Counts     map[string]int `json:"counts"`
	Samples    []any          `json:"samples"`
	DriftByAbs map[string]int `json:"drift_by_abs"`
	Hits       map[string]int `json:"hits"`
}

// run replays one history; returns the number of calls of every reconcile, keyed "actor/rec".
var allProbes bool

func run(tw *trace.Writer, whcfg *admregv1.ValidatingWebhookConfiguration, id string, hist []replay.Entry, variant simapi.Decision, sw *sweep, extra int, sum *summary) map[string]int {
	tw.Boundary()
	w := newWorld(tw, id, hist[0].Raw, whcfg, sum)
	w.variant, w.sw, w.count, w.allProbes = variant, sw, sw == nil, allProbes
	calls := map[string]int{}
	inner := w.s.OnEvent
	w.s.OnEvent = func(e *simapi.Event) {
		if a := w.byActor[e.Actor]; a != nil && !(e.Outcome == "dropped" && e.Injected == "") {
			calls[fmt.Sprintf("%s/%d", a.name, a.recNo)] = e.Idx
		}
		inner(e)
	}
	w.emit("reset", nil)
	w.play(hist[1:], extra)
	sum.Runs++
	sum.Drift += w.drift
	if w.drift > 0 {
		sum.DriftRuns++
	}
	for k, v := range w.driftBy {
		sum.DriftByAbs[k] += v
	}
	if w.hung {
		sum.Hung++
	}
	return calls
}

func main() {
	scenarios := flag.String("scenarios", "", "NDJSON file of TLC histories")
	tracePath := flag.String("trace", "", "output trace")
	sumPath := flag.String("summary", "", "output summary JSON")
	variants := flag.String("variants", "rotate", "rotate|all: how a model 'fail' is realised (error, conflict, crashBefore)")
	chunk := flag.Int("chunk", 0, "split the trace into files of about this many events")
	sweepN := flag.Int("sweep", 0, "number of scenarios to sweep over every real call index x outcome")
	seed := flag.Int("seed", 1, "rotates the realisation of 'fail' entries")
	flag.BoolVar(&allProbes, "allprobes", false, "probe every propagation policy in every recorded state (default: one per served version, rotating)")
	whPath := flag.String("webhookcfg", "/repo/cluster/webhookconfigurations/usage.yaml", "the ValidatingWebhookConfiguration whose rules and objectSelector the simulated API server applies")
	cpuprof := flag.String("cpuprofile", "", "write a CPU profile")
	flag.Parse()
	ctrllog.SetLogger(logr.Discard())
	if *cpuprof != "" {
		f, _ := os.Create(*cpuprof)
		_ = pprof.StartCPUProfile(f)
		defer pprof.StopCPUProfile()
	}

	fail := func(err error) {
		fmt.Fprintln(os.Stderr, err)
		os.Exit(2)
	}
	whcfg, err := loadWebhookConfig(*whPath)
	if err != nil {
		fail(err)
	}
	raws, err := scen.Load(*scenarios)
	if err != nil {
		fail(err)
	}
	tw, err := trace.New(*tracePath, *chunk)
	if err != nil {
		fail(err)
	}
	sum := &summary{DriftByAbs: map[string]int{}, Hits: map[string]int{}}
	fails := []simapi.Decision{simapi.FailError, simapi.FailConflict, simapi.CrashBefore}
	dec := map[string]simapi.Decision{"error": simapi.FailError, "conflict": simapi.FailConflict, "crashBefore": simapi.CrashBefore, "crashAfter": simapi.CrashAfter}
	for i, raw := range raws {
		var sc struct {
			ID      string          `json:"id"`
			Hist    json.RawMessage `json:"hist"`
			Variant string          `json:"variant"`
			Extra   int             `json:"extra"`
			Sweep   *struct {
				Actor   string `json:"actor"`
				Rec     int    `json:"rec"`
				Idx     int    `json:"idx"`
				Outcome string `json:"outcome"`
			} `json:"sweep"`
		}
		if err := json.Unmarshal(raw, &sc); err != nil {
			fail(fmt.Errorf("bad scenario: %w", err))
		}
		hist, err := replay.Parse(sc.Hist)
		if err != nil || len(hist) == 0 || hist[0].T != "init" {
			fail(fmt.Errorf("bad scenario history in %s: %v", sc.ID, err))
		}
		sum.Scenarios++
		if len(sum.Samples) < 2 {
			sum.Samples = append(sum.Samples, json.RawMessage(raw))
		}
		if sc.Variant != "" || sc.Sweep != nil || sc.Extra != 0 {
			// a replay file: exactly what it says
			v := simapi.FailError
			if sc.Variant != "" {
				v = dec[sc.Variant]
			}
			var sw *sweep
			if sc.Sweep != nil {
				sw = &sweep{actor: sc.Sweep.Actor, rec: sc.Sweep.Rec, idx: sc.Sweep.Idx, d: dec[sc.Sweep.Outcome]}
			}
			run(tw, whcfg, sc.ID, hist, v, sw, sc.Extra, sum)
			continue
		}
		hasFail := false
		for _, e := range hist {
			hasFail = hasFail || e.F == "fail"
		}
		vs := []simapi.Decision{fails[(i+*seed)%3]}
		if hasFail && *variants == "all" {
			vs = fails
		}
		for _, v := range vs {
			id := sc.ID
			if hasFail {
				id += "/" + v.String()
			}
			calls := run(tw, whcfg, id, hist, v, nil, 0, sum)
			if i < *sweepN && v == vs[0] {
				// every real call index of every reconcile x every outcome, then two fault-free reconciles of every Usage
				keys := make([]string, 0, len(calls))
				for k := range calls {
					keys = append(keys, k)
				}
				sort.Strings(keys)
				for _, k := range keys {
					parts := strings.Split(k, "/")
					r, _ := strconv.Atoi(parts[1])
					for idx := 1; idx <= calls[k]; idx++ {
						for _, d := range []simapi.Decision{simapi.FailError, simapi.FailConflict, simapi.CrashBefore, simapi.CrashAfter} {
							run(tw, whcfg, fmt.Sprintf("%s/sweep-%s-r%d-k%d-%s", sc.ID, parts[0], r, idx, d), hist, v, &sweep{actor: parts[0], rec: r, idx: idx, d: d}, 2, sum)
							sum.SweepRuns++
						}
					}
				}
			}
		}
	}
	sum.Events = tw.Lines
	sum.Counts = tw.Counts
	if err := tw.Close(); err != nil {
		fail(err)
	}
	if err := scen.WriteJSON(*sumPath, sum); err != nil {
		fail(err)
	}
	if sum.Hung > 0 {
		fmt.Fprintf(os.Stderr, "%d runs hung\n", sum.Hung)
		os.Exit(2)
	}
}

// collectionName: every other admission request is shaped the way kube-apiserver shapes the per-item requests of a
// collection delete (kubectl delete <kind> --all): oldObject is the item, but the request's name is EMPTY. Whoever looks
// the object up by the request's name instead of the object's finds nothing (added after the seeded change C19-m7 was missed).
var admissionSeq atomic.Int64

func collectionName(name string) string {
	if admissionSeq.Add(1)%2 == 0 {
		return ""
	}
	return name
}
