SPECIFICATION Spec
CONSTANTS
  Inits <- InitsForeign
  EnvKinds = {"tamper", "grab", "crddel", "unest"}
  FaultKinds = {}
  MaxEnv = 2
  MaxFaults = 0
  MaxRecs = 2
  Interleave = FALSE
  MidEnv = TRUE
  WaitEstablished = TRUE
  FixTypeRef = FALSE
  FixWatches = FALSE
VIEW view
ACTION_CONSTRAINT EmitEnd
CHECK_DEADLOCK FALSE
INVARIANTS Safe
PROPERTIES ForeignFrozen XrdSpecKept
