//go:build !verifoverlay

package main

import (
	pkgv1beta1 "github.com/crossplane/crossplane/apis/pkg/v1beta1"
	"github.com/crossplane/crossplane/zzverif/simapi"
)

// Built without the overlay (a plain `go build ./...`): the unexported watch handler is out of reach, watch events are
// not recorded (checks/x09.py refuses to run with such a binary).
const enqueueAvailable = false

type enqueuer struct{}

func newEnqueuer(*simapi.Client) enqueuer { return enqueuer{} }

func (enqueuer) event(string, *pkgv1beta1.ImageConfig, *pkgv1beta1.ImageConfig) ([]string, int, bool) {
	return nil, 0, false
}
