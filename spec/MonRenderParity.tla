-------------------------- MODULE MonRenderParity --------------------------
(***************************************************************************)
(* Trace monitor for X04.  Every trace line is one input vector of         *)
(* MCRenderParity together with what the REAL code did with it             *)
(* (harness/drivers/renderparity):                                         *)
(*  rnd  the real cmd/crank/render.Render (run twice on the same Inputs):  *)
(*       the summary of every RunFunctionRequest the scripted functions    *)
(*       received over gRPC from render's RuntimeFunctionRunner, the error, *)
(*       the rendered composed resources in output order, the rendered XR, *)
(*       the results, the context, whether the second run printed the same *)
(*       bytes, whether the Inputs were left untouched                     *)
(*  ctl  one reconcile of the real composite.Reconciler + FunctionComposer *)
(*       on simapi for the same vector: the requests its functions         *)
(*       received, the error of Compose, the composed resources the XR     *)
(*       controls afterwards, the XR's status, the CompositionResult events *)
(* The formulas are those of RenderParity.tla, evaluated on the recorded   *)
(* runs.                                                                   *)
(*                                                                         *)
(* Intended property -> formulas (see the header of RenderParity.tla)      *)
(*  P1 same pipeline    Parity.Calls, Parity.Observed                      *)
(*  P2 same outcome     Parity.Outcome, Parity.Composed,                   *)
(*                      Parity.ComposedNames, Parity.ComposedMeta,         *)
(*                      Parity.XRStatus, Parity.XRConditions,              *)
(*                      Parity.XRReady, Parity.XRReadyExplicit,            *)
(*                      Parity.Results                                     *)
(*  P3 render's own contract                                               *)
(*     Render.Order, Render.ThreadDesired, Render.ThreadContext,           *)
(*     Render.ObservedOnce, Render.ObservedContent, Render.RoundsExtra,    *)
(*     Render.RoundsContext, Render.RoundsRerun, Render.RoundsStop,        *)
(*     Render.RoundsBound, Render.OwnInput, Render.OwnCreds,               *)
(*     Render.FatalStops, Render.Unstable, Render.Outcome, Render.Final,   *)
(*     Render.Sorted, Render.Owner, Render.Labels,                         *)
(*     Render.KeepsObservedName, Render.XRIdentity, Render.XRStatus,       *)
(*     Render.XRConditions, Render.ReadyFromResources, Render.Results,     *)
(*     Render.ContextOut, Render.Deterministic, Render.InputsUntouched,    *)
(*     Reference.Calls, Reference.Outcome                                  *)
(* Harness.* formulas are self-checks of the harness (the Go program       *)
(* family against the TLA+ one on both sides, the reconcile reached        *)
(* Compose); the check script reports them as inconclusive, never as a     *)
(* violation.                                                              *)
(***************************************************************************)
EXTENDS RenderParity, Json, IOUtils

Trace == ndJsonDeserialize(IOEnv.VERIF_TRACE)
VARIABLE l

NExtra(s) == {[k |-> x.k, names |-> Range(x.names)] : x \in Range(s)}
NObs(o) == [xr |-> o.xr, res |-> {[n |-> x.n, name |-> x.name] : x \in Range(o.res)}]      \* connection details aside
NCall(c) ==
  [step |-> c.step, round |-> c.round, prog |-> c.prog, input |-> c.input, des |-> Range(c.des), rdy |-> Range(c.rdy),
   dxr |-> c.dxr, xrdy |-> c.xrdy, ctx |-> Range(c.ctx), extra |-> NExtra(c.extra), creds |-> Range(c.creds),
   obs |-> NObs(c.obs), digest |-> c.digest]
NRsp(x) == [des |-> Range(x.des), dxr |-> x.dxr, ctx |-> Range(x.ctx), reqs |-> Range(x.reqs), results |-> x.results,
            conds |-> x.conds, rdy |-> Range(x.rdy), xrdy |-> x.xrdy]
NReady(y) == [status |-> y.status, reason |-> y.reason, kind |-> y.kind, unready |-> Range(y.unready)]
NComposed(x) == [n |-> x.n, v |-> x.v, name |-> x.name, gen |-> x.gen, labels |-> Range(x.labels), owners |-> x.owners]
NApplied(x) == [n |-> x.n, v |-> x.v, name |-> x.name, gen |-> x.gen, genPrefix |-> x.genPrefix, labels |-> Range(x.labels),
                owners |-> x.owners]

\* the recorded run of render, and of the controller, in the shapes RenderParity.tla talks about
RunR(e) ==
  LET o == e.rnd IN
  [in |-> e.input, calls |-> [j \in DOMAIN o.calls |-> NCall(o.calls[j])], err |-> o.err, errKind |-> o.errKind,
   errTok |-> o.errTok, errStep |-> o.errStep, nilOut |-> o.nilOut,
   composed |-> [i \in DOMAIN o.composed |-> NComposed(o.composed[i])],
   xr |-> [apiVersion |-> o.xr.apiVersion, kind |-> o.xr.kind, name |-> o.xr.name, keys |-> Range(o.xr.keys),
           metaKeys |-> Range(o.xr.metaKeys), marker |-> o.xr.marker, ready |-> NReady(o.xr.ready), conds |-> Range(o.xr.conds)],
   results |-> o.results, ctxOut |-> Range(o.ctxOut), same |-> o.same, untouched |-> o.untouched]
RunC(e) ==
  LET o == e.ctl IN
  [calls |-> [j \in DOMAIN o.calls |-> NCall(o.calls[j])], err |-> o.err, errKind |-> o.errKind, errTok |-> o.errTok,
   errStep |-> o.errStep, applied |-> {NApplied(x) : x \in Range(o.applied)}, xrm |-> o.xrm, ready |-> NReady(o.ready),
   conds |-> Range(o.conds),
   events |-> [i \in DOMAIN o.events |-> [type |-> o.events[i].type, tok |-> o.events[i].tok, step |-> o.events[i].step]]]

\* harness self-checks
HarnessProgram(e, r) ==
  /\ \A j \in DOMAIN r.calls : RRsp(r, j) = NRsp(e.rnd.calls[j].rsp)
  /\ LET c == [in |-> e.input, calls |-> [j \in DOMAIN e.ctl.calls |-> NCall(e.ctl.calls[j])]] IN
     \A j \in DOMAIN c.calls : RRsp(c, j) = NRsp(e.ctl.calls[j].rsp)
HarnessRan(e) == e.ctl.ran /\ ~e.ctl.recErr
NoDupCalls(cs) ==
  \A j \in DOMAIN cs :
    LET c == cs[j] IN
    /\ Cardinality({x.n : x \in Range(c.des)}) = Len(c.des)
    /\ Cardinality({x.k : x \in Range(c.ctx)}) = Len(c.ctx)
    /\ Cardinality({x.k : x \in Range(c.extra)}) = Len(c.extra)
HarnessNoDup(e) == NoDupCalls(e.rnd.calls) /\ NoDupCalls(e.ctl.calls)

Viol(name, i) == PrintT("VIOL|" \o name \o "|" \o ToString(i) \o "|" \o Trace[i].scenario)

Check(i) ==
  LET e == Trace[i]
      r == RunR(e)
      c == RunC(e) IN
  /\ (HarnessRan(e) \/ Viol("Harness.Ran", i))
  /\ (HarnessProgram(e, r) \/ Viol("Harness.Program", i))
  /\ (HarnessNoDup(e) \/ Viol("Harness.NoDup", i))
  /\ (RenderOrder(r) \/ Viol("Render.Order", i))
  /\ (RenderThreadDesired(r) \/ Viol("Render.ThreadDesired", i))
  /\ (RenderThreadContext(r) \/ Viol("Render.ThreadContext", i))
  /\ (RenderObservedOnce(r) \/ Viol("Render.ObservedOnce", i))
  /\ (RenderObservedContent(r) \/ Viol("Render.ObservedContent", i))
  /\ (RenderRoundsExtra(r) \/ Viol("Render.RoundsExtra", i))
  /\ (RenderRoundsContext(r) \/ Viol("Render.RoundsContext", i))
  /\ (RenderRoundsRerun(r) \/ Viol("Render.RoundsRerun", i))
  /\ (RenderRoundsStop(r) \/ Viol("Render.RoundsStop", i))
  /\ (RenderRoundsBound(r) \/ Viol("Render.RoundsBound", i))
  /\ (RenderOwnInput(r) \/ Viol("Render.OwnInput", i))
  /\ (RenderOwnCreds(r) \/ Viol("Render.OwnCreds", i))
  /\ (RenderFatalStops(r) \/ Viol("Render.FatalStops", i))
  /\ (RenderUnstable(r) \/ Viol("Render.Unstable", i))
  /\ (RenderOutcome(r) \/ Viol("Render.Outcome", i))
  /\ (RenderFinal(r) \/ Viol("Render.Final", i))
  /\ (RenderSorted(r) \/ Viol("Render.Sorted", i))
  /\ (RenderOwner(r) \/ Viol("Render.Owner", i))
  /\ (RenderLabels(r) \/ Viol("Render.Labels", i))
  /\ (RenderKeepsObservedName(r) \/ Viol("Render.KeepsObservedName", i))
  /\ (RenderXRIdentity(r) \/ Viol("Render.XRIdentity", i))
  /\ (RenderXRStatus(r) \/ Viol("Render.XRStatus", i))
  /\ (RenderXRConditions(r) \/ Viol("Render.XRConditions", i))
  /\ (RenderReadyFromResources(r) \/ Viol("Render.ReadyFromResources", i))
  /\ (RenderResults(r) \/ Viol("Render.Results", i))
  /\ (RenderContextOut(r) \/ Viol("Render.ContextOut", i))
  /\ (RenderDeterministic(r) \/ Viol("Render.Deterministic", i))
  /\ (RenderInputsUntouched(r) \/ Viol("Render.InputsUntouched", i))
  /\ (ReferenceCalls(r) \/ Viol("Reference.Calls", i))
  /\ (ReferenceOutcome(r) \/ Viol("Reference.Outcome", i))
  /\ (ParityCalls(r, c) \/ Viol("Parity.Calls", i))
  /\ (ParityObserved(r, c) \/ Viol("Parity.Observed", i))
  /\ (ParityOutcome(r, c) \/ Viol("Parity.Outcome", i))
  /\ (ParityComposed(r, c) \/ Viol("Parity.Composed", i))
  /\ (ParityComposedNames(r, c) \/ Viol("Parity.ComposedNames", i))
  /\ (ParityComposedMeta(r, c) \/ Viol("Parity.ComposedMeta", i))
  /\ (ParityXRStatus(r, c) \/ Viol("Parity.XRStatus", i))
  /\ (ParityXRConditions(r, c) \/ Viol("Parity.XRConditions", i))
  /\ (ParityXRReady(r, c) \/ Viol("Parity.XRReady", i))
  /\ (ParityXRReadyExplicit(r, c) \/ Viol("Parity.XRReadyExplicit", i))
  /\ (ParityResults(r, c) \/ Viol("Parity.Results", i))

Init == l = 0
Next == /\ l < Len(Trace) /\ l' = l + 1 /\ Check(l')
        /\ (l' < Len(Trace) \/ PrintT("DONE|" \o ToString(l')))
Spec == Init /\ [][Next]_l
=============================================================================
