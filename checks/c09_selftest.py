#!/usr/bin/env python3
"""Anti-vacuity self test of the C09 check (run by hand: python3 checks/c09_selftest.py).

1. sanity mutants of the real code, applied ONLY through `go build -overlay` on scratch copies
   (nothing is written to /repo or to the module cache): each must make MonConnSecrets report the
   expected formulas;
2. seeded corruption of one recorded field of a real trace: MonConnSecrets must reject that line.
Scratch: /verif/.work/C09/selftest."""
import json
import os
import subprocess
import sys

sys.path.insert(0, os.path.dirname(os.path.dirname(os.path.abspath(__file__))))
import vlib  # noqa: E402
from checks import c09  # noqa: E402

XP = "/repo/internal/controller/apiextensions/"
RT = "/root/go/pkg/mod/github.com/crossplane/crossplane-runtime@v1.20.0-rc.0/pkg/resource/"
MUTANTS = [
    # (name, file, old text, new text, formulas that must fire)
    ("publisher-ignores-filter", XP + "composite/api.go",
     "\t\tif len(m) == 0 || m[key] {", "\t\tif len(m) >= 0 || m[key] {",
     ["Filtered.Body", "Filtered.Store", "Filtered.WholeSecret"]),
    ("propagator-copies-any-source", XP + "claim/connection.go",
     "\tif c := metav1.GetControllerOf(fs); c == nil || c.UID != from.GetUID() {",
     "\tif c := metav1.GetControllerOf(fs); false && (c == nil || c.UID != from.GetUID()) {",
     ["NoRead", "ExactCopy"]),
    ("allow-update-always", RT + "resource.go",
     "\t\tif fn(current, desired) {", "\t\tif true || fn(current, desired) {",
     ["NoRewrite.Write", "NoRewrite.Published"]),
    ("publisher-adopts-any-uncontrolled", XP + "composite/api.go",
     "\t\tresource.ConnectionSecretMustBeControllableBy(o.GetUID()),", "\t\tresource.MustBeControllableBy(o.GetUID()),",
     ["ForeignUntouched.UncontrolledOpaque"]),
    ("propagator-overwrites-foreign", XP + "claim/connection.go",
     "\t\tresource.ConnectionSecretMustBeControllableBy(to.GetUID()),", "",
     ["ForeignUntouched", "ForeignUntouched.UncontrolledOpaque"]),
    ("propagator-drops-a-key", XP + "claim/connection.go",
     "\tts.Data = fs.Data\n", "\tts.Data = map[string][]byte{}\n\tfor k, v := range fs.Data {\n\t\tif k != \"k2\" {\n\t\t\tts.Data[k] = v\n\t\t}\n\t}\n",
     ["ExactCopy"]),
    ("extract-keeps-missing-path", XP + "composite/connection.go",
     "\t\t\tif b, err := fromFieldPath(cd, *cfg.FromFieldPath); err == nil {",
     "\t\t\tif b, err := fromFieldPath(cd, *cfg.FromFieldPath); err == nil || b == nil {",
     ["Extract.Keys"]),
]


def new_ctx():
    return vlib.Ctx("C09/selftest", "quick", 1)


def build_mutant(ctx, name, path, old, new):
    src = open(path).read()
    if src.count(old) != 1:
        raise SystemExit("mutant %s: anchor text occurs %d times in %s" % (name, src.count(old), path))
    d = os.path.join(ctx.work, "mutants", name)
    os.makedirs(d, exist_ok=True)
    mp = os.path.join(d, os.path.basename(path))
    with open(mp, "w") as f:
        f.write(src.replace(old, new))
    ov = os.path.join(d, "overlay.json")
    with open(ov, "w") as f:
        json.dump({"Replace": {path: mp}}, f)
    out = os.path.join(d, "connsecrets")
    e = dict(os.environ)
    e.update(vlib.GOENV)
    p = subprocess.run(["go", "build", "-overlay", ov, "-o", out, "./drivers/connsecrets"], cwd=vlib.HARNESS, env=e,
                       stdout=subprocess.PIPE, stderr=subprocess.STDOUT, text=True)
    if p.returncode != 0:
        raise SystemExit("mutant %s does not build:\n%s" % (name, p.stdout[-3000:]))
    return out


def judge(ctx, binp, sp, tag):
    trace = os.path.join(ctx.work, "trace_%s.ndjson" % tag)
    ctx.run([binp, "-scenarios", sp, "-trace", trace, "-summary", os.path.join(ctx.work, "sum_%s.json" % tag)])
    viols, _ = ctx.monitor("MonConnSecrets", trace)
    by = {}
    for f, _, _ in viols:
        by[f] = by.get(f, 0) + 1
    return by, trace


def main():
    ctx = new_ctx()
    mc = ctx.model_check("MCConnSecrets", "MCConnSecrets_quick.cfg", workers=8, timeout=120)
    scs = [{"id": "C09-%07d" % i, "input": v} for i, v in ctx.sample_lines(mc["emitted_file"], 10 ** 9, mc["emitted"])]
    scs = ([s for s in scs if not s["input"]["fam"].startswith("e2e")] + ctx.sample([s for s in scs if s["input"]["fam"] == "e2e"], 300)
           + ctx.sample([s for s in scs if s["input"]["fam"] == "e2ept"], 300))
    scs += c09.random_vectors(ctx, 1000)
    sp = ctx.write_scenarios(scs)
    ok = True
    base, trace = judge(ctx, ctx.go_build("./drivers/connsecrets"), sp, "base")
    print("unchanged tree:", base)
    for name, path, old, new, expect in MUTANTS:
        got, _ = judge(ctx, build_mutant(ctx, name, path, old, new), sp, name)
        new_formulas = {f: n for f, n in got.items() if n > base.get(f, 0)}
        hit = all(f in new_formulas for f in expect)
        ok &= hit
        print("mutant %-36s %s  new/raised: %s" % (name, "DETECTED" if hit else "MISSED (expected %s)" % expect, new_formulas))
    # seeded corruption of recorded fields
    lines = open(trace).read().splitlines()

    def first_key(m):
        return [k for k, v in sorted(m.items()) if v != "-"][0]

    corruptions = [
        ("published secret gains a foreign value", lambda e: e["fam"] == "publish" and e["obs"]["published"] and e["obs"]["xpre"]["exists"],
         lambda e: e["obs"]["xpost"]["data"].update({first_key(e["obs"]["xpost"]["data"]): "v9"}), "Filtered.Store"),
        ("request body gains a filtered key", lambda e: e["fam"] == "publish" and e["obs"]["writes"] and e["obs"]["filter"] == ["k1"],
         lambda e: e["obs"]["writes"][0]["data"].update(k2="v1"), "Filtered.Body"),
        ("source secret was someone else's", lambda e: e["fam"] == "propagate" and e["obs"]["published"],
         lambda e: e["obs"]["xpre"].update(ctrl="other"), "NoRead"),
        ("claim copy differs from the source", lambda e: e["fam"] == "propagate" and e["obs"]["published"] and any(v != "-" for v in e["obs"]["cpost"]["data"].values()),
         lambda e: e["obs"]["cpost"]["data"].update({first_key(e["obs"]["cpost"]["data"]): "v9"}), "ExactCopy"),
        ("identical data answered published", lambda e: e["fam"] == "publish" and e["obs"]["xwants"] and e["obs"]["xpre"]["exists"]
         and not e["obs"]["writes"] and e["obs"]["err"] == "", lambda e: e["obs"].update(published=True), "NoRewrite.Published"),
        ("identical data, patch logged", lambda e: e["fam"] == "publish" and e["obs"]["xwants"] and e["obs"]["xpre"]["exists"]
         and not e["obs"]["writes"] and e["obs"]["err"] == "",
         lambda e: e["obs"]["writes"].append({"verb": "patch-merge", "target": "xsec", "applied": False, "noop": True, "outcome": "ok",
                                              "data": dict(e["obs"]["xpre"]["data"])}), "NoRewrite.Write"),
        ("foreign secret changed", lambda e: e["fam"] == "publish" and e["obs"]["xwants"] and e["obs"]["xpre"]["ctrl"] == "other",
         lambda e: e["obs"]["xpost"].update(dig="changed"), "ForeignUntouched"),
        ("write although not asked", lambda e: e["fam"] == "publish" and not e["obs"]["xwants"],
         lambda e: e["obs"]["writes"].append({"verb": "create", "target": "xsec", "applied": True, "noop": False, "outcome": "ok",
                                              "data": dict(e["obs"]["details"])}), "OnlyIfAsked"),
        ("bystander changed", lambda e: e["fam"] == "propagate" and e["obs"]["published"],
         lambda e: e["obs"].update(bypost="changed"), "OwnerOnly"),
        ("extracted key dropped", lambda e: e["fam"] == "extract" and not e["obs"]["xerr"] and any(v != "-" for v in e["obs"]["xout"].values()),
         lambda e: e["obs"]["xout"].update({first_key(e["obs"]["xout"]): "-"}), "Extract.Keys"),
        ("extracted value changed", lambda e: e["fam"] == "extract" and not e["obs"]["xerr"] and any(v != "-" for v in e["obs"]["xout"].values()),
         lambda e: e["obs"]["xout"].update({first_key(e["obs"]["xout"]): "v9"}), "Extract.Values"),
        ("e2e error not surfaced", lambda e: e["fam"] == "e2e" and e["obs"]["err"] != "" and e["obs"]["leg"] != "skipped",
         lambda e: e["obs"].update(surfaced=False), "Surfaces"),
    ]
    for what, pick, mutate, formula in corruptions:
        idx = next(i for i, ln in enumerate(lines) if pick(json.loads(ln)))
        e = json.loads(lines[idx])
        mutate(e)
        lo = max(0, idx - 50)
        cp = os.path.join(ctx.work, "corrupt.ndjson")
        with open(cp, "w") as f:
            f.write("\n".join(lines[lo:idx] + [json.dumps(e)] + lines[idx + 1:idx + 50]) + "\n")
        viols, _ = ctx.monitor("MonConnSecrets", cp)
        hit = any(f == formula and ln == idx - lo + 1 for f, ln, _ in viols)
        ok &= hit
        print("corruption %-40s line %d: %s" % (what, idx + 1, "REJECTED by " + formula if hit else "NOT NOTICED %s" % viols))
    print("selftest", "PASSED" if ok else "FAILED")
    return 0 if ok else 1


if __name__ == "__main__":
    sys.exit(main())
