SPECIFICATION Spec
CONSTANTS
  Comps <- Comps2i
  Attr <- AttrAll
  InitComps <- InitAll
  InitRefs <- RefsNoneCi
  InitSels <- SelsBoth
  InitDefs <- NoneOnly
  InitEnfs <- NoneOnly
  InitUser <- Bools
  InitOFin <- Bools
  MaxRecs = 2
  MaxFaults = 1
  MaxEnv = 1
  MidEnv = TRUE
  EnvKinds <- EnvXR
  FaultKinds <- FaultsAll
  ComposeOuts <- OutsAll
  FinFirst = TRUE
  RvCheck = TRUE
VIEW view
ACTION_CONSTRAINT Emit
CHECK_DEADLOCK FALSE
INVARIANTS StepProps Repaired FinBeforeCompose
