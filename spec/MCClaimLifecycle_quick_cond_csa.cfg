SPECIFICATION Spec
CONSTANTS
  Syncer = "CSA"
  Pres <- PresMine
  Cdps <- PolNone
  Xdefs <- PolNone
  Ofins <- OnlyFalse
  Rdys <- RdyAll
  Conn = TRUE
  MaxRecs = 2
  MaxFaults = 1
  MaxEnv = 2
  MidEnv = TRUE
  EnvKinds <- EnvCond
  FaultKinds <- FaultsNoMiss
  FinFirst = TRUE
  RvCheck = TRUE
  FixDeleting = TRUE
  FixMiss = FALSE
  FixStale = FALSE
VIEW view
ACTION_CONSTRAINT Emit
CHECK_DEADLOCK FALSE
INVARIANTS StepProps Repaired FinBeforeSync DeletingTruth
