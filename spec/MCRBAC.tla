------------------------------ MODULE MCRBAC ------------------------------
(***************************************************************************)
(* Vector model for C18: enumerates the bounded input domain of the RBAC   *)
(* manager (one initial state per input, one Compute step), emits every    *)
(* input as a <<"VEC", json>> line for replay on the real code, and checks *)
(* at design level (M) that the code as read (RBAC.tla, "Design of the     *)
(* code under test") meets the reference semantics on every vector.        *)
(*                                                                         *)
(* Input families (field fam):                                             *)
(*   val1  one allow rule x one request rule, every field a single atom    *)
(*         (or no resource name), over the full atom sets                  *)
(*   valx  one allow rule x one arbitrary request rule: every field empty  *)
(*         or a single atom, resource and URL parts mixed (empty lists)    *)
(*   val2  allow lists of one or two rules x one request rule whose fields *)
(*         hold up to two atoms, or two single-atom request rules          *)
(*   fam   provider revision with a family label / package source and up   *)
(*         to two other revisions (label x source each); roles reconciler  *)
(*   prov  owned-reference lists x permission requests x validator mode x  *)
(*         pre-existing roles; roles reconciler                            *)
(*   bind  deployments (owned / foreign / unowned) x stale binding         *)
(*   xrd   XRDs with and without claim names                               *)
(* All inputs have the same record shape (unused fields hold defaults).    *)
(***************************************************************************)
EXTENDS RBAC, Json

CONSTANTS
  Fams,                        \* families to enumerate
  G1, R1, N1, V1, U1,          \* atoms of val1
  GX, RX, NX, VX, UX,          \* atoms of valx (allow side and request side)
  G2, R2, N2, V2, U2,          \* atoms of val2
  MemLabels, MemSrcTags,       \* fam: labels / sources of the other revisions
  SelfSrcTags

VARIABLES input, out
vars == <<input, out>>

\* ------------------------------------------------------------ rule domains
Sub1(S) == {{}} \cup {{x} : x \in S}
Sub2(S) == {{a, b} : a \in S, b \in S}          \* one or two elements
Rules1(G, R, N, V, U) ==
  {ResRule({g}, {r}, n, {v}) : g \in G, r \in R, n \in Sub1(N), v \in V}
  \cup {UrlRule({u}, {v}) : u \in U, v \in V}
AnyRules1(G, R, N, V, U) ==
  {Rule(g, r, n, v, u) : g \in Sub1(G), r \in Sub1(R), n \in Sub1(N), v \in Sub1(V), u \in Sub1(U)}
RulesUpTo2(G, R, N, V, U) ==
  {ResRule(g, r, n, v) : g \in Sub2(G), r \in Sub2(R), n \in {{}} \cup Sub2(N), v \in Sub2(V)}
  \cup {UrlRule(u, v) : u \in Sub2(U), v \in Sub2(V)}

\* ------------------------------------------------------- package sources
\* reg/org are the facts; form is how the driver writes the reference down
Src(t) ==
  CASE t = "same"     -> [reg |-> "R0", org |-> "o0", form |-> "tag"]
    [] t = "digest"   -> [reg |-> "R0", org |-> "o0", form |-> "digest"]
    [] t = "implicit" -> [reg |-> "R0", org |-> "o0", form |-> "implicit"]   \* no registry written: the default registry R0 applies
    [] t = "nested"   -> [reg |-> "R0", org |-> "o0", form |-> "nested"]     \* R0/o0/sub/name
    [] t = "org"      -> [reg |-> "R0", org |-> "o1", form |-> "tag"]        \* other organisation
    [] t = "orgpfx"   -> [reg |-> "R0", org |-> "o0x", form |-> "tag"]       \* organisation whose name extends o0
    [] t = "reg"      -> [reg |-> "R1", org |-> "o0", form |-> "tag"]        \* other registry, same organisation name
    [] t = "bad"      -> [reg |-> "none", org |-> "none", form |-> "bad"]    \* not a parsable reference
Ref(k, g, p) == [k |-> k, g |-> g, p |-> p]
Rev(label, srcTag, refs) == [label |-> label, src |-> Src(srcTag), refs |-> refs]

\* owned-object reference lists: CRDs (v1 / v1beta1), and references that define nothing:
\* an XRD, a CustomResourceDefinition kind of a foreign API group, a CRD whose name has no dot
RefLists ==
  { {},
    {Ref("crd", "g1", "r1")},
    {Ref("crd", "g1", "r1"), Ref("crd", "g2", "r2")},
    {Ref("crd", "g1", "r1"), Ref("crd", "g1", "r2"), Ref("crdbeta", "g2", "r1")},
    {Ref("crd", "g1", "r1"), Ref("xrd", "g2", "r2"), Ref("fakegroup", "g2", "c1"), Ref("nodot", "", "r2")},
    {Ref("xrd", "g2", "r2"), Ref("fakegroup", "g2", "c1"), Ref("nodot", "", "r2")} }

\* the allow list and request options of the reconciler families
ProvAllow == {ResRule({"g2"}, {"r2"}, {}, {"get", "update"}), UrlRule({"/a"}, {"get"})}
ReqOpts ==
  { {},
    {ResRule({"g2"}, {"r2"}, {}, {"get"})},
    {ResRule({"g2"}, {"r2"}, {"n1"}, {"get", "update"}), UrlRule({"/a"}, {"get"})},
    {ResRule({"g2"}, {"r2"}, {}, {Star})},
    {ResRule({"g2"}, {"r2"}, {}, {"get"}), UrlRule({"/a/b"}, {"get"})},
    {ResRule({"g1"}, {Star}, {}, {})},
    \* a resource rule without any API group: it denotes nothing (the validator has nothing to check, the role must grant nothing)
    {ResRule({}, {"r2"}, {}, {"get", "update"})} }

NoRev == [label |-> "", src |-> Src("same"), refs |-> {}]
NoXrd == [group |-> "", plural |-> "", claim |-> ""]
Base(f) == [fam |-> f, mode |-> "cr", allow |-> {}, reqs |-> {}, self |-> NoRev, members |-> {},
            pre |-> "none", deps |-> {}, prebind |-> "none", xrd |-> NoXrd]

Val1 == {[Base("val1") EXCEPT !.allow = {a}, !.reqs = {q}] :
           a \in Rules1(G1, R1, N1, V1, U1), q \in Rules1(G1, R1, N1, V1, U1)}
ValX == {[Base("valx") EXCEPT !.allow = {a}, !.reqs = {q}] :
           a \in Rules1(GX, RX, NX, VX, UX), q \in AnyRules1(GX, RX, NX, VX, UX)}
Val2 == {[Base("val2") EXCEPT !.allow = a, !.reqs = q] :
           a \in Sub2(Rules1(G2, R2, N2, V2, U2)),
           q \in {{x} : x \in RulesUpTo2(G2, R2, N2, V2, U2)}
                 \cup {s \in Sub2(Rules1(G2, R2, N2, V2, U2)) : Cardinality(s) = 2}}

Member(i, l, t) == Rev(l, t, {IF i = 1 THEN Ref("crd", "g1", "m1") ELSE Ref("crd", "g3", "m2")})
MemberOpts(i) == {{}} \cup {{Member(i, l, t)} : l \in MemLabels, t \in MemSrcTags}
Fam == {[Base("fam") EXCEPT !.allow = ProvAllow, !.reqs = q, !.self = Rev(l, t, {Ref("crd", "g1", "r1")}),
                            !.members = m1 \cup m2] :
          q \in {{}, {ResRule({"g2"}, {"r2"}, {}, {"get"})}}, l \in {"", "fa"}, t \in SelfSrcTags,
          m1 \in MemberOpts(1), m2 \in MemberOpts(2)}

ProvMembers == {{}, {Member(1, "fa", "same")}, {Member(1, "fa", "org"), Member(2, "fa", "digest")}}
Prov == {[Base("prov") EXCEPT !.mode = md, !.allow = ProvAllow, !.reqs = q, !.self = Rev("fa", "same", refs),
                              !.members = ms, !.pre = pre] :
          md \in {"cr", "secure", "noallow"}, q \in ReqOpts, refs \in RefLists, ms \in ProvMembers,
          pre \in {"none", "roles", "wide"}}

Dep(n, o, sa) == [name |-> n, owner |-> o, sa |-> sa]
DepOpts(n) == {{}} \cup {{Dep(n, o, sa)} : o \in {"self", "selfnc", "other", "none"}, sa \in {"sa1", "sa2"}}
Bind == {[Base("bind") EXCEPT !.self = Rev("", "same", {Ref("crd", "g1", "r1")}), !.deps = d1 \cup d2, !.prebind = pb] :
           d1 \in DepOpts("d1"), d2 \in DepOpts("d2"), pb \in {"none", "stale"}}

Xrd == {[Base("xrd") EXCEPT !.xrd = [group |-> g, plural |-> p, claim |-> c]] :
          g \in {"g1", "g2"}, p \in {"r1", "r2"}, c \in {"", "c1"}}

Domain(f) ==
  CASE f = "val1" -> Val1 [] f = "valx" -> ValX [] f = "val2" -> Val2
    [] f = "fam" -> Fam [] f = "prov" -> Prov [] f = "bind" -> Bind [] f = "xrd" -> Xrd

\* ------------------------------------------------------------------- spec
Init == /\ \E f \in Fams : input \in Domain(f)
        /\ out = "-"
Compute == /\ out = "-"
           /\ out' = "done"
           /\ UNCHANGED input
Spec == Init /\ [][Compute]_vars
Emit == PrintT(<<"VEC", ToJson(input')>>)

\* ------------------------------------------- design-level properties (M)
IsVal == input.fam \in {"val1", "valx", "val2"}
EffAllow == IF input.mode = "cr" THEN input.allow ELSE {}
DesignGrants == CodeRejected(EffAllow, input.reqs) = {}
\* the two Kubernetes notions agree in the direction that matters
RefConsistent == IsVal => CoversImpliesDen(input.allow, input.reqs)
\* the code as read is sound except for the literal "*" resource name (D12) ...
DesignSound == DesignGrants => UncoveredLenient(EffAllow, input.reqs) = {}
\* ... and this is the formula that D12 violates already at design level (expected to FAIL: MCRBAC_d12.cfg)
\* (judged after the Compute step so that TLC reports state counts before it stops)
DesignSoundStrict == (out = "done" /\ DesignGrants) => Covers(EffAllow, input.reqs)
\* the rendered system role stays within what C18 allows
DesignSystemRole ==
  (input.fam \in {"fam", "prov"} /\ DesignGrants) =>
    LET res == CodeResources(input.self, input.members) IN
    DenSubset(CodeSystemRules(res, input.reqs), SystemAllowed(res, input.reqs))
=============================================================================
