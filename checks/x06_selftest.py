#!/usr/bin/env python3
"""Anti-vacuity self test of the X06 check (run by hand: python3 checks/x06_selftest.py [mutant-name ...]).

1. sanity mutants of the real code (claim/reconciler.go, claim/syncer_ssa.go, offered/reconciler.go), applied ONLY through
   `go build -overlay` on scratch copies under /verif/.work/X06/selftest (nothing is written to /repo): each must make
   MonClaimLifecycle report the expected formulas (formulas that do not fire, or fire less often, on the unchanged tree);
2. seeded corruption of one recorded field of a real trace: MonClaimLifecycle must reject exactly that line."""
import json
import os
import subprocess
import sys

sys.path.insert(0, os.path.dirname(os.path.dirname(os.path.abspath(__file__))))
import vlib  # noqa: E402
from checks import x06  # noqa: E402

XP = "/repo/internal/controller/apiextensions/"
REC = XP + "claim/reconciler.go"
SSA = XP + "claim/syncer_ssa.go"
OFF = XP + "offered/reconciler.go"
MUTANTS = [
    # (name, file, old text, new text, formulas that must fire)
    ("revert-835e9e0-deleting-condition-lost", REC,
     "\t\tcm.SetConditions(xpv1.Deleting(), xpv1.ReconcileSuccess())\n", "\t\tcm.SetConditions(xpv1.ReconcileSuccess())\n",
     ["Deleting.Condition.AfterFinalizerRemoval", "Repair.Deleted"]),
    ("pause-ignored-while-deleting", REC,
     "\tif meta.IsPaused(cm) {", "\tif meta.IsPaused(cm) && !meta.WasDeleted(cm) {",
     ["Paused.Calls", "Paused.OnlyStatus"]),
    ("unbound-check-skipped-for-deleting-claim", REC,
     "meta.WasCreated(xr) && ref != nil && !cmp.Equal(cm.GetReference(), ref) {",
     "meta.WasCreated(xr) && ref != nil && !cmp.Equal(cm.GetReference(), ref) && !meta.WasDeleted(cm) {",
     ["Other.Calls", "Other.Untouched"]),
    ("foreground-treated-as-background", REC,
     "cdp != nil && *cdp == xpv1.CompositeDeleteForeground {", "cdp != nil && *cdp == xpv1.CompositeDeleteBackground {",
     ["Finalizer.XRFirst", "Deleting.Policy", "Requeue.Foreground"]),
    ("delete-conflict-swallowed", REC,
     "\t\t\tif err := r.client.Delete(ctx, xr, do); resource.IgnoreNotFound(err) != nil {",
     "\t\t\tif err := r.client.Delete(ctx, xr, do); resource.IgnoreNotFound(err) != nil && !kerrors.IsConflict(err) {",
     ["Finalizer.DeleteFirst", "Finalizer.XRFirst"]),
    ("addfinalizer-skipped", REC,
     "\tif err := r.claim.AddFinalizer(ctx, cm); err != nil {", "\tif err := error(nil); err != nil {",
     ["Finalizer.BeforeXR", "Repair.Live"]),
    ("sync-error-without-condition", REC,
     "\t\terr = errors.Wrap(err, errSync)\n\t\trecord.Event(cm, event.Warning(reasonBind, err))\n\t\tcm.SetConditions(xpv1.ReconcileError(err))\n",
     "\t\terr = errors.Wrap(err, errSync)\n\t\trecord.Event(cm, event.Warning(reasonBind, err))\n",
     ["Exit.SyncedFalse"]),
    ("ready-unless-xr-says-false", REC,
     "\tif !resource.IsConditionTrue(xr.GetCondition(xpv1.TypeReady)) {",
     "\tif xr.GetCondition(xpv1.TypeReady).Status == corev1.ConditionFalse {",
     ["Ready.Truth", "Ready.Mirror"]),
    ("all-custom-conditions-copied", REC,
     "\tfor _, cType := range xr.GetClaimConditionTypes() {\n\t\tc := xr.GetCondition(cType)\n",
     "\tfor _, c := range xr.GetConditions() {\n\t\tif xpv1.IsSystemConditionType(c.Type) {\n\t\t\tcontinue\n\t\t}\n",
     ["Custom.Change"]),
    ("custom-conditions-not-copied-while-waiting", REC,
     "\tfor _, cType := range xr.GetClaimConditionTypes() {\n",
     "\tfor _, cType := range xr.GetClaimConditionTypes() {\n\t\tif !resource.IsConditionTrue(xr.GetCondition(xpv1.TypeReady)) {\n\t\t\tbreak\n\t\t}\n",
     ["Custom.Copied", "Repair.Live"]),
    ("published-time-on-every-reconcile", REC,
     "\tif propagated {\n", "\tif propagated || cm.GetConnectionDetailsLastPublishedTime() == nil {\n",
     ["Conn.Published"]),
    ("getxr-error-not-requeued", REC,
     "\t\t\tcm.SetConditions(xpv1.ReconcileError(err))\n\t\t\treturn reconcile.Result{Requeue: true}, errors.Wrap(r.client.Status().Update(ctx, cm), errUpdateClaimStatus)\n\t\t}\n\t}\n\n\t// Return early if the claim references an XR that doesn't reference it.",
     "\t\t\tcm.SetConditions(xpv1.ReconcileError(err))\n\t\t\treturn reconcile.Result{Requeue: false}, errors.Wrap(r.client.Status().Update(ctx, cm), errUpdateClaimStatus)\n\t\t}\n\t}\n\n\t// Return early if the claim references an XR that doesn't reference it.",
     ["Requeue.OnFailure"]),
    ("waiting-requeues", REC,
     "\t\tcm.SetConditions(Waiting())\n\t\treturn reconcile.Result{}, ", "\t\tcm.SetConditions(Waiting())\n\t\treturn reconcile.Result{Requeue: true}, ",
     ["Requeue.Success", "Ready.Waiting"]),
    ("ssa-syncer-forgets-the-claim-conditions", SSA,
     "\tif cmcs.Conditions != nil {\n\t\tcm.SetConditions(cmcs.Conditions...)\n\t}\n", "",
     ["Custom.Change"]),
    ("wiring-ssa-without-upgrader", OFF,
     "\t\t\tclaim.WithManagedFieldsUpgrader(claim.NewPatchingManagedFieldsUpgrader(r.engine.GetCached())),\n", "",
     ["Wiring.Syncer"]),
    ("wiring-conflicts-not-silenced", OFF,
     "ko.Reconciler = ratelimiter.NewReconciler(claim.ControllerName(d.GetName()), errors.WithSilentRequeueOnConflict(cr), r.options.GlobalRateLimiter)",
     "ko.Reconciler = ratelimiter.NewReconciler(claim.ControllerName(d.GetName()), cr, r.options.GlobalRateLimiter)",
     ["Wiring.Stack"]),
]


# candidate repairs of the open findings F-b (D26), F-c (D27) of ClaimLifecycle.tla (python3 checks/x06_selftest.py --fixes): with them
# their fingerprints must disappear and nothing else may appear; the package's unedited unit tests must still pass
WAIT = "\t\t\t\tlog.Debug(\"Waiting for the XR to finish deleting (foreground deletion)\")\n"
FIXES = [
    # F-c: waiting for the foreground deletion is not an error: do not leave the error of an earlier reconcile
    (REC, WAIT + "\t\t\t\treturn reconcile.Result{Requeue: true}, errors.Wrap(r.client.Status().Update(ctx, cm), errUpdateClaimStatus)\n",
     # (only an error is replaced: TestReconcile/ForegroundDeleteWaitForCompositeDeletion pins that a claim without a Synced
     #  condition gets none here)
     WAIT + "\t\t\t\tif cm.GetCondition(xpv1.TypeSynced).Status == corev1.ConditionFalse {\n\t\t\t\t\tcm.SetConditions(xpv1.ReconcileSuccess())\n\t\t\t\t}\n"
     "\t\t\t\treturn reconcile.Result{Requeue: true}, errors.Wrap(r.client.Status().Update(ctx, cm), errUpdateClaimStatus)\n"),
    # F-b: a NotFound from the cache is not proof that the referenced XR is gone: let the API server answer the Delete
    (REC, "\t\tif meta.WasCreated(xr) {\n\t\t\trequiresForegroundDeletion := false\n",
     "\t\tref := cm.GetResourceReference()\n\t\tif !meta.WasCreated(xr) && ref != nil {\n\t\t\txr.SetName(ref.Name)\n\t\t}\n"
     "\t\tif meta.WasCreated(xr) || ref != nil {\n\t\t\trequiresForegroundDeletion := false\n"),
    (REC, "\t\t\tif err := r.client.Delete(ctx, xr, do); resource.IgnoreNotFound(err) != nil {\n",
     "\t\t\terr := r.client.Delete(ctx, xr, do)\n\t\t\tif resource.IgnoreNotFound(err) != nil {\n"),
    (REC, "\t\t\tif requiresForegroundDeletion {\n" + WAIT + "\t\t\t\treturn reconcile.Result{Requeue: true}, nil\n",
     "\t\t\tif requiresForegroundDeletion && !kerrors.IsNotFound(err) {\n" + WAIT + "\t\t\t\treturn reconcile.Result{Requeue: true}, nil\n"),
]
FINDINGS = ["Finalizer.XRFirst.CacheMiss", "Repair.Orphan.CacheMiss", "Repair.Foreground.StaleError"]


def build_fixed(ctx):
    d = os.path.join(ctx.work, "mutants", "fixes")
    os.makedirs(d, exist_ok=True)
    repl = {}
    for path, old, new in FIXES:
        src = repl.get(path) or open(path).read()
        if src.count(old) != 1:
            raise SystemExit("repair: anchor text occurs %d times in %s:\n%s" % (src.count(old), path, old))
        repl[path] = src.replace(old, new)
    ov = {"Replace": {}}
    for path, src in repl.items():
        mp = os.path.join(d, os.path.basename(path))
        with open(mp, "w") as f:
            f.write(src)
        ov["Replace"][path] = mp
    ovp = os.path.join(d, "overlay.json")
    with open(ovp, "w") as f:
        json.dump(ov, f)
    out = os.path.join(d, "claimlifecycle")
    e = dict(os.environ)
    e.update(vlib.GOENV)
    p = subprocess.run(["go", "build", "-overlay", ovp, "-o", out, x06.DRIVER], cwd=vlib.HARNESS, env=e, stdout=subprocess.PIPE, stderr=subprocess.STDOUT, text=True)
    if p.returncode != 0:
        raise SystemExit("the repaired tree does not build:\n%s" % p.stdout[-3000:])
    t = subprocess.run(["go", "test", "-overlay", ovp, "-count=1", "./internal/controller/apiextensions/claim/..."], cwd="/repo", env=e,
                       stdout=subprocess.PIPE, stderr=subprocess.STDOUT, text=True)
    print("unedited unit tests of the claim package on the repaired tree:", "PASS" if t.returncode == 0 else "FAIL\n" + t.stdout[-3000:], flush=True)
    return out, t.returncode == 0


def build_mutant(ctx, name, path, old, new):
    src = open(path).read()
    if src.count(old) != 1:
        raise SystemExit("mutant %s: anchor text occurs %d times in %s" % (name, src.count(old), path))
    d = os.path.join(ctx.work, "mutants", name)
    os.makedirs(d, exist_ok=True)
    mp = os.path.join(d, os.path.basename(path))
    with open(mp, "w") as f:
        f.write(src.replace(old, new))
    ov = os.path.join(d, "overlay.json")
    with open(ov, "w") as f:
        json.dump({"Replace": {path: mp}}, f)
    out = os.path.join(d, "claimlifecycle")
    e = dict(os.environ)
    e.update(vlib.GOENV)
    p = subprocess.run(["go", "build", "-overlay", ov, "-o", out, x06.DRIVER], cwd=vlib.HARNESS, env=e,
                       stdout=subprocess.PIPE, stderr=subprocess.STDOUT, text=True)
    if p.returncode != 0:
        raise SystemExit("mutant %s does not build:\n%s" % (name, p.stdout[-3000:]))
    return out


def judge(ctx, binp, scs, tag):
    prefix, _ = ctx.run_sharded(binp, scs, ["-sweep", "0", "-chunk", "40000"], shards=8, name="trace_" + tag)
    viols, _ = ctx.monitor("MonClaimLifecycle", prefix, par=8)
    by = {}
    for f, _, _ in viols:
        by[f] = by.get(f, 0) + 1
    return by, prefix


def main():
    only = set(sys.argv[1:])
    ctx = vlib.Ctx("X06/selftest", "quick", 1)
    scs = x06.regression()
    for name, n in x06.QUICK:
        mc = ctx.model_check(x06.MODULE, "%s_%s.cfg" % (x06.MODULE, name), sub="mc_" + name, workers=8, timeout=300)
        scs += [{"id": "X06-%s-%07d" % (name, i), "hist": h} for i, h in ctx.sample_lines(mc["emitted_file"], n, mc["emitted"])]
    ok = True
    base, prefix = judge(ctx, ctx.go_build(x06.DRIVER), scs, "base")
    print("unchanged tree:", base, flush=True)
    if only == {"--fixes"}:
        binp, tests = build_fixed(ctx)
        got, _ = judge(ctx, binp, scs, "fixes")
        print("repaired tree:", got, flush=True)
        good = tests and not got and all(f in base for f in FINDINGS)
        print("candidate repairs", "VALIDATED (all findings gone, nothing new)" if good else "NOT VALIDATED")
        return 0 if good else 1
    for name, path, old, new, expect in MUTANTS:
        if only and name not in only:
            continue
        got, _ = judge(ctx, build_mutant(ctx, name, path, old, new), scs, name)
        raised = {f: n for f, n in got.items() if n > base.get(f, 0)}
        hit = all(f in raised for f in expect)
        ok &= hit
        print("mutant %-44s %s  new/raised: %s" % (name, "DETECTED" if hit else "MISSED (expected %s)" % expect, raised), flush=True)
    if only:
        print("selftest (subset)", "PASSED" if ok else "FAILED")
        return 0 if ok else 1

    # seeded corruption of recorded fields of a real trace
    first = sorted(f for f in os.listdir(ctx.work) if f.startswith(os.path.basename(prefix)))[0]
    lines = open(os.path.join(ctx.work, first)).read().splitlines()

    def cm(e):
        return e["post"]["cm"]

    def exit_status(e):
        return e["ev"] == "call" and e["abs"] == "status:claim" and e["phase"] == "main" and e["outcome"] == "ok"
    corruptions = [
        ("XR written although the claim has no finalizer", lambda p, e: e["ev"] == "call" and e["abs"] in ("create:xr", "apply:xr") and e["applied"] and not e["noop"],
         lambda e: cm(e).update(fin=False), "Finalizer.BeforeXR"),
        ("Synced=True although the syncer failed", lambda p, e: exit_status(e) and cm(e)["synced"] == "True:ReconcileSuccess" and not e["seen"]["del"],
         lambda e: e.update(syncres="error"), "Exit.SyncedTrueNeedsSync"),
        ("Ready=True although the XR is not ready", lambda p, e: exit_status(e) and cm(e)["ready"] == "True:Available" and cm(p)["ready"] != "True:Available"
         and e["scenario"] == p["scenario"], lambda e: e["atsync"].update(ready="False:Creating"), "Ready.Truth"),
        ("metadata write to a paused claim", lambda p, e: exit_status(e) and e["applied"] and cm(p)["paused"] and e["scenario"] == p["scenario"],
         lambda e: e.update(verb="update"), "Paused.OnlyStatus"),
        ("a paused reconcile touched the XR", lambda p, e: e["ev"] == "call" and e["abs"] == "status:claim" and e["seen"]["paused"],
         lambda e: e.update(abs="apply:xr"), "Paused.Calls"),
        ("reference changed", lambda p, e: e["ev"] == "call" and cm(p)["ex"] and cm(e)["ex"] and cm(p)["ref"] == "p" and e["scenario"] == p["scenario"],
         lambda e: cm(e).update(ref="x9"), "Ref.Stable"),
        ("finalizer removed although Delete was refused", lambda p, e: e["ev"] == "call" and e["abs"] == "rmfin:claim" and e["applied"] and e["delxr"] == "ok"
         and e["scenario"] == p["scenario"], lambda e: e.update(delxr="error"), "Finalizer.DeleteFirst"),
        ("custom condition differs from the XR's", lambda p, e: exit_status(e) and cm(e)["db"] != "none" and "DatabaseReady" in e["atsync"]["cct"]
         and cm(e)["synced"] == "True:ReconcileSuccess", lambda e: cm(e).update(db="True:Forged"), "Custom.Copied"),
        ("lastPublishedTime moved without a propagation", lambda p, e: exit_status(e) and cm(p)["ex"] and cm(p)["pub"] == cm(e)["pub"] != "none" and e["prop"] == "false"
         and e["scenario"] == p["scenario"], lambda e: cm(e).update(pub="2031-01-01T00:00:00Z"), "Conn.Published"),
        ("success requeued", lambda p, e: e["ev"] == "end" and e["result"] == "ok" and e["syncres"] == "ok" and not e["fails"] and not e["requeue"],
         lambda e: e.update(requeue=True), "Requeue.Success"),
        ("world changed in the third quiet reconcile", lambda p, e: e["ev"] == "end" and e["streak"] >= 3,
         lambda e: e.update(prevDigest="0000"), "Quiescent"),
        ("server-side syncer wired without the upgrader", lambda p, e: e["ev"] == "reset" and e["syncer"] == "SSA",
         lambda e: e["wiring"].update(upgrader="*claim.NopManagedFieldsUpgrader"), "Wiring.Syncer"),
    ]
    for what, pick, mutate, formula in corruptions:
        idx = None
        for i in range(1, len(lines)):
            if pick(json.loads(lines[i - 1]), json.loads(lines[i])):
                idx = i
                break
        if idx is None:
            ok = False
            print("corruption %-52s NO CANDIDATE LINE" % what)
            continue
        e = json.loads(lines[idx])
        mutate(e)
        lo = max(0, idx - 60)
        cp = os.path.join(ctx.work, "corrupt.ndjson")
        with open(cp, "w") as f:
            f.write("\n".join(lines[lo:idx] + [json.dumps(e)] + lines[idx + 1:idx + 60]) + "\n")
        viols, _ = ctx.monitor("MonClaimLifecycle", cp)
        hit = any(f == formula and ln == idx - lo + 1 for f, ln, _ in viols)
        ok &= hit
        print("corruption %-52s line %d: %s" % (what, idx + 1, "REJECTED by " + formula if hit else "NOT NOTICED %s" % viols[:5]), flush=True)
    print("selftest", "PASSED" if ok else "FAILED")
    return 0 if ok else 1


if __name__ == "__main__":
    sys.exit(main())
