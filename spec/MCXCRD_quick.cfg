SPECIFICATION Spec
CONSTANTS
  SpecNames <- SpecNamesAll
  StatusNames <- StatusNamesAll
  Tags <- Tags2
  MaxSpecProps = 1
  MaxStatusProps = 1
  MaxVer = 3
  PoolSize = 2
  NameMaxes <- NM4
  ClaimSing <- Modes2
  ClaimList <- ModesES
  Policies <- Pol3
  Convs <- Conv2
  PairConvs <- Conv2
  PairSing = FALSE
  NMix = 600
ACTION_CONSTRAINT Emit
CHECK_DEADLOCK FALSE
INVARIANTS DInputOK DRendered DVersions DScope DOwner DAuthor DMachinery DCollide DImmutable
